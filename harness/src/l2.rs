//! Shared L2 machinery: scripted runtime (`rt`), the generated corpus, episodes over real generated functions.
#![allow(dead_code)]

use std::sync::mpsc;
use std::sync::Mutex;
use std::time::{Duration, Instant, SystemTime, UNIX_EPOCH};
use crate::Rng;

/// hex of UTF-8, with the EMPTY string rendered as `e` (a function without arguments has the empty key; an
/// empty token would be indistinguishable from "no key" in the dump format)
pub fn hex(s: &str) -> String {
    if s.is_empty() {
        "e".to_string()
    } else {
        crate::hex(s)
    }
}

pub mod rt {
    use std::future::Future;
    use std::pin::Pin;
    use std::sync::atomic::{AtomicU64, Ordering};
    use std::sync::Mutex;
    use std::task::{Context, Poll, RawWaker, RawWakerVTable, Waker};

    #[derive(Clone, Copy)]
    pub struct Next {
        pub n: u64,
        pub ok: bool,
        pub len: usize,
        pub ci: bool,
        pub io: bool,
    }
    pub static NEXT: Mutex<Next> = Mutex::new(Next { n: 0, ok: true, len: 4, ci: true, io: false });
    pub static EXEC: AtomicU64 = AtomicU64::new(0);
    thread_local! {
        /// per-thread script (used when several real threads call concurrently) and execution counter
        pub static NEXT_TL: std::cell::Cell<Option<Next>> = std::cell::Cell::new(None);
        pub static EXEC_TL: std::cell::Cell<u64> = std::cell::Cell::new(0);
    }
    pub fn cur() -> Next {
        match NEXT_TL.with(|n| n.get()) {
            Some(x) => x,
            None => *NEXT.lock().unwrap(),
        }
    }
    pub static PREDLOG: Mutex<Vec<(usize, String, String, bool)>> = Mutex::new(Vec::new());
    pub static CHECKLOG: Mutex<Vec<(usize, String, String, bool)>> = Mutex::new(Vec::new());

    thread_local! {
        /// how many gates may still pass on this thread (`i64::MAX` = all: gates are transparent)
        pub static GATE_BUDGET: std::cell::Cell<i64> = std::cell::Cell::new(i64::MAX);
    }
    /// an await point inside the body of generated async functions: ready unless the harness holds it shut
    pub struct Gate;
    impl Future for Gate {
        type Output = ();
        fn poll(self: Pin<&mut Self>, _cx: &mut Context<'_>) -> Poll<()> {
            GATE_BUDGET.with(|b| {
                let v = b.get();
                if v > 0 {
                    if v != i64::MAX {
                        b.set(v - 1);
                    }
                    Poll::Ready(())
                } else {
                    Poll::Pending
                }
            })
        }
    }
    pub fn gate() -> Gate {
        Gate
    }
    pub fn poll_once<F: Future + ?Sized>(f: &mut Pin<Box<F>>) -> Poll<F::Output> {
        let w = noop_waker();
        let mut cx = Context::from_waker(&w);
        f.as_mut().poll(&mut cx)
    }

    /// opaque `true` (bodies that return their result through an early `return`)
    pub fn yes() -> bool {
        std::hint::black_box(true)
    }

    pub fn ran(_i: usize) {
        EXEC.fetch_add(1, Ordering::SeqCst);
        EXEC_TL.with(|e| e.set(e.get() + 1));
        // preemption point INSIDE the body (pseudo-site 9000, no lock): real threads can be preempted between the lookup
        // and the store of a call, where the cache code itself acquires nothing; without it the deterministic scheduler
        // (which switches only at yield points) could never let another call complete while this one computes.
        // A no-op unless the scheduler's hooks are installed.
        cachelito_core::verif::yield_point(9000, 0xB0D1, cachelito_core::verif::Acq::Shared, &|| true);
    }
    pub fn next_ok() -> bool {
        cur().ok
    }
    pub fn log_pred(i: usize, k: &String, v: String) -> bool {
        let a = cur().ci;
        PREDLOG.lock().unwrap().push((i, k.clone(), v, a));
        a
    }
    pub fn log_check(i: usize, k: &String, v: String) -> bool {
        let a = cur().io;
        CHECKLOG.lock().unwrap().push((i, k.clone(), v, a));
        a
    }
    fn padded(n: u64, len: usize) -> String {
        let head = format!("v{n}");
        let len = len.max(head.len());
        let mut s = String::with_capacity(len);
        s.push_str(&head);
        while s.len() < len {
            s.push('.');
        }
        s.shrink_to_fit();
        s
    }
    pub fn mk_u64() -> u64 {
        cur().n
    }
    pub fn mk_string() -> String {
        let x = cur();
        padded(x.n, x.len)
    }
    pub fn mk_vec() -> Vec<u8> {
        let x = cur();
        let mut v = Vec::with_capacity(x.len.max(1));
        v.push((x.n % 251) as u8);
        v.push((x.n / 251 % 251) as u8);
        while v.len() < x.len {
            v.push(0);
        }
        v.shrink_to_fit();
        v
    }
    pub fn mk_res_u64() -> Result<u64, String> {
        let x = cur();
        if x.ok {
            Ok(x.n)
        } else {
            Err(format!("e{}", x.n))
        }
    }
    pub fn mk_res_string() -> std::result::Result<String, String> {
        let x = cur();
        if x.ok {
            Ok(padded(x.n, x.len))
        } else {
            Err(padded(x.n, x.len))
        }
    }
    pub fn mk_opt() -> Option<String> {
        let x = cur();
        if x.ok {
            Some(padded(x.n, x.len))
        } else {
            None
        }
    }
    // argument tuples: index j -> values; distinct j give distinct tuples for every signature with
    // at least one argument; strings are chosen to contain separators, quotes and escapes
    const STRS: [&str; 8] = ["a|b", "a", "b|c", "\"q\"", "x\\y", "", "tab\t|", "é|ü"];
    const CHARS: [char; 8] = ['|', 'a', '"', '\\', '\'', '\n', 'é', '0'];
    // integer pairs chosen so that (a, b) of different indices concatenate to the same digits
    // ((1, 23) and (12, 3); (7, 15) and (71, 5)): a key builder that loses a separator collides on them
    const U32A: [u32; 6] = [0, 1, 7, 12, 71, 5];
    const U32B: [u32; 6] = [4, 23, 15, 3, 5, 9];
    pub fn arg_u32(j: usize) -> u32 {
        U32A[j % 6] + 1000 * (j / 6) as u32
    }
    pub fn arg_u32b(j: usize) -> u32 {
        U32B[j % 6]
    }
    pub fn arg_u8(j: usize) -> u8 {
        j as u8
    }
    pub fn arg_i64(j: usize) -> i64 {
        -(j as i64) * 3 + 1
    }
    pub fn arg_bool(j: usize) -> bool {
        j % 2 == 0
    }
    pub fn arg_char(j: usize) -> char {
        CHARS[j % 8]
    }
    // every fourth tuple carries a LONG string (Debug rendering > 64 bytes): key builders that shorten, hash or
    // truncate long renderings must still give one stable, distinct key per tuple
    pub fn arg_string(j: usize) -> String {
        if j % 4 == 2 {
            format!("{}{}{}", STRS[j % 8], j / 8, "long-argument-".repeat(6))
        } else {
            format!("{}{}", STRS[j % 8], j / 8)
        }
    }
    pub fn arg_str(j: usize) -> String {
        if j % 4 == 1 {
            format!("{}{}{}", STRS[(j + 3) % 8], j / 8, "0123456789".repeat(8))
        } else {
            format!("{}{}", STRS[(j + 3) % 8], j / 8)
        }
    }
    pub fn arg_vec_u32(j: usize) -> Vec<u32> {
        vec![j as u32; 1 + j % 3]
    }
    pub fn arg_tuple(j: usize) -> (u32, String) {
        (arg_u32(j), arg_string(j))
    }
    pub fn arg_pair(j: usize) -> (u32, u32) {
        (arg_u32(j), arg_u32b(j))
    }
    pub fn arg_pair_si(j: usize) -> (String, i64) {
        (arg_string(j), arg_i64(j))
    }
    pub fn arg_opt_u32(j: usize) -> Option<u32> {
        if j % 3 == 0 {
            None
        } else {
            Some(j as u32)
        }
    }
    pub fn arg_f64(j: usize) -> f64 {
        j as f64 * 0.5 - 1.0
    }
    pub fn arg_opt_string(j: usize) -> Option<String> {
        if j % 3 == 0 {
            None
        } else {
            Some(STRS[j % 8].to_string())
        }
    }

    fn noop_waker() -> Waker {
        fn clone(_: *const ()) -> RawWaker {
            RawWaker::new(std::ptr::null(), &VTABLE)
        }
        fn noop(_: *const ()) {}
        static VTABLE: RawWakerVTable = RawWakerVTable::new(clone, noop, noop, noop);
        unsafe { Waker::from_raw(RawWaker::new(std::ptr::null(), &VTABLE)) }
    }
    pub fn block_on<F: Future>(f: F) -> F::Output {
        let mut f = Box::pin(f);
        let w = noop_waker();
        let mut cx = Context::from_waker(&w);
        loop {
            if let Poll::Ready(v) = Pin::as_mut(&mut f).poll(&mut cx) {
                return v;
            }
        }
    }
}

#[allow(unused, clippy::all)]
pub mod corpus {
    include!(concat!(env!("CARGO_MANIFEST_DIR"), "/gen/corpus.rs"));
}

// ---------------------------------------------------------------------------------------------

#[derive(Clone, Debug)]
pub struct Spec {
    pub idx: usize,
    pub name: String,
    pub is_async: bool,
    pub thread: bool,
    pub policy: String,
    pub limit: Option<usize>,
    pub max_mem: Option<usize>,
    pub ttl: Option<u64>,
    pub ident: String,
    pub tags: Vec<String>,
    pub events: Vec<String>,
    pub deps: Vec<String>,
    pub has_pred: bool,
    pub has_ci: bool,
    pub has_io: bool,
    pub is_result: bool,
    /// the macro recognises the return type as `Result` (false for the F7 witnesses: alias / core::result::Result)
    pub recognised_result: bool,
}

pub fn parse_spec(s: &str) -> Spec {
    let p: Vec<&str> = s.split('|').collect();
    let cfg: Vec<&str> = p[5].split(' ').collect();
    let o = |x: &str| if x == "-" { None } else { Some(x.parse::<usize>().unwrap()) };
    let l = |x: &str| -> Vec<String> { if x.is_empty() { vec![] } else { x.split(',').map(|s| s.to_string()).collect() } };
    Spec {
        idx: p[1].parse().unwrap(),
        name: p[2].to_string(),
        is_async: p[3] == "1",
        thread: p[4] == "1",
        policy: cfg[1].to_string(),
        limit: o(cfg[2]),
        max_mem: o(cfg[3]),
        ttl: o(cfg[4]).map(|t| t as u64),
        ident: p[13].to_string(),
        tags: l(p[10]),
        events: l(p[11]),
        deps: l(p[12]),
        has_pred: p[8] == "1" || p[9] == "1",
        has_ci: p[8] == "1",
        has_io: p[9] == "1",
        is_result: p[7] == "1" || p.get(15).map(|x| *x == "1").unwrap_or(false),
        recognised_result: p[7] == "1",
    }
}

pub type Job = Box<dyn FnOnce() -> String + Send>;

pub struct Workers {
    pub tx: Vec<mpsc::Sender<(Job, mpsc::Sender<String>)>>,
}

impl Workers {
    pub fn new(n: usize) -> Workers {
        let mut tx = Vec::new();
        for _ in 0..n {
            let (t, r) = mpsc::channel::<(Job, mpsc::Sender<String>)>();
            std::thread::spawn(move || {
                while let Ok((job, back)) = r.recv() {
                    let res = std::panic::catch_unwind(std::panic::AssertUnwindSafe(job));
                    let _ = back.send(match res {
                        Ok(s) => s,
                        Err(e) => format!("PANIC {}", crate::panic_msg(e)),
                    });
                }
            });
            tx.push(t);
        }
        Workers { tx }
    }
    /// false = the job did not finish in time (it is left running on that worker)
    pub fn run_timeout(&self, t: usize, job: Job, d: std::time::Duration) -> bool {
        let (btx, brx) = mpsc::channel();
        self.tx[t].send((job, btx)).unwrap();
        brx.recv_timeout(d).is_ok()
    }
    pub fn run(&self, t: usize, job: Job) -> String {
        let (btx, brx) = mpsc::channel();
        self.tx[t].send((job, btx)).unwrap();
        brx.recv().unwrap()
    }
}

pub const NTHREADS: usize = 3;

/// granularity (ms) to which sync ages are floored in dumps: 100 for sequential episodes (virtual time in
/// multiples of 100 ms, real-time budget 80 ms), 1000 for scheduled runs (no virtual time, longer real time)
pub static AGE_GRAIN: std::sync::atomic::AtomicU64 = std::sync::atomic::AtomicU64::new(100);

pub fn render_dump(d: &cachelito_core::verif::CacheDump, is_async: bool) -> String {
    // canonical order: by (hex) key — exactly the order the Lean driver uses
    let mut es: Vec<(String, String)> = d
        .entries
        .iter()
        .map(|(k, v, sz, age, hits)| {
            let g = AGE_GRAIN.load(std::sync::atomic::Ordering::Relaxed);
            let age = if is_async { *age } else { age / g * g };
            (hex(k), format!("{}={},{},{},{}", hex(k), hex(v), sz, age, hits))
        })
        .collect();
    es.sort_by(|a, b| a.0.cmp(&b.0));
    let es: Vec<String> = es.into_iter().map(|p| p.1).collect();
    let q: Vec<String> = d.queue.iter().map(|k| hex(k)).collect();
    format!("{}#{}", es.join(";"), q.join(","))
}

pub fn thread_cache_name(sp: &Spec) -> String {
    format!("GLOBAL_OR_THREAD_CACHE_{}", sp.ident.to_uppercase())
}

/// dumps of every instance of the episode's functions: `idx:g=<dump>` / `idx:<t>=<dump>`, `-` when the
/// instance does not exist yet (its closures are registered on first use)
pub fn dump_all(w: &Workers, fns: &[Spec]) -> String {
    let mut parts = Vec::new();
    for sp in fns {
        if sp.thread {
            for t in 0..NTHREADS {
                let name = thread_cache_name(sp);
                let d = w.run(
                    t,
                    Box::new(move || match cachelito_core::verif::dump_thread_local(&name) {
                        Some(d) => render_dump(&d, false),
                        None => "-".to_string(),
                    }),
                );
                parts.push(format!("{}:{}={}", sp.idx, t, d));
            }
        } else {
            let d = match cachelito_core::verif::dump_global(&sp.name) {
                Some(d) => render_dump(&d, sp.is_async),
                None => "-".to_string(),
            };
            parts.push(format!("{}:g={}", sp.idx, d));
        }
    }
    parts.join("@")
}

pub fn stats_of(name: &str) -> String {
    match cachelito_core::stats_registry::get(name) {
        Some(s) => format!("{},{}", s.hits(), s.misses()),
        None => "-".to_string(),
    }
}

pub struct PendingFut {
    pub fi: usize,
    pub key: String,
    pub next: rt::Next,
    pub fut: std::pin::Pin<Box<dyn std::future::Future<Output = String>>>,
}

pub struct Episode {
    pub pending: std::collections::HashMap<u64, PendingFut>,
    pub fns: Vec<Spec>,
    pub w: Workers,
    pub vc: u64, // virtual clock, ms
    pub start: Instant,
    pub start_s: u64,
    pub fr: Rng,
}

pub fn now_s() -> u64 {
    SystemTime::now().duration_since(UNIX_EPOCH).unwrap().as_secs()
}

impl Episode {
    pub fn new(fns: Vec<Spec>, fr_seed: u64) -> Episode {
        Episode { pending: std::collections::HashMap::new(), fns, w: Workers::new(NTHREADS), vc: 0, start: Instant::now(), start_s: now_s(), fr: Rng::new(fr_seed) }
    }
    /// executes one operation input (text) and returns "<output>||<dumps>"
    pub fn exec(&mut self, op: &str) -> String {
        let p: Vec<&str> = op.split(' ').collect();
        let out = match p[0] {
            "call" => {
                // call <fn> <thread> <j> <n> <ok> <len> <ci> <io>
                let fi: usize = p[1].parse().unwrap();
                let t: usize = p[2].parse().unwrap();
                let j: usize = p[3].parse().unwrap();
                let next = rt::Next {
                    n: p[4].parse().unwrap(),
                    ok: p[5] == "1",
                    len: p[6].parse().unwrap(),
                    ci: p[7] == "1",
                    io: p[8] == "1",
                };
                *rt::NEXT.lock().unwrap() = next;
                let (wv, wsz, wok) = corpus::WOULD[fi]();
                rt::PREDLOG.lock().unwrap().clear();
                rt::CHECKLOG.lock().unwrap().clear();
                let e0 = rt::EXEC.load(std::sync::atomic::Ordering::SeqCst);
                let frseed = self.fr.next();
                let res = self.w.run(
                    t,
                    Box::new(move || {
                        fastrand::seed(frseed);
                        let (k, r) = corpus::CALLS[fi](j);
                        format!("{} {}", hex(&k), hex(&r))
                    }),
                );
                let e1 = rt::EXEC.load(std::sync::atomic::Ordering::SeqCst);
                let pl: Vec<String> = rt::PREDLOG
                    .lock()
                    .unwrap()
                    .iter()
                    .map(|(i, k, v, a)| format!("{}:{}:{}:{}", i, hex(k), hex(v), *a as u8))
                    .collect();
                let cl: Vec<String> = rt::CHECKLOG
                    .lock()
                    .unwrap()
                    .iter()
                    .map(|(i, k, v, a)| format!("{}:{}:{}:{}", i, hex(k), hex(v), *a as u8))
                    .collect();
                let sp = self.fns.iter().find(|s| s.idx == fi).unwrap();
                let st = if sp.thread { "-".to_string() } else { stats_of(&sp.name) };
                format!(
                    "would={},{},{} ret={} exec={} pred=[{}] check=[{}] stats={}",
                    hex(&wv),
                    wsz,
                    wok as u8,
                    res,
                    e1 - e0,
                    pl.join(";"),
                    cl.join(";"),
                    st
                )
            }
            "begin" => {
                // begin <id> <fn> <j> <n> <ok> <len> <ci> <io> <k>: poll the call until it suspends at its k-th await
                let id: u64 = p[1].parse().unwrap();
                let fi: usize = p[2].parse().unwrap();
                let j: usize = p[3].parse().unwrap();
                let next = rt::Next { n: p[4].parse().unwrap(), ok: p[5] == "1", len: p[6].parse().unwrap(), ci: p[7] == "1", io: p[8] == "1" };
                let k: i64 = p[9].parse().unwrap();
                *rt::NEXT.lock().unwrap() = next;
                let (wv, wsz, wok) = corpus::WOULD[fi]();
                rt::PREDLOG.lock().unwrap().clear();
                rt::CHECKLOG.lock().unwrap().clear();
                let e0 = rt::EXEC.load(std::sync::atomic::Ordering::SeqCst);
                fastrand::seed(self.fr.next());
                let (key, mut fut) = corpus::BEGINS[fi].expect("begin on a sync function")(j);
                rt::GATE_BUDGET.with(|b| b.set(k - 1));
                let r = rt::poll_once(&mut fut);
                rt::GATE_BUDGET.with(|b| b.set(i64::MAX));
                let e1 = rt::EXEC.load(std::sync::atomic::Ordering::SeqCst);
                let cl: Vec<String> = rt::CHECKLOG.lock().unwrap().iter()
                    .map(|(i, k, v, a)| format!("{}:{}:{}:{}", i, hex(k), hex(v), *a as u8)).collect();
                let pl: Vec<String> = rt::PREDLOG.lock().unwrap().iter()
                    .map(|(i, k, v, a)| format!("{}:{}:{}:{}", i, hex(k), hex(v), *a as u8)).collect();
                let sp = self.fns.iter().find(|s| s.idx == fi).unwrap().clone();
                match r {
                    std::task::Poll::Ready(v) => format!(
                        "would={},{},{} ret={} {} exec={} pred=[{}] check=[{}] stats={}",
                        hex(&wv), wsz, wok as u8, hex(&key), hex(&v), e1 - e0, pl.join(";"), cl.join(";"), stats_of(&sp.name)),
                    std::task::Poll::Pending => {
                        self.pending.insert(id, PendingFut { fi, key: key.clone(), next, fut });
                        // while the call is suspended another thread must be able to take every lock of this
                        // cache: a never-matching conditional invalidation locks the queue and walks the store
                        let name = sp.name.clone();
                        let blocked = !self.w.run_timeout(1, Box::new(move || {
                            cachelito_core::invalidate_with(&name, |_| false);
                            String::new()
                        }), std::time::Duration::from_secs(3));
                        format!("would={},{},{} susp={} exec={} check=[{}] stats={} blocked={}",
                            hex(&wv), wsz, wok as u8, hex(&key), e1 - e0, cl.join(";"), stats_of(&sp.name), blocked as u8)
                    }
                }
            }
            "resume" => {
                let id: u64 = p[1].parse().unwrap();
                match self.pending.remove(&id) {
                    None => "nosuchcall".to_string(),
                    Some(mut pf) => {
                        *rt::NEXT.lock().unwrap() = pf.next;
                        rt::PREDLOG.lock().unwrap().clear();
                        rt::CHECKLOG.lock().unwrap().clear();
                        let e0 = rt::EXEC.load(std::sync::atomic::Ordering::SeqCst);
                        fastrand::seed(self.fr.next());
                        let mut out = None;
                        for _ in 0..64 {
                            if let std::task::Poll::Ready(v) = rt::poll_once(&mut pf.fut) {
                                out = Some(v);
                                break;
                            }
                        }
                        let e1 = rt::EXEC.load(std::sync::atomic::Ordering::SeqCst);
                        let pl: Vec<String> = rt::PREDLOG.lock().unwrap().iter()
                            .map(|(i, k, v, a)| format!("{}:{}:{}:{}", i, hex(k), hex(v), *a as u8)).collect();
                        let sp = self.fns.iter().find(|s| s.idx == pf.fi).unwrap();
                        format!("ret={} {} exec={} pred=[{}] check=[] stats={}", hex(&pf.key),
                            hex(&out.unwrap_or_else(|| "NEVER-READY".to_string())), e1 - e0, pl.join(";"), stats_of(&sp.name))
                    }
                }
            }
            "drop" => {
                let id: u64 = p[1].parse().unwrap();
                // dropping a call that already returned at `begin` is a no-op
                drop(self.pending.remove(&id));
                "unit".to_string()
            }
            "tick" => {
                let ms: u64 = p[1].parse().unwrap();
                let old = self.vc;
                self.vc += ms;
                let secs = self.vc / 1000 - old / 1000;
                for sp in &self.fns {
                    if sp.thread {
                        for t in 0..NTHREADS {
                            let name = thread_cache_name(sp);
                            self.w.run(
                                t,
                                Box::new(move || {
                                    cachelito_core::verif::age_thread_local(&name, ms);
                                    String::new()
                                }),
                            );
                        }
                    } else if sp.is_async {
                        cachelito_core::verif::age_global(&sp.name, secs * 1000);
                    } else {
                        cachelito_core::verif::age_global(&sp.name, ms);
                    }
                }
                "unit".to_string()
            }
            "tag" => format!("count={}", cachelito_core::invalidate_by_tag(p[1])),
            "event" => format!("count={}", cachelito_core::invalidate_by_event(p[1])),
            "dep" => format!("count={}", cachelito_core::invalidate_by_dependency(p[1])),
            "cache" => format!("flag={}", cachelito_core::invalidate_cache(p[1]) as u8),
            "with" => {
                // with <name> <hexkey,hexkey,…>
                let keys: Vec<String> = if p.len() > 2 && !p[2].is_empty() { p[2].split(',').map(|s| s.to_string()).collect() } else { vec![] };
                let r = cachelito_core::invalidate_with(p[1], |k: &str| keys.contains(&hex(k)));
                format!("flag={}", r as u8)
            }
            "allwith" => {
                // allwith <name>=<hexkeys,…>;<name>=…   (predicate: key listed for that cache name)
                let mut table: Vec<(String, Vec<String>)> = Vec::new();
                if p.len() > 1 {
                    for part in p[1].split(';') {
                        if let Some((n, ks)) = part.split_once('=') {
                            table.push((n.to_string(), ks.split(',').filter(|s| !s.is_empty()).map(|s| s.to_string()).collect()));
                        }
                    }
                }
                let r = cachelito_core::invalidate_all_with(|name: &str, k: &str| {
                    table.iter().any(|(n, ks)| n == name && ks.contains(&hex(k)))
                });
                format!("count={}", r)
            }
            "sget" => format!("stats={}", stats_of(p[1])),
            "sreset" => format!("flag={}", cachelito_core::stats_registry::reset(p[1]) as u8),
            _ => panic!("bad op {op}"),
        };
        format!("{}||{}", out, dump_all(&self.w, &self.fns))
    }

    pub fn clock_ok(&self) -> bool {
        self.start.elapsed() < Duration::from_millis(80) && now_s() == self.start_s
    }
}

pub fn all_specs() -> Vec<Spec> {
    corpus::SPECS.iter().map(|s| parse_spec(s)).collect()
}

pub fn wait_safe_start() {
    loop {
        let d = SystemTime::now().duration_since(UNIX_EPOCH).unwrap();
        if d.subsec_millis() > 850 {
            std::thread::sleep(Duration::from_millis(160));
        } else {
            break;
        }
    }
}

pub fn gen_ops(rng: &mut Rng, fns: &[Spec], n: usize, det: bool) -> Vec<String> {
    let mut ops = Vec::new();
    let mut counter = 1000u64;
    let nkeys = |sp: &Spec| sp.limit.map(|l| l + 2).unwrap_or(4);
    let names: Vec<String> = fns.iter().map(|s| s.name.clone()).chain(["nosuch".to_string()]).collect();
    // keys of a function: we do not know the key strings here; conditional invalidations use the
    // hex keys observed so far (filled in by the runner) — encoded as `?<fn>:<j>` placeholders
    let mut vc = 0u64;
    let mut last_call: Option<(usize, u64, u64)> = None;
    let mut open: Vec<u64> = Vec::new();
    let mut next_id = 0u64;
    let asyncs: Vec<&Spec> = fns.iter().filter(|s| s.is_async).collect();
    for _ in 0..n {
        let c = rng.below(100);
        // suspended / dropped async calls (C20): begin one, or finish / drop an open one
        if !asyncs.is_empty() && rng.chance(1, 6) {
            if !open.is_empty() && rng.chance(1, 2) {
                let i = rng.below(open.len() as u64) as usize;
                let id = open.remove(i);
                ops.push(if rng.chance(1, 2) { format!("resume {id}") } else { format!("drop {id}") });
            } else if open.len() < 3 {
                let sp = *rng.pick(&asyncs);
                let j = rng.below(nkeys(sp) as u64);
                counter += 1;
                let (nval, ok) = if det {
                    let key = corpus::KEYS[sp.idx](j as usize);
                    let mut h: u64 = sp.idx as u64 * 1_000_003 + 17;
                    for b in key.bytes() {
                        h = h.wrapping_mul(31).wrapping_add(b as u64);
                    }
                    let h = h % 997;
                    (h, h % 4 != 0)
                } else {
                    (counter, !rng.chance(3, 10))
                };
                let len = match sp.max_mem {
                    Some(m) => 4 + ((nval * 29) % (m.saturating_sub(24) as u64 / 2 + 8)) as usize,
                    None => 4 + (nval % 5) as usize,
                };
                let (ci, io) = if det { (true, false) } else { (!rng.chance(3, 10), rng.chance(3, 10)) };
                let k = 1 + rng.below(corpus::AWAITS[sp.idx] as u64);
                next_id += 1;
                open.push(next_id);
                ops.push(format!("begin {} {} {} {} {} {} {} {} {}", next_id, sp.idx, j, nval, ok as u8, len, ci as u8, io as u8, k));
            }
            continue;
        }
        if c < 62 {
            // every third call REPEATS the previous call's function, thread and arguments: sequences "store; hit judged
            // stale; refreshed value rejected / accepted; next call" on one key are what the predicate attributes
            // (cache_if + invalidate_on together, Result outcomes) are about, and independent draws rarely produce them
            let repeat = last_call.is_some() && rng.chance(1, 3);
            let (sp, t, j) = match (repeat, last_call) {
                (true, Some((fi, t, j))) => (&fns[fi], t, j),
                _ => {
                    let fi = rng.below(fns.len() as u64) as usize;
                    let sp = &fns[fi];
                    let t = if sp.thread { rng.below(NTHREADS as u64) } else if rng.chance(1, 4) { rng.below(NTHREADS as u64) } else { 0 };
                    let j = rng.below(nkeys(sp) as u64);
                    last_call = Some((fi, t, j));
                    (sp, t, j)
                }
            };
            counter += 1;
            let (nval, ok) = if det {
                // a deterministic function of (function, ARGUMENTS): hash of the key the arguments render to
                let key = corpus::KEYS[sp.idx](j as usize);
                let mut h: u64 = sp.idx as u64 * 1_000_003 + 17;
                for b in key.bytes() {
                    h = h.wrapping_mul(31).wrapping_add(b as u64);
                }
                let h = h % 997;
                (h, h % 4 != 0)
            } else {
                (counter, !rng.chance(3, 10))
            };
            let len = match sp.max_mem {
                Some(m) => {
                    let base = m.saturating_sub(24);
                    if det {
                        4 + ((nval * 29) % (base as u64 / 2 + 8)) as usize
                    } else {
                        match rng.below(10) {
                            0 => base,
                            1 => base + 1,
                            2 => m,
                            _ => 4 + rng.below(base as u64 / 2 + 8) as usize,
                        }
                    }
                }
                None => 4 + (if det { nval % 5 } else { j % 5 }) as usize,
            };
            let (ci, io) = if det { (true, false) } else if repeat { (!rng.chance(1, 2), rng.chance(1, 2)) } else { (!rng.chance(3, 10), rng.chance(3, 10)) };
            ops.push(format!("call {} {} {} {} {} {} {} {}", sp.idx, t, j, nval, ok as u8, len, ci as u8, io as u8));
        } else if c < 74 {
            if vc > 30_000 {
                continue;
            }
            let ms = *rng.pick(&[100u64, 500, 900, 1000, 1100, 2000, 1900]);
            vc += ms;
            ops.push(format!("tick {ms}"));
        } else if c < 78 {
            ops.push(format!("tag {}", rng.pick(&["t0", "t1", "t2", "tX"])));
        } else if c < 81 {
            ops.push(format!("event {}", rng.pick(&["e0", "e1", "eX"])));
        } else if c < 84 {
            ops.push(format!("dep {}", rng.pick(&["d0", "d1", "dX"])));
        } else if c < 87 {
            ops.push(format!("cache {}", rng.pick(&names)));
        } else if c < 93 {
            // keys: placeholder resolved by the runner from the latest dumps: `~<mask>`
            ops.push(format!("with {} ~{}", rng.pick(&names), rng.below(16)));
        } else if c < 95 {
            ops.push(format!("allwith ~{}", rng.below(16)));
        } else if c < 98 {
            ops.push(format!("sget {}", rng.pick(&names)));
        } else {
            ops.push(format!("sreset {}", rng.pick(&names)));
        }
    }
    ops
}

/// resolve `~mask` placeholders of conditional invalidations against the keys currently stored
pub fn resolve(op: &str, fns: &[Spec], last_dumps: &str) -> String {
    if !op.contains('~') {
        return op.to_string();
    }
    // collect stored keys per global cache name from the dumps
    let mut per_name: Vec<(String, Vec<String>)> = Vec::new();
    for part in last_dumps.split('@') {
        if let Some((id, d)) = part.split_once('=') {
            let (fi, inst) = id.split_once(':').unwrap();
            if inst != "g" || d == "-" {
                continue;
            }
            let fi: usize = fi.parse().unwrap();
            let sp = fns.iter().find(|s| s.idx == fi).unwrap();
            let es = d.split('#').next().unwrap();
            let ks: Vec<String> = es.split(';').filter(|e| !e.is_empty()).map(|e| e.split('=').next().unwrap().to_string()).collect();
            per_name.push((sp.name.clone(), ks));
        }
    }
    let p: Vec<&str> = op.split(' ').collect();
    let pick = |ks: &Vec<String>, mask: u64| -> Vec<String> {
        ks.iter().enumerate().filter(|(i, _)| (mask >> (i % 4)) & 1 == 1).map(|(_, k)| k.clone()).collect()
    };
    if p[0] == "with" {
        let mask: u64 = p[2][1..].parse().unwrap();
        let ks = per_name.iter().find(|(n, _)| n == p[1]).map(|(_, k)| pick(k, mask)).unwrap_or_default();
        format!("with {} {}", p[1], ks.join(","))
    } else {
        let mask: u64 = p[1][1..].parse().unwrap();
        let parts: Vec<String> = per_name.iter().map(|(n, k)| format!("{}={}", n, pick(k, mask).join(","))).collect();
        format!("allwith {}", parts.join(";"))
    }
}

pub fn run_ops(fns: Vec<Spec>, ops: Vec<String>, fr_seed: u64, det: bool) {
    let stdout = std::io::stdout();
    let mut out = std::io::BufWriter::new(stdout.lock());
    use std::io::Write;
    wait_safe_start();
    let idxs: Vec<String> = fns.iter().map(|s| s.idx.to_string()).collect();
    // `det` = the scripted body is a deterministic function of (function, arguments) in this episode
    writeln!(out, "E|{}|{}|det={}", idxs.join(","), fr_seed, det as u8).unwrap();
    let mut ep = Episode::new(fns.clone(), fr_seed);
    let mut last = dump_all(&ep.w, &ep.fns);
    for op in ops {
        let op = resolve(&op, &fns, &last);
        let r = ep.exec(&op);
        if !ep.clock_ok() {
            writeln!(out, "#ABORT episode: real time exceeded the jitter budget or crossed a second").unwrap();
            break;
        }
        last = r.rsplit("||").next().unwrap().to_string();
        writeln!(out, "S|{}||{}", op, r).unwrap();
        if r.contains("PANIC") {
            break;
        }
    }
    out.flush().unwrap();
}

