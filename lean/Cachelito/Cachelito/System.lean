/-
  Cachelito.System — several cached functions, their caches (one per function for global scope and
  async, one per function AND thread for thread scope), the invalidation registry
  (`cachelito-core/src/invalidation.rs`) and the statistics registry (`stats_registry.rs`).

  Registrations happen on the FIRST call of a global / async function
  (`cachelito-macros/src/lib.rs:165-253`, `cachelito-async-macros/src/lib.rs:355-433`):
    * statistics under the cache name,
    * tag / event / dependency tables + clear callback — only if one of the three lists is non-empty,
    * conditional-invalidation callback — always.
  Thread-scope functions register nothing.  Cache names are assumed pairwise distinct (two caches with
  one name overwrite each other's callbacks; outside the properties' quantifier).
-/
import Cachelito.Wrapper

namespace Cachelito

/-- identity of one cache instance: function index, and the thread for thread-scope functions -/
structure CacheId where
  fn : Nat
  thread : Option Nat
  deriving DecidableEq, Repr

structure Sys (K V : Type) where
  caches : List (CacheId × State K V)   -- absent = never touched = `State.init` at the current clock
  called : List Nat                     -- global/async functions whose first call happened (registered)
  now : Nat

inductive SysOp (K V : Type)
  | call (fn : Nat) (thread : Nat) (c : CallIn K V)
  | tick (ms : Nat)
  | invalidateByTag (t : String)
  | invalidateByEvent (e : String)
  | invalidateByDependency (d : String)
  | invalidateCache (name : String)
  | invalidateWith (name : String) (p : K → Bool)
  | invalidateAllWith (p : String → K → Bool)
  | statsGet (name : String)
  | statsReset (name : String)

inductive SysOut (K V : Type)
  | ret (v : V) (trace : List (TraceEv K V))
  | unit
  | count (n : Nat)
  | flag (b : Bool)
  | stats (s : Option (Nat × Nat))      -- hits, misses
  | noSuchFn

variable {K V S : Type} [DecidableEq K]

def Sys.init : Sys K V := ⟨[], [], 0⟩

def cacheIdOf (spec : FnSpec) (fn thread : Nat) : CacheId :=
  ⟨fn, if spec.threadScope then some thread else none⟩

def Sys.getCache (sys : Sys K V) (id : CacheId) : State K V :=
  match sys.caches.find? (fun p => p.1 = id) with
  | some p => p.2
  | none => { (State.init : State K V) with now := sys.now }

def Sys.setCache (sys : Sys K V) (id : CacheId) (s : State K V) : Sys K V :=
  { sys with caches := (id, s) :: sys.caches.filter (fun p => p.1 ≠ id) }

/-- apply `f` to every existing cache instance of function `fn` (global/async: at most one) -/
def Sys.mapFn (sys : Sys K V) (fn : Nat) (f : State K V → State K V) : Sys K V :=
  { sys with caches := sys.caches.map (fun p => if p.1.fn = fn ∧ p.1.thread = none then (p.1, f p.2) else p) }

/-- functions that own a clear callback: registered (called, not thread scope) and with metadata -/
def hasClearCallback (fns : List FnSpec) (sys : Sys K V) (i : Nat) : Bool :=
  match fns[i]? with
  | some spec => sys.called.contains i && !spec.threadScope &&
      !(spec.tags.isEmpty && spec.events.isEmpty && spec.deps.isEmpty)
  | none => false

/-- functions that own a conditional-invalidation callback and a statistics entry -/
def isRegistered (fns : List FnSpec) (sys : Sys K V) (i : Nat) : Bool :=
  match fns[i]? with
  | some spec => sys.called.contains i && !spec.threadScope
  | none => false

/-- indices of functions selected by `sel` that own a clear callback -/
def clearTargets (fns : List FnSpec) (sys : Sys K V) (sel : FnSpec → Bool) : List Nat :=
  (List.range fns.length).filter (fun i =>
    hasClearCallback fns sys i && (match fns[i]? with | some spec => sel spec | none => false))

def clearAll (sys : Sys K V) (targets : List Nat) : Sys K V :=
  targets.foldl (fun sy i => sy.mapFn i clear) sys

def sysStep (fns : List FnSpec) (tls : Nat → Tlru S) (size : V → Nat) (isOk : V → Bool) (rs : List Nat)
    (sys : Sys K V) : SysOp K V → Sys K V × SysOut K V
  | .call fn thread c =>
    match fns[fn]? with
    | none => (sys, .noSuchFn)
    | some spec =>
      let id := cacheIdOf spec fn thread
      let (s', v, tr) := callFn spec (tls fn) size isOk rs (sys.getCache id) c
      let sys' := sys.setCache id s'
      let sys' := if spec.threadScope || sys'.called.contains fn then sys'
                  else { sys' with called := fn :: sys'.called }
      (sys', .ret v tr)
  | .tick ms =>
    ({ sys with now := sys.now + ms, caches := sys.caches.map (fun p => (p.1, { p.2 with now := p.2.now + ms })) }, .unit)
  | .invalidateByTag t =>
    let ts := clearTargets fns sys (fun spec => spec.tags.contains t)
    (clearAll sys ts, .count ts.length)
  | .invalidateByEvent e =>
    let ts := clearTargets fns sys (fun spec => spec.events.contains e)
    (clearAll sys ts, .count ts.length)
  | .invalidateByDependency d =>
    let ts := clearTargets fns sys (fun spec => spec.deps.contains d)
    (clearAll sys ts, .count ts.length)
  | .invalidateCache name =>
    let ts := clearTargets fns sys (fun spec => spec.name = name)
    (clearAll sys ts, .flag (!ts.isEmpty))
  | .invalidateWith name p =>
    let ts := (List.range fns.length).filter (fun i =>
      isRegistered fns sys i && (match fns[i]? with | some spec => spec.name = name | none => false))
    (ts.foldl (fun sy i => sy.mapFn i (invalidateWith p)) sys, .flag (!ts.isEmpty))
  | .invalidateAllWith p =>
    let ts := (List.range fns.length).filter (fun i => isRegistered fns sys i)
    (ts.foldl (fun sy i =>
        match fns[i]? with
        | some spec => sy.mapFn i (invalidateWith (p spec.name))
        | none => sy) sys, .count ts.length)
  | .statsGet name =>
    let ts := (List.range fns.length).filter (fun i =>
      isRegistered fns sys i && (match fns[i]? with | some spec => spec.name = name | none => false))
    match ts with
    | i :: _ => let s := sys.getCache ⟨i, none⟩; (sys, .stats (some (s.hitStat, s.missStat)))
    | [] => (sys, .stats none)
  | .statsReset name =>
    let ts := (List.range fns.length).filter (fun i =>
      isRegistered fns sys i && (match fns[i]? with | some spec => spec.name = name | none => false))
    (ts.foldl (fun sy i => sy.mapFn i (fun s => { s with hitStat := 0, missStat := 0 })) sys, .flag (!ts.isEmpty))

def sysRun (fns : List FnSpec) (tls : Nat → Tlru S) (size : V → Nat) (isOk : V → Bool) :
    Sys K V → List (SysOp K V × List Nat) → Sys K V × List (SysOut K V)
  | sys, [] => (sys, [])
  | sys, (op, rs) :: ops =>
    let (s1, o) := sysStep fns tls size isOk rs sys op
    let (s2, os) := sysRun fns tls size isOk s1 ops
    (s2, o :: os)

end Cachelito
