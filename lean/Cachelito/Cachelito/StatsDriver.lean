/-
  Cachelito.StatsDriver — line protocol of `stats_diff` (C15 correspondence at the level of the statistics
  registry as a data structure).

    G|<op>;<op>;…|<out>;<out>;…        one episode on the REAL process-global `stats_registry` (cleared at the
                                       start of the episode) and freshly allocated `CacheStats` cells

  op  = `reg <name> <cell>` | `get <name>` | `ref <name>` | `reset <name>` | `clear` | `list`
      | `hit <cell>` | `miss <cell>` | `creset <cell>` | `hits <cell>` | `misses <cell>` | `total <cell>`
      | `hrate <cell>` | `mrate <cell>`
  out = `u`
      | `s:-` | `s:<hits>,<misses>,<total_accesses>,<bits of hit_rate>,<bits of miss_rate>`   (`get`: read off the snapshot)
      | `r:-` | `r:<cell>,<hits>,<misses>`       (`get_ref`: WHICH cell the reference points to — found by pointer
                                                   comparison with the episode's cells, `?` if none — and what is read through it)
      | `f0` | `f1` | `n:<names>` (`,`-joined, SORTED by the harness) | `v:<n>` | `q:<bits of the f64>`

  The handler replays the episode on `StatsReg.run` from the empty registry, renders every model output in the
  same format (the rates as the bits of `num / den` computed in `Float`, `0.0` for a zero denominator) and
  compares.  Monitors are evaluated on the REAL outputs against a ghost of the history (latest binding per name
  since the last `clear`, recordings per cell since its last reset) that never looks at the model's state:
    MON C15  `get` / `get_ref` / `reset` / `list` disagree with the registrations since the last `clear`;
             a `get` after operations that concern only OTHER cells (in particular `reset` of another name) differs
             from the previous `get` of the same name; hits / misses of a cell differ from the number of
             `record_hit` / `record_miss` on it since its last reset; total_accesses ≠ hits + misses
-/
import Cachelito.StatsReg

namespace Cachelito.StatsDriver
open Cachelito.StatsReg

def splitNE (s : String) (sep : String) : List String := if s.isEmpty then [] else s.splitOn sep

def parseOp (s : String) : Option Op :=
  match s.splitOn " " with
  | ["reg", n, c] => c.toNat?.map (.register n)
  | ["get", n] => some (.get n)
  | ["ref", n] => some (.getRef n)
  | ["reset", n] => some (.reset n)
  | ["clear"] => some .clear
  | ["list"] => some .list
  | ["hit", c] => c.toNat?.map .recordHit
  | ["miss", c] => c.toNat?.map .recordMiss
  | ["creset", c] => c.toNat?.map .cellReset
  | ["hits", c] => c.toNat?.map .hits
  | ["misses", c] => c.toNat?.map .misses
  | ["total", c] => c.toNat?.map .total
  | ["hrate", c] => c.toNat?.map .hitRate
  | ["mrate", c] => c.toNat?.map .missRate
  | _ => none

def insStr (x : String) : List String → List String
  | [] => [x]
  | y :: ys => if x ≤ y then x :: y :: ys else y :: insStr x ys
def sortStr (l : List String) : List String := l.foldl (fun acc x => insStr x acc) []

/-- bits of the `f64` the real code computes from `(num, den)`: `0.0` if `den == 0`, else `num as f64 / den as f64` -/
def rateBits (num den : Nat) : Nat :=
  if den = 0 then 0 else (Float.ofNat num / Float.ofNat den).toBits.toNat

/-- a model output in the harness' format -/
def render : Out → String
  | .unit => "u"
  | .snap none => "s:-"
  | .snap (some k) =>
    s!"s:{k.hits},{k.misses},{k.total},{rateBits k.hitRate.1 k.hitRate.2},{rateBits k.missRate.1 k.missRate.2}"
  | .ref none => "r:-"
  | .ref (some (c, k)) => s!"r:{c},{k.hits},{k.misses}"
  | .flag b => if b then "f1" else "f0"
  | .names l => s!"n:{",".intercalate (sortStr l)}"
  | .num n => s!"v:{n}"
  | .ratio n d => s!"q:{rateBits n d}"

/-- canonical form of an implementation output (the name list sorted) -/
def canonImpl (s : String) : String :=
  if s.startsWith "n:" then s!"n:{",".intercalate (sortStr (splitNE (s.drop 2).toString ","))}" else s

/-! ### the ghost of the history and the monitors -/

structure Ghost where
  binds : List (String × Nat) := []            -- registrations since the last `clear`, newest first
  counts : List (Nat × Nat × Nat) := []        -- per cell: `record_hit`s, `record_miss`es since its last reset
  lastGet : List (String × String) := []       -- per name: the previous `get` output, while nothing concerned its cell

def Ghost.bound (g : Ghost) (n : String) : Option Nat := (g.binds.find? (·.1 = n)).map (·.2)
def Ghost.names (g : Ghost) : List String := (g.binds.map (·.1)).eraseDups
def Ghost.count (g : Ghost) (c : Nat) : Nat × Nat :=
  match g.counts.find? (·.1 = c) with
  | some p => p.2
  | none => (0, 0)
def Ghost.setCount (g : Ghost) (c : Nat) (v : Nat × Nat) : Ghost :=
  { g with counts := (c, v) :: g.counts.filter (·.1 ≠ c) }
/-- forget the remembered `get` of every name currently bound to cell `c` -/
def Ghost.touch (g : Ghost) (c : Nat) : Ghost :=
  { g with lastGet := g.lastGet.filter (fun p => g.bound p.1 ≠ some c) }

/-- the ghost after an operation whose REAL output was `o` -/
def Ghost.advance (g : Ghost) (op : Op) (o : String) : Ghost :=
  match op with
  | .register n c => { g with binds := (n, c) :: g.binds, lastGet := g.lastGet.filter (·.1 ≠ n) }
  | .clear => { g with binds := [], lastGet := [] }
  | .recordHit c => let k := g.count c; (g.touch c).setCount c (k.1 + 1, k.2)
  | .recordMiss c => let k := g.count c; (g.touch c).setCount c (k.1, k.2 + 1)
  | .cellReset c => (g.touch c).setCount c (0, 0)
  | .reset n =>
    match g.bound n with
    | some c => if o = "f1" then (g.touch c).setCount c (0, 0) else g.touch c
    | none => g
  | .get n => if o = "s:-" then g else { g with lastGet := (n, o) :: g.lastGet.filter (·.1 ≠ n) }
  | _ => g

def natsOf (s : String) : Option (List Nat) := (splitNE s ",").mapM String.toNat?

def monCounts (g : Ghost) (what : String) (c h m : Nat) : List String :=
  let k := g.count c
  if (h, m) = k then []
  else [s!"MON C15 {what}: cell {c} shows hits={h} misses={m}, but {k.1} record_hit and {k.2} record_miss were performed on it since its last reset"]

def monitor (g : Ghost) (op : Op) (o : String) : List String :=
  match op with
  | .get n =>
    match g.bound n, o with
    | none, "s:-" => []
    | none, _ => [s!"MON C15 get {n}: nothing is registered under this name, got {o}"]
    | some c, "s:-" => [s!"MON C15 get {n}: cell {c} is registered under this name, got None"]
    | some c, _ =>
      match natsOf (o.drop 2).toString with
      | some [h, m, t, _, _] =>
        monCounts g s!"get {n}" c h m ++
        (if t = h + m then [] else [s!"MON C15 get {n}: total_accesses={t} but hits+misses={h + m}"]) ++
        (match g.lastGet.find? (·.1 = n) with
         | some p => if p.2 = o then [] else
             [s!"MON C15 get {n}: {o} differs from the previous get {p.2} although only other cells / names were operated on since"]
         | none => [])
      | _ => [s!"MON C15 get {n}: unexpected kind of result {o}"]
  | .getRef n =>
    match g.bound n, o with
    | none, "r:-" => []
    | none, _ => [s!"MON C15 get_ref {n}: nothing is registered under this name, got {o}"]
    | some c, "r:-" => [s!"MON C15 get_ref {n}: cell {c} is registered under this name, got None"]
    | some c, _ =>
      match natsOf (o.drop 2).toString with
      | some [c', h, m] =>
        (if c' = c then [] else [s!"MON C15 get_ref {n}: the reference points to cell {c'}, the last registration was cell {c}"]) ++
        monCounts g s!"get_ref {n}" c' h m
      | _ => [s!"MON C15 get_ref {n}: unexpected kind of result {o}"]
  | .reset n =>
    let want := if (g.bound n).isSome then "f1" else "f0"
    if o = want then [] else [s!"MON C15 reset {n}: returned {o}, expected {want} (registered: {(g.bound n).isSome})"]
  | .list =>
    let want := s!"n:{",".intercalate (sortStr g.names)}"
    if canonImpl o = want then [] else [s!"MON C15 list: got {o}, the names registered since the last clear are {want}"]
  | .hits c =>
    if o = s!"v:{(g.count c).1}" then [] else [s!"MON C15 hits of cell {c}: got {o}, {(g.count c).1} record_hit since its last reset"]
  | .misses c =>
    if o = s!"v:{(g.count c).2}" then [] else [s!"MON C15 misses of cell {c}: got {o}, {(g.count c).2} record_miss since its last reset"]
  | .total c =>
    let k := g.count c
    if o = s!"v:{k.1 + k.2}" then [] else [s!"MON C15 total_accesses of cell {c}: got {o}, {k.1 + k.2} recordings since its last reset"]
  | _ => []

def handleStatsLine (line : String) : String :=
  -- checks the harness made on the real objects themselves (snapshot is a copy, rates) are passed through
  if line.startsWith "MON " then line else
  match line.splitOn "|" with
  | ["G", opsS, outsS] =>
    match (splitNE opsS ";").mapM parseOp with
    | some ops =>
      let outs := splitNE outsS ";"
      if ops.length ≠ outs.length then s!"BAD {ops.length} operations, {outs.length} outputs"
      else
        let (_, mouts) := run {} ops
        let rec go (i : Nat) (g : Ghost) : List Op → List String → List Out → List String
          | op :: ops, o :: os, m :: ms =>
            let d := if canonImpl o = render m then []
              else [s!"DIFF step {i} [{repr op}]: implementation {canonImpl o}, model {render m}"]
            d ++ (monitor g op o).map (fun s => s ++ s!" (step {i})") ++ go (i + 1) (g.advance op o) ops os ms
          | _, _, _ => []
        let fs := go 1 {} ops outs mouts
        if fs.isEmpty then "ok" else " ;; ".intercalate fs
    | none => "BAD unparsable episode"
  | _ => "BAD shape"

end Cachelito.StatsDriver
