/-
  T12 — TRANSLATOR TIE, thread_local_cache.rs: the LOOKUP PATH of the thread-local engine (`get`) — C01, C06, C07, C08, C14

  `Generated/PureThread.lean` is regenerated from /repo's CURRENT source on every check (statements of the `stats`
  feature included); the theorem is re-proved against whatever was generated.  The closure of `self.cache.with(|c| …)`
  that `return`s early is translated as a value block whose `return` leaves the closure only.

  `get_eq`: the translated `ThreadLocalCache::get` returns what the model's `Cachelito.get` (thread-local flavour)
  returns and leaves exactly its store, queue and counters.
-/
import Cachelito.Props.T11
import Cachelito.Props.T04

set_option linter.unusedSimpArgs false
set_option linter.unusedVariables false

namespace Cachelito.T12
open Cachelito Cachelito.RustLite Cachelito.Generated Cachelito.SourceLemmas Cachelito.T11
open Cachelito.Generated.Thread

variable {K V F : Type} [DecidableEq K]

/-- **The thread-local engine's `get` is the model's `get`** -/
theorem get_eq (c : ThreadCache K V F) (now : Nat) (k : K) (hmax : ∀ p, p ∈ c.cache → p.2.hits < u64Max) :
    Thread.get ⟨fun b => now - b, now⟩ c k =
      ((Cachelito.get (cfgOf c) ⟨c.cache, c.order, now, c.stats.hits, c.stats.misses⟩ k).2,
       { c with
         cache := (Cachelito.get (cfgOf c) ⟨c.cache, c.order, now, c.stats.hits, c.stats.misses⟩ k).1.store,
         order := (Cachelito.get (cfgOf c) ⟨c.cache, c.order, now, c.stats.hits, c.stats.misses⟩ k).1.queue,
         stats := ⟨(Cachelito.get (cfgOf c) ⟨c.cache, c.order, now, c.stats.hits, c.stats.misses⟩ k).1.hitStat,
                   (Cachelito.get (cfgOf c) ⟨c.cache, c.order, now, c.stats.hits, c.stats.misses⟩ k).1.missStat⟩ }) := by
  obtain ⟨cache, order, limit, mm, policy, ttl, fw, ⟨sh, sm⟩⟩ := c
  have hexp : ∀ e : Entry V, Entry.is_expired ⟨fun b => now - b, now⟩ e ttl =
      expired (⟨.threadLocal, policy, limit, mm, ttl⟩ : Cfg) now e :=
    fun e => T03.is_expired_eq ⟨.threadLocal, policy, limit, mm, ttl⟩ (by simp) now e
  unfold Thread.get Cachelito.get
  simp only [cfgOf]
  cases hl : lookup k cache with
  | none =>
    simp [hl, Stats.record_miss, fetchAdd]
  | some e =>
    by_cases hx : expired (⟨.threadLocal, policy, limit, mm, ttl⟩ : Cfg) now e = true
    · simp [hl, hexp, hx, remove_key_eq, removeBoth, Stats.record_miss, fetchAdd]
    · have hinc : ∀ (o : List K), Thread.increment_frequency (ThreadCache.mk cache o limit mm policy ttl fw ⟨sh + 1, sm⟩) k =
          ThreadCache.mk (bumpHits k cache) o limit mm policy ttl fw ⟨sh + 1, sm⟩ :=
        fun o => increment_frequency_eq _ k hmax
      cases policy <;>
        simp [hl, hexp, hx, Stats.record_hit, fetchAdd, hitUpdate, Policy.bumps, Policy.refreshes,
          move_to_end_eq, hinc]

end Cachelito.T12
