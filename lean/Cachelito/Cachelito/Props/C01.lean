/-
  C01 — A cached call returns exactly what the uncached function would return.

  Part (a), engine level: *last store wins*.  Whatever operations (lookups, plain and memory-aware
  stores, clears, conditional invalidations, clock ticks), evictions and expirations came before,
  a lookup of `k` that serves a value serves the value of the LATEST store under `k` in the
  history — never a value stored under another key, never an older value of the same key.

  `lastStored h k` (defined in `Lemmas/Hist.lean`) is a pure function of the history prefix; its
  meaning is pinned down by `lastStored_eq_some_iff`: the history splits as `pre ++ store :: post`
  with `store ∈ {insert k v, insertMem k v}` and no store under `k` in `post`.

  All statements quantify over every flavour (sync global, thread-local, async), every policy,
  limit, ttl, max_memory, every TLRU score algebra `tl`, every size function, every stream of
  random draws and every finite history.

  Part (b), wrapper level, is added at the end of the file (marked section).
-/
import Cachelito.Lemmas.Hist

set_option linter.unusedSectionVars false
set_option linter.unusedSimpArgs false
set_option linter.unusedVariables false

namespace Cachelito.C01
open Cachelito Cachelito.Hist
variable {K V S : Type} [DecidableEq K]

/-! ## Part (a): engine level -/

/-- A lookup serves only what is stored under exactly the requested key: if `get k` returns `v` then
    the store holds an entry for `k` whose value is `v`. -/
theorem get_serves_entry_of_key (cfg : Cfg) (s : State K V) (k : K) (v : V)
    (h : (get cfg s k).2 = some v) : ∃ e, lookup k s.store = some e ∧ e.val = v := by
  rw [get_result] at h
  cases hl : lookup k s.store with
  | none => rw [hl] at h; cases h
  | some e =>
    rw [hl] at h
    simp only at h
    split at h
    · cases h
    · exact ⟨e, rfl, Option.some.inj h⟩

/-- **Store invariant.**  In every state reached from the empty cache, every stored entry holds the
    value of the latest store of its key in the history that led there. -/
theorem store_holds_last_store (cfg : Cfg) (tl : Tlru S) (size : V → Nat) (ops : List (Op K V × List Nat))
    (k : K) (e : Entry V) (h : lookup k (run cfg tl size (State.init : State K V) ops).1.store = some e) :
    lastStored ops k = some e.val := by
  obtain ⟨t, h1, _⟩ := (hinv_reachable cfg tl size ops).2 k e h
  unfold lastStored; rw [h1]; rfl

/-- The same invariant is kept by every further history started in any consistent state that
    satisfies it (`h0` is the history that led to `s`). -/
theorem store_holds_last_store_from (cfg : Cfg) (tl : Tlru S) (size : V → Nat) (h0 : List (Op K V × List Nat))
    (s : State K V) (hi : Inv s) (hh : HInv cfg h0 s) (ops : List (Op K V × List Nat))
    (k : K) (e : Entry V) (h : lookup k (run cfg tl size s ops).1.store = some e) :
    lastStored (h0 ++ ops) k = some e.val := by
  obtain ⟨t, h1, _⟩ := (run_hinv cfg tl size h0 s ops hi hh).2 k e h
  unfold lastStored; rw [h1]; rfl

/-- **C01 (a), last store wins.**  For every history from the empty cache: if the `i`-th operation is
    `get k` and it returns `some v`, then `v` is the value of the latest `insert k ·` / `insertMem k ·`
    among the first `i` operations. -/
theorem get_returns_last_store (cfg : Cfg) (tl : Tlru S) (size : V → Nat) (ops : List (Op K V × List Nat))
    (i : Nat) (k : K) (rs : List Nat) (v : V) (hop : ops[i]? = some (.get k, rs))
    (hout : (run cfg tl size (State.init : State K V) ops).2[i]? = some (.val (some v))) :
    lastStored (ops.take i) k = some v := by
  rw [run_out_at cfg tl size _ ops i _ rs hop] at hout
  simp only [step, Option.some.injEq, Out.val.injEq] at hout
  obtain ⟨e, he, hv⟩ := get_serves_entry_of_key cfg _ k v hout
  rw [← hv]
  exact store_holds_last_store cfg tl size (ops.take i) k e he

/-- **C01 (a), spelled out.**  A served value was stored under the SAME key (not under another key)
    and by the LAST store under that key (not by an older one): the prefix before the lookup splits as
    `pre ++ store :: post` where `store` is `insert k v` or `insertMem k v` and `post` contains no
    store under `k`. -/
theorem get_returns_last_store_explicit (cfg : Cfg) (tl : Tlru S) (size : V → Nat)
    (ops : List (Op K V × List Nat)) (i : Nat) (k : K) (rs : List Nat) (v : V)
    (hop : ops[i]? = some (.get k, rs))
    (hout : (run cfg tl size (State.init : State K V) ops).2[i]? = some (.val (some v))) :
    ∃ pre post op rs', ops.take i = pre ++ (op, rs') :: post ∧ (op = .insert k v ∨ op = .insertMem k v) ∧
      ∀ k' v' rs'', (Op.insert k' v', rs'') ∈ post ∨ (Op.insertMem k' v', rs'') ∈ post → k' ≠ k := by
  obtain ⟨pre, post, op, rs', h1, h2, h3⟩ :=
    (lastStored_eq_some_iff (ops.take i) k v).mp (get_returns_last_store cfg tl size ops i k rs v hop hout)
  refine ⟨pre, post, op, rs', h1, h2, ?_⟩
  intro k' v' rs'' hm hk
  subst hk
  rcases hm with hm | hm
  · have := h3 _ hm; simp [storesOf] at this
  · have := h3 _ hm; simp [storesOf] at this

/-- Never an older value: if a later store under `k` (value `v2`) follows, with no further store under
    `k` before the lookup, a lookup that serves anything serves `v2`. -/
theorem replaced_value_never_served (cfg : Cfg) (tl : Tlru S) (size : V → Nat)
    (ops : List (Op K V × List Nat)) (i : Nat) (k : K) (rs : List Nat) (v v2 : V)
    (hop : ops[i]? = some (.get k, rs))
    (hout : (run cfg tl size (State.init : State K V) ops).2[i]? = some (.val (some v)))
    (pre post : List (Op K V × List Nat)) (op : Op K V) (rs' : List Nat)
    (hsplit : ops.take i = pre ++ (op, rs') :: post) (hstore : op = .insert k v2 ∨ op = .insertMem k v2)
    (hpost : ∀ p ∈ post, storesOf k p.1 = none) : v = v2 := by
  have h1 := get_returns_last_store cfg tl size ops i k rs v hop hout
  have h2 := (lastStored_eq_some_iff (ops.take i) k v2).mpr ⟨pre, post, op, rs', hsplit, hstore, hpost⟩
  rw [h1] at h2
  exact Option.some.inj h2

/-- The same refinement for a history continued from any consistent state that satisfies the history
    invariant for the history `h0` that led to it. -/
theorem get_returns_last_store_from (cfg : Cfg) (tl : Tlru S) (size : V → Nat) (h0 : List (Op K V × List Nat))
    (s : State K V) (hi : Inv s) (hh : HInv cfg h0 s) (ops : List (Op K V × List Nat))
    (i : Nat) (k : K) (rs : List Nat) (v : V) (hop : ops[i]? = some (.get k, rs))
    (hout : (run cfg tl size s ops).2[i]? = some (.val (some v))) :
    lastStored (h0 ++ ops.take i) k = some v := by
  rw [run_out_at cfg tl size _ ops i _ rs hop] at hout
  simp only [step, Option.some.injEq, Out.val.injEq] at hout
  obtain ⟨e, he, hv⟩ := get_serves_entry_of_key cfg _ k v hout
  rw [← hv]
  exact store_holds_last_store_from cfg tl size h0 s hi hh (ops.take i) k e he

/-! ### Non-vacuity

  Two values are stored under key 1 (10, then 11) and one under key 2; the lookups serve 11 and 20 —
  the latest store of each key, and `lastStored` of the prefix says the same.  Checked for the
  async flavour (where the unrepaired code kept the FIRST value, finding F1), for the sync global
  flavour with an entry limit that forces an eviction in between, and for a memory-aware re-store. -/

def exTl : Tlru Nat := ⟨fun a b => decide (a < b), fun _ h _ r => h * r⟩
def exOps : List (Op Nat Nat × List Nat) :=
  [(.insert 1 10, []), (.insert 2 20, []), (.insert 1 11, []), (.get 1, []), (.get 2, []), (.get 3, [])]
def exAsync : Cfg := ⟨.async, .lru, some 2, none, none⟩
def exGlobal : Cfg := ⟨.global, .fifo, some 2, none, some 5⟩
def exThread : Cfg := ⟨.threadLocal, .lfu, none, some 100, none⟩

example : ((run exAsync exTl (fun _ => 0) (State.init : State Nat Nat) exOps).2.map outVal) =
    [none, none, none, some (some 11), some (some 20), some none] := by decide
example : ((run exGlobal exTl (fun _ => 0) (State.init : State Nat Nat) exOps).2.map outVal) =
    [none, none, none, some (some 11), some (some 20), some none] := by decide
example : lastStored (exOps.take 3) 1 = some 11 ∧ lastStored (exOps.take 4) 2 = some 20 ∧
    lastStored (exOps.take 5) 3 = none := by decide
/-- the hypotheses of `get_returns_last_store` are satisfiable: operation 3 is `get 1` and serves 11 -/
example : exOps[3]? = some (.get 1, []) ∧
    ((run exAsync exTl (fun _ => 0) (State.init : State Nat Nat) exOps).2[3]?).map outVal = some (some (some 11)) :=
  ⟨rfl, by decide⟩

/-- a limit of 1 evicts key 1 before it is looked up: nothing is served (never a value of key 2) -/
def exOpsEvict : List (Op Nat Nat × List Nat) :=
  [(.insert 1 10, []), (.insert 2 20, []), (.get 1, []), (.insertMem 2 21, []), (.get 2, [])]
example : ((run ⟨.async, .fifo, some 1, none, none⟩ exTl (fun _ => 1) (State.init : State Nat Nat) exOpsEvict).2.map outVal)
    = [none, none, some none, none, some (some 21)] := by decide
example : ((run exThread exTl (fun _ => 1) (State.init : State Nat Nat) exOpsEvict).2.map outVal)
    = [none, none, some (some 10), none, some (some 21)] := by decide

/-! ## Part (b): wrapper level

  (to be added: deterministic body `f`, injective key function, `returned = f args` for every call of
  every cached function of a `SysState`; uses part (a) and C02's injectivity theorem.) -/

end Cachelito.C01
