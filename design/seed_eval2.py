#!/usr/bin/env python3
"""Evaluate one seeded change delivered by a sub-agent: (1) confirm in a scratch worktree that the demonstration fails
with the change and passes without it and that the unedited baseline suite passes with it, (2) apply it to /repo, run the
given checks, undo it, (3) record everything under /verif/seeded/<id>/.
usage: seed_eval2.py <slot number> <agent outdir> <seed id> <check> [<check> ...]
Variant of seed_eval.py that runs the checks in a private slot (copy of /verif + worktree of /repo under /tmp/mut/s<slot>, see
design/mutate.py), so /repo and /verif are never touched and several seeds can be evaluated in parallel."""
import sys, os, json, subprocess, shutil, re, time

sys.path.insert(0, os.path.dirname(os.path.abspath(__file__)))
import mutate
slot, out, sid, checks = sys.argv[1], sys.argv[2], sys.argv[3], sys.argv[4:]
SREPO, SVERIF = mutate.setup_slot(slot)
ENV = dict(os.environ, CARGO_NET_OFFLINE="true")
def sh(cmd, cwd=None, timeout=3000):
    p = subprocess.run(cmd, cwd=cwd, shell=True, env=ENV, stdout=subprocess.PIPE, stderr=subprocess.STDOUT, text=True, timeout=timeout)
    return p.returncode, p.stdout

meta = json.load(open(os.path.join(out, "meta.json")))
demo_path = open(os.path.join(out, "demo_path.txt")).read().strip()
wt = f"/tmp/seed/verify_{sid}"
ENV["VERIF_REPO"] = SREPO
sh(f"git -C /repo worktree remove --force {wt}")
rc, o = sh(f"git -C /repo worktree add -q {wt} HEAD"); assert rc == 0, o
res = {}
try:
    os.makedirs(os.path.dirname(os.path.join(wt, demo_path)), exist_ok=True)
    shutil.copy(os.path.join(out, "demo.rs"), os.path.join(wt, demo_path))
    demo_cmd = meta["demo_cmd"].split("(")[0].strip()
    if "nextest" in demo_cmd and "||" not in demo_cmd:
        pass
    rc0, o0 = sh(demo_cmd, cwd=wt)
    res["demo_without_change"] = "pass" if rc0 == 0 else "FAIL"
    rc, o = sh(f"git apply {os.path.join(out, 'patch.diff')}", cwd=wt); assert rc == 0, o
    rc1, o1 = sh(demo_cmd, cwd=wt)
    res["demo_with_change"] = "fail" if rc1 != 0 else "PASSES"
    os.remove(os.path.join(wt, demo_path))
    rc2, o2 = sh("cargo nextest run --workspace --no-fail-fast --offline --test-threads 8 2>&1 | tail -3", cwd=wt)
    m = re.search(r"(\d+) tests run: (\d+) passed", o2)
    res["baseline_with_change"] = m.group(0) if m else o2[-200:]
finally:
    sh(f"git -C /repo worktree remove --force {wt}")
print(json.dumps(res, indent=1))
valid = res.get("demo_without_change") == "pass" and res.get("demo_with_change") == "fail" and "350 passed" in res.get("baseline_with_change", "")
# run the checks against the change
rc, o = sh(f"git -C {SREPO} status --short"); assert o.strip() == "", "slot repo not clean: " + o
rc, o = sh(f"git -C {SREPO} apply {os.path.join(out, 'patch.diff')}"); assert rc == 0, o
results = {}
try:
    for c in checks:
        t = time.time()
        rc, o = sh(f"./check {c} --tier quick", cwd=SVERIF)
        vio = [l for l in o.splitlines() if l.startswith("VIOLATION")]
        results[c] = {"exit": rc, "violation_lines": vio[:3], "summary": [l for l in o.splitlines() if l.startswith(c + " quick")][:1],
                      "wall_s": round(time.time() - t, 1)}
        if vio:
            rp = vio[0].split("replay=")[1].split(" ")[0]
            try:
                results[c]["replay_head"] = [l[:300] for l in open(os.path.join(SVERIF, rp)).read().splitlines()[:6]]
            except Exception as e:
                results[c]["replay_head"] = [str(e)]
finally:
    sh(f"git -C {SREPO} checkout -- .")
rc, o = sh(f"git -C {SREPO} status --short"); assert o.strip() == "", o
d = f"/verif/seeded/{sid}"
os.makedirs(d, exist_ok=True)
shutil.copy(os.path.join(out, "patch.diff"), d)
shutil.copy(os.path.join(out, "demo.rs"), os.path.join(d, os.path.basename(demo_path)))
meta.update({"demo_path": demo_path, "confirmed": res, "valid_seed": valid, "checks_run": results,
             "detected_by": [c for c, r in results.items() if r["exit"] != 0],
             "detected_with_concrete_input": [c for c, r in results.items() if r["violation_lines"] and "no-failing-input-found" not in r["violation_lines"][0]]})
json.dump(meta, open(os.path.join(d, "meta.json"), "w"), indent=1)
print(json.dumps({k: meta[k] for k in ("valid_seed", "detected_by", "detected_with_concrete_input")}, indent=1))
for c, r in results.items():
    print(c, r["exit"], r["violation_lines"][:1], r["summary"])
