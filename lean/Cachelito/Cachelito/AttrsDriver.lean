/-
  Cachelito.AttrsDriver — line protocol of `attrs_diff` (C19 correspondence).

    A|<sync|async>|<oc>|<class>|<attrs>|<result>     well-formed `name = value, …` list
    R|<sync|async>|<oc>|<class>|<hex text>|<result>  not a `name = value` list for syn (must be `ERR…`)
    (`<oc>`: 1 if this build of the macro crate panics on `usize` overflow in the `max_memory` arithmetic —
     always 0 since the arithmetic is `checked_mul` (commit 1b1b026); kept for compatibility, ignored)
    T|<hex return-type tokens>|<0|1>                 `is_result` as the macros compute it, vs `isResultSpelling`
    #…                                               comment / statistics

  attrs  = `name=VAL` joined by `;`, VAL =
    `I:<+|->:<value>:<suffix>` | `F:<+|->:<mant>:<exp10>:<suffix>` | `S:<hex>` | `B:<0|1>` | `C` |
    `P:<0|1>:<seg>.<seg>…` | `A:<e>,…` (e = `S:<hex>` | `O`) | `X`
  result = `ERR:<hex msg>` | `PANIC:<hex msg>` |
    `OK~limit=…~policy=…~ttl=…~scope=…~name=…~mm=…~tags=…~events=…~deps=…~inv=…~cif=…~fw=…~hmm=<0|1>~mmraw=<hex>`
    (token strings without whitespace; `CE:<hex msg>` for `compile_error!("msg")` tokens; strings `s<hex>`;
     `hmm` = the macros' `has_max_memory` on the real tokens, `mmraw` = their `to_string()`, compared with
     `hasMaxMemory` / `mmTokens` of the model)

  `handleAttrsLine` answers `ok`, `skip` (comment line), or one or more findings joined by ` ;; ` among
    `DIFF …`      the model parser and the real parser disagree on this input,
    `MON C19 …`   a monitor evaluated on the REAL result alone is false:
                    M1 a list the property says must be rejected (an unknown name, or an invalid policy /
                       scope / limit / ttl / max_memory / frequency_weight value ANYWHERE in it) was accepted,
                    M2 a valid list was not accepted with exactly the values `meaning` assigns,
                    M3 (R lines) text that is not a name-value list was not refused,
    `BAD …`       malformed line.
-/
import Cachelito.Attrs

namespace Cachelito.AttrsDriver
open Cachelito Cachelito.Attrs

/-! ### hex / utf-8 -/

def hexDigit (n : Nat) : Char := if n < 10 then Char.ofNat (48 + n) else Char.ofNat (87 + n)

def hexOfString (s : String) : String :=
  String.ofList (s.toUTF8.toList.foldr (fun b acc => hexDigit (b.toNat / 16) :: hexDigit (b.toNat % 16) :: acc) [])

def hexVal (c : Char) : Option Nat :=
  if '0' ≤ c ∧ c ≤ '9' then some (c.toNat - 48)
  else if 'a' ≤ c ∧ c ≤ 'f' then some (c.toNat - 87)
  else if 'A' ≤ c ∧ c ≤ 'F' then some (c.toNat - 55)
  else none

def hexBytes : List Char → Option (List UInt8)
  | [] => some []
  | a :: b :: r => do
    let x ← hexVal a
    let y ← hexVal b
    let t ← hexBytes r
    pure (UInt8.ofNat (x * 16 + y) :: t)
  | _ => none

def unhex (s : String) : Option String := do
  let bs ← hexBytes s.toList
  String.fromUTF8? (ByteArray.mk bs.toArray)

/-! ### parsing the attribute list -/

def parseNatS (s : String) : Option Nat :=
  if s.isEmpty then none else if s.toList.all Char.isDigit then some (decVal s.toList) else none

def parseIntS (s : String) : Option Int :=
  match s.toList with
  | '-' :: r => (parseNatS (String.ofList r)).map (fun n => - (n : Int))
  | _ => (parseNatS s).map (fun n => (n : Int))

def parseSign : String → Option Bool
  | "+" => some false
  | "-" => some true
  | _ => none

def parseElem (s : String) : Option ArrElem :=
  if s = "O" then some .other
  else match s.splitOn ":" with
    | ["S", h] => (unhex h).map .str
    | _ => none

def parseVal (s : String) : Option AttrVal :=
  if s = "X" then some .otherExpr
  else if s = "C" then some .otherLit
  else if s.startsWith "A:" then
    let body := String.ofList (s.toList.drop 2)
    if body.isEmpty then some (.array [])
    else (body.splitOn ",").mapM parseElem |>.map .array
  else match s.splitOn ":" with
    | ["I", sg, v, suf] => do
      let neg ← parseSign sg
      let n ← parseNatS v
      pure (.intLit neg n suf)
    | ["F", sg, m, e, suf] => do
      let neg ← parseSign sg
      let mant ← parseNatS m
      let ex ← parseIntS e
      pure (.floatLit neg mant ex suf)
    | ["S", h] => (unhex h).map .strLit
    | ["B", b] => if b = "1" then some (.boolLit true) else if b = "0" then some (.boolLit false) else none
    | ["P", lc, segs] =>
      if lc = "1" then some (.path ⟨true, segs.splitOn "."⟩)
      else if lc = "0" then some (.path ⟨false, segs.splitOn "."⟩) else none
    | _ => none

def parseAttr (s : String) : Option Attr :=
  match s.splitOn "=" with
  | [n, v] => (parseVal v).map (fun x => (n, x))
  | _ => none

def parseAttrs (s : String) : Option AttrList :=
  if s.isEmpty then some [] else (s.splitOn ";").mapM parseAttr

def parseKind : String → Option Kind
  | "sync" => some .sync
  | "async" => some .async
  | _ => none

/-! ### rendering a model result like the harness renders the real one -/

def renderOpt (k : Kind) (ty suffix : String) : Spliced Nat → String
  | .ok none => match k with | .sync => "None" | .async => "Option::<" ++ ty ++ ">::None"
  | .ok (some n) => "Some(" ++ toString n ++ suffix ++ ")"
  | .compileError e => "CE:" ++ hexOfString e.msg

def renderPolicy (k : Kind) (p : String) : String :=
  match k with
  | .async => "\"" ++ p ++ "\""
  | .sync => "cachelito_core::EvictionPolicy::" ++
    (if p = "fifo" then "FIFO" else if p = "lru" then "LRU" else if p = "lfu" then "LFU"
     else if p = "arc" then "ARC" else if p = "random" then "Random" else if p = "tlru" then "TLRU" else "?")

def renderScope (k : Kind) (s : Scope) : String :=
  match k, s with
  | .async, _ => "-"
  | .sync, .global => "cachelito_core::CacheScope::Global"
  | .sync, .thread => "cachelito_core::CacheScope::ThreadLocal"

def renderName : Option String → String
  | none => "-"
  | some s => "s" ++ hexOfString s

def renderStrs (l : List String) : String := ",".intercalate (l.map (fun s => "s" ++ hexOfString s))

def renderPath : Option Path → String
  | none => "-"
  | some p => (if p.leadingColon then "::" else "") ++ "::".intercalate p.segs

/-- the eleven fields that are compared textually (`fw` is compared by value) -/
def renderFields (k : Kind) (p : Parsed) : List String :=
  [ "limit=" ++ renderOpt k "usize" "usize" p.limit,
    "policy=" ++ renderPolicy k p.policy,
    "ttl=" ++ renderOpt k "u64" "u64" p.ttl,
    "scope=" ++ renderScope k p.scope,
    "name=" ++ renderName p.name,
    "mm=" ++ renderOpt k "usize" "usize" p.maxMemory,
    "tags=" ++ renderStrs p.tags,
    "events=" ++ renderStrs p.events,
    "deps=" ++ renderStrs p.dependencies,
    "inv=" ++ renderPath p.invalidateOn,
    "cif=" ++ renderPath p.cacheIf ]

/-- decimal text `123.456` (what `f64`'s `Display` prints: no exponent) as mantissa and exponent -/
def parseDecimal (s : List Char) : Option (Nat × Int) :=
  let ip := s.takeWhile (· ≠ '.')
  let fp := (s.dropWhile (· ≠ '.')).drop 1
  if ip = [] ∨ !(ip.all Char.isDigit) ∨ !(fp.all Char.isDigit) then none
  else some (decVal (ip ++ fp), - (fp.length : Int))

/-- does the real `fw=` token string denote the value of the model field? -/
def fwAgrees (k : Kind) (w : Spliced F64) (real : String) : Bool :=
  match w with
  | .ok none => real = (match k with | .sync => "None" | .async => "Option::<f64>::None")
  | .compileError e => real = "CE:" ++ hexOfString e.msg
  | .ok (some x) =>
    let cs := real.toList
    if "Some(".toList.isPrefixOf cs ∧ "f64)".toList.isSuffixOf cs then
      let body := (cs.drop 5).take (cs.length - 9)
      match parseDecimal body with
      | some (m, e) => (roundDec m e).toF64 = x
      | none => false
    else false

def showF64 (x : F64) : String := s!"{x.m}*2^{x.e}"

def showFw : Spliced F64 → String
  | .ok none => "None"
  | .ok (some x) => "Some(" ++ showF64 x ++ ")"
  | .compileError e => "CE:" ++ hexOfString e.msg

/-- `none` = agreement, `some why` otherwise -/
def compareOk (k : Kind) (p : Parsed) (real : String) : Option String :=
  match real.splitOn "~" with
  | "OK" :: fs =>
    if fs.length ≠ 14 then some "real result does not have 14 fields"
    else
      let want := renderFields k p
      let bad := (want.zip (fs.take 11)).filter (fun (w, r) => w ≠ r)
      let fwReal := fs.getD 11 ""
      let fwBad :=
        if fwReal.startsWith "fw=" then
          (if fwAgrees k p.frequencyWeight (String.ofList (fwReal.toList.drop 3)) then [] else
            [s!"model fw={showFw p.frequencyWeight} real {fwReal}"])
        else ["real fw field missing"]
      let hmmWant := "hmm=" ++ (if hasMaxMemory k p then "1" else "0")
      let rawWant := "mmraw=" ++ hexOfString (String.ofList (mmTokens k p.maxMemory))
      let extra := ([(hmmWant, fs.getD 12 ""), (rawWant, fs.getD 13 "")].filter (fun (w, r) => w ≠ r)).map
        (fun (w, r) => s!"model {w} real {r}")
      let msgs := bad.map (fun (w, r) => s!"model {w} real {r}") ++ fwBad ++ extra
      if msgs.isEmpty then none else some ("; ".intercalate msgs)
  | _ => some s!"model accepts, real = {(real.splitOn "~").headD ""}"

def realCompiles (real : String) : Bool :=
  match real.splitOn "~" with
  | "OK" :: fs => fs.all (fun f => match f.splitOn "=" with
      | [_, v] => !v.startsWith "CE:"
      | _ => true)
  | _ => false

def showResult (k : Kind) (r : Result) : String :=
  match r with
  | .ok p => "OK~" ++ "~".intercalate (renderFields k p) ++ "~fw=" ++ showFw p.frequencyWeight
  | .error (.parserErr m) => "ERR:" ++ m
  | .error (.panics m) => "PANIC:" ++ m

def unhexShow (h : String) : String := (unhex h).getD ("<hex " ++ h ++ ">")

/-- compare the model result with the real one -/
def diffResult (k : Kind) (r : Result) (real : String) : Option String :=
  match r with
  | .ok p => compareOk k p real
  | .error (.parserErr m) =>
    if real = "ERR:" ++ hexOfString m then none
    else some s!"model ERR [{m}] real [{if real.startsWith "ERR:" then "ERR:" ++ unhexShow (String.ofList (real.toList.drop 4)) else real}]"
  | .error (.panics m) =>
    if real.startsWith "PANIC:" then
      let rm := unhexShow (String.ofList (real.toList.drop 6))
      if m.toList.isPrefixOf rm.toList then none else some s!"model PANIC [{m}] real PANIC [{rm}]"
    else some s!"model PANIC [{m}] real [{real}]"

/-- the monitors, on the real result alone -/
def monitors (k : Kind) (l : AttrList) (real : String) : List String :=
  let m1 :=
    match l.find? (fun a => mustRejectAttr k a.1 a.2) with
    | some a =>
      if realCompiles real then
        [s!"MON C19 M1 accepted although `{a.1}` is unknown or has an invalid value"]
      else []
    | none => []
  let m2 :=
    if decide (Valid k l) then
      match compareOk k (meaning k l).toParsed real with
      | none => []
      | some why => [s!"MON C19 M2 valid list not accepted with its meaning: {why}"]
    else []
  m1 ++ m2

def handleAttrsLine (line : String) : String :=
  if line.startsWith "#" then "skip"
  else match line.splitOn "|" with
  | ["A", kS, _, cls, attrsS, real] =>
    match parseKind kS, parseAttrs attrsS with
    | some k, some l =>
      let r := parse k l
      let d := match diffResult k r real with
        | none => []
        | some why => [s!"DIFF kind={kS} class={cls} attrs=[{attrsS}] :: {why}"]
      let ms := (monitors k l real).map (fun m => s!"{m} :: kind={kS} class={cls} attrs=[{attrsS}] real=[{(real.splitOn "~").headD ""}…]")
      let all := d ++ ms
      if all.isEmpty then "ok" else " ;; ".intercalate all
    | _, _ => s!"BAD attrs {line}"
  | ["T", tyH, res] =>
    match unhex tyH with
    | some ty =>
      let m := if isResultSpelling ty then "1" else "0"
      if m = res then "ok" else s!"DIFF is_result type=[{ty}] model={m} real={res}"
    | none => s!"BAD type {line}"
  | ["R", kS, _, cls, textH, real] =>
    if real.startsWith "ERR" then "ok"
    else s!"MON C19 M3 text that is not a name-value list was not refused :: kind={kS} class={cls} text=[{unhexShow textH}] real=[{real}]"
  | _ => s!"BAD shape {line}"

end Cachelito.AttrsDriver
