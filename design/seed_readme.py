#!/usr/bin/env python3
"""Generates seeded/README.md from the meta.json files."""
import json, os, glob
rows = []
for d in sorted(glob.glob("/verif/seeded/*/")):
    m = json.load(open(d + "meta.json"))
    sid = os.path.basename(d.rstrip("/"))
    det = m.get("detected_with_concrete_input", [])
    by = m.get("detected_by", [])
    rows.append((sid, m["property"], m["summary"], m["needs"], ", ".join(m.get("checks_run", {}).keys()),
                 ", ".join(det) if det else ("(" + ", ".join(by) + ": no-failing-input-found)" if by else "MISSED")))
with open("/verif/seeded/README.md", "w") as f:
    f.write("# Seeded changes (written by independent sub-agents from the property text alone)\n\n")
    f.write("Each directory holds `patch.diff` (never committed to /repo), the demonstration that fails with the change and passes "
            "without it, and `meta.json` (what the change needs to manifest, what was confirmed here, which checks were run and what "
            "they printed). `valid_seed` = demonstration behaviour and 350/350 baseline confirmed in a scratch worktree.\n\n")
    f.write("| id | property | change | needs | checks run | caught with a concrete replay by |\n|---|---|---|---|---|---|\n")
    for r in rows:
        f.write("| " + " | ".join(x.replace("|", "/").replace("\n", " ") for x in r) + " |\n")
print(len(rows), "seeds")
