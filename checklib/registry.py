"""Registry of claimed properties: which theorem modules, correspondence streams and monitors decide each."""

TRUSTED_BASE = [
    "Lean 4.33.0 kernel (thorough tier: re-checked by leanchecker); axioms allowed: propext, Classical.choice, Quot.sound",
    "hand-written Lean model lean/Cachelito/Cachelito/{Basic,Core}.lean as a transcription of /repo (checked per step by the correspondence streams, not proved)",
    "Lean compiler/runtime executing the model in the driver (incl. Float = C double, libm pow)",
    "Rust harness /verif/harness (drives the real code, dumps its state), python orchestrator ./check",
    "HashMap/DashMap as finite maps, VecDeque as a list, monotone Instant, fastrand as an arbitrary choice < len",
]

HOOK_COMMITS = []

ALL_POLICIES = ["fifo", "lru", "lfu", "arc", "random", "tlru"]

def core_stream(filters=None, nontrivial=(), quick=360, thorough=7200, what="", enumerate_=None):
    return {
        "kind": "core",
        "what": what or "L1: real GlobalCache / ThreadLocalCache / AsyncGlobalCache over harness-owned stores vs Cachelito.step, full state per step",
        "filters": filters or [[]],
        "episodes": {"quick": quick, "thorough": thorough},
        "ops": {"quick": (30, 50), "thorough": (40, 120)},
        "nontrivial": list(nontrivial),
        "enumerate": enumerate_ or [],
    }

SMALL_SCOPE = [(fl, pol, lim, 5) for fl in ("global", "thread", "async") for pol in ALL_POLICIES for lim in (1, 2)]

PROPS = {
    "C04": {
        "lean_modules": ["Cachelito.Props.C04"],
        "streams": [core_stream(nontrivial=["eviction", "expiry"], enumerate_=SMALL_SCOPE)],
        "monitors": ["C04"],
        "rule": "generated episodes (config product flavour x policy x limit x max_memory x ttl x fw, key alphabet limit+2) run on the real engines; a step is non-trivial when it evicts or purges an entry; distinct = distinct (config, pre-state, operation)",
        "level_text": "Machine-checked Lean theorems: the store/queue bookkeeping invariant holds in every reachable state, |store| <= limit after every operation of every history, and a plain store leaves exactly min(limit, held + [key new]) entries (one victim per overflow, none otherwise), for all flavours, policies, score algebras, sizes and random draws. The model is tied to the code by per-step full-state comparison on generated and (thorough) exhaustively enumerated histories.",
        "level_note": "Theorems are about the Lean model (Core.lean); its agreement with the Rust code is tested per step, not proved. HashMap/DashMap/VecDeque are modelled as lists; usize overflow is not modelled.",
        "technique": "Lean 4 invariant proof by induction over operations + per-step model/implementation correspondence",
        "design_ref": "DESIGN.md §7 C04",
        "assumptions": ["limit >= 1", "sequential use (concurrency is C18)"],
    },
}

NOT_APPLICABLE = {pid: "check not built yet (work in progress in this session; see DESIGN.md §12 build order)"
                  for pid in ["C%02d" % i for i in range(1, 21)]}
