//! Shared pieces of the verification harness: PRNG, line-protocol helpers, the L2 runtime and corpus.

pub mod l2;

/// splitmix64 — every random choice of every generator derives from one of these, seeded from
/// `VERIF_SEED`, so a disagreement replays exactly.
#[derive(Clone)]
pub struct Rng(pub u64);

impl Rng {
    pub fn new(seed: u64) -> Self {
        Rng(seed ^ 0x9E37_79B9_7F4A_7C15)
    }
    pub fn next(&mut self) -> u64 {
        self.0 = self.0.wrapping_add(0x9E37_79B9_7F4A_7C15);
        let mut z = self.0;
        z = (z ^ (z >> 30)).wrapping_mul(0xBF58_476D_1CE4_E5B9);
        z = (z ^ (z >> 27)).wrapping_mul(0x94D0_49BB_1331_11EB);
        z ^ (z >> 31)
    }
    pub fn below(&mut self, n: u64) -> u64 {
        if n == 0 {
            0
        } else {
            self.next() % n
        }
    }
    pub fn pick<'a, T>(&mut self, xs: &'a [T]) -> &'a T {
        &xs[self.below(xs.len() as u64) as usize]
    }
    pub fn chance(&mut self, num: u64, den: u64) -> bool {
        self.below(den) < num
    }
    pub fn fork(&mut self) -> Rng {
        Rng(self.next())
    }
}

pub fn opt_str<T: std::fmt::Display>(o: &Option<T>) -> String {
    match o {
        Some(x) => x.to_string(),
        None => "-".to_string(),
    }
}

pub fn panic_msg(e: Box<dyn std::any::Any + Send>) -> String {
    let s = if let Some(s) = e.downcast_ref::<&str>() {
        s.to_string()
    } else if let Some(s) = e.downcast_ref::<String>() {
        s.clone()
    } else {
        "unknown".to_string()
    };
    s.replace(['|', '\n', '#'], "_")
}

pub fn hex(s: &str) -> String {
    let mut o = String::with_capacity(s.len() * 2);
    for b in s.bytes() {
        o.push_str(&format!("{:02x}", b));
    }
    o
}
