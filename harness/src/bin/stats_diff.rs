//! C15 correspondence at the level of the statistics registry as a data structure: the REAL
//! `cachelito_core::stats_registry` (the process-global table name -> `&'static Lazy<CacheStats>`) and the REAL
//! `cachelito_core::CacheStats` are driven through arbitrary operation histories — registration under random
//! names, re-registration of a name with another cell, one cell under two names, `record_hit` / `record_miss` /
//! `reset` on the cells themselves (what the cache engines do), `get` (snapshot), `get_ref`, `reset` of registered
//! and unknown names, `list`, `clear` — and every operation's observed result is printed for the Lean driver
//! (`driver stats`), which replays the episode on `Cachelito.StatsReg.run`.
//!
//! usage: stats_diff gen <seed> <episodes>
//!
//!   G|<op>;<op>;…|<out>;<out>;…
//!
//! op / out: see `lean/Cachelito/Cachelito/StatsDriver.lean`.  The registry is a process-global static: every
//! episode starts with `stats_registry::clear()` and allocates fresh cells (leaked boxes — `register` wants a
//! `&'static Lazy<CacheStats>`), so nothing of an earlier episode is reachable.  Two generators alternate:
//! `macro-like` (each name registered once with its own cell before anything is recorded on it, the sequences
//! `#[cache]` / `#[cache_async]` produce, interleaved with recordings and requests) and `free` (anything the public
//! API allows).
//!
//! Independent checks made here on the real objects (printed as `MON C15 …` items of the episode's line):
//! the snapshot returned by `get` is a copy (recording on the snapshot does not reach the cell, recording on the
//! cell does not reach the snapshot); `hit_rate` / `miss_rate` of a cell are exactly `hits / total` and
//! `misses / total` computed from the same cell's `hits()` / `misses()` (`0.0` without accesses).

use cachelito_core::{stats_registry, CacheStats};
use once_cell::sync::Lazy;
use std::io::Write;
use verif_harness::Rng;

const NAMES: [&str; 6] = ["n0", "n1", "n2", "n3", "n4", "n5"];
const CELLS: usize = 5;

type Cell = &'static Lazy<CacheStats>;

fn new_cell() -> Cell {
    Box::leak(Box::new(Lazy::new(CacheStats::new as fn() -> CacheStats)))
}

fn rate(num: u64, den: u64) -> f64 {
    if den == 0 {
        0.0
    } else {
        num as f64 / den as f64
    }
}

fn main() {
    let args: Vec<String> = std::env::args().collect();
    if args.len() < 4 || args[1] != "gen" {
        eprintln!("usage: stats_diff gen <seed> <episodes>");
        std::process::exit(2);
    }
    let seed: u64 = args[2].parse().unwrap();
    let episodes: usize = args[3].parse().unwrap();
    let mut rng = Rng::new(seed);
    let out = std::io::stdout();
    let mut out = out.lock();
    let (mut n_ops, mut n_get_some, mut n_reset_hit, mut n_rereg, mut n_shared, mut n_clear, mut n_frame) =
        (0u64, 0u64, 0u64, 0u64, 0u64, 0u64, 0u64);
    for ep in 0..episodes {
        stats_registry::clear();
        let cells: Vec<Cell> = (0..CELLS).map(|_| new_cell()).collect();
        let macro_like = ep % 2 == 0;
        let len = 8 + rng.below(40) as usize;
        let mut ops: Vec<String> = Vec::new();
        let mut outs: Vec<String> = Vec::new();
        let mut mons: Vec<String> = Vec::new();
        // bookkeeping for the generator and the coverage statistics only (never used to compute an output)
        let mut bound: Vec<(String, usize)> = Vec::new();
        // macro-like: name i owns cell i; registered on its "first call", recordings only after that
        let mut registered: Vec<bool> = vec![false; CELLS];
        let mut last_reset_other = false;
        for _ in 0..len {
            let op: String = if macro_like {
                match rng.below(20) {
                    0..=9 => {
                        // a call of function i: registration on the first call, then one recorded lookup
                        let i = rng.below(CELLS as u64) as usize;
                        if !registered[i] {
                            registered[i] = true;
                            format!("reg {} {}", NAMES[i], i)
                        } else if rng.chance(1, 2) {
                            format!("hit {}", i)
                        } else {
                            format!("miss {}", i)
                        }
                    }
                    10..=13 => format!("get {}", rng.pick(&NAMES)),
                    14 => format!("ref {}", rng.pick(&NAMES)),
                    15..=16 => format!("reset {}", if rng.chance(1, 6) { "nothing" } else { rng.pick(&NAMES) }),
                    17 => "list".to_string(),
                    18 => format!("total {}", rng.below(CELLS as u64)),
                    _ => format!("hrate {}", rng.below(CELLS as u64)),
                }
            } else {
                match rng.below(40) {
                    0..=6 => format!("reg {} {}", rng.pick(&NAMES), rng.below(CELLS as u64)),
                    7..=13 => format!("hit {}", rng.below(CELLS as u64)),
                    14..=19 => format!("miss {}", rng.below(CELLS as u64)),
                    20..=25 => format!("get {}", if rng.chance(1, 8) { "nothing" } else { rng.pick(&NAMES) }),
                    26..=27 => format!("ref {}", if rng.chance(1, 8) { "nothing" } else { rng.pick(&NAMES) }),
                    28..=31 => format!("reset {}", if rng.chance(1, 8) { "nothing" } else { rng.pick(&NAMES) }),
                    32 => "list".to_string(),
                    33 => format!("creset {}", rng.below(CELLS as u64)),
                    34 => format!("hits {}", rng.below(CELLS as u64)),
                    35 => format!("misses {}", rng.below(CELLS as u64)),
                    36 => format!("total {}", rng.below(CELLS as u64)),
                    37 => format!("hrate {}", rng.below(CELLS as u64)),
                    38 => format!("mrate {}", rng.below(CELLS as u64)),
                    _ => {
                        if rng.chance(1, 2) {
                            "clear".to_string()
                        } else {
                            "list".to_string()
                        }
                    }
                }
            };
            let p: Vec<&str> = op.split(' ').collect();
            let cell = |s: &str| -> Cell { cells[s.parse::<usize>().unwrap()] };
            let step = ops.len() + 1;
            let o: String = match p[0] {
                "reg" => {
                    let c: usize = p[2].parse().unwrap();
                    if bound.iter().any(|(n, c0)| n == p[1] && *c0 != c) {
                        n_rereg += 1;
                    }
                    if bound.iter().any(|(n, c0)| n != p[1] && *c0 == c) {
                        n_shared += 1;
                    }
                    bound.retain(|(n, _)| n != p[1]);
                    bound.push((p[1].to_string(), c));
                    stats_registry::register(p[1], cells[c]);
                    "u".to_string()
                }
                "get" => match stats_registry::get(p[1]) {
                    None => "s:-".to_string(),
                    Some(snap) => {
                        n_get_some += 1;
                        if last_reset_other {
                            n_frame += 1;
                        }
                        let s = format!(
                            "s:{},{},{},{},{}",
                            snap.hits(),
                            snap.misses(),
                            snap.total_accesses(),
                            snap.hit_rate().to_bits(),
                            snap.miss_rate().to_bits()
                        );
                        // the snapshot is a copy: neither direction leaks
                        if let Some(r) = stats_registry::get_ref(p[1]) {
                            let (h0, m0) = (r.hits(), r.misses());
                            snap.record_hit();
                            snap.record_miss();
                            if (r.hits(), r.misses()) != (h0, m0) {
                                mons.push(format!("MON C15 get {}: recording on the snapshot changed the registered cell (step {})", p[1], step));
                            }
                            if (snap.hits(), snap.misses()) != (h0 + 1, m0 + 1) {
                                mons.push(format!("MON C15 get {}: the snapshot did not hold the cell's counters (step {})", p[1], step));
                            }
                        } else {
                            mons.push(format!("MON C15 get {}: get answered Some but get_ref None (step {})", p[1], step));
                        }
                        s
                    }
                },
                "ref" => match stats_registry::get_ref(p[1]) {
                    None => "r:-".to_string(),
                    Some(r) => {
                        let which = cells.iter().position(|c| std::ptr::eq::<CacheStats>(&***c, r));
                        format!(
                            "r:{},{},{}",
                            which.map(|i| i.to_string()).unwrap_or_else(|| "?".to_string()),
                            r.hits(),
                            r.misses()
                        )
                    }
                },
                "reset" => {
                    let b = stats_registry::reset(p[1]);
                    if b {
                        n_reset_hit += 1;
                    }
                    if b {
                        "f1".to_string()
                    } else {
                        "f0".to_string()
                    }
                }
                "clear" => {
                    n_clear += 1;
                    bound.clear();
                    stats_registry::clear();
                    "u".to_string()
                }
                "list" => {
                    let mut v = stats_registry::list();
                    v.sort();
                    format!("n:{}", v.join(","))
                }
                "hit" => {
                    cell(p[1]).record_hit();
                    "u".to_string()
                }
                "miss" => {
                    cell(p[1]).record_miss();
                    "u".to_string()
                }
                "creset" => {
                    cell(p[1]).reset();
                    "u".to_string()
                }
                "hits" => format!("v:{}", cell(p[1]).hits()),
                "misses" => format!("v:{}", cell(p[1]).misses()),
                "total" => format!("v:{}", cell(p[1]).total_accesses()),
                "hrate" | "mrate" => {
                    let c = cell(p[1]);
                    let (h, m) = (c.hits(), c.misses());
                    let (r, want) = if p[0] == "hrate" { (c.hit_rate(), rate(h, h + m)) } else { (c.miss_rate(), rate(m, h + m)) };
                    if r.to_bits() != want.to_bits() || !(0.0..=1.0).contains(&r) {
                        mons.push(format!("MON C15 {} of cell {}: {} with hits={} misses={} (step {})", p[0], p[1], r, h, m, step));
                    }
                    format!("q:{}", r.to_bits())
                }
                _ => unreachable!(),
            };
            last_reset_other = p[0] == "reset" && o == "f1";
            n_ops += 1;
            ops.push(op);
            outs.push(o);
        }
        write!(out, "G|{}|{}", ops.join(";"), outs.join(";")).unwrap();
        writeln!(out).unwrap();
        for m in mons {
            // a separate (malformed on purpose) line: the driver reports it, the orchestrator counts it as a monitor failure
            writeln!(out, "{}", m).unwrap();
        }
    }
    stats_registry::clear();
    writeln!(
        out,
        "#STAT operations={} get-some={} resets-of-registered={} get-right-after-a-reset={} re-registrations-with-another-cell={} one-cell-two-names={} registry-clears={}",
        n_ops, n_get_some, n_reset_hit, n_frame, n_rereg, n_shared, n_clear
    )
    .unwrap();
}
