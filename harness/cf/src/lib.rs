// generated examples live in ../examples
