/-
  Lemmas about the score scan (`firstMin`, `cands`, `victim`) used by the LFU / ARC / TLRU
  evictions, about chains of evictions (`limitStep`, `memLoop`) and about hit counting
  (core Lean only).  Helper material for `Cachelito/Props/C08.lean`.
-/
import Cachelito.Core
import Cachelito.Lemmas.Store
import Cachelito.Lemmas.Inv

set_option linter.unusedSectionVars false
set_option linter.unusedSimpArgs false
set_option linter.unusedVariables false

namespace Cachelito
variable {K V S : Type} [DecidableEq K]

/-! ### Strict weak orders and the first-minimum scan -/

/-- `lt` is a strict weak order on the scores satisfying `P` (the scores that actually occur):
    asymmetric and negatively transitive (equivalently: irreflexive, transitive, and
    "neither is smaller" is transitive).  These two laws are exactly what the scan needs. -/
structure StrictWeakOn (P : S → Prop) (lt : S → S → Bool) : Prop where
  asymm : ∀ a b, P a → P b → lt a b = true → lt b a = false
  negTrans : ∀ a b c, P a → P b → P c → lt a b = false → lt b c = false → lt a c = false

/-- strict weak order on the whole score type -/
abbrev StrictWeak (lt : S → S → Bool) : Prop := StrictWeakOn (fun _ => True) lt

/-- a strict weak order is irreflexive -/
theorem StrictWeakOn.irrefl {P : S → Prop} {lt : S → S → Bool} (h : StrictWeakOn P lt) (a : S) (ha : P a) :
    lt a a = false := by
  cases hl : lt a a with
  | false => rfl
  | true => have := h.asymm a a ha ha hl; rw [hl] at this; cases this

/-- `a < b` and `¬ a < c` give `c < b` -/
theorem StrictWeakOn.lt_of_lt_of_not_lt {P : S → Prop} {lt : S → S → Bool} (h : StrictWeakOn P lt)
    {a b c : S} (ha : P a) (hb : P b) (hc : P c) (hab : lt a b = true) (hac : lt a c = false) :
    lt c b = true := by
  cases hl : lt c b with
  | true => rfl
  | false => have := h.negTrans a c b ha hc hb hac hl; rw [hab] at this; cases this

/-- `b < c` and `¬ a < c` give `b < a` -/
theorem StrictWeakOn.lt_of_lt_of_not_lt' {P : S → Prop} {lt : S → S → Bool} (h : StrictWeakOn P lt)
    {a b c : S} (ha : P a) (hb : P b) (hc : P c) (hbc : lt b c = true) (hac : lt a c = false) :
    lt b a = true := by
  cases hl : lt b a with
  | true => rfl
  | false => have := h.negTrans b a c hb ha hc hl hac; rw [hbc] at this; cases this

/-- the usual presentation (irreflexive, transitive, incomparability transitive) gives `StrictWeakOn` -/
theorem StrictWeakOn.of_irrefl_trans {P : S → Prop} {lt : S → S → Bool}
    (hirr : ∀ a, P a → lt a a = false)
    (htr : ∀ a b c, P a → P b → P c → lt a b = true → lt b c = true → lt a c = true)
    (hneg : ∀ a b c, P a → P b → P c → lt a b = false → lt b c = false → lt a c = false) :
    StrictWeakOn P lt := by
  refine ⟨?_, hneg⟩
  intro a b ha hb hab
  cases hl : lt b a with
  | false => rfl
  | true => have := htr a b a ha hb ha hab hl; rw [hirr a ha] at this; cases this

/-- a total preorder `le` with `lt a b = !le b a` gives a strict weak order -/
theorem StrictWeakOn.of_le {P : S → Prop} {lt le : S → S → Bool}
    (hlt : ∀ a b, lt a b = !le b a)
    (htot : ∀ a b, P a → P b → le a b = true ∨ le b a = true)
    (htr : ∀ a b c, P a → P b → P c → le a b = true → le b c = true → le a c = true) :
    StrictWeakOn P lt := by
  constructor
  · intro a b ha hb hab
    rw [hlt] at hab ⊢
    rcases htot a b ha hb with h | h
    · simp [h]
    · simp [h] at hab
  · intro a b c ha hb hc hab hbc
    rw [hlt] at hab hbc ⊢
    simp only [Bool.not_eq_false'] at hab hbc ⊢
    exact htr c b a hc hb ha hbc hab

/-- `<` on `Nat` (the LFU and ARC comparison) is a strict weak order -/
theorem strictWeak_natLt : StrictWeak (fun a b : Nat => decide (a < b)) := by
  constructor
  · intro a b _ _ h; simp only [decide_eq_true_eq, decide_eq_false_iff_not] at *; omega
  · intro a b c _ _ _ h1 h2; simp only [decide_eq_true_eq, decide_eq_false_iff_not] at *; omega

/-- The scan continued from a current best `b` returns an element `r` of `b :: cs` such that
    everything before `r` is strictly greater and nothing in the list is strictly smaller. -/
theorem firstMinAux_spec {P : S → Prop} {lt : S → S → Bool} (h : StrictWeakOn P lt)
    (b : K × S) (cs : List (K × S)) (hP : ∀ x ∈ b :: cs, P x.2) :
    ∃ pre post, b :: cs = pre ++ firstMinAux lt b cs :: post ∧
      (∀ x ∈ pre, lt (firstMinAux lt b cs).2 x.2 = true) ∧
      (∀ x ∈ b :: cs, lt x.2 (firstMinAux lt b cs).2 = false) := by
  induction cs generalizing b with
  | nil =>
    refine ⟨[], [], rfl, by simp, ?_⟩
    intro x hx
    simp only [List.mem_singleton] at hx
    subst hx
    exact h.irrefl _ (hP _ List.mem_cons_self)
  | cons c cs ih =>
    have hPb : P b.2 := hP b List.mem_cons_self
    have hPc : P c.2 := hP c (List.mem_cons_of_mem _ List.mem_cons_self)
    simp only [firstMinAux]
    by_cases hcb : lt c.2 b.2 = true
    · rw [if_pos hcb]
      have hP' : ∀ x ∈ c :: cs, P x.2 := fun x hx => hP x (List.mem_cons_of_mem _ hx)
      obtain ⟨pre, post, he, h1, h2⟩ := ih c hP'
      generalize firstMinAux lt c cs = r at he h1 h2
      have hPr : P r.2 := hP' r (by rw [he]; simp)
      have hrb : lt r.2 b.2 = true :=
        h.lt_of_lt_of_not_lt hPc hPb hPr hcb (h2 c List.mem_cons_self)
      refine ⟨b :: pre, post, by rw [he]; rfl, ?_, ?_⟩
      · intro x hx
        rcases List.mem_cons.mp hx with hx | hx
        · subst hx; exact hrb
        · exact h1 x hx
      · intro x hx
        rcases List.mem_cons.mp hx with hx | hx
        · subst hx; exact h.asymm _ _ hPr hPb hrb
        · exact h2 x hx
    · rw [if_neg hcb]
      have hcb' : lt c.2 b.2 = false := by simpa using hcb
      have hP' : ∀ x ∈ b :: cs, P x.2 := by
        intro x hx
        rcases List.mem_cons.mp hx with hx | hx
        · subst hx; exact hPb
        · exact hP x (List.mem_cons_of_mem _ (List.mem_cons_of_mem _ hx))
      obtain ⟨pre, post, he, h1, h2⟩ := ih b hP'
      generalize firstMinAux lt b cs = r at he h1 h2
      have hPr : P r.2 := hP' r (by rw [he]; simp)
      have hbr : lt b.2 r.2 = false := h2 b List.mem_cons_self
      have hcr : lt c.2 r.2 = false := h.negTrans _ _ _ hPc hPb hPr hcb' hbr
      cases pre with
      | nil =>
        simp only [List.nil_append, List.cons.injEq] at he
        obtain ⟨hb, hcs⟩ := he
        subst hb
        refine ⟨[], c :: cs, rfl, by simp, ?_⟩
        intro x hx
        rcases List.mem_cons.mp hx with hx | hx
        · subst hx; exact hbr
        · rcases List.mem_cons.mp hx with hx | hx
          · subst hx; exact hcr
          · exact h2 x (List.mem_cons_of_mem _ hx)
      | cons p pre' =>
        simp only [List.cons_append, List.cons.injEq] at he
        obtain ⟨hb, hcs⟩ := he
        subst hb
        have hrb : lt r.2 b.2 = true := h1 b List.mem_cons_self
        have hrc : lt r.2 c.2 = true := by
          cases hl : lt r.2 c.2 with
          | true => rfl
          | false =>
            have := h.negTrans _ _ _ hPr hPc hPb hl hcb'
            rw [hrb] at this; cases this
        refine ⟨b :: c :: pre', post, by rw [hcs]; rfl, ?_, ?_⟩
        · intro x hx
          rcases List.mem_cons.mp hx with hx | hx
          · subst hx; exact hrb
          · rcases List.mem_cons.mp hx with hx | hx
            · subst hx; exact hrc
            · exact h1 x (List.mem_cons_of_mem _ hx)
        · intro x hx
          rcases List.mem_cons.mp hx with hx | hx
          · subst hx; exact hbr
          · rcases List.mem_cons.mp hx with hx | hx
            · subst hx; exact hcr
            · exact h2 x (List.mem_cons_of_mem _ hx)

/-- **Minimality of the scan.**  If `lt` is a strict weak order on the scores in `l`, the key
    returned by `firstMin` carries a score `s` such that no candidate has a strictly smaller score
    and every earlier candidate has a strictly larger one (it is the first minimiser in list order). -/
theorem firstMin_spec {P : S → Prop} {lt : S → S → Bool} (h : StrictWeakOn P lt)
    {l : List (K × S)} (hP : ∀ x ∈ l, P x.2) {k : K} (hk : firstMin lt l = some k) :
    ∃ pre s post, l = pre ++ (k, s) :: post ∧ (∀ x ∈ pre, lt s x.2 = true) ∧
      (∀ x ∈ l, lt x.2 s = false) := by
  cases l with
  | nil => simp [firstMin] at hk
  | cons c cs =>
    simp only [firstMin, Option.some.injEq] at hk
    obtain ⟨pre, post, he, h1, h2⟩ := firstMinAux_spec h c cs hP
    generalize firstMinAux lt c cs = r at hk he h1 h2
    obtain ⟨rk, rs⟩ := r
    simp only at hk; subst hk
    exact ⟨pre, rs, post, he, h1, h2⟩

/-! ### The candidate list -/

/-- every stored queue key occurs among the candidates with the score of its queue position -/
theorem mem_candsFrom (score : Entry V → Nat → Nat → S) (m : Store K V) (len : Nat) :
    ∀ (q : List K) (i0 j : Nat) (k : K) (e : Entry V), q[j]? = some k → lookup k m = some e →
      (k, score e (i0 + j) len) ∈ candsFrom score m len i0 q := by
  intro q
  induction q with
  | nil => intro i0 j k e hj; simp at hj
  | cons a q ih =>
    intro i0 j k e hj hl
    cases j with
    | zero =>
      simp only [List.getElem?_cons_zero, Option.some.injEq] at hj
      subst hj
      simp only [candsFrom, hl, Nat.add_zero]
      exact List.mem_cons_self
    | succ j =>
      simp only [List.getElem?_cons_succ] at hj
      have := ih (i0 + 1) j k e hj hl
      have he : i0 + 1 + j = i0 + (j + 1) := by omega
      rw [he] at this
      simp only [candsFrom]
      cases lookup a m with
      | none => exact this
      | some ea => exact List.mem_cons_of_mem _ this

/-- every candidate is a stored queue key with the score of its queue position -/
theorem candsFrom_mem (score : Entry V → Nat → Nat → S) (m : Store K V) (len : Nat) :
    ∀ (q : List K) (i0 : Nat) (x : K × S), x ∈ candsFrom score m len i0 q →
      ∃ j e, q[j]? = some x.1 ∧ lookup x.1 m = some e ∧ x.2 = score e (i0 + j) len := by
  intro q
  induction q with
  | nil => intro i0 x hx; simp [candsFrom] at hx
  | cons a q ih =>
    intro i0 x hx
    simp only [candsFrom] at hx
    cases hl : lookup a m with
    | none =>
      rw [hl] at hx
      obtain ⟨j, e, h1, h2, h3⟩ := ih (i0 + 1) x hx
      exact ⟨j + 1, e, by simpa using h1, h2, by rw [h3]; congr 1; omega⟩
    | some ea =>
      rw [hl] at hx
      rcases List.mem_cons.mp hx with hx | hx
      · subst hx; exact ⟨0, ea, by simp, hl, rfl⟩
      · obtain ⟨j, e, h1, h2, h3⟩ := ih (i0 + 1) x hx
        exact ⟨j + 1, e, by simpa using h1, h2, by rw [h3]; congr 1; omega⟩

/-- a candidate at a given place of the candidate list sits at some queue index `j`, and every stored
    queue key at a smaller index is among the candidates before it -/
theorem candsFrom_split (score : Entry V → Nat → Nat → S) (m : Store K V) (len : Nat) :
    ∀ (q : List K) (i0 : Nat) (pre : List (K × S)) (k : K) (s : S) (post : List (K × S)),
      candsFrom score m len i0 q = pre ++ (k, s) :: post →
      ∃ j e, q[j]? = some k ∧ lookup k m = some e ∧ s = score e (i0 + j) len ∧
        ∀ j' k' e', j' < j → q[j']? = some k' → lookup k' m = some e' →
          (k', score e' (i0 + j') len) ∈ pre := by
  intro q
  induction q with
  | nil => intro i0 pre k s post h; simp [candsFrom] at h
  | cons a q ih =>
    intro i0 pre k s post h
    simp only [candsFrom] at h
    cases hl : lookup a m with
    | none =>
      rw [hl] at h
      obtain ⟨j, e, h1, h2, h3, h4⟩ := ih (i0 + 1) pre k s post h
      refine ⟨j + 1, e, by simpa using h1, h2, by rw [h3]; congr 1; omega, ?_⟩
      intro j' k' e' hj' hq' hl'
      cases j' with
      | zero =>
        simp only [List.getElem?_cons_zero, Option.some.injEq] at hq'
        subst hq'; rw [hl] at hl'; cases hl'
      | succ j' =>
        simp only [List.getElem?_cons_succ] at hq'
        have := h4 j' k' e' (by omega) hq' hl'
        have he : i0 + 1 + j' = i0 + (j' + 1) := by omega
        rw [he] at this; exact this
    | some ea =>
      rw [hl] at h
      cases pre with
      | nil =>
        simp only [List.nil_append, List.cons.injEq, Prod.mk.injEq] at h
        obtain ⟨⟨hk, hs⟩, _⟩ := h
        subst hk
        exact ⟨0, ea, by simp, hl, hs.symm, by intro j' k' e' hj'; omega⟩
      | cons p pre' =>
        simp only [List.cons_append, List.cons.injEq] at h
        obtain ⟨hp, h⟩ := h
        obtain ⟨j, e, h1, h2, h3, h4⟩ := ih (i0 + 1) pre' k s post h
        refine ⟨j + 1, e, by simpa using h1, h2, by rw [h3]; congr 1; omega, ?_⟩
        intro j' k' e' hj' hq' hl'
        cases j' with
        | zero =>
          simp only [List.getElem?_cons_zero, Option.some.injEq] at hq'
          subst hq'; rw [hl] at hl'; cases hl'
          rw [← hp]; exact List.mem_cons_self
        | succ j' =>
          simp only [List.getElem?_cons_succ] at hq'
          have := h4 j' k' e' (by omega) hq' hl'
          have he : i0 + 1 + j' = i0 + (j' + 1) := by omega
          rw [he] at this; exact List.mem_cons_of_mem _ this

/-- `k` is the **first minimiser** of `score` (compared with `lt`) among the stored queue keys:
    it sits at queue index `i` with entry `e`, no stored queue key has a strictly smaller score,
    and every stored queue key in front of it has a strictly larger score. -/
def FirstMinAt (lt : S → S → Bool) (score : Entry V → Nat → Nat → S) (m : Store K V) (q : List K)
    (k : K) : Prop :=
  ∃ i e, q[i]? = some k ∧ lookup k m = some e ∧
    (∀ j k' e', q[j]? = some k' → lookup k' m = some e' →
      lt (score e' j q.length) (score e i q.length) = false) ∧
    (∀ j k' e', j < i → q[j]? = some k' → lookup k' m = some e' →
      lt (score e i q.length) (score e' j q.length) = true)

/-- the scan over the candidates of a queue returns the first minimiser -/
theorem scan_spec {P : S → Prop} {lt : S → S → Bool} (h : StrictWeakOn P lt)
    {score : Entry V → Nat → Nat → S} {m : Store K V} {q : List K}
    (hP : ∀ e i, i < q.length → P (score e i q.length)) {k : K}
    (hk : firstMin lt (cands score m q) = some k) : FirstMinAt lt score m q k := by
  have hP' : ∀ x ∈ cands score m q, P x.2 := by
    intro x hx
    obtain ⟨j, e, h1, _, h3⟩ := candsFrom_mem score m q.length q 0 x hx
    rw [h3, Nat.zero_add]
    exact hP e j (by
      apply Classical.byContradiction; intro hn
      rw [List.getElem?_eq_none (by omega)] at h1; cases h1)
  obtain ⟨pre, s, post, he, h1, h2⟩ := firstMin_spec h hP' hk
  obtain ⟨i, e, hq, hl, hs, hpre⟩ := candsFrom_split score m q.length q 0 pre k s post he
  rw [Nat.zero_add] at hs
  refine ⟨i, e, hq, hl, ?_, ?_⟩
  · intro j k' e' hq' hl'
    have := mem_candsFrom score m q.length q 0 j k' e' hq' hl'
    rw [Nat.zero_add] at this
    rw [← hs]; exact h2 _ this
  · intro j k' e' hj hq' hl'
    have := hpre j k' e' hj hq' hl'
    rw [Nat.zero_add] at this
    rw [← hs]; exact h1 _ this


/-! ### The three score functions of `victim` -/

/-- `score < best` on `Nat` -/
abbrev natLt : Nat → Nat → Bool := fun a b => decide (a < b)

/-- LFU score: the hit counter -/
abbrev lfuScore : Entry V → Nat → Nat → Nat := fun e _ _ => e.hits

/-- ARC score: hits × recency rank -/
abbrev arcScore (cfg : Cfg) : Entry V → Nat → Nat → Nat := fun e i len => e.hits * rank cfg i len

/-- TLRU score in the abstract score type -/
abbrev tlruScore (cfg : Cfg) (tl : Tlru S) (now : Nat) : Entry V → Nat → Nat → S :=
  fun e i len => tl.score cfg e.hits (elapsedMs cfg now e.birth) (rank cfg i len)

/-- the policies whose eviction is a score scan -/
def Scored (cfg : Cfg) : Prop := cfg.policy = .lfu ∨ cfg.policy = .arc ∨ cfg.policy = .tlru

/-- under LFU `victim` is the scan of the hit counters -/
theorem victim_lfu_eq {cfg : Cfg} (tl : Tlru S) (now : Nat) (m : Store K V) (q : List K)
    (hp : cfg.policy = .lfu) : victim cfg tl now m q = firstMin natLt (cands lfuScore m q) := by
  unfold victim; rw [hp]

/-- under ARC `victim` is the scan of `hits × rank` -/
theorem victim_arc_eq {cfg : Cfg} (tl : Tlru S) (now : Nat) (m : Store K V) (q : List K)
    (hp : cfg.policy = .arc) : victim cfg tl now m q = firstMin natLt (cands (arcScore cfg) m q) := by
  unfold victim; rw [hp]

/-- under TLRU `victim` is the scan of the abstract TLRU score -/
theorem victim_tlru_eq {cfg : Cfg} (tl : Tlru S) (now : Nat) (m : Store K V) (q : List K)
    (hp : cfg.policy = .tlru) :
    victim cfg tl now m q = firstMin tl.lt (cands (tlruScore cfg tl now) m q) := by
  unfold victim; rw [hp]

/-- the recency rank of a queue position is positive, in either orientation -/
theorem rank_pos (cfg : Cfg) {i len : Nat} (h : i < len) : 0 < rank cfg i len := by
  unfold rank; cases cfg.flavour <;> simp only <;> omega

/-- an occupied index is within the list -/
theorem getElem?_lt {q : List K} {i : Nat} {k : K} (h : q[i]? = some k) : i < q.length := by
  apply Classical.byContradiction; intro hn
  rw [List.getElem?_eq_none (by omega)] at h; cases h

/-- in a duplicate-free list an element has one index -/
theorem getElem?_unique {q : List K} (hn : q.Nodup) {i j : Nat} {k : K}
    (hi : q[i]? = some k) (hj : q[j]? = some k) : i = j :=
  (List.getElem?_inj (getElem?_lt hi) hn).mp (hi.trans hj.symm)

/-! ### Entries with a "zero" score: the first of them is the victim -/

/-- `k` is the first queue key whose stored entry satisfies `Zp` -/
def FirstWith (Zp : Entry V → Prop) (m : Store K V) (q : List K) (k : K) : Prop :=
  ∃ (i : Nat) (e : Entry V), q[i]? = some k ∧ lookup k m = some e ∧ Zp e ∧
    ∀ (j : Nat) k' e', j < i → q[j]? = some k' → lookup k' m = some e' → ¬ Zp e'

/-- there is at most one first queue key satisfying `Zp` -/
theorem FirstWith.unique {Zp : Entry V → Prop} {m : Store K V} {q : List K} {k1 k2 : K}
    (h1 : FirstWith Zp m q k1) (h2 : FirstWith Zp m q k2) : k1 = k2 := by
  obtain ⟨i1, e1, hq1, hl1, hz1, hf1⟩ := h1
  obtain ⟨i2, e2, hq2, hl2, hz2, hf2⟩ := h2
  have : i1 = i2 := by
    apply Classical.byContradiction; intro hne
    rcases Nat.lt_or_gt_of_ne hne with h | h
    · exact hf2 i1 k1 e1 h hq1 hl1 hz1
    · exact hf1 i2 k2 e2 h hq2 hl2 hz2
  subst this
  rw [hq1] at hq2; exact Option.some.inj hq2

/-- If entries satisfying `Zp` score (equivalently to) a bottom element `z`, all other entries score
    strictly above `z`, and some stored queue key satisfies `Zp`, then the first minimiser is the
    first queue key satisfying `Zp` — whatever else the score function does. -/
theorem FirstMinAt.first_zero {P : S → Prop} {lt : S → S → Bool} (h : StrictWeakOn P lt)
    {score : Entry V → Nat → Nat → S} {m : Store K V} {q : List K}
    (hP : ∀ e i, i < q.length → P (score e i q.length))
    {Zp : Entry V → Prop} {z : S} (hPz : P z)
    (hz : ∀ e i, i < q.length → Zp e → lt z (score e i q.length) = false)
    (hpos : ∀ e i, i < q.length → ¬ Zp e → lt z (score e i q.length) = true)
    (hbot : ∀ s, P s → lt s z = false)
    (hex : ∃ (j : Nat) (k0 : K) (e0 : Entry V), q[j]? = some k0 ∧ lookup k0 m = some e0 ∧ Zp e0)
    {k : K} (hk : FirstMinAt lt score m q k) : FirstWith Zp m q k := by
  obtain ⟨i, e, hq, hl, hmin, hfirst⟩ := hk
  obtain ⟨j0, k0, e0, hq0, hl0, hz0⟩ := hex
  have hi := getElem?_lt hq
  have hj0 := getElem?_lt hq0
  refine ⟨i, e, hq, hl, ?_, ?_⟩
  · apply Classical.byContradiction; intro hn
    have h1 := hpos e i hi hn
    have h2 := hmin j0 k0 e0 hq0 hl0
    have h3 := hz e0 j0 hj0 hz0
    have := h.negTrans _ _ _ hPz (hP e0 j0 hj0) (hP e i hi) h3 h2
    rw [h1] at this; cases this
  · intro j k' e' hj hq' hl' hz'
    have hj' := getElem?_lt hq'
    have h1 := hfirst j k' e' hj hq' hl'
    have h2 := hz e' j hj' hz'
    have h3 := hbot _ (hP e i hi)
    have := h.negTrans _ _ _ (hP e i hi) hPz (hP e' j hj') h3 h2
    rw [h1] at this; cases this

/-! ### Memory accounting -/

/-- removing a key never increases the total size -/
theorem totalMem_erase_le (size : V → Nat) (k : K) (m : Store K V) :
    totalMem size (eraseKey k m) ≤ totalMem size m := by
  induction m with
  | nil => exact Nat.le_refl _
  | cons a m ih =>
    obtain ⟨x, e⟩ := a
    rw [eraseKey_cons]
    split
    · simp only [totalMem, List.map_cons, List.sum_cons] at ih ⊢; omega
    · simp only [totalMem, List.map_cons, List.sum_cons] at ih ⊢; omega

/-- removals of two keys commute -/
theorem eraseKey_comm (a b : K) (m : Store K V) :
    eraseKey a (eraseKey b m) = eraseKey b (eraseKey a m) := by
  unfold eraseKey
  rw [List.filter_filter, List.filter_filter]
  congr 1; funext p; exact Bool.and_comm _ _

/-- storing `k` and removing `k` again is removing `k` -/
theorem eraseKey_put_self (k : K) (e : Entry V) (m : Store K V) :
    eraseKey k (put k e m) = eraseKey k m := by
  simp [put, eraseKey, List.filter_append, List.filter_filter]

/-! ### Chains of evictions -/

/-- `(m', q')` is reached from `(m, q)` by removing keys `x₁, x₂, …` one after the other (from the
    store and from the queue), each `xᵢ` satisfying `Φ` in the store/queue it is removed from. -/
inductive EvictChain (Φ : Store K V → List K → K → Prop) :
    Store K V → List K → Store K V → List K → Prop
  | nil (m : Store K V) (q : List K) : EvictChain Φ m q m q
  | cons {m : Store K V} {q : List K} {x : K} {m' : Store K V} {q' : List K} :
      Φ m q x → EvictChain Φ (eraseKey x m) (q.filter (fun y => y ≠ x)) m' q' → EvictChain Φ m q m' q'

/-- a chain for `Φ` is a chain for every weaker `Ψ` -/
theorem EvictChain.mono {Φ Ψ : Store K V → List K → K → Prop} (hΦ : ∀ m q x, Φ m q x → Ψ m q x)
    {m : Store K V} {q : List K} {m' : Store K V} {q' : List K} (h : EvictChain Φ m q m' q') :
    EvictChain Ψ m q m' q' := by
  induction h with
  | nil m q => exact .nil m q
  | cons hx _ ih => exact .cons (hΦ _ _ _ hx) ih

/-- chains compose -/
theorem EvictChain.trans {Φ : Store K V → List K → K → Prop}
    {m : Store K V} {q : List K} {m1 : Store K V} {q1 : List K} {m2 : Store K V} {q2 : List K}
    (h1 : EvictChain Φ m q m1 q1) (h2 : EvictChain Φ m1 q1 m2 q2) : EvictChain Φ m q m2 q2 := by
  induction h1 with
  | nil m q => exact h2
  | cons hx _ ih => exact .cons hx (ih h2)

/-- a single `Φ`-removal is a chain -/
theorem EvictChain.single {Φ : Store K V → List K → K → Prop} {m : Store K V} {q : List K} {x : K}
    (h : Φ m q x) : EvictChain Φ m q (eraseKey x m) (q.filter (fun y => y ≠ x)) :=
  .cons h (.nil _ _)

/-- a chain never grows the store -/
theorem EvictChain.length_le {Φ : Store K V → List K → K → Prop}
    {m : Store K V} {q : List K} {m' : Store K V} {q' : List K} (h : EvictChain Φ m q m' q') :
    m'.length ≤ m.length := by
  induction h with
  | nil m q => exact Nat.le_refl _
  | cons hx _ ih => exact Nat.le_trans ih (length_eraseKey_le _ _)

/-- along a chain a key either keeps its entry or the store has shrunk -/
theorem EvictChain.lookup_or_shrink {Φ : Store K V → List K → K → Prop}
    (hΦ : ∀ m q x, Φ m q x → (keys m).Nodup ∧ x ∈ keys m)
    {m : Store K V} {q : List K} {m' : Store K V} {q' : List K} (h : EvictChain Φ m q m' q') (k : K) :
    lookup k m' = lookup k m ∨ m'.length + 1 ≤ m.length := by
  induction h with
  | nil m q => left; rfl
  | @cons m q x m' q' hx hc ih =>
    have hl := hc.length_le
    obtain ⟨hn, hxm⟩ := hΦ _ _ _ hx
    have := length_eraseKey_of_mem hn hxm
    by_cases hxk : k = x
    · right; omega
    · rcases ih with ih | ih
      · left; rw [ih, lookup_eraseKey_ne hxk]
      · right; omega

/-- every key of the final store of a chain was in the initial store with the same entry -/
theorem EvictChain.lookup_sub {Φ : Store K V → List K → K → Prop}
    {m : Store K V} {q : List K} {m' : Store K V} {q' : List K} (h : EvictChain Φ m q m' q')
    {k : K} {e : Entry V} (hl : lookup k m' = some e) : lookup k m = some e := by
  induction h with
  | nil m q => exact hl
  | @cons m q x m' q' hx hc ih =>
    have := ih hl
    by_cases hxk : k = x
    · subst hxk; rw [lookup_eraseKey_self] at this; cases this
    · rwa [lookup_eraseKey_ne hxk] at this

/-- what one scored eviction does under the invariant -/
theorem evictScored_eq {m : Store K V} {q : List K} (h : InvMQ m q) (cfg : Cfg) (tl : Tlru S) (now : Nat) :
    evictScored cfg tl now m q =
      match victim cfg tl now m q with
      | none => (m, q, false)
      | some x => (eraseKey x m, q.filter (fun y => y ≠ x), true) := by
  unfold evictScored
  cases victim cfg tl now m q with
  | none => rfl
  | some x => simp only [removeBoth_eq h cfg x]

/-- the entry-limit eviction of a scored policy is the score scan -/
theorem evictLimit_scored {cfg : Cfg} (hp : Scored cfg) (tl : Tlru S) (now r : Nat) (m : Store K V) (q : List K) :
    evictLimit cfg tl now r m q = evictScored cfg tl now m q := by
  unfold evictLimit
  rcases hp with hp | hp | hp <;> rw [hp]

/-- the memory-loop eviction of a scored policy is the score scan -/
theorem evictMem_scored {cfg : Cfg} (hp : Scored cfg) (tl : Tlru S) (now r : Nat) (m : Store K V) (q : List K) :
    evictMem cfg tl now r m q = evictScored cfg tl now m q := by
  unfold evictMem
  rcases hp with hp | hp | hp <;> rw [hp]

/-- the eviction predicate of the scored policies: consistent state, `x` is the scan's victim -/
def IsVictim (cfg : Cfg) (tl : Tlru S) (now : Nat) (m : Store K V) (q : List K) (x : K) : Prop :=
  InvMQ m q ∧ victim cfg tl now m q = some x

/-- the entry-limit step of a scored policy: nothing happens, or the limit is exceeded and the scan's
    victim is removed -/
theorem limitStep_scored_cases {cfg : Cfg} (hp : Scored cfg) (tl : Tlru S) (now r : Nat)
    {m : Store K V} {q : List K} (h : InvMQ m q) :
    limitStep cfg tl now r m q = (m, q) ∨
    ∃ n x, cfg.limit = some n ∧ overLimit cfg n m q = true ∧ victim cfg tl now m q = some x ∧
      limitStep cfg tl now r m q = (eraseKey x m, q.filter (fun y => y ≠ x)) := by
  unfold limitStep
  cases hl : cfg.limit with
  | none => left; rfl
  | some n =>
    simp only
    by_cases ho : overLimit cfg n m q = true
    · simp only [ho, if_true]
      rw [evictLimit_scored hp, evictScored_eq h]
      cases hv : victim cfg tl now m q with
      | none => left; rfl
      | some x => right; exact ⟨n, x, rfl, ho, rfl, rfl⟩
    · left; simp only [ho, if_false, Bool.false_eq_true]

/-- the entry-limit step of a scored policy is a chain of (at most one) scan victims -/
theorem limitStep_chain {cfg : Cfg} (hp : Scored cfg) (tl : Tlru S) (now r : Nat)
    {m : Store K V} {q : List K} (h : InvMQ m q) :
    EvictChain (IsVictim cfg tl now) m q (limitStep cfg tl now r m q).1 (limitStep cfg tl now r m q).2 := by
  rcases limitStep_scored_cases hp tl now r h with he | ⟨n, x, _, _, hv, he⟩
  · rw [he]; exact .nil _ _
  · rw [he]; exact .single ⟨h, hv⟩

/-- the memory loop does nothing when the store already fits -/
theorem memLoop_of_le (cfg : Cfg) (tl : Tlru S) (size : V → Nat) (now maxM extra fuel : Nat) (rs : List Nat)
    (m : Store K V) (q : List K) (h : totalMem size m + extra ≤ maxM) :
    memLoop cfg tl size now maxM extra fuel rs m q = (m, q, rs) := by
  cases fuel with
  | zero => rfl
  | succ fuel => simp only [memLoop, h, if_true]

/-- the memory loop of a scored policy is a chain of scan victims, each removed while the memory
    bound was still exceeded -/
theorem memLoop_chain {cfg : Cfg} (hp : Scored cfg) (tl : Tlru S) (size : V → Nat) (now maxM extra : Nat)
    (fuel : Nat) (rs : List Nat) {m : Store K V} {q : List K} (h : InvMQ m q) :
    EvictChain (fun m q x => IsVictim cfg tl now m q x ∧ ¬ totalMem size m + extra ≤ maxM) m q
      (memLoop cfg tl size now maxM extra fuel rs m q).1
      (memLoop cfg tl size now maxM extra fuel rs m q).2.1 := by
  induction fuel generalizing rs m q with
  | zero => exact .nil _ _
  | succ fuel ih =>
    simp only [memLoop]
    split
    · exact .nil _ _
    · rename_i hmem
      rw [evictMem_scored hp, evictScored_eq h]
      cases hv : victim cfg tl now m q with
      | none => exact .nil _ _
      | some x =>
        simp only [if_true]
        exact .cons ⟨⟨h, hv⟩, hmem⟩ (ih rs.tail (h.remove x))

/-- Sync memory loop with the newcomer `k` (never hit) in the store, when the store without the
    newcomer fits the memory bound: every victim is chosen while the newcomer is still stored. -/
theorem memLoop_chain_newcomer {cfg : Cfg} (hp : Scored cfg) (tl : Tlru S) (size : V → Nat) (now maxM extra : Nat)
    (k : K) (fuel : Nat) (rs : List Nat) {m : Store K V} {q : List K} (h : InvMQ m q)
    (hk : ∃ e0, lookup k m = some e0 ∧ e0.hits = 0)
    (hfit : totalMem size (eraseKey k m) + extra ≤ maxM) :
    EvictChain (fun m q x => IsVictim cfg tl now m q x ∧ ∃ e0, lookup k m = some e0 ∧ e0.hits = 0) m q
      (memLoop cfg tl size now maxM extra fuel rs m q).1
      (memLoop cfg tl size now maxM extra fuel rs m q).2.1 := by
  induction fuel generalizing rs m q with
  | zero => exact .nil _ _
  | succ fuel ih =>
    simp only [memLoop]
    split
    · exact .nil _ _
    · rw [evictMem_scored hp, evictScored_eq h]
      cases hv : victim cfg tl now m q with
      | none => exact .nil _ _
      | some x =>
        simp only [if_true]
        refine .cons ⟨⟨h, hv⟩, hk⟩ ?_
        by_cases hxk : x = k
        · subst hxk
          rw [memLoop_of_le _ _ _ _ _ _ _ _ _ _ hfit]
          exact .nil _ _
        · refine ih rs.tail (h.remove x) ?_ ?_
          · rw [lookup_eraseKey_ne (fun hh => hxk hh.symm)]; exact hk
          · rw [eraseKey_comm]
            exact Nat.le_trans (Nat.add_le_add_right (totalMem_erase_le size x _) extra) hfit


/-! ### Normal form of the two store operations -/

/-- store and queue on which the evictions of a store of `k` act: sync engines have already written
    the newcomer (hits = 0) and moved the key to the back; the async engine has only dropped a
    previous entry of the same key -/
def preEvict (cfg : Cfg) (s : State K V) (k : K) (v : V) : Store K V × List K :=
  match cfg.flavour with
  | .async =>
    if hasKey k s.store then (eraseKey k s.store, s.queue.filter (fun x => x ≠ k)) else (s.store, s.queue)
  | _ => (put k ⟨v, stamp cfg s.now, 0⟩ s.store, erasePush k s.queue)

/-- what happens to the store after the evictions: the async engine writes the newcomer now -/
def finishStore (cfg : Cfg) (s : State K V) (k : K) (v : V) (m : Store K V) : Store K V :=
  match cfg.flavour with
  | .async => put k ⟨v, stamp cfg s.now, 0⟩ m
  | _ => m

/-- what happens to the queue after the evictions: the async engine appends the key now -/
def finishQueue (cfg : Cfg) (k : K) (q : List K) : List K :=
  match cfg.flavour with
  | .async => q ++ [k]
  | _ => q

/-- the `extra` argument of the memory loop -/
def memExtra (cfg : Cfg) (size : V → Nat) (v : V) : Nat :=
  match cfg.flavour with
  | .async => size v
  | _ => 0

/-- the pre-eviction state satisfies the bookkeeping invariant -/
theorem preEvict_inv (cfg : Cfg) {s : State K V} (k : K) (v : V) (hi : Inv s) :
    InvMQ (preEvict cfg s k v).1 (preEvict cfg s k v).2 := by
  unfold preEvict
  cases cfg.flavour <;> simp only
  · exact InvMQ.put_erasePush hi k _
  · exact InvMQ.put_erasePush hi k _
  · exact asyncDrop_inv hi k

/-- `insert` = pre-eviction state, entry-limit step, finish (all flavours, all policies) -/
theorem insert_eq (cfg : Cfg) (tl : Tlru S) (r : Nat) (s : State K V) (k : K) (v : V) :
    insert cfg tl r s k v =
      { s with
        store := finishStore cfg s k v (limitStep cfg tl s.now r (preEvict cfg s k v).1 (preEvict cfg s k v).2).1
        queue := finishQueue cfg k (limitStep cfg tl s.now r (preEvict cfg s k v).1 (preEvict cfg s k v).2).2 } := by
  unfold insert preEvict finishStore finishQueue
  cases cfg.flavour <;> rfl

/-- `insertMem` without `max_memory` = pre-eviction state, entry-limit step, finish -/
theorem insertMem_eq_none (cfg : Cfg) (tl : Tlru S) (size : V → Nat) (rs : List Nat) (s : State K V) (k : K) (v : V)
    (hm : cfg.maxMem = none) :
    insertMem cfg tl size rs s k v =
      { s with
        store := finishStore cfg s k v
          (limitStep cfg tl s.now (rs.headD 0) (preEvict cfg s k v).1 (preEvict cfg s k v).2).1
        queue := finishQueue cfg k
          (limitStep cfg tl s.now (rs.headD 0) (preEvict cfg s k v).1 (preEvict cfg s k v).2).2 } := by
  unfold insertMem preEvict finishStore finishQueue
  cases cfg.flavour <;> simp only [hm] <;> rfl

/-- the result of the memory loop of `insertMem` -/
def memLoopOf (cfg : Cfg) (tl : Tlru S) (size : V → Nat) (rs : List Nat) (s : State K V) (k : K) (v : V)
    (maxM : Nat) : Store K V × List K × List Nat :=
  memLoop cfg tl size s.now maxM (memExtra cfg size v) ((preEvict cfg s k v).2.length + 1) rs
    (preEvict cfg s k v).1 (preEvict cfg s k v).2

/-- `insertMem` of a fitting value = pre-eviction state, memory loop, entry-limit step, finish -/
theorem insertMem_eq_fits (cfg : Cfg) (tl : Tlru S) (size : V → Nat) (rs : List Nat) (s : State K V) (k : K) (v : V)
    {maxM : Nat} (hm : cfg.maxMem = some maxM) (hfit : ¬ size v > maxM) :
    insertMem cfg tl size rs s k v =
      { s with
        store := finishStore cfg s k v
          (limitStep cfg tl s.now ((memLoopOf cfg tl size rs s k v maxM).2.2.headD 0)
            (memLoopOf cfg tl size rs s k v maxM).1 (memLoopOf cfg tl size rs s k v maxM).2.1).1
        queue := finishQueue cfg k
          (limitStep cfg tl s.now ((memLoopOf cfg tl size rs s k v maxM).2.2.headD 0)
            (memLoopOf cfg tl size rs s k v maxM).1 (memLoopOf cfg tl size rs s k v maxM).2.1).2 } := by
  unfold insertMem memLoopOf preEvict finishStore finishQueue memExtra
  cases cfg.flavour <;> simp only [hm, hfit, if_false] <;> rfl

/-- the oversize early return of `insertMem`: no eviction, the key itself ends up absent -/
theorem insertMem_oversize_store (cfg : Cfg) (tl : Tlru S) (size : V → Nat) (rs : List Nat) (s : State K V)
    (k : K) (v : V) {maxM : Nat} (hm : cfg.maxMem = some maxM) (hbig : size v > maxM) :
    (insertMem cfg tl size rs s k v).store = eraseKey k s.store := by
  unfold insertMem
  cases cfg.flavour <;> simp only [hm, hbig, if_true]
  · exact eraseKey_put_self _ _ _
  · exact eraseKey_put_self _ _ _
  · split
    · rfl
    · rename_i hh
      exact (eraseKey_of_not_mem ((hasKey_false_iff k s.store).mp (by simpa using hh))).symm

/-- every store of a scored policy is a chain of scan victims (at most one) on the pre-eviction state -/
theorem insert_chain {cfg : Cfg} (hp : Scored cfg) (tl : Tlru S) (r : Nat) {s : State K V} (k : K) (v : V)
    (hi : Inv s) :
    ∃ m1 q1, EvictChain (IsVictim cfg tl s.now) (preEvict cfg s k v).1 (preEvict cfg s k v).2 m1 q1 ∧
      (insert cfg tl r s k v).store = finishStore cfg s k v m1 ∧
      (insert cfg tl r s k v).queue = finishQueue cfg k q1 := by
  rw [insert_eq]
  exact ⟨_, _, limitStep_chain hp tl s.now r (preEvict_inv cfg k v hi), rfl, rfl⟩

/-- a memory-aware store of a scored policy either returns early (oversize value) or is a chain of
    scan victims on the pre-eviction state: the memory loop followed by the entry-limit step -/
theorem insertMem_chain {cfg : Cfg} (hp : Scored cfg) (tl : Tlru S) (size : V → Nat) (rs : List Nat)
    {s : State K V} (k : K) (v : V) (hi : Inv s) :
    (∃ maxM, cfg.maxMem = some maxM ∧ size v > maxM) ∨
    ∃ m2 q2, EvictChain (IsVictim cfg tl s.now) (preEvict cfg s k v).1 (preEvict cfg s k v).2 m2 q2 ∧
      (insertMem cfg tl size rs s k v).store = finishStore cfg s k v m2 ∧
      (insertMem cfg tl size rs s k v).queue = finishQueue cfg k q2 := by
  have h0 := preEvict_inv cfg k v hi
  cases hm : cfg.maxMem with
  | none =>
    right
    rw [insertMem_eq_none _ _ _ _ _ _ _ hm]
    exact ⟨_, _, limitStep_chain hp tl s.now _ h0, rfl, rfl⟩
  | some maxM =>
    by_cases hbig : size v > maxM
    · left; exact ⟨maxM, rfl, hbig⟩
    · right
      rw [insertMem_eq_fits _ _ _ _ _ _ _ hm hbig]
      have h1 := memLoop_inv cfg tl size s.now maxM (memExtra cfg size v) ((preEvict cfg s k v).2.length + 1) rs h0
      have c1 := (memLoop_chain hp tl size s.now maxM (memExtra cfg size v)
        ((preEvict cfg s k v).2.length + 1) rs h0).mono (fun _ _ _ h => h.1)
      exact ⟨_, _, c1.trans (limitStep_chain hp tl s.now _ h1), rfl, rfl⟩

/-- a store adds at most one entry -/
theorem length_put_le (k : K) (e : Entry V) (m : Store K V) : (put k e m).length ≤ m.length + 1 := by
  have := length_eraseKey_le k m
  simp only [put, List.length_append, List.length_singleton]; omega

/-- sync engines: the pre-eviction state already contains the newcomer with `hits = 0` -/
theorem preEvict_sync {cfg : Cfg} (hf : cfg.flavour ≠ .async) (s : State K V) (k : K) (v : V) :
    preEvict cfg s k v = (put k ⟨v, stamp cfg s.now, 0⟩ s.store, erasePush k s.queue) := by
  unfold preEvict
  cases h : cfg.flavour <;> simp only <;> first | rfl | exact absurd h hf

/-- sync engines: nothing is written after the evictions -/
theorem finishStore_sync {cfg : Cfg} (hf : cfg.flavour ≠ .async) (s : State K V) (k : K) (v : V)
    (m : Store K V) : finishStore cfg s k v m = m := by
  unfold finishStore
  cases h : cfg.flavour <;> simp only <;> first | rfl | exact absurd h hf

/-- sync engines: the queue is not touched after the evictions -/
theorem finishQueue_sync {cfg : Cfg} (hf : cfg.flavour ≠ .async) (k : K) (q : List K) :
    finishQueue cfg k q = q := by
  unfold finishQueue
  cases h : cfg.flavour <;> simp only <;> first | rfl | exact absurd h hf

/-- the newcomer is stored, never hit, when a sync engine starts evicting -/
theorem preEvict_sync_newcomer {cfg : Cfg} (hf : cfg.flavour ≠ .async) (s : State K V) (k : K) (v : V) :
    ∃ e0, lookup k (preEvict cfg s k v).1 = some e0 ∧ e0.hits = 0 := by
  rw [preEvict_sync hf]
  exact ⟨_, lookup_put_self _ _ _, rfl⟩

/-- the eviction predicate of the sync engines: the scan's victim, chosen while the newcomer `k`
    (never hit) is still stored -/
def IsVictimWith (cfg : Cfg) (tl : Tlru S) (now : Nat) (k : K) (m : Store K V) (q : List K) (x : K) : Prop :=
  IsVictim cfg tl now m q x ∧ ∃ e0, lookup k m = some e0 ∧ e0.hits = 0

/-- Sync engines, plain store: the (at most one) victim is chosen with the newcomer present. -/
theorem insert_chain_sync {cfg : Cfg} (hp : Scored cfg) (hf : cfg.flavour ≠ .async) (tl : Tlru S) (r : Nat)
    {s : State K V} (k : K) (v : V) (hi : Inv s) :
    ∃ m1 q1, EvictChain (IsVictimWith cfg tl s.now k) (preEvict cfg s k v).1 (preEvict cfg s k v).2 m1 q1 ∧
      (insert cfg tl r s k v).store = m1 ∧ (insert cfg tl r s k v).queue = q1 := by
  rw [insert_eq]
  have h0 := preEvict_inv cfg k v hi
  refine ⟨_, _, ?_, finishStore_sync hf s k v _, finishQueue_sync hf k _⟩
  rcases limitStep_scored_cases hp tl s.now r h0 with he | ⟨n, x, _, _, hv, he⟩
  · rw [he]; exact .nil _ _
  · rw [he]; exact .single ⟨⟨h0, hv⟩, preEvict_sync_newcomer hf s k v⟩

/-- Sync engines, memory-aware store, started in a state that respects the memory bound and the entry
    limit (the invariants of C05 / C04): every victim of the memory loop and of the final entry-limit
    step is chosen with the newcomer still present. -/
theorem insertMem_chain_sync {cfg : Cfg} (hp : Scored cfg) (hf : cfg.flavour ≠ .async) (tl : Tlru S)
    (size : V → Nat) (rs : List Nat) {s : State K V} (k : K) (v : V) (hi : Inv s)
    (hmem : ∀ maxM, cfg.maxMem = some maxM → totalMem size s.store ≤ maxM)
    (hlim : ∀ n, cfg.limit = some n → s.store.length ≤ n) :
    (∃ maxM, cfg.maxMem = some maxM ∧ size v > maxM) ∨
    ∃ m2 q2, EvictChain (IsVictimWith cfg tl s.now k) (preEvict cfg s k v).1 (preEvict cfg s k v).2 m2 q2 ∧
      (insertMem cfg tl size rs s k v).store = m2 ∧ (insertMem cfg tl size rs s k v).queue = q2 := by
  have h0 := preEvict_inv cfg k v hi
  have hnew := preEvict_sync_newcomer hf s k v
  -- the final entry-limit step, from a state reached by a chain with the newcomer present
  have fin : ∀ (m1 : Store K V) (q1 : List K) (r : Nat), InvMQ m1 q1 →
      EvictChain (IsVictimWith cfg tl s.now k) (preEvict cfg s k v).1 (preEvict cfg s k v).2 m1 q1 →
      EvictChain (IsVictimWith cfg tl s.now k) (preEvict cfg s k v).1 (preEvict cfg s k v).2
        (limitStep cfg tl s.now r m1 q1).1 (limitStep cfg tl s.now r m1 q1).2 := by
    intro m1 q1 r h1 c1
    rcases limitStep_scored_cases hp tl s.now r h1 with he | ⟨n, x, hl, ho, hv, he⟩
    · rw [he]; exact c1
    · rw [he]
      refine c1.trans (.single ⟨⟨h1, hv⟩, ?_⟩)
      rcases c1.lookup_or_shrink (fun m q x hx => ⟨hx.1.1.1, (victim_mem hx.1.2).2⟩) k with hk | hk
      · rw [hk]; exact hnew
      · exfalso
        have hlen : (preEvict cfg s k v).1.length ≤ s.store.length + 1 := by
          rw [preEvict_sync hf]; exact length_put_le _ _ _
        have := hlim n hl
        have hq := h1.length_eq
        unfold overLimit at ho
        cases hfl : cfg.flavour <;> rw [hfl] at ho <;> simp only [decide_eq_true_eq] at ho
        · omega
        · omega
        · exact hf hfl
  cases hm : cfg.maxMem with
  | none =>
    right
    rw [insertMem_eq_none _ _ _ _ _ _ _ hm]
    exact ⟨_, _, fin _ _ _ h0 (.nil _ _), finishStore_sync hf s k v _, finishQueue_sync hf k _⟩
  | some maxM =>
    by_cases hbig : size v > maxM
    · left; exact ⟨maxM, rfl, hbig⟩
    · right
      rw [insertMem_eq_fits _ _ _ _ _ _ _ hm hbig]
      have h1 := memLoop_inv cfg tl size s.now maxM (memExtra cfg size v) ((preEvict cfg s k v).2.length + 1) rs h0
      have hfit : totalMem size (eraseKey k (preEvict cfg s k v).1) + memExtra cfg size v ≤ maxM := by
        have hx : memExtra cfg size v = 0 := by
          unfold memExtra; cases hfl : cfg.flavour <;> simp only; exact absurd hfl hf
        rw [hx, preEvict_sync hf, eraseKey_put_self]
        exact Nat.le_trans (totalMem_erase_le size k _) (hmem maxM hm)
      have c1 := memLoop_chain_newcomer hp tl size s.now maxM (memExtra cfg size v) k
        ((preEvict cfg s k v).2.length + 1) rs h0 hnew hfit
      exact ⟨_, _, fin _ _ _ h1 c1, finishStore_sync hf s k v _, finishQueue_sync hf k _⟩


/-- every key that disappeared along a chain was removed by a `Φ`-step from some intermediate state -/
theorem EvictChain.removed {Φ : Store K V → List K → K → Prop}
    {m : Store K V} {q : List K} {m' : Store K V} {q' : List K} (h : EvictChain Φ m q m' q')
    {x : K} (hx : x ∈ keys m) (hx' : x ∉ keys m') :
    ∃ mi qi, EvictChain Φ m q mi qi ∧ Φ mi qi x := by
  induction h with
  | nil m q => exact absurd hx hx'
  | @cons m q y m' q' hy hc ih =>
    by_cases hxy : x = y
    · subst hxy; exact ⟨m, q, .nil _ _, hy⟩
    · have : x ∈ keys (eraseKey y m) := by
        rw [keys_eraseKey]; exact List.mem_filter.mpr ⟨hx, by simpa using hxy⟩
      obtain ⟨mi, qi, c, hΦ⟩ := ih this hx'
      exact ⟨mi, qi, .cons hy c, hΦ⟩

/-- a key absent after the finish was absent before it -/
theorem not_mem_finishStore {cfg : Cfg} {s : State K V} {k : K} {v : V} {m : Store K V} {x : K}
    (h : x ∉ keys (finishStore cfg s k v m)) : x ∉ keys m := by
  unfold finishStore at h
  cases hf : cfg.flavour <;> rw [hf] at h <;> simp only at h
  · exact h
  · exact h
  · intro hx
    apply h
    rw [keys_put]
    by_cases hxk : x = k
    · simp [hxk]
    · exact List.mem_append_left _ (List.mem_filter.mpr ⟨hx, by simpa using hxk⟩)

/-- a plain store of a scored policy: no eviction, or the limit was exceeded on the pre-eviction state
    and exactly the scan's victim was removed -/
theorem insert_cases {cfg : Cfg} (hp : Scored cfg) (tl : Tlru S) (r : Nat) {s : State K V} (k : K) (v : V)
    (hi : Inv s) :
    ((insert cfg tl r s k v).store = finishStore cfg s k v (preEvict cfg s k v).1 ∧
      (insert cfg tl r s k v).queue = finishQueue cfg k (preEvict cfg s k v).2) ∨
    ∃ n x, cfg.limit = some n ∧ overLimit cfg n (preEvict cfg s k v).1 (preEvict cfg s k v).2 = true ∧
      victim cfg tl s.now (preEvict cfg s k v).1 (preEvict cfg s k v).2 = some x ∧
      (insert cfg tl r s k v).store = finishStore cfg s k v (eraseKey x (preEvict cfg s k v).1) ∧
      (insert cfg tl r s k v).queue = finishQueue cfg k ((preEvict cfg s k v).2.filter (fun y => y ≠ x)) := by
  rw [insert_eq]
  rcases limitStep_scored_cases hp tl s.now r (preEvict_inv cfg k v hi) with he | ⟨n, x, hl, ho, hv, he⟩
  · left; rw [he]; exact ⟨rfl, rfl⟩
  · right; rw [he]; exact ⟨n, x, hl, ho, hv, rfl, rfl⟩

/-! ### Hit counting -/

/-- effect of one completed operation (with its output) on the ghost hit count of `k`:
    a store of `k` resets it, a successful lookup of `k` increments it -/
def hitsStep (k : K) (n : Nat) : Op K V → Out V → Nat
  | .get k', .val (some _) => if k' = k then n + 1 else n
  | .insert k' _, _ => if k' = k then 0 else n
  | .insertMem k' _, _ => if k' = k then 0 else n
  | _, _ => n

/-- ghost hit count of `k` after a history with its outputs, starting from `n`: the number of
    successful lookups of `k` since the latest store of `k` (or since the start, plus `n`) -/
def ghostHits (k : K) : Nat → List (Op K V × List Nat) → List (Out V) → Nat
  | n, a :: ops, o :: os => ghostHits k (hitsStep k n a.1 o) ops os
  | n, _, _ => n

/-- every stored entry's hit counter agrees with the ghost count `g` (hit-counting policies) or is
    zero (the others) -/
def HitsOK (cfg : Cfg) (s : State K V) (g : K → Nat) : Prop :=
  ∀ k e, lookup k s.store = some e → e.hits = if cfg.policy.bumps then g k else 0

/-- an entry found after a removal was there before -/
theorem lookup_eraseKey_sub {k x : K} {m : Store K V} {e : Entry V} (h : lookup x (eraseKey k m) = some e) :
    lookup x m = some e := by
  by_cases hxk : x = k
  · subst hxk; rw [lookup_eraseKey_self] at h; cases h
  · rwa [lookup_eraseKey_ne hxk] at h

/-- an entry found after one eviction was there before -/
theorem Evicted.lookup_sub {m : Store K V} {q : List K} {r : Store K V × List K × Bool}
    (he : Evicted m q r) {x : K} {e : Entry V} (h : lookup x r.1 = some e) : lookup x m = some e := by
  rcases he with ⟨_, k, _, h1, _⟩ | ⟨_, _, h1, _⟩
  · rw [h1] at h; exact lookup_eraseKey_sub h
  · rwa [h1] at h

/-- an entry found after the entry-limit step was there before -/
theorem limitStep_lookup_sub {m : Store K V} {q : List K} (h : InvMQ m q) (cfg : Cfg) (tl : Tlru S) (now r : Nat)
    {x : K} {e : Entry V} (hl : lookup x (limitStep cfg tl now r m q).1 = some e) : lookup x m = some e := by
  unfold limitStep at hl
  cases hlim : cfg.limit with
  | none => rw [hlim] at hl; exact hl
  | some n =>
    rw [hlim] at hl
    simp only at hl
    by_cases ho : overLimit cfg n m q = true
    · simp only [ho, if_true] at hl
      exact (evictLimit_spec h cfg tl now r).lookup_sub hl
    · simp only [ho, if_false, Bool.false_eq_true] at hl
      exact hl

/-- an entry found after the memory loop was there before -/
theorem memLoop_lookup_sub (cfg : Cfg) (tl : Tlru S) (size : V → Nat) (now maxM extra : Nat)
    (fuel : Nat) (rs : List Nat) {m : Store K V} {q : List K} (h : InvMQ m q) {x : K} {e : Entry V}
    (hl : lookup x (memLoop cfg tl size now maxM extra fuel rs m q).1 = some e) : lookup x m = some e := by
  induction fuel generalizing rs m q with
  | zero => exact hl
  | succ fuel ih =>
    simp only [memLoop] at hl
    split at hl
    · exact hl
    · have hs := evictMem_spec h cfg tl now (rs.headD 0)
      have hi := hs.inv h
      generalize evictMem cfg tl now (rs.headD 0) m q = r at hs hi hl
      obtain ⟨m', q', ev⟩ := r
      simp only at hl
      cases ev
      · exact hs.lookup_sub hl
      · exact hs.lookup_sub (ih rs.tail hi hl)

/-- entries of the pre-eviction store: the newcomer (hits = 0) or an old entry of another key -/
theorem preEvict_lookup (cfg : Cfg) (s : State K V) (k : K) (v : V) {x : K} {e : Entry V}
    (h : lookup x (preEvict cfg s k v).1 = some e) : (x = k ∧ e.hits = 0) ∨ (x ≠ k ∧ lookup x s.store = some e) := by
  unfold preEvict at h
  by_cases hxk : x = k
  · subst hxk
    left; refine ⟨rfl, ?_⟩
    cases hf : cfg.flavour <;> rw [hf] at h <;> simp only at h
    · rw [lookup_put_self] at h; cases h; rfl
    · rw [lookup_put_self] at h; cases h; rfl
    · split at h
      · rw [lookup_eraseKey_self] at h; cases h
      · rename_i hh
        have := (lookup_eq_none_iff x s.store).mpr ((hasKey_false_iff x s.store).mp (by simpa using hh))
        rw [this] at h; cases h
  · right; refine ⟨hxk, ?_⟩
    cases hf : cfg.flavour <;> rw [hf] at h <;> simp only at h
    · rwa [lookup_put_ne hxk] at h
    · rwa [lookup_put_ne hxk] at h
    · split at h
      · exact lookup_eraseKey_sub h
      · exact h

/-- an entry found after the finish is the newcomer (hits = 0) or was there before -/
theorem finishStore_lookup (cfg : Cfg) (s : State K V) (k : K) (v : V) (m : Store K V) {x : K} {e : Entry V}
    (h : lookup x (finishStore cfg s k v m) = some e) : (x = k ∧ e.hits = 0) ∨ lookup x m = some e := by
  unfold finishStore at h
  cases hf : cfg.flavour <;> rw [hf] at h <;> simp only at h
  · right; exact h
  · right; exact h
  · by_cases hxk : x = k
    · subst hxk; rw [lookup_put_self] at h; cases h; left; exact ⟨rfl, rfl⟩
    · right; rwa [lookup_put_ne hxk] at h

/-- after a plain store every entry is the newcomer (hits = 0) or an unchanged old entry of another key -/
theorem insert_lookup (cfg : Cfg) (tl : Tlru S) (r : Nat) {s : State K V} (k : K) (v : V) (hi : Inv s)
    {x : K} {e : Entry V} (h : lookup x (insert cfg tl r s k v).store = some e) :
    (x = k ∧ e.hits = 0) ∨ (x ≠ k ∧ lookup x s.store = some e) := by
  rw [insert_eq] at h
  rcases finishStore_lookup cfg s k v _ h with h | h
  · left; exact h
  · exact preEvict_lookup cfg s k v (limitStep_lookup_sub (preEvict_inv cfg k v hi) cfg tl s.now r h)

/-- after a memory-aware store every entry is the newcomer (hits = 0) or an unchanged old entry of another key -/
theorem insertMem_lookup (cfg : Cfg) (tl : Tlru S) (size : V → Nat) (rs : List Nat) {s : State K V} (k : K) (v : V)
    (hi : Inv s) {x : K} {e : Entry V} (h : lookup x (insertMem cfg tl size rs s k v).store = some e) :
    (x = k ∧ e.hits = 0) ∨ (x ≠ k ∧ lookup x s.store = some e) := by
  have h0 := preEvict_inv cfg k v hi
  cases hm : cfg.maxMem with
  | none =>
    rw [insertMem_eq_none _ _ _ _ _ _ _ hm] at h
    rcases finishStore_lookup cfg s k v _ h with h | h
    · left; exact h
    · exact preEvict_lookup cfg s k v (limitStep_lookup_sub h0 cfg tl s.now _ h)
  | some maxM =>
    by_cases hbig : size v > maxM
    · rw [insertMem_oversize_store _ _ _ _ _ _ _ hm hbig] at h
      right
      by_cases hxk : x = k
      · subst hxk; rw [lookup_eraseKey_self] at h; cases h
      · exact ⟨hxk, lookup_eraseKey_sub h⟩
    · rw [insertMem_eq_fits _ _ _ _ _ _ _ hm hbig] at h
      rcases finishStore_lookup cfg s k v _ h with h | h
      · left; exact h
      · have h1 := memLoop_inv cfg tl size s.now maxM (memExtra cfg size v) ((preEvict cfg s k v).2.length + 1) rs h0
        have h2 := limitStep_lookup_sub h1 cfg tl s.now _ h
        exact preEvict_lookup cfg s k v (memLoop_lookup_sub cfg tl size s.now maxM _ _ rs h0 h2)

/-- a hit changes the store only by the hit-counter increment (counting policies) -/
theorem hitUpdate_fst (cfg : Cfg) (k : K) (m : Store K V) (q : List K) :
    (hitUpdate cfg k m q).1 = if cfg.policy.bumps then bumpHits k m else m := by
  unfold hitUpdate
  cases cfg.flavour <;> rfl

/-- removing from both structures removes the key from the store -/
theorem removeBoth_fst (cfg : Cfg) (k : K) (m : Store K V) (q : List K) :
    (removeBoth cfg k m q).1 = eraseKey k m := by
  unfold removeBoth
  cases cfg.flavour <;> rfl

/-- one operation keeps the hit counters in step with the ghost count -/
theorem step_hits (cfg : Cfg) (tl : Tlru S) (size : V → Nat) (rs : List Nat) (s : State K V) (op : Op K V)
    (g : K → Nat) (hi : Inv s) (hg : HitsOK cfg s g) :
    HitsOK cfg (step cfg tl size rs s op).1 (fun k => hitsStep k (g k) op (step cfg tl size rs s op).2) := by
  intro x e hl
  cases op with
  | get k =>
    simp only [step] at hl ⊢
    unfold get at hl ⊢
    cases hk : lookup k s.store with
    | none =>
      rw [hk] at hl
      simp only [hk, hitsStep]
      exact hg x e hl
    | some ek =>
      rw [hk] at hl
      simp only [hk] at hl ⊢
      by_cases hexp : expired cfg s.now ek = true
      · simp only [hexp, if_true, hitsStep] at hl ⊢
        rw [removeBoth_fst] at hl
        exact hg x e (lookup_eraseKey_sub hl)
      · simp only [hexp, if_false, Bool.false_eq_true, hitsStep] at hl ⊢
        rw [hitUpdate_fst] at hl
        by_cases hb : cfg.policy.bumps = true
        · simp only [hb, if_true] at hl ⊢
          by_cases hxk : k = x
          · subst hxk
            unfold bumpHits at hl
            rw [lookup_modify_self, hk] at hl
            simp only [Option.map_some, Option.some.injEq] at hl
            subst hl
            have := hg k ek hk
            simp only [hb, if_true] at this
            simp [this]
          · unfold bumpHits at hl
            rw [lookup_modify_ne (fun hh => hxk hh.symm)] at hl
            have := hg x e hl
            simp only [hb, if_true] at this
            simp [this, hxk]
        · simp only [hb, if_false, Bool.false_eq_true] at hl ⊢
          have := hg x e hl
          simpa only [hb, if_false, Bool.false_eq_true] using this
  | insert k v =>
    simp only [step, hitsStep] at hl ⊢
    rcases insert_lookup cfg tl _ k v hi hl with ⟨hxk, h0⟩ | ⟨hxk, h1⟩
    · subst hxk; simp [h0]
    · have := hg x e h1
      have hne : ¬ k = x := fun hh => hxk hh.symm
      simp only [hne, if_false]; exact this
  | insertMem k v =>
    simp only [step, hitsStep] at hl ⊢
    rcases insertMem_lookup cfg tl size rs k v hi hl with ⟨hxk, h0⟩ | ⟨hxk, h1⟩
    · subst hxk; simp [h0]
    · have := hg x e h1
      have hne : ¬ k = x := fun hh => hxk hh.symm
      simp only [hne, if_false]; exact this
  | clear => simp [step, clear, lookup] at hl
  | invalidateWith p =>
    simp only [step, invalidateWith, hitsStep] at hl ⊢
    have hmem := lookup_mem hl
    exact hg x e (mem_lookup_of_nodup hi.1 (List.mem_filter.mp hmem).1)
  | tick ms =>
    simp only [step, hitsStep] at hl ⊢
    exact hg x e hl

/-- a whole history keeps the hit counters in step with the ghost count -/
theorem run_hits (cfg : Cfg) (tl : Tlru S) (size : V → Nat) (ops : List (Op K V × List Nat)) :
    ∀ (s : State K V) (g : K → Nat), Inv s → HitsOK cfg s g →
      HitsOK cfg (run cfg tl size s ops).1 (fun k => ghostHits k (g k) ops (run cfg tl size s ops).2) := by
  induction ops with
  | nil => intro s g _ hg; exact hg
  | cons a ops ih =>
    intro s g hi hg
    obtain ⟨op, rs⟩ := a
    simp only [run, ghostHits]
    exact ih _ _ (step_inv cfg tl size rs s op hi) (step_hits cfg tl size rs s op g hi hg)


/-! ### Vocabulary of the C08 statements -/

/-- a key with an entry is a key of the store -/
theorem lookup_mem_keys {k : K} {m : Store K V} {e : Entry V} (h : lookup k m = some e) : k ∈ keys m := by
  apply Classical.byContradiction; intro hn
  rw [(lookup_eq_none_iff _ _).mpr hn] at h; cases h

/-- under the invariant every stored key has a queue position -/
theorem stored_has_index {m : Store K V} {q : List K} (hi : InvMQ m q) {k : K} {e : Entry V}
    (h : lookup k m = some e) : ∃ j : Nat, q[j]? = some k :=
  List.mem_iff_getElem?.mp ((hi.2.2 k).mpr (lookup_mem_keys h))

/-- `x` is stored in `m` and no stored entry has fewer hits -/
def MinHits (m : Store K V) (x : K) : Prop :=
  ∃ e, lookup x m = some e ∧ ∀ k' e', lookup k' m = some e' → e.hits ≤ e'.hits

/-- what the scan guarantees for its victim, per policy: the first minimiser of the policy's score -/
def VictimSpec (cfg : Cfg) (tl : Tlru S) (now : Nat) (m : Store K V) (q : List K) (x : K) : Prop :=
  match cfg.policy with
  | .lfu => FirstMinAt natLt lfuScore m q x
  | .arc => FirstMinAt natLt (arcScore cfg) m q x
  | .tlru => FirstMinAt tl.lt (tlruScore cfg tl now) m q x
  | _ => False

/-- A TLRU scorer with a bottom score `z`: exactly the (hits, elapsed) pairs in `Z` ("a zero factor":
    never hit, or no lifetime left) score like `z`, everything else scores strictly above `z` at every
    positive rank, and nothing scores below `z`.  Both the linear-weight and the power-weight
    formula, with either rank orientation, are of this kind for a positive weight. -/
structure ZeroLike (cfg : Cfg) (tl : Tlru S) (P : S → Prop) (z : S) (Z : Nat → Nat → Prop) : Prop where
  sw : StrictWeakOn P tl.lt
  carrier : ∀ h el r, P (tl.score cfg h el r)
  zero_mem : P z
  bot : ∀ s, P s → tl.lt s z = false
  zero : ∀ h el r, Z h el → tl.lt z (tl.score cfg h el r) = false
  pos : ∀ h el r, 0 < r → ¬ Z h el → tl.lt z (tl.score cfg h el r) = true
  zero_hits : ∀ el, Z 0 el

/-- two scans that both return the first queue key satisfying `Zp` agree -/
theorem scan_eq_of_first_with {S' : Type} {lt : S → S → Bool} {lt' : S' → S' → Bool}
    {score : Entry V → Nat → Nat → S} {score' : Entry V → Nat → Nat → S'} {Zp : Entry V → Prop}
    {m : Store K V} {q : List K}
    (h1 : ∀ k, firstMin lt (cands score m q) = some k → FirstWith Zp m q k)
    (h2 : ∀ k, firstMin lt' (cands score' m q) = some k → FirstWith Zp m q k)
    (hex : ∃ (j : Nat) (k0 : K) (e0 : Entry V), q[j]? = some k0 ∧ lookup k0 m = some e0) :
    firstMin lt (cands score m q) = firstMin lt' (cands score' m q) := by
  obtain ⟨j, k0, e0, hq0, hl0⟩ := hex
  have hk0 : k0 ∈ q := List.mem_iff_getElem?.mpr ⟨j, hq0⟩
  have hne : ∀ {T : Type} (l : T → T → Bool) (sc : Entry V → Nat → Nat → T),
      firstMin l (cands sc m q) ≠ none := by
    intro T l sc hn
    exact candsFrom_eq_nil sc m q.length 0 q (firstMin_eq_none hn) k0 hk0 (lookup_mem_keys hl0)
  cases ha : firstMin lt (cands score m q) with
  | none => exact absurd ha (hne lt score)
  | some a =>
    cases hb : firstMin lt' (cands score' m q) with
    | none => exact absurd hb (hne lt' score')
    | some b => rw [(h1 a ha).unique (h2 b hb)]

/-! ### An exact-arithmetic TLRU scorer -/

/-- remaining lifetime, scaled by the (constant, positive) ttl in ms so that it is a natural number:
    `ttl_ms − min(elapsed, ttl_ms)`; `1` when no ttl is configured -/
def lifeNum (cfg : Cfg) (elapsedMs : Nat) : Nat :=
  match cfg.ttl with
  | none => 1
  | some t => t * 1000 - min elapsedMs (t * 1000)

/-- the documented TLRU score `hits^w × rank × remaining-lifetime-fraction` for a natural exponent `w`,
    multiplied by the constant `ttl_ms` (which does not change any comparison), compared with `<` on `Nat` -/
def exactTlru (w : Nat) : Tlru Nat :=
  ⟨natLt, fun cfg h el r => h ^ w * r * lifeNum cfg el⟩

/-- the sync engines' formula with a LINEAR natural weight: `(hits × w) × rank × remaining lifetime`
    (`utils.rs:463-515`), in exact arithmetic -/
def linearTlru (w : Nat) : Tlru Nat :=
  ⟨natLt, fun cfg h el r => h * w * r * lifeNum cfg el⟩


/-! ### TLRU without ttl and weight is ARC -/

/-- without a ttl the exact TLRU scorer with exponent 1 selects the ARC victim -/
theorem victim_tlru_arc (cfg : Cfg) (httl : cfg.ttl = none) (tl : Tlru S) (now : Nat)
    (m : Store K V) (q : List K) :
    victim { cfg with policy := .tlru } (exactTlru 1) now m q = victim { cfg with policy := .arc } tl now m q := by
  unfold victim
  simp only [exactTlru, lifeNum, httl, Nat.pow_one, Nat.mul_one]
  rfl

/-- the TLRU twin of a configuration -/
abbrev asTlru (cfg : Cfg) : Cfg := { cfg with policy := .tlru }
/-- the ARC twin of a configuration -/
abbrev asArc (cfg : Cfg) : Cfg := { cfg with policy := .arc }

/-- one scored eviction is the same for the two twins -/
theorem evictScored_tlru_arc (cfg : Cfg) (httl : cfg.ttl = none) (tl : Tlru S) (now : Nat) (m : Store K V) (q : List K) :
    evictScored (asTlru cfg) (exactTlru 1) now m q = evictScored (asArc cfg) tl now m q := by
  unfold evictScored
  rw [victim_tlru_arc cfg httl tl now m q]
  rfl

/-- the entry-limit eviction is the same for the two twins -/
theorem evictLimit_tlru_arc (cfg : Cfg) (httl : cfg.ttl = none) (tl : Tlru S) (now r : Nat) (m : Store K V) (q : List K) :
    evictLimit (asTlru cfg) (exactTlru 1) now r m q = evictLimit (asArc cfg) tl now r m q :=
  evictScored_tlru_arc cfg httl tl now m q

/-- the memory-loop eviction is the same for the two twins -/
theorem evictMem_tlru_arc (cfg : Cfg) (httl : cfg.ttl = none) (tl : Tlru S) (now r : Nat) (m : Store K V) (q : List K) :
    evictMem (asTlru cfg) (exactTlru 1) now r m q = evictMem (asArc cfg) tl now r m q :=
  evictScored_tlru_arc cfg httl tl now m q

/-- the entry-limit step is the same for the two twins -/
theorem limitStep_tlru_arc (cfg : Cfg) (httl : cfg.ttl = none) (tl : Tlru S) (now r : Nat) (m : Store K V) (q : List K) :
    limitStep (asTlru cfg) (exactTlru 1) now r m q = limitStep (asArc cfg) tl now r m q := by
  unfold limitStep
  rw [evictLimit_tlru_arc cfg httl tl]
  rfl

/-- the memory loop is the same for the two twins -/
theorem memLoop_tlru_arc (cfg : Cfg) (httl : cfg.ttl = none) (tl : Tlru S) (size : V → Nat) (now maxM extra : Nat)
    (fuel : Nat) (rs : List Nat) (m : Store K V) (q : List K) :
    memLoop (asTlru cfg) (exactTlru 1) size now maxM extra fuel rs m q =
      memLoop (asArc cfg) tl size now maxM extra fuel rs m q := by
  induction fuel generalizing rs m q with
  | zero => rfl
  | succ fuel ih =>
    simp only [memLoop]
    rw [evictMem_tlru_arc cfg httl tl]
    split
    · rfl
    · simp only [ih]

/-- a lookup is the same for the two twins (both count hits and refresh recency) -/
theorem get_tlru_arc (cfg : Cfg) (s : State K V) (k : K) : get (asTlru cfg) s k = get (asArc cfg) s k := rfl

/-- a plain store is the same for the two twins -/
theorem insert_tlru_arc (cfg : Cfg) (httl : cfg.ttl = none) (tl : Tlru S) (r : Nat) (s : State K V) (k : K) (v : V) :
    insert (asTlru cfg) (exactTlru 1) r s k v = insert (asArc cfg) tl r s k v := by
  rw [insert_eq, insert_eq, limitStep_tlru_arc cfg httl tl]
  rfl

/-- a memory-aware store is the same for the two twins -/
theorem insertMem_tlru_arc (cfg : Cfg) (httl : cfg.ttl = none) (tl : Tlru S) (size : V → Nat) (rs : List Nat)
    (s : State K V) (k : K) (v : V) :
    insertMem (asTlru cfg) (exactTlru 1) size rs s k v = insertMem (asArc cfg) tl size rs s k v := by
  cases hm : cfg.maxMem with
  | none =>
    rw [insertMem_eq_none _ _ _ _ _ _ _ (show (asTlru cfg).maxMem = none from hm),
      insertMem_eq_none _ _ _ _ _ _ _ (show (asArc cfg).maxMem = none from hm), limitStep_tlru_arc cfg httl tl]
    rfl
  | some maxM =>
    by_cases hbig : size v > maxM
    · unfold insertMem
      cases hf : cfg.flavour <;> simp only [hm, hbig, if_true] <;> rfl
    · rw [insertMem_eq_fits _ _ _ _ _ _ _ (show (asTlru cfg).maxMem = some maxM from hm) hbig,
        insertMem_eq_fits _ _ _ _ _ _ _ (show (asArc cfg).maxMem = some maxM from hm) hbig]
      unfold memLoopOf
      rw [memLoop_tlru_arc cfg httl tl, limitStep_tlru_arc cfg httl tl]
      rfl

/-- every operation is the same for the two twins -/
theorem step_tlru_arc (cfg : Cfg) (httl : cfg.ttl = none) (tl : Tlru S) (size : V → Nat) (rs : List Nat)
    (s : State K V) (op : Op K V) :
    step (asTlru cfg) (exactTlru 1) size rs s op = step (asArc cfg) tl size rs s op := by
  cases op with
  | insert k v => simp only [step, insert_tlru_arc cfg httl tl]
  | insertMem k v => simp only [step, insertMem_tlru_arc cfg httl tl]
  | _ => rfl

end Cachelito
