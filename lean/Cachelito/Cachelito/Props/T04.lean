/-
  T04 — TRANSLATOR TIE, stats.rs: the `CacheStats` methods (C15)

  The functions named here are regenerated from /repo's CURRENT source on every check by `checklib/rust2lean.py`
  (`Generated/Pure*.lean`); the theorems are re-proved against whatever was generated (see `Props/T01.lean`).
  The `f64` code is translated over an ARBITRARY structure of float operations (`RustLite.F64`).  Hypotheses that appear
  are the modelling assumptions of DESIGN.md §9: hit counters below `u64::MAX`, scores below `f64::MAX`, `as f64` exact
  and order-preserving on the products that occur.
-/
import Cachelito.Generated.PureStats
import Cachelito.Lemmas.Source
import Cachelito.StatsReg

set_option linter.unusedSimpArgs false
set_option linter.unusedVariables false

namespace Cachelito.T04
open Cachelito Cachelito.RustLite Cachelito.Generated Cachelito.SourceLemmas
open Cachelito.Generated.Stats Cachelito.StatsReg

variable {K V F : Type} [DecidableEq K]

/-! ### `CacheStats` (one method call = one atomic step on the two counters) -/

/-- the counters of the model as the two atomics of the source -/
def cellOf (k : StatsReg.Counters) : StatsCell := ⟨k.hits, k.misses⟩

/-- every `CacheStats` method is the corresponding counter operation of `StatsReg` (`recordHit`, `recordMiss`,
    `cellReset`, `hits`, `misses`, `total`), and the two rates are `0.0` for an unused cache and otherwise the quotient
    of the model's (numerator, denominator) pair, for every float structure -/
theorem cache_stats_eq (A : F64 F) (k : StatsReg.Counters) :
    record_hit (cellOf k) = cellOf { k with hits := k.hits + 1 } ∧
    record_miss (cellOf k) = cellOf { k with misses := k.misses + 1 } ∧
    Stats.reset (cellOf k) = cellOf Counters.zero ∧
    Stats.hits (cellOf k) = k.hits ∧ Stats.misses (cellOf k) = k.misses ∧
    total_accesses (cellOf k) = k.total ∧
    hit_rate A (cellOf k) = (if k.hitRate.2 = 0 then A.zero else A.div (A.ofNat k.hitRate.1) (A.ofNat k.hitRate.2)) ∧
    miss_rate A (cellOf k) = (if k.missRate.2 = 0 then A.zero else A.div (A.ofNat k.missRate.1) (A.ofNat k.missRate.2)) := by
  simp [record_hit, record_miss, Stats.reset, Stats.hits, Stats.misses, total_accesses, hit_rate, miss_rate, cellOf,
    fetchAdd, atomicStore, atomicLoad, Counters.zero, Counters.total, Counters.hitRate, Counters.missRate]


end Cachelito.T04
