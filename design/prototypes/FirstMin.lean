namespace Probe

/-- generic first-min scan mirroring `if score < best { best = score; key = k }` -/
def firstMin {α S : Type} (lt : S → S → Bool) (score : α → S) : List α → Option (α × S) → Option (α × S)
  | [], acc => acc
  | x :: xs, none => firstMin lt score xs (some (x, score x))
  | x :: xs, some (b, sb) =>
      if lt (score x) sb then firstMin lt score xs (some (x, score x)) else firstMin lt score xs (some (b, sb))

def fscore (h : Nat) (rank : Nat) (w : Float) (age ttl : Nat) : Float :=
  let f := h.toFloat
  let fc := if f > 0.0 then Float.pow f w else 0.0
  let af := max (1.0 - min (age.toFloat / ttl.toFloat) 1.0) 0.0
  fc * rank.toFloat * af

theorem firstMin_mem {α S} (lt : S → S → Bool) (score : α → S) (l : List α) (acc : Option (α × S))
    (r : α × S) (h : firstMin lt score l acc = some r) : r.1 ∈ l ∨ acc = some r := by
  induction l generalizing acc with
  | nil => simp [firstMin] at h; right; exact h
  | cons x xs ih =>
    cases acc with
    | none =>
      simp only [firstMin] at h
      rcases ih _ h with h1 | h1
      · left; exact List.mem_cons_of_mem _ h1
      · left; simp at h1; subst h1; simp
    | some p =>
      obtain ⟨b, sb⟩ := p
      simp only [firstMin] at h
      split at h
      · rcases ih _ h with h1 | h1
        · left; exact List.mem_cons_of_mem _ h1
        · left; simp at h1; subst h1; simp
      · rcases ih _ h with h1 | h1
        · left; exact List.mem_cons_of_mem _ h1
        · right; exact h1
end Probe
