/-
  T15 — TRANSLATOR TIE, thread_local_cache.rs: `insert_with_memory` of the thread-local engine (C05, C04, C07, C08, C16)

  `Generated/PureThread.lean` is regenerated from /repo's CURRENT source on every check; the theorems are re-proved against
  whatever was generated.  `value.estimate_memory()` is the parameter `size`; the `loop { … }` of the source gets a fuel
  bound; `fastrand::usize(..n)` takes the next draw of the stream `rs`.

  Step 1 (`memory_iteration_eq`, `insert_with_memory_eq`): every iteration of the source's memory loop is the reference
  iteration `memBody` — stop when the total fits, otherwise ONE eviction by the model's `evictMem`, stop when nothing
  could be evicted — and the whole function is: fresh entry stored and re-queued at the back; an oversize value removed
  again (map entry and LAST queue slot); otherwise the loop, then the entry-limit step `limitStep`.
  Step 2 (`refLoop_eq_memLoop`, `insert_with_memory_model`): that reference loop is the model's `memLoop`, so the
  translated function leaves exactly the store and queue of `Cachelito.insertMem` (thread-local flavour).
-/
import Cachelito.Props.T11
import Cachelito.Props.T14

set_option linter.unusedSimpArgs false
set_option linter.unusedVariables false
set_option linter.unusedSectionVars false

namespace Cachelito.T15
open Cachelito Cachelito.RustLite Cachelito.Generated Cachelito.SourceLemmas Cachelito.T11
open Cachelito.Generated.Thread

variable {K V F : Type} [DecidableEq K]

/-- the state the source's loop carries: the cache, the guarded queue, the remaining draws -/
abbrev LoopSt (K V F : Type) := ThreadCache K V F × List K × List Nat

/-- one iteration of the memory loop, written with the model's primitives -/
def memBody (cfg : Cfg) (tl : Tlru F) (size : V → Nat) (now maxM : Nat) (st : LoopSt K V F) : Bool × LoopSt K V F :=
  if totalMem size st.1.cache ≤ maxM then (true, st)
  else
    let res := evictMem cfg tl now (st.2.2.headD 0) st.1.cache st.2.1
    let rs' := if cfg.policy = .random ∧ st.2.1 ≠ [] then st.2.2.tail else st.2.2
    (!res.2.2, ({ st.1 with cache := res.1 }, res.2.1, rs'))

theorem sum_values_eq_totalMem (size : V → Nat) : ∀ m : Store K V,
    RustLite.sum (List.map (fun e => size (Entry.val e)) (values m)) = totalMem size m
  | [] => rfl
  | p :: m => by
      have ih := sum_values_eq_totalMem size m
      simp [values, RustLite.sum, totalMem] at ih ⊢
      omega

theorem loopFuel_congr {σ : Type} {f g : σ → Bool × σ} (h : ∀ s, f s = g s) :
    ∀ (n : Nat) (st : σ), loopFuel n st f = loopFuel n st g
  | 0, _ => rfl
  | n + 1, st => by simp [loopFuel, h, loopFuel_congr h n]

/-- loops whose bodies agree on every state satisfying an invariant that the reference body preserves -/
theorem loopFuel_congr_inv {σ : Type} {f g : σ → Bool × σ} (Inv : σ → Prop)
    (h : ∀ s, Inv s → f s = g s) (hp : ∀ s, Inv s → Inv (g s).2) :
    ∀ (n : Nat) (st : σ), Inv st → loopFuel n st f = loopFuel n st g
  | 0, _, _ => rfl
  | n + 1, st, hi => by
      simp only [loopFuel, h st hi]
      split
      · rfl
      · exact loopFuel_congr_inv Inv h hp n _ (hp st hi)

theorem loopFuel_inv {σ : Type} {g : σ → Bool × σ} (Inv : σ → Prop) (hp : ∀ s, Inv s → Inv (g s).2) :
    ∀ (n : Nat) (st : σ), Inv st → Inv (loopFuel n st g)
  | 0, _, h => h
  | n + 1, st, h => by
      simp only [loopFuel]
      split
      · exact hp st h
      · exact loopFuel_inv Inv hp n _ (hp st h)

/-- what an eviction leaves in the store was there before -/
theorem mem_popStored : ∀ (q : List K) (m : Store K V) (p : K × Entry V), p ∈ (popStored m q).1 → p ∈ m
  | [], m, p, h => by simpa [popStored] using h
  | k :: q, m, p, h => by
      simp only [popStored] at h
      by_cases hk : hasKey k m = true
      · simp [hk, eraseKey] at h; exact h.1
      · simp [hk] at h; exact mem_popStored q m p h

theorem mem_evictMem (cfg : Cfg) (hg : cfg.flavour = .threadLocal) (tl : Tlru F) (now r : Nat) (m : Store K V) (q : List K)
    (p : K × Entry V) (h : p ∈ (evictMem cfg tl now r m q).1) : p ∈ m := by
  unfold evictMem at h
  cases hp : cfg.policy <;> simp only [hp, hg] at h
  · cases q <;> simp [popOne, eraseKey] at h
    · exact h
    · exact h.1
  · cases q <;> simp [popOne, eraseKey] at h
    · exact h
    · exact h.1
  · simp only [evictScored] at h
    cases hv : victim cfg tl now m q <;> simp [hv, removeBoth, hg, eraseKey] at h
    · exact h
    · exact h.1
  · simp only [evictScored] at h
    cases hv : victim cfg tl now m q <;> simp [hv, removeBoth, hg, eraseKey] at h
    · exact h
    · exact h.1
  · simp only [evictRandom] at h
    cases hv : q[r % q.length]? <;> simp [hv, eraseKey] at h
    · exact h
    · exact h.1
  · simp only [evictScored] at h
    cases hv : victim cfg tl now m q <;> simp [hv, removeBoth, hg, eraseKey] at h
    · exact h
    · exact h.1

/-- the whole function, written with the model's primitives and the reference loop -/
def refInsertMem (A : F64 F) (size : V → Nat) (fuel : Nat) (rs : List Nat) (c : ThreadCache K V F) (now : Nat)
    (k : K) (v : V) : ThreadCache K V F :=
  let tl := T02.srcTlru A c.frequency_weight
  let m0 := put k ⟨v, now, 0⟩ c.cache
  let q0 := erasePush k c.order
  match c.max_memory with
  | some maxM =>
    if size v > maxM then { c with cache := eraseKey k m0, order := q0.dropLast }
    else
      let st := loopFuel fuel (({ c with cache := m0 } : ThreadCache K V F), q0, rs) (memBody (cfgOf c) tl size now maxM)
      let r := limitStep (cfgOf c) tl now (st.2.2.headD 0) st.1.cache st.2.1
      { st.1 with cache := r.1, order := r.2 }
  | none =>
    let r := limitStep (cfgOf c) tl now (rs.headD 0) m0 q0
    { c with cache := r.1, order := r.2 }

/-- what stays fixed along the loop: the configuration, and hit counters below `u64::MAX` -/
def LoopInv (c : ThreadCache K V F) (st : LoopSt K V F) : Prop :=
  st.1.limit = c.limit ∧ st.1.max_memory = c.max_memory ∧ st.1.policy = c.policy ∧ st.1.ttl = c.ttl ∧
  st.1.frequency_weight = c.frequency_weight ∧ ∀ p, p ∈ st.1.cache → p.2.hits < u64Max

/-- **Every iteration of the source's memory loop is the reference iteration `memBody`** (on every state the loop can
    reach): stop when `Σ estimate_memory` fits, otherwise one eviction by the policy exactly as the model's `evictMem`
    does it, stop when nothing was evicted.  Stated for the loop as a whole. -/
theorem memBody_inv (A : F64 F) (c : ThreadCache K V F) (size : V → Nat) (now maxM : Nat) (s : LoopSt K V F)
    (hs : LoopInv c s) : LoopInv c (memBody (cfgOf c) (T02.srcTlru A c.frequency_weight) size now maxM s).2 := by
  unfold memBody
  by_cases hfit : totalMem size s.1.cache ≤ maxM
  · simpa [hfit] using hs
  · simp only [hfit, if_false]
    obtain ⟨h1, h2, h3, h4, h5, h6⟩ := hs
    exact ⟨h1, h2, h3, h4, h5, fun p hp => h6 p (mem_evictMem (cfgOf c) rfl _ now _ _ _ p hp)⟩

theorem memory_loop_eq (A : F64 F) (c : ThreadCache K V F) (size : V → Nat) (now maxM fuel : Nat)
    (ok : ScoresOK A c) {st : LoopSt K V F} {body : LoopSt K V F → Bool × LoopSt K V F} (hi : LoopInv c st)
    (hbody : ∀ s, LoopInv c s → body s = memBody (cfgOf c) (T02.srcTlru A c.frequency_weight) size now maxM s) :
    loopFuel fuel st body = loopFuel fuel st (memBody (cfgOf c) (T02.srcTlru A c.frequency_weight) size now maxM) := by
  exact loopFuel_congr_inv (LoopInv c) hbody (fun s hs => memBody_inv A c size now maxM s hs) fuel st hi

/-- **`insert_with_memory` of the sync global engine, read off the source**: the fresh entry is stored and its key
    re-queued at the back; a value larger than `max_memory` is removed again (its map entry and the LAST queue slot);
    otherwise the memory loop — each iteration the reference iteration `memBody` — and then the entry-limit step. -/
theorem insert_with_memory_eq (A : F64 F) (c : ThreadCache K V F) (size : V → Nat) (now fuel : Nat) (rs : List Nat)
    (k : K) (v : V) (ok : ScoresOK A c) :
    Thread.insert_with_memory A ⟨fun b => now - b, now⟩ size fuel rs c k v = refInsertMem A size fuel rs c now k v := by
  obtain ⟨map, order, limit, mm, policy, ttl, fw, st⟩ := c
  unfold Thread.insert_with_memory refInsertMem
  have hq : (match position (fun x => decide (x = k)) order with
      | some pos => (dequeRemove order pos).2
      | none => order) = order.erase k := by
    cases h : position (fun x => decide (x = k)) order with
    | none => simp [List.erase_of_not_mem (position_none k order h)]
    | some i => simp [dequeRemove, (position_some k order i h).2.1]
  have ok' : ScoresOK A (ThreadCache.mk (put k ⟨v, now, 0⟩ map) order limit mm policy ttl fw st) :=
    ⟨fun p hp => by
        simp [put, eraseKey] at hp
        rcases hp with hp | hp
        · exact ok.hitsBelowMax p hp.1
        · subst hp; simp [u64Max],
      ok.arcBelowMax, ok.arcOrder, ok.tlruBelowMax⟩
  cases mm with
  | none =>
    simp only [mapInsert, newEntry, pushBack, headRand]
    rw [handle_entry_limit_eviction_eq A _ now _ _ ok']
    simp [cfgOf, erasePush, ← hq]
    constructor <;> (cases position (fun x => decide (x = k)) order <;> simp [dequeRemove])
  | some maxM =>
    simp only [mapInsert, newEntry, pushBack, headRand, lookup_put_self, Option.map, Option.getD]
    by_cases hov : size v > maxM
    · simp [hov, mapRemove, popBack, erasePush, ← hq]
      cases position (fun x => decide (x = k)) order <;> simp [dequeRemove]
    · simp only [hov, decide_false, if_false, Bool.false_eq_true]
      rw [memory_loop_eq A (ThreadCache.mk (put k ⟨v, now, 0⟩ map) order limit (some maxM) policy ttl fw st) size now maxM fuel ok']
      · -- after the loop: the entry-limit step on whatever the loop left
        have hgen : ∀ (q0 : List K),
            (let R := loopFuel fuel ((ThreadCache.mk (put k ⟨v, now, 0⟩ map) order limit (some maxM) policy ttl fw st), q0, rs)
                (memBody (cfgOf (ThreadCache.mk (put k ⟨v, now, 0⟩ map) order limit (some maxM) policy ttl fw st))
                  (T02.srcTlru A fw) size now maxM)
             let r := handle_entry_limit_eviction A ⟨fun b => now - b, now⟩ (R.2.2.headD 0) R.1 R.2.1
             ({ r.1 with order := r.2 } : ThreadCache K V F)) =
            (let R := loopFuel fuel ((ThreadCache.mk (put k ⟨v, now, 0⟩ map) order limit (some maxM) policy ttl fw st), q0, rs)
                (memBody (cfgOf (ThreadCache.mk (put k ⟨v, now, 0⟩ map) order limit (some maxM) policy ttl fw st))
                  (T02.srcTlru A fw) size now maxM)
             let r := limitStep (cfgOf (ThreadCache.mk (put k ⟨v, now, 0⟩ map) order limit (some maxM) policy ttl fw st))
                (T02.srcTlru A fw) now (R.2.2.headD 0) R.1.cache R.2.1
             ({ R.1 with cache := r.1, order := r.2 } : ThreadCache K V F)) := by
          intro q0
          have hR := loopFuel_inv (LoopInv (ThreadCache.mk (put k ⟨v, now, 0⟩ map) order limit (some maxM) policy ttl fw st))
            (fun s hs => memBody_inv A _ size now maxM s hs) fuel
            ((ThreadCache.mk (put k ⟨v, now, 0⟩ map) order limit (some maxM) policy ttl fw st), q0, rs)
            ⟨rfl, rfl, rfl, rfl, rfl, ok'.hitsBelowMax⟩
          generalize loopFuel fuel ((ThreadCache.mk (put k ⟨v, now, 0⟩ map) order limit (some maxM) policy ttl fw st), q0, rs)
            (memBody (cfgOf (ThreadCache.mk (put k ⟨v, now, 0⟩ map) order limit (some maxM) policy ttl fw st))
              (T02.srcTlru A fw) size now maxM) = R at hR ⊢
          obtain ⟨⟨map2, order2, limit2, mm2, policy2, ttl2, fw2, st2⟩, o2, rs2⟩ := R
          simp only [LoopInv] at hR
          obtain ⟨h1, h2, h3, h4, h5, hh⟩ := hR
          subst h1 h2 h3 h4 h5
          simp only []
          rw [handle_entry_limit_eviction_eq A (ThreadCache.mk map2 order2 limit2 (some maxM) policy2 ttl2 fw2 st2) now _ _
            ⟨hh, ok.arcBelowMax, ok.arcOrder, by simpa [cfgOf] using ok.tlruBelowMax⟩]
          simp [cfgOf]
        cases hpos : position (fun x => decide (x = k)) order with
        | none =>
          have he : order.erase k = order := List.erase_of_not_mem (position_none k order hpos)
          have := hgen (order ++ [k])
          simp only [cfgOf, erasePush, he] at this ⊢
          exact this
        | some i =>
          have he : order.erase k = order.eraseIdx i := (position_some k order i hpos).2.1.symm
          have := hgen (order.eraseIdx i ++ [k])
          simp only [cfgOf, erasePush, he, dequeRemove] at this ⊢
          exact this
      · exact ⟨rfl, rfl, rfl, rfl, rfl, ok'.hitsBelowMax⟩
      · -- every iteration of the source's loop is the reference iteration
        rintro ⟨⟨map2, order2, limit2, mm2, policy2, ttl2, fw2, st2⟩, o, rs2⟩ hinv
        simp only [LoopInv] at hinv
        obtain ⟨h1, h2, h3, h4, h5, hh⟩ := hinv
        subst h1 h2 h3 h4 h5
        have hlk : ∀ k e, lookup k map2 = some e → e.hits < u64Max :=
          fun k e h => hh (k, e) (T07.lookup_mem' k e _ h)
        unfold memBody
        simp only [sum_values_eq_totalMem, cfgOf]
        by_cases hfit : totalMem size map2 ≤ maxM
        · simp [hfit]
        · simp only [hfit, decide_false, if_false, Bool.false_eq_true]
          cases policy2 with
          | lfu =>
            have hv := T02.find_min_frequency_key_eq (F := F) ⟨.threadLocal, .lfu, limit2, some maxM, ttl2⟩ (T02.srcTlru A fw2) now rfl map2 o hlk
            simp [evictMem, evictScored, hv, remove_key_with_order_eq]
            cases victim _ _ now map2 o <;> simp [removeBoth]
          | arc =>
            have hv := T02.find_arc_eviction_key_eq A ⟨.threadLocal, .arc, limit2, some maxM, ttl2⟩ (T02.srcTlru A fw2) now rfl (by simp) map2 o
              ok.arcBelowMax ok.arcOrder
            simp [evictMem, evictScored, hv, remove_key_with_order_eq]
            cases victim _ _ now map2 o <;> simp [removeBoth]
          | tlru =>
            have hv := T02.find_tlru_eviction_key_eq A fw2 ⟨.threadLocal, .tlru, limit2, some maxM, ttl2⟩ now rfl (by simp) map2 o
              (by simpa [cfgOf] using ok.tlruBelowMax)
            simp only [] at hv
            simp [evictMem, evictScored, hv, remove_key_with_order_eq]
            cases victim _ _ now map2 o <;> simp [removeBoth]
          | random =>
            simp [evictMem, evictRandom, randBelow, nextRand, dequeRemove, mapRemove]
            cases o with
            | nil => simp
            | cons x xs =>
              simp
              have hlt := Nat.mod_lt (rs2.head?.getD 0) (show 0 < xs.length + 1 by omega)
              cases h : (x :: xs)[rs2.head?.getD 0 % (xs.length + 1)]? with
              | some y => simp_all
              | none =>
                simp [List.getElem?_eq_none_iff] at h
                omega
          | fifo =>
            cases o <;> simp [evictMem, popOne, popFront, mapRemove]
          | lru =>
            cases o <;> simp [evictMem, popOne, popFront, mapRemove]

/-! ### Step 2: the reference loop is the model's `memLoop` -/

theorem evictMem_indep (cfg : Cfg) (tl : Tlru F) (now r r' : Nat) (m : Store K V) (q : List K)
    (h : cfg.policy ≠ .random) : evictMem cfg tl now r m q = evictMem cfg tl now r' m q := by
  unfold evictMem
  cases hp : cfg.policy <;> simp_all

theorem evictLimit_indep (cfg : Cfg) (tl : Tlru F) (now r r' : Nat) (m : Store K V) (q : List K)
    (h : cfg.policy ≠ .random ∨ q = []) : evictLimit cfg tl now r m q = evictLimit cfg tl now r' m q := by
  unfold evictLimit
  cases hp : cfg.policy <;> simp_all [evictRandom]

theorem limitStep_indep (cfg : Cfg) (hg : cfg.flavour = .threadLocal) (tl : Tlru F) (now r r' : Nat) (m : Store K V) (q : List K)
    (h : cfg.policy ≠ .random ∨ q = []) : limitStep cfg tl now r m q = limitStep cfg tl now r' m q := by
  unfold limitStep
  cases cfg.limit with
  | none => rfl
  | some n => simp [evictLimit_indep cfg tl now r r' m q h]

/-- **The reference loop is the model's memory loop**: same store and queue after any number of iterations, for the
    same stream of draws (for the policies that do not draw, for ANY two streams); the remaining draws agree too unless
    the queue has run empty (where no later step looks at them). -/
theorem refLoop_eq_memLoop (cfg : Cfg) (tl : Tlru F) (size : V → Nat) (now maxM : Nat) :
    ∀ (fuel : Nat) (c : ThreadCache K V F) (q : List K) (rs rs' : List Nat), (cfg.policy = .random → rs = rs') →
      (loopFuel fuel (c, q, rs) (memBody cfg tl size now maxM)).1.cache = (memLoop cfg tl size now maxM 0 fuel rs' c.cache q).1 ∧
      (loopFuel fuel (c, q, rs) (memBody cfg tl size now maxM)).2.1 = (memLoop cfg tl size now maxM 0 fuel rs' c.cache q).2.1 ∧
      (cfg.policy = .random →
        (loopFuel fuel (c, q, rs) (memBody cfg tl size now maxM)).2.2 = (memLoop cfg tl size now maxM 0 fuel rs' c.cache q).2.2 ∨
        (loopFuel fuel (c, q, rs) (memBody cfg tl size now maxM)).2.1 = [])
  | 0, c, q, rs, rs', hr => by
      simp only [loopFuel, memLoop]
      exact ⟨trivial, trivial, fun h => Or.inl (hr h)⟩
  | fuel + 1, c, q, rs, rs', hr => by
      simp only [loopFuel, memLoop, memBody]
      by_cases hfit : totalMem size c.cache ≤ maxM
      · simp only [hfit, Nat.add_zero, if_true]
        exact ⟨trivial, trivial, fun h => Or.inl (hr h)⟩
      · simp only [hfit, Nat.add_zero, if_false]
        have hev : evictMem cfg tl now (rs.headD 0) c.cache q = evictMem cfg tl now (rs'.headD 0) c.cache q := by
          by_cases hp : cfg.policy = .random
          · rw [hr hp]
          · exact evictMem_indep cfg tl now _ _ c.cache q hp
        rw [hev]
        cases hres : evictMem cfg tl now (rs'.headD 0) c.cache q with
        | mk m' rest =>
          obtain ⟨q', ev⟩ := rest
          cases ev with
          | false =>
            simp only [Bool.not_false, if_true, Bool.false_eq_true, if_false]
            refine ⟨trivial, trivial, fun hp => ?_⟩
            by_cases hq : q = []
            · right
              subst hq
              simp [evictMem, hp, evictRandom] at hres
              exact hres.2
            · left
              simp [hp, hq, hr hp]
          | true =>
            simp only [Bool.not_true, Bool.false_eq_true, if_false, if_true]
            have hr' : cfg.policy = .random → (if cfg.policy = .random ∧ q ≠ [] then rs.tail else rs) = rs'.tail := by
              intro hp
              have hq : q ≠ [] := by
                intro hq; subst hq
                simp [evictMem, hp, evictRandom] at hres
              simp [hp, hq, hr hp]
            exact refLoop_eq_memLoop cfg tl size now maxM fuel { c with cache := m' } q' _ rs'.tail hr'

/-- **The sync global engine's `insert_with_memory` is the model's `insertMem`.**  With as much fuel as the model's loop
    uses (one more than the queue length after the re-queue — every successful eviction shortens the queue): for every
    cache content, configuration, key, value, size function, clock and stream of draws, the translated function leaves
    exactly the store and the queue of `Cachelito.insertMem` for the thread-local flavour. -/
theorem insert_with_memory_model (A : F64 F) (c : ThreadCache K V F) (size : V → Nat) (now hs ms : Nat) (rs : List Nat)
    (k : K) (v : V) (ok : ScoresOK A c) :
    (Thread.insert_with_memory A ⟨fun b => now - b, now⟩ size ((erasePush k c.order).length + 1) rs c k v).cache =
      (Cachelito.insertMem (cfgOf c) (T02.srcTlru A c.frequency_weight) size rs ⟨c.cache, c.order, now, hs, ms⟩ k v).store ∧
    (Thread.insert_with_memory A ⟨fun b => now - b, now⟩ size ((erasePush k c.order).length + 1) rs c k v).order =
      (Cachelito.insertMem (cfgOf c) (T02.srcTlru A c.frequency_weight) size rs ⟨c.cache, c.order, now, hs, ms⟩ k v).queue := by
  rw [insert_with_memory_eq A c size now _ rs k v ok]
  obtain ⟨map, order, limit, mm, policy, ttl, fw, st⟩ := c
  unfold refInsertMem Cachelito.insertMem
  simp only [cfgOf, stamp]
  cases mm with
  | none => simp
  | some maxM =>
    by_cases hov : size v > maxM
    · simp [hov]
    · simp only [hov, if_false]
      have h2 := refLoop_eq_memLoop (⟨.threadLocal, policy, limit, some maxM, ttl⟩ : Cfg) (T02.srcTlru A fw) size now maxM
        ((erasePush k order).length + 1) (ThreadCache.mk (put k ⟨v, now, 0⟩ map) order limit (some maxM) policy ttl fw st)
        (erasePush k order) rs rs (fun _ => rfl)
      obtain ⟨hm, hq, hrs⟩ := h2
      generalize loopFuel ((erasePush k order).length + 1)
        ((ThreadCache.mk (put k ⟨v, now, 0⟩ map) order limit (some maxM) policy ttl fw st), erasePush k order, rs)
        (memBody (⟨.threadLocal, policy, limit, some maxM, ttl⟩ : Cfg) (T02.srcTlru A fw) size now maxM) = R at hm hq hrs ⊢
      generalize memLoop (⟨.threadLocal, policy, limit, some maxM, ttl⟩ : Cfg) (T02.srcTlru A fw) size now maxM 0
        ((erasePush k order).length + 1) rs (put k ⟨v, now, 0⟩ map) (erasePush k order) = M at hm hq hrs ⊢
      obtain ⟨⟨map2, order2, limit2, mm2, policy2, ttl2, fw2, st2⟩, o2, rs2⟩ := R
      obtain ⟨m1, q1, rs1⟩ := M
      simp only [] at hm hq hrs ⊢
      subst hm hq
      have hl : limitStep (⟨.threadLocal, policy, limit, some maxM, ttl⟩ : Cfg) (T02.srcTlru A fw) now (rs2.headD 0) map2 o2 =
          limitStep (⟨.threadLocal, policy, limit, some maxM, ttl⟩ : Cfg) (T02.srcTlru A fw) now (rs1.headD 0) map2 o2 := by
        by_cases hp : policy = .random
        · rcases hrs hp with h | h
          · rw [h]
          · exact limitStep_indep _ rfl _ now _ _ map2 o2 (Or.inr h)
        · exact limitStep_indep _ rfl _ now _ _ map2 o2 (Or.inl hp)
      simp only [hl]
      exact ⟨trivial, trivial⟩

end Cachelito.T15
