use cachelito_core::{AsyncGlobalCache, EvictionPolicy, CacheStats};
use dashmap::DashMap;
use parking_lot::Mutex;
use std::collections::VecDeque;
use std::sync::Arc;
fn main() {
    for round in 0..200000u64 {
        let cache: Arc<DashMap<String, (u64, u64, u64)>> = Arc::new(DashMap::new());
        let order: Arc<Mutex<VecDeque<String>>> = Arc::new(Mutex::new(VecDeque::new()));
        let stats = Arc::new(CacheStats::new());
        // k stored long ago (expired for ttl = 1)
        cache.insert("k".to_string(), (0, 1, 0));
        order.lock().push_back("k".to_string());
        let (c1, o1, s1) = (cache.clone(), order.clone(), stats.clone());
        let (c2, o2, s2) = (cache.clone(), order.clone(), stats.clone());
        let a = std::thread::spawn(move || { let c = AsyncGlobalCache::new(&*c1, &*o1, Some(1), None, EvictionPolicy::FIFO, Some(1), None, &*s1); c.get("k"); });
        let b = std::thread::spawn(move || { let c = AsyncGlobalCache::new(&*c2, &*o2, Some(1), None, EvictionPolicy::FIFO, Some(1), None, &*s2);
            if c.get("k").is_none() { c.insert("k", 7); } });
        a.join().unwrap(); b.join().unwrap();
        let stored = cache.contains_key("k"); let tracked = order.lock().iter().any(|x| x == "k");
        if stored && !tracked {
            let c = AsyncGlobalCache::new(&*cache, &*order, Some(1), None, EvictionPolicy::FIFO, Some(1), None, &*stats);
            c.insert("j", 8);
            println!("F8 reproduced in round {}: k stored but not in queue; after insert j: {} entries (limit 1)", round, cache.len());
            return;
        }
    }
    println!("not reproduced");
}
