/-
  Helper lemmas for C19 (attribute parsers): `max_memory` strings, the parser loop, `lastVal`.
-/
import Cachelito.Attrs

set_option linter.unusedSimpArgs false
set_option linter.unusedVariables false

namespace Cachelito.Attrs

/-! ### characters -/

/-- a digit differs from any non-digit character -/
theorem isDigit_ne_of_not_digit {c d : Char} (hc : c.isDigit = true) (hd : d.isDigit = false) : c ≠ d := by
  intro h; subst h; simp [hc] at hd

/-- upper-casing leaves digits alone -/
theorem toUpper_of_isDigit {c : Char} (hc : c.isDigit = true) : c.toUpper = c := by
  have h1 : c.val ≤ 57 := by
    have := hc; simp [Char.isDigit] at this; exact this.2
  unfold Char.toUpper
  have : ¬ (c.val ≥ 97 ∧ c.val ≤ 122) := by
    intro ⟨h2, _⟩
    have h3 : (97 : UInt32) ≤ 57 := UInt32.le_trans h2 h1
    exact absurd h3 (by decide)
  simp [this]

/-! ### `(aB)^j` -/

/-- `j` repetitions of the two characters `a B` -/
def reps (a : Char) : Nat → List Char
  | 0 => []
  | j + 1 => a :: 'B' :: reps a j

/-- `(aB)^(j+1)` with the extra unit at the END -/
theorem reps_succ' (a : Char) (j : Nat) : reps a (j + 1) = reps a j ++ [a, 'B'] := by
  induction j with
  | zero => rfl
  | succ j ih =>
    show a :: 'B' :: reps a (j + 1) = (a :: 'B' :: reps a j) ++ [a, 'B']
    rw [ih]; rfl

/-- reversed, `(aB)^(j+1)` starts with `B a` -/
theorem reverse_reps_succ (a : Char) (j : Nat) : (reps a (j + 1)).reverse = 'B' :: a :: (reps a j).reverse := by
  rw [reps_succ']; simp

/-- `unitReps` counts the repetitions of `(aB)^j` -/
theorem unitReps_reps (a : Char) (j : Nat) : unitReps a (reps a j) = some j := by
  induction j with
  | zero => rfl
  | succ j ih => simp [reps, unitReps, ih]

/-- `unitReps` succeeds only on `(aB)^j` -/
theorem eq_reps_of_unitReps {a : Char} : ∀ {l : List Char} {j : Nat}, unitReps a l = some j → l = reps a j
  | [], j, h => by simp [unitReps] at h; subst h; rfl
  | [_], j, h => by simp [unitReps] at h
  | x :: y :: r, j, h => by
    simp only [unitReps] at h
    split at h
    · rename_i hxy
      cases hr : unitReps a r with
      | none => simp [hr] at h
      | some j' =>
        simp [hr] at h
        subst h
        rw [eq_reps_of_unitReps hr, hxy.1, hxy.2]
        rfl
    · simp at h

/-! ### `ends_with` / `trim_end_matches` on the shape `s ++ (aB)^j` -/

/-- trimming skips every leading `B a` of the reversed string -/
theorem trimRev2_reps (a : Char) (j : Nat) (r : List Char) :
    trimRev2 a 'B' ((reps a j).reverse ++ r) = trimRev2 a 'B' r := by
  induction j with
  | zero => simp [reps]
  | succ j ih => rw [reverse_reps_succ]; simp [trimRev2, ih]

/-- the reversed string does not start with `B a` -/
def noUnitHead (a : Char) : List Char → Prop
  | y :: x :: _ => ¬ (x = a ∧ y = 'B')
  | _ => True

/-- nothing to trim when the reversed string does not start with `B a` -/
theorem trimRev2_of_noUnitHead {a : Char} : ∀ {r : List Char}, noUnitHead a r → trimRev2 a 'B' r = r
  | [], _ => rfl
  | [_], _ => rfl
  | y :: x :: r, h => by simp only [noUnitHead] at h; simp [trimRev2, h]

/-- `trim_end_matches` on `s (aB)^j` gives `s` when `s` does not itself end with the unit -/
theorem trimEndMatches2_shape {a : Char} {s : List Char} (h : noUnitHead a s.reverse) (j : Nat) :
    trimEndMatches2 a 'B' (s ++ reps a j) = s := by
  unfold trimEndMatches2
  rw [List.reverse_append, trimRev2_reps, trimRev2_of_noUnitHead h, List.reverse_reverse]

/-- every string is its trimmed part followed by some `(aB)^j` -/
theorem exists_reps_of_trim (a : Char) : ∀ (r : List Char), ∃ j, r = (reps a j).reverse ++ trimRev2 a 'B' r
  | [] => ⟨0, rfl⟩
  | [y] => ⟨0, rfl⟩
  | y :: x :: r => by
    by_cases h : x = a ∧ y = 'B'
    · obtain ⟨j, hj⟩ := exists_reps_of_trim a r
      refine ⟨j + 1, ?_⟩
      rw [reverse_reps_succ]
      simp only [trimRev2, h, and_self, if_true, List.cons_append]
      rw [← hj]
    · exact ⟨0, by simp [trimRev2, h, reps]⟩

/-- every string is its `trim_end_matches` result followed by some `(aB)^j` -/
theorem exists_reps_of_trimEnd (a : Char) (u : List Char) : ∃ j, u = trimEndMatches2 a 'B' u ++ reps a j := by
  obtain ⟨j, hj⟩ := exists_reps_of_trim a u.reverse
  refine ⟨j, ?_⟩
  unfold trimEndMatches2
  have := congrArg List.reverse hj
  simpa using this

/-- `s (cB)^(j+1)` ends with `aB` exactly when `c = a` -/
theorem endsWith2_shape_succ (a c : Char) (s : List Char) (j : Nat) :
    endsWith2 a 'B' (s ++ reps c (j + 1)) = (c == a) := by
  unfold endsWith2
  rw [List.reverse_append, reverse_reps_succ]
  simp

/-- a string ending in a digit does not end with a unit -/
theorem endsWith2_of_last_digit {a : Char} {s : List Char} {d : Char} (hd : d.isDigit = true) :
    endsWith2 a 'B' (s ++ [d]) = false := by
  unfold endsWith2
  rw [List.reverse_append]
  cases hs : s.reverse with
  | nil => simp
  | cons x r =>
    have : d ≠ 'B' := isDigit_ne_of_not_digit hd (by decide)
    simp [this]

/-- a string ending in a digit does not end with a unit (reversed form) -/
theorem noUnitHead_of_last_digit {a : Char} {s : List Char} {d : Char} (hd : d.isDigit = true) :
    noUnitHead a (s ++ [d]).reverse := by
  rw [List.reverse_append]
  have : d ≠ 'B' := isDigit_ne_of_not_digit hd (by decide)
  cases hs : s.reverse with
  | nil => simp [noUnitHead]
  | cons x r => simp [noUnitHead, this]

/-! ### `parse::<usize>` -/

/-- the optional sign -/
def signL (sg : Bool) : List Char := if sg then ['+'] else []

/-- a non-empty digit string ends with a digit -/
theorem exists_last_digit {ds : List Char} (hne : ds ≠ []) (hall : ds.all Char.isDigit = true) :
    ∃ init d, ds = init ++ [d] ∧ d.isDigit = true := by
  refine ⟨ds.dropLast, ds.getLast hne, (List.dropLast_concat_getLast hne).symm, ?_⟩
  exact (List.all_eq_true.mp hall) _ (List.getLast_mem hne)

/-- `parse::<usize>` on `[+] digits`: the value if it is below `2^64` -/
theorem parseUsize_shape (sg : Bool) {ds : List Char} (hne : ds ≠ []) (hall : ds.all Char.isDigit = true) :
    parseUsize (signL sg ++ ds) = if decVal ds < usizeBound then some (decVal ds) else none := by
  cases ds with
  | nil => exact absurd rfl hne
  | cons d ds' =>
    have hd : d.isDigit = true := by simp at hall; exact hall.1
    have hplus : d ≠ '+' := isDigit_ne_of_not_digit hd (by decide)
    cases sg with
    | true => simp [signL, parseUsize, hall]
    | false =>
      simp only [signL, parseUsize, Bool.false_eq_true, if_false, List.nil_append]
      split
      · rename_i r heq; simp at heq; exact absurd heq.1 hplus
      · simp [hall]

/-- `parse::<usize>` succeeds only on `[+] digits` with a value below `2^64` -/
theorem shape_of_parseUsize {s : List Char} {n : Nat} (h : parseUsize s = some n) :
    ∃ sg ds, s = signL sg ++ ds ∧ ds ≠ [] ∧ ds.all Char.isDigit = true ∧ decVal ds = n ∧ n < usizeBound := by
  unfold parseUsize at h
  split at h
  · rename_i r
    refine ⟨true, r, by simp [signL], ?_⟩
    by_cases hr : r = []
    · simp [hr] at h
    · simp only [hr, if_false] at h
      split at h
      · rename_i hall
        split at h
        · rename_i hlt; simp at h; exact ⟨hr, hall, h, h ▸ hlt⟩
        · simp at h
      · simp at h
  · refine ⟨false, s, by simp [signL], ?_⟩
    by_cases hr : s = []
    · simp [hr] at h
    · simp only [hr, if_false] at h
      split at h
      · rename_i hall
        split at h
        · rename_i hlt; simp at h; exact ⟨hr, hall, h, h ▸ hlt⟩
        · simp at h
      · simp at h

/-! ### the forward scanner on a shape -/

/-- the digit prefix of `ds ++ rest` is `ds` when `rest` does not start with a digit -/
theorem takeWhile_digits_append {ds rest : List Char} (hall : ds.all Char.isDigit = true)
    (hrest : ∀ c r, rest = c :: r → c.isDigit = false) :
    (ds ++ rest).takeWhile Char.isDigit = ds ∧ (ds ++ rest).dropWhile Char.isDigit = rest := by
  induction ds with
  | nil =>
    cases rest with
    | nil => simp
    | cons c r => simp [hrest c r rfl]
  | cons d ds ih =>
    simp at hall
    have := ih (by simpa using hall.2)
    simp [hall.1, this.1, this.2]

/-- `(cB)^j` does not start with a digit when `c` is not one -/
theorem reps_head_not_digit {c : Char} (hc : c.isDigit = false) (j : Nat) :
    ∀ x r, reps c j = x :: r → x.isDigit = false := by
  intro x r h
  cases j with
  | zero => simp [reps] at h
  | succ j => simp [reps] at h; rw [← h.1]; exact hc

/-- unit letter of exponent `k` -/
def unitChar (k : Nat) : Char := if k = 1 then 'K' else if k = 2 then 'M' else 'G'

/-- everything `takeWhile p` keeps satisfies `p` -/
theorem all_takeWhile (p : Char → Bool) : ∀ (l : List Char), (l.takeWhile p).all p = true
  | [] => rfl
  | x :: l => by
    by_cases hx : p x = true
    · simp only [List.takeWhile_cons, hx, if_true, List.all_cons, Bool.true_and]; exact all_takeWhile p l
    · simp [List.takeWhile_cons, hx]

/-- the scanner accepts `(cB)^j` for each of the three unit letters -/
theorem scanUnit_reps {c : Char} (hc : c = 'K' ∨ c = 'M' ∨ c = 'G') (j : Nat) :
    (scanUnit (reps c j)).isSome = true := by
  cases j with
  | zero => rfl
  | succ j =>
    have hu := unitReps_reps c (j + 1)
    simp only [reps] at hu
    simp only [reps, scanUnit, hu]
    rcases hc with h | h | h <;> subst h <;> simp [unitExp]

/-- what the scanner accepts after the digits is nothing, or `(unit)^j` with `j ≥ 1` -/
theorem shape_of_scanUnit {rest : List Char} {k j : Nat} (h : scanUnit rest = some (k, j)) :
    rest = reps (unitChar k) j ∧ ((k = 0 ∧ j = 0) ∨ ((k = 1 ∨ k = 2 ∨ k = 3) ∧ 1 ≤ j)) := by
  cases rest with
  | nil => simp [scanUnit] at h; obtain ⟨h1, h2⟩ := h; subst h1; subst h2; exact ⟨rfl, Or.inl ⟨rfl, rfl⟩⟩
  | cons c r =>
    simp only [scanUnit] at h
    split at h
    · simp at h
    · rename_i hk
      cases hj' : unitReps c (c :: r) with
      | none => simp [hj'] at h
      | some j' =>
        simp [hj'] at h
        obtain ⟨h3, h4⟩ := h
        subst h4
        have hrep := eq_reps_of_unitReps hj'
        have hck : c = unitChar k ∧ (k = 1 ∨ k = 2 ∨ k = 3) := by
          unfold unitExp at h3 hk
          by_cases c1 : c = 'K'
          · simp [c1] at h3; subst h3; exact ⟨by simp [unitChar, c1], Or.inl rfl⟩
          · by_cases c2 : c = 'M'
            · simp [c2] at h3; subst h3; exact ⟨by simp [unitChar, c2], Or.inr (Or.inl rfl)⟩
            · by_cases c3 : c = 'G'
              · simp [c3] at h3; subst h3; exact ⟨by simp [unitChar, c3], Or.inr (Or.inr rfl)⟩
              · simp [c1, c2, c3] at hk
        have hj1 : 1 ≤ j' := by
          cases j' with
          | zero => simp [reps] at hrep
          | succ _ => omega
        exact ⟨by rw [← hck.1]; exact hrep, Or.inr ⟨hck.2, hj1⟩⟩

/-- the scanner accepts `digits (unit)^j` -/
theorem scanBody_isSome_of_shape (sg : Bool) {ds : List Char} (hne : ds ≠ []) (hall : ds.all Char.isDigit = true)
    {c : Char} (hc : c = 'K' ∨ c = 'M' ∨ c = 'G') (j : Nat) :
    (scanBody sg (ds ++ reps c j)).isSome = true := by
  have hcd : c.isDigit = false := by rcases hc with h | h | h <;> subst h <;> decide
  obtain ⟨htw, hdw⟩ := takeWhile_digits_append (rest := reps c j) hall (reps_head_not_digit hcd j)
  unfold scanBody
  rw [htw, hdw]
  simp only [hne, if_false, Option.isSome_map]
  exact scanUnit_reps hc j

/-- what a successful scan of the unsigned part says about it -/
theorem shape_of_scanBody {body : List Char} {sg sg' : Bool} {n k j : Nat}
    (h : scanBody sg body = some (sg', n, k, j)) :
    sg' = sg ∧ ∃ ds, body = ds ++ reps (unitChar k) j ∧ ds ≠ [] ∧ ds.all Char.isDigit = true ∧ decVal ds = n ∧
      ((k = 0 ∧ j = 0) ∨ ((k = 1 ∨ k = 2 ∨ k = 3) ∧ 1 ≤ j)) := by
  unfold scanBody at h
  split at h
  · simp at h
  · rename_i hds
    cases hu : scanUnit (body.dropWhile Char.isDigit) with
    | none => simp [hu] at h
    | some kj =>
      obtain ⟨k', j'⟩ := kj
      simp [hu] at h
      obtain ⟨h1, h2, h3, h4⟩ := h
      subst h1; subst h3; subst h4
      obtain ⟨hrest, hkj⟩ := shape_of_scanUnit hu
      refine ⟨rfl, body.takeWhile Char.isDigit, ?_, hds, all_takeWhile _ _, h2, hkj⟩
      rw [← hrest, List.takeWhile_append_dropWhile]

/-- the scanner on `[+] ds rest` when `ds` starts with a digit -/
theorem scanMM_sign (sg : Bool) {ds : List Char} (hne : ds ≠ []) (hall : ds.all Char.isDigit = true) (rest : List Char) :
    scanMM (signL sg ++ ds ++ rest) = scanBody sg (ds ++ rest) := by
  cases ds with
  | nil => exact absurd rfl hne
  | cons d ds' =>
    have hd : d.isDigit = true := by simp at hall; exact hall.1
    have hplus : d ≠ '+' := isDigit_ne_of_not_digit hd (by decide)
    cases sg with
    | true => simp [signL, scanMM]
    | false =>
      simp only [signL, Bool.false_eq_true, if_false, List.nil_append, List.cons_append]
      unfold scanMM
      split
      · rename_i heq; simp at heq; exact absurd heq.1 hplus
      · rfl

/-- the shapes `scanMM` recognises -/
theorem scanMM_isSome_of_shape (sg : Bool) {ds : List Char} (hne : ds ≠ []) (hall : ds.all Char.isDigit = true)
    {c : Char} (hc : c = 'K' ∨ c = 'M' ∨ c = 'G') (j : Nat) :
    (scanMM (signL sg ++ ds ++ reps c j)).isSome = true := by
  rw [scanMM_sign sg hne hall]; exact scanBody_isSome_of_shape sg hne hall hc j

/-- what a successful scan says about the string -/
theorem shape_of_scanMM {u : List Char} {sg : Bool} {n k j : Nat} (h : scanMM u = some (sg, n, k, j)) :
    ∃ ds, u = signL sg ++ ds ++ reps (unitChar k) j ∧ ds ≠ [] ∧ ds.all Char.isDigit = true ∧ decVal ds = n ∧
      ((k = 0 ∧ j = 0) ∨ ((k = 1 ∨ k = 2 ∨ k = 3) ∧ 1 ≤ j)) := by
  unfold scanMM at h
  split at h
  · rename_i r
    obtain ⟨hsg, ds, hb, rest⟩ := shape_of_scanBody h
    subst hsg
    exact ⟨ds, by simp [signL, hb], rest⟩
  · obtain ⟨hsg, ds, hb, rest⟩ := shape_of_scanBody h
    subst hsg
    exact ⟨ds, by simp [signL, hb], rest⟩

/-! ### the `max_memory` string parser against the scanner -/

/-- no unit: no multiplication -/
theorem mulUnit_zero {n : Nat} (h : n < usizeBound) : mulUnit n 0 = .ok (some n) := by
  simp [mulUnit, h]

/-- the parser on `[+] ds` -/
theorem parseMaxMemoryUpper_plain (sg : Bool) {ds : List Char} (hne : ds ≠ [])
    (hall : ds.all Char.isDigit = true) :
    parseMaxMemoryUpper (signL sg ++ ds) =
      if decVal ds < usizeBound then .ok (some (decVal ds)) else .compileError .mmFormat := by
  obtain ⟨init, d, hds, hd⟩ := exists_last_digit hne hall
  have he : ∀ a, endsWith2 a 'B' (signL sg ++ ds) = false := by
    intro a; rw [hds, ← List.append_assoc]; exact endsWith2_of_last_digit hd
  unfold parseMaxMemoryUpper
  simp only [he, Bool.false_eq_true, if_false]
  rw [parseUsize_shape sg hne hall]
  by_cases hlt : decVal ds < usizeBound <;> simp [hlt]

/-- a unit branch of the parser on `[+] ds (aB)^j` -/
theorem mmWithUnit_shape (sg : Bool) {ds : List Char} (hne : ds ≠ [])
    (hall : ds.all Char.isDigit = true) (a : Char) (k j : Nat) :
    mmWithUnit (signL sg ++ ds ++ reps a j) a k =
      if decVal ds < usizeBound then mulUnit (decVal ds) k else .compileError .mmNumber := by
  obtain ⟨init, d, hds, hd⟩ := exists_last_digit hne hall
  have hnh : noUnitHead a (signL sg ++ ds).reverse := by
    rw [hds, ← List.append_assoc]; exact noUnitHead_of_last_digit hd
  unfold mmWithUnit
  rw [trimEndMatches2_shape hnh, parseUsize_shape sg hne hall]
  by_cases hlt : decVal ds < usizeBound <;> simp [hlt]

/-- the parser on `[+] ds (cB)^(j+1)` -/
theorem parseMaxMemoryUpper_unit (sg : Bool) {ds : List Char} (hne : ds ≠ [])
    (hall : ds.all Char.isDigit = true) {k : Nat} (hk : k = 1 ∨ k = 2 ∨ k = 3) (j : Nat) :
    parseMaxMemoryUpper (signL sg ++ ds ++ reps (unitChar k) (j + 1)) =
      if decVal ds < usizeBound then mulUnit (decVal ds) k else .compileError .mmNumber := by
  unfold parseMaxMemoryUpper
  rw [endsWith2_shape_succ, endsWith2_shape_succ, endsWith2_shape_succ]
  rcases hk with h | h | h <;> subst h
  · rw [show unitChar 1 = 'K' from rfl, show ('K' == 'G') = false from by decide,
      show ('K' == 'M') = false from by decide, show ('K' == 'K') = true from by decide]
    simp only [Bool.false_eq_true, if_false, if_true]
    exact mmWithUnit_shape sg hne hall 'K' 1 (j + 1)
  · rw [show unitChar 2 = 'M' from rfl, show ('M' == 'G') = false from by decide,
      show ('M' == 'M') = true from by decide]
    simp only [Bool.false_eq_true, if_false, if_true]
    exact mmWithUnit_shape sg hne hall 'M' 2 (j + 1)
  · rw [show unitChar 3 = 'G' from rfl, show ('G' == 'G') = true from by decide]
    simp only [if_true]
    exact mmWithUnit_shape sg hne hall 'G' 3 (j + 1)

/-- **Accepted forms.**  A string the scanner reads as `[+] n (unit)^j` with `n < 2^64` is parsed to
    `n · 1024^k` (one factor per unit KIND, whatever the number of repetitions) by `checked_mul`: `mulUnit`. -/
theorem parseMaxMemoryUpper_of_scan {u : List Char} {sg : Bool} {n k j : Nat}
    (h : scanMM u = some (sg, n, k, j)) (hn : n < usizeBound) :
    parseMaxMemoryUpper u = mulUnit n k := by
  obtain ⟨ds, hu, hne, hall, hval, hkj⟩ := shape_of_scanMM h
  subst hval
  rcases hkj with ⟨hk, hj⟩ | ⟨hk, hj⟩
  · subst hk; subst hj
    simp only [reps, List.append_nil] at hu
    rw [hu, parseMaxMemoryUpper_plain sg hne hall, mulUnit_zero hn]
    simp [hn]
  · obtain ⟨j', rfl⟩ : ∃ j', j = j' + 1 := ⟨j - 1, by omega⟩
    rw [hu, parseMaxMemoryUpper_unit sg hne hall hk j']
    simp [hn]

/-- a number that does not fit in `usize` is refused (`compile_error!` tokens) -/
theorem parseMaxMemoryUpper_of_scan_big {u : List Char} {sg : Bool} {n k j : Nat}
    (h : scanMM u = some (sg, n, k, j)) (hn : usizeBound ≤ n) :
    ∃ e, parseMaxMemoryUpper u = .compileError e := by
  obtain ⟨ds, hu, hne, hall, hval, hkj⟩ := shape_of_scanMM h
  subst hval
  have hn' : ¬ decVal ds < usizeBound := by omega
  rcases hkj with ⟨hk, hj⟩ | ⟨hk, hj⟩
  · subst hk; subst hj
    simp only [reps, List.append_nil] at hu
    rw [hu, parseMaxMemoryUpper_plain sg hne hall]
    exact ⟨.mmFormat, by simp [hn']⟩
  · obtain ⟨j', rfl⟩ : ∃ j', j = j' + 1 := ⟨j - 1, by omega⟩
    rw [hu, parseMaxMemoryUpper_unit sg hne hall hk j']
    exact ⟨.mmNumber, by simp [hn']⟩

/-- a unit branch of the parser refuses whatever the scanner cannot read -/
theorem mmWithUnit_of_scan_none {u : List Char} (h : scanMM u = none) {a : Char}
    (ha : a = 'K' ∨ a = 'M' ∨ a = 'G') (k : Nat) :
    mmWithUnit u a k = .compileError .mmNumber := by
  unfold mmWithUnit
  cases hp : parseUsize (trimEndMatches2 a 'B' u) with
  | none => rfl
  | some n =>
    exfalso
    obtain ⟨sg, ds, hs, hne, hall, _, _⟩ := shape_of_parseUsize hp
    obtain ⟨j, hj⟩ := exists_reps_of_trimEnd a u
    have := scanMM_isSome_of_shape sg hne hall ha j
    rw [← hs, ← hj, h] at this
    simp at this

/-- **Everything else is refused**: a string the scanner cannot read yields `compile_error!` tokens. -/
theorem parseMaxMemoryUpper_of_scan_none {u : List Char} (h : scanMM u = none) :
    ∃ e, parseMaxMemoryUpper u = .compileError e := by
  unfold parseMaxMemoryUpper
  split
  · exact ⟨_, mmWithUnit_of_scan_none h (Or.inr (Or.inr rfl)) 3⟩
  · split
    · exact ⟨_, mmWithUnit_of_scan_none h (Or.inr (Or.inl rfl)) 2⟩
    · split
      · exact ⟨_, mmWithUnit_of_scan_none h (Or.inl rfl) 1⟩
      · cases hp : parseUsize u with
        | none => exact ⟨_, rfl⟩
        | some n =>
          exfalso
          obtain ⟨sg, ds, hs, hne, hall, _, _⟩ := shape_of_parseUsize hp
          have := scanMM_isSome_of_shape sg hne hall (Or.inl rfl) 0
          simp only [reps, List.append_nil] at this
          rw [← hs, h] at this
          simp at this

/-! ### `lastVal` -/

/-- `lastVal` after appending one attribute -/
theorem lastVal_snoc (name : String) (p : AttrList) (n : String) (v : AttrVal) :
    lastVal name (p ++ [(n, v)]) = if n = name then some v else lastVal name p := by
  induction p with
  | nil => simp [lastVal]
  | cons a p ih =>
    obtain ⟨n', v'⟩ := a
    simp only [List.cons_append, lastVal, ih]
    by_cases h : n = name <;> simp [h]

/-! ### values: a valid value is parsed to what it denotes -/

/-- a valid `limit` is parsed to the written number -/
theorem parseLimit_of_valid {v : AttrVal} (h : validLimit v = true) : parseLimit v = .ok (natOf (some v)) := by
  cases v <;> simp [validLimit] at h
  rename_i neg val suf
  cases neg <;> simp [validLimit] at h
  simp [parseLimit, natOf, h]

/-- a valid `ttl` is parsed to the written number (no panic) -/
theorem parseTtl_of_valid {v : AttrVal} (h : validTtl v = true) : parseTtl v = .ok (.ok (natOf (some v))) := by
  cases v <;> simp [validTtl] at h
  rename_i neg val suf
  cases neg <;> simp [validTtl] at h
  simp [parseTtl, natOf, h]

/-- the six policy names round-trip through `Policy` -/
theorem policyName_policyOfName {s : String} (h : policies.contains s = true) : policyName (policyOfName s) = s := by
  simp [policies] at h
  rcases h with rfl | rfl | rfl | rfl | rfl | rfl <;> decide

/-- a valid `policy` is a string naming one of the six policies, accepted as such -/
theorem parsePolicy_of_valid {v : AttrVal} (h : validPolicy v = true) :
    ∃ s, v = .strLit s ∧ policies.contains s = true ∧ parsePolicy v = .ok s := by
  cases v <;> simp [validPolicy] at h
  rename_i s
  exact ⟨s, rfl, by simpa using h, by simp [parsePolicy, h]⟩

/-- a valid `scope` is `"global"` or `"thread"`, accepted as such -/
theorem parseScope_of_valid {v : AttrVal} (h : validScope v = true) :
    ∃ s, v = .strLit s ∧ parseScope v = .ok (if s = "thread" then .thread else .global) := by
  cases v <;> simp [validScope] at h
  rename_i s
  refine ⟨s, rfl, ?_⟩
  rcases h with rfl | rfl <;> simp [parseScope]

/-- a string `name` is taken as written -/
theorem parseName_of_valid {v : AttrVal} (h : isStr v = true) : parseName v = strOf (some v) := by
  cases v <;> simp [isStr] at h
  rfl

/-- an array of string literals is read element by element -/
theorem parseElems_of_valid : ∀ {elems : List ArrElem},
    elems.all ArrElem.isStr = true → parseElems elems = some (elems.filterMap ArrElem.str?)
  | [], _ => rfl
  | .str s :: r, h => by
    simp only [List.all_cons, ArrElem.isStr, Bool.true_and] at h
    simp [parseElems, parseElems_of_valid h, ArrElem.str?]
  | .other :: r, h => by simp [ArrElem.isStr] at h

/-- a valid `tags` / `events` / `dependencies` value is parsed to the written strings -/
theorem parseStringArray_of_valid {v : AttrVal} (h : validStrArray v = true) :
    parseStringArray v = .ok (strsOf (some v)) := by
  cases v <;> simp [validStrArray] at h
  rename_i elems
  have h' : elems.all ArrElem.isStr = true := by simpa using h
  simp [parseStringArray, strsOf, parseElems_of_valid h']

/-- a path is taken as written -/
theorem parsePathAttr_of_valid (msg : String) {v : AttrVal} (h : isPath v = true) :
    ∃ p, v = .path p ∧ parsePathAttr msg v = .ok p := by
  cases v <;> simp [isPath] at h
  exact ⟨_, rfl, rfl⟩

/-- a product that fits in `usize` is computed exactly -/
theorem mulUnit_of_lt {n k : Nat} (h : n * 1024 ^ k < usizeBound) : mulUnit n k = .ok (some (n * 1024 ^ k)) := by
  simp [mulUnit, h]

/-- a product that does not fit is refused -/
theorem mulUnit_of_ge {n k : Nat} (h : usizeBound ≤ n * 1024 ^ k) : mulUnit n k = .compileError .mmTooLarge := by
  have : ¬ n * 1024 ^ k < usizeBound := Nat.not_lt.mpr h
  simp [mulUnit, this]

/-- multiplying by a power of 1024 does not decrease -/
theorem le_mul_pow (n k : Nat) : n ≤ n * 1024 ^ k :=
  Nat.le_mul_of_pos_right n (Nat.pow_pos (by decide))

/-- a documented `max_memory` string is parsed to the number of bytes it denotes -/
theorem parseMaxMemoryStr_of_strict {s : String} {b : Nat} (h : mmStrict s = some b) :
    parseMaxMemoryStr s.toList = .ok (some b) := by
  unfold mmStrict at h
  split at h
  · rename_i n k j hscan
    split at h
    · rename_i hc
      simp at h
      subst h
      have hn : n < usizeBound := Nat.lt_of_le_of_lt (le_mul_pow n k) hc.2
      unfold parseMaxMemoryStr
      rw [parseMaxMemoryUpper_of_scan hscan hn, mulUnit_of_lt hc.2]
    · simp at h
  · simp at h

/-- a valid `max_memory` (documented string form or integer literal) is parsed to the bytes it denotes -/
theorem parseMaxMemory_of_valid {v : AttrVal} (h : validMaxMemory v = true) :
    parseMaxMemory v = .ok (.ok (memOf (some v))) := by
  cases v <;> simp [validMaxMemory] at h
  · rename_i neg val suf
    cases neg <;> simp [validMaxMemory] at h
    simp [parseMaxMemory, memOf, h]
  · rename_i s
    cases hb : mmStrict s with
    | none => simp [hb] at h
    | some b => simp [parseMaxMemory, memOf, hb, parseMaxMemoryStr_of_strict hb]

/-- a valid `frequency_weight` is parsed to the `f64` nearest to the written number -/
theorem parseFrequencyWeight_of_valid {v : AttrVal} (h : validFrequencyWeight v = true) :
    parseFrequencyWeight v = .ok (.ok (weightOf (some v))) := by
  cases v <;> simp [validFrequencyWeight] at h
  · rename_i neg val suf
    cases neg <;> simp [validFrequencyWeight] at h
    simp [parseFrequencyWeight, weightOf, h.2]
  · rename_i neg m e suf
    cases neg <;> simp [validFrequencyWeight] at h
    cases hr : roundDec m e with
    | zero => simp [hr] at h
    | inf => simp [hr] at h
    | finite x => simp [parseFrequencyWeight, weightOf, hr, Rounded.toF64]

/-! ### one loop iteration on a valid attribute -/

/-- Processing a valid attribute in the state that carries the meaning of the attributes before it yields the
    state that carries the meaning of the list extended by that attribute. -/
theorem stepAttr_meaning (k : Kind) (p : AttrList) {n : String} {v : AttrVal}
    (h : validAttr k n v = true) :
    stepAttr k (meaning k p).toParsed n v = .ok (meaning k (p ++ [(n, v)])).toParsed := by
  unfold validAttr at h
  split at h
  · subst n
    simp [stepAttr, meaning, Meaning.toParsed, lastVal_snoc, parseLimit_of_valid h, liftValue]
  split at h
  · subst n
    obtain ⟨s, rfl, hs, hp⟩ := parsePolicy_of_valid h
    simp [stepAttr, meaning, Meaning.toParsed, lastVal_snoc, hp, liftErr, strOf, policyName_policyOfName hs]
  split at h
  · subst n
    simp [stepAttr, meaning, Meaning.toParsed, lastVal_snoc, parseTtl_of_valid h, liftValue]
  split at h
  · subst n
    simp only [Bool.and_eq_true, decide_eq_true_eq] at h
    obtain ⟨hk, hv⟩ := h
    subst hk
    obtain ⟨s, rfl, hp⟩ := parseScope_of_valid hv
    simp [stepAttr, meaning, Meaning.toParsed, lastVal_snoc, hp, liftErr, strOf]
  split at h
  · subst n
    simp [stepAttr, meaning, Meaning.toParsed, lastVal_snoc, parseName_of_valid h]
  split at h
  · subst n
    simp [stepAttr, meaning, Meaning.toParsed, lastVal_snoc, parseMaxMemory_of_valid h, liftValue]
  split at h
  · rename_i hn
    rcases hn with rfl | rfl | rfl <;>
      simp [stepAttr, meaning, Meaning.toParsed, lastVal_snoc, parseStringArray_of_valid h, liftErr]
  split at h
  · rename_i hn
    rcases hn with rfl | rfl
    · obtain ⟨q, rfl, hp⟩ := parsePathAttr_of_valid msgInvalidateOn h
      simp [stepAttr, meaning, Meaning.toParsed, lastVal_snoc, hp, liftErr, pathOf]
    · obtain ⟨q, rfl, hp⟩ := parsePathAttr_of_valid msgCacheIf h
      simp [stepAttr, meaning, Meaning.toParsed, lastVal_snoc, hp, liftErr, pathOf]
  split at h
  · subst n
    simp [stepAttr, meaning, Meaning.toParsed, lastVal_snoc, parseFrequencyWeight_of_valid h, liftValue]
  · simp at h

/-- the meaning of the empty list is `Default::default()` -/
theorem meaning_nil (k : Kind) : (meaning k []).toParsed = Parsed.default := by
  cases k <;> rfl

/-- the loop from the state that carries the meaning of `p`, over a valid remainder -/
theorem parseLoop_meaning (k : Kind) : ∀ (rest p : AttrList), Valid k rest →
    parseLoop k (meaning k p).toParsed rest = .ok (meaning k (p ++ rest)).toParsed
  | [], p, _ => by simp [parseLoop]
  | (n, v) :: rest, p, h => by
    have hv : validAttr k n v = true := h (n, v) (List.mem_cons_self)
    have hr : Valid k rest := fun a ha => h a (List.mem_cons_of_mem _ ha)
    simp only [parseLoop, stepAttr_meaning k p hv]
    rw [parseLoop_meaning k rest (p ++ [(n, v)]) hr]
    simp

/-! ### rejections -/

/-- an attribute on which an iteration fails in EVERY state makes the whole parse fail, wherever it stands -/
theorem parseLoop_error_of_mem (k : Kind) {n : String} {v : AttrVal}
    (hstep : ∀ st, ∃ e, stepAttr k st n v = .error e) :
    ∀ (l : AttrList) (st : Parsed), (n, v) ∈ l → ∃ e, parseLoop k st l = .error e
  | [], _, h => by simp at h
  | (n', v') :: rest, st, h => by
    simp only [parseLoop]
    cases hs : stepAttr k st n' v' with
    | error e => exact ⟨e, rfl⟩
    | ok st' =>
      rcases List.mem_cons.mp h with heq | hmem
      · obtain ⟨e, he⟩ := hstep st
        have : n' = n ∧ v' = v := by cases heq; exact ⟨rfl, rfl⟩
        rw [this.1, this.2, he] at hs
        cases hs
      · exact parseLoop_error_of_mem k hstep rest st' hmem

/-- an unknown name makes the iteration return `Err("Unknown attribute …")` in every state -/
theorem stepAttr_unknown (k : Kind) (st : Parsed) {n : String} (v : AttrVal)
    (h : (knownNames k).contains n = false) :
    stepAttr k st n v = .error (.parserErr (msgUnknown k n)) := by
  cases k <;> simp [knownNames] at h <;> simp [stepAttr, h]

/-- an invalid `policy` value makes the iteration return `Err` in every state -/
theorem stepAttr_policy_invalid (k : Kind) (st : Parsed) {v : AttrVal} (h : validPolicy v = false) :
    ∃ m, stepAttr k st "policy" v = .error (.parserErr m) := by
  cases v <;> simp [validPolicy] at h <;> simp [stepAttr, liftErr, parsePolicy, h]

/-- an invalid `scope` value makes the iteration of `#[cache]` return `Err` in every state -/
theorem stepAttr_scope_invalid (st : Parsed) {v : AttrVal} (h : validScope v = false) :
    ∃ m, stepAttr .sync st "scope" v = .error (.parserErr m) := by
  cases v <;> simp [validScope] at h <;> simp [stepAttr, liftErr, parseScope, h]

/-! #### which value ends up in a field -/

/-- inversion of `liftErr` -/
theorem liftErr_ok {α : Type} {r : Except String α} {f : α → Parsed} {st' : Parsed}
    (h : liftErr r f = .ok st') : ∃ a, r = .ok a ∧ st' = f a := by
  cases r with
  | error m => simp [liftErr] at h
  | ok a => simp [liftErr] at h; exact ⟨a, rfl, h.symm⟩

/-- inversion of `liftValue`: only `None` / `Some(..)` tokens are ever stored -/
theorem liftValue_ok {α : Type} {r : Except String (Spliced α)} {f : Spliced α → Parsed} {st' : Parsed}
    (h : liftValue r f = .ok st') : ∃ o, r = .ok (.ok o) ∧ st' = f (.ok o) := by
  cases r with
  | error m => simp [liftValue] at h
  | ok sp =>
    cases sp with
    | compileError e => simp [liftValue] at h
    | ok o => simp [liftValue] at h; exact ⟨o, rfl, h.symm⟩

/-- `reject_invalid`: a value parser that panics or produces `compile_error!` tokens makes the iteration fail -/
theorem liftValue_error {α : Type} {r : Except String (Spliced α)} (f : Spliced α → Parsed)
    (h : ∀ t, r = .ok t → t.isOk = false) : ∃ e, liftValue r f = .error e := by
  cases r with
  | error m => exact ⟨_, rfl⟩
  | ok sp =>
    cases sp with
    | compileError e => exact ⟨_, rfl⟩
    | ok o => have := h _ rfl; simp [Spliced.isOk] at this

/-- effect of one successful iteration on the four fields filled by the value parsers: untouched, or set to
    the `None` / `Some(..)` tokens its value parser produced -/
theorem stepAttr_fields {k : Kind} {st st' : Parsed} {n : String} {v : AttrVal}
    (h : stepAttr k st n v = .ok st') :
    (if n = "limit" then parseLimit v = st'.limit ∧ st'.limit.isOk = true else st'.limit = st.limit) ∧
    (if n = "ttl" then parseTtl v = .ok st'.ttl ∧ st'.ttl.isOk = true else st'.ttl = st.ttl) ∧
    (if n = "max_memory" then parseMaxMemory v = .ok st'.maxMemory ∧ st'.maxMemory.isOk = true
      else st'.maxMemory = st.maxMemory) ∧
    (if n = "frequency_weight" then parseFrequencyWeight v = .ok st'.frequencyWeight ∧ st'.frequencyWeight.isOk = true
      else st'.frequencyWeight = st.frequencyWeight) := by
  unfold stepAttr at h
  by_cases h1 : n = "limit"
  · subst h1; rw [if_pos rfl] at h; obtain ⟨a, ha, rfl⟩ := liftValue_ok h
    simp at ha; simp [ha, Spliced.isOk]
  rw [if_neg h1] at h
  by_cases h2 : n = "policy"
  · subst h2; rw [if_pos rfl] at h; obtain ⟨a, _, rfl⟩ := liftErr_ok h; simp
  rw [if_neg h2] at h
  by_cases h3 : n = "ttl"
  · subst h3; rw [if_pos rfl] at h; obtain ⟨a, ha, rfl⟩ := liftValue_ok h; simp [ha, Spliced.isOk]
  rw [if_neg h3] at h
  by_cases h4 : n = "scope" ∧ k = .sync
  · rw [if_pos h4] at h; obtain ⟨a, _, rfl⟩ := liftErr_ok h; simp [h4.1]
  rw [if_neg h4] at h
  by_cases h5 : n = "name"
  · subst h5; rw [if_pos rfl] at h; cases h; simp
  rw [if_neg h5] at h
  by_cases h6 : n = "max_memory"
  · subst h6; rw [if_pos rfl] at h; obtain ⟨a, ha, rfl⟩ := liftValue_ok h; simp [ha, Spliced.isOk]
  rw [if_neg h6] at h
  by_cases h7 : n = "tags"
  · subst h7; rw [if_pos rfl] at h; obtain ⟨a, _, rfl⟩ := liftErr_ok h; simp
  rw [if_neg h7] at h
  by_cases h8 : n = "events"
  · subst h8; rw [if_pos rfl] at h; obtain ⟨a, _, rfl⟩ := liftErr_ok h; simp
  rw [if_neg h8] at h
  by_cases h9 : n = "dependencies"
  · subst h9; rw [if_pos rfl] at h; obtain ⟨a, _, rfl⟩ := liftErr_ok h; simp
  rw [if_neg h9] at h
  by_cases h10 : n = "invalidate_on"
  · subst h10; rw [if_pos rfl] at h; obtain ⟨a, _, rfl⟩ := liftErr_ok h; simp
  rw [if_neg h10] at h
  by_cases h11 : n = "cache_if"
  · subst h11; rw [if_pos rfl] at h; obtain ⟨a, _, rfl⟩ := liftErr_ok h; simp
  rw [if_neg h11] at h
  by_cases h12 : n = "frequency_weight"
  · subst h12; rw [if_pos rfl] at h; obtain ⟨a, ha, rfl⟩ := liftValue_ok h; simp [ha, Spliced.isOk]
  rw [if_neg h12] at h
  cases h

/-- a field that each iteration either leaves alone or sets from the value of attribute `name` ends up
    set from the LAST value written for `name` -/
theorem parseLoop_field {β : Type} (k : Kind) (name : String) (get : Parsed → β)
    (ok : AttrVal → β → Prop)
    (hstep : ∀ st st' n v, stepAttr k st n v = .ok st' →
      if n = name then ok v (get st') else get st' = get st) :
    ∀ (l : AttrList) (st p : Parsed), parseLoop k st l = .ok p →
      match lastVal name l with
      | some v => ok v (get p)
      | none => get p = get st
  | [], st, p, h => by simp [parseLoop] at h; subst h; simp [lastVal]
  | (n, v) :: rest, st, p, h => by
    simp only [parseLoop] at h
    cases hs : stepAttr k st n v with
    | error e => simp [hs] at h
    | ok st' =>
      simp only [hs] at h
      have ih := parseLoop_field k name get ok hstep rest st' p h
      have hst := hstep st st' n v hs
      simp only [lastVal]
      cases hl : lastVal name rest with
      | some w => simp only [hl] at ih ⊢; exact ih
      | none =>
        simp only [hl] at ih ⊢
        by_cases hn : n = name
        · simp only [hn, if_true] at hst ⊢; rw [ih]; exact hst
        · simp only [hn, if_false] at hst ⊢; rw [ih]; exact hst

/-- the `limit` field after the loop comes from the last `limit` written -/
theorem parseLoop_limit {k : Kind} {l : AttrList} {st p : Parsed} (h : parseLoop k st l = .ok p) :
    match lastVal "limit" l with
    | some v => parseLimit v = p.limit ∧ p.limit.isOk = true
    | none => p.limit = st.limit :=
  parseLoop_field k "limit" (·.limit) (fun v b => parseLimit v = b ∧ b.isOk = true)
    (fun st st' n v hs => (stepAttr_fields hs).1) l st p h

/-- the `ttl` field after the loop comes from the last `ttl` written -/
theorem parseLoop_ttl {k : Kind} {l : AttrList} {st p : Parsed} (h : parseLoop k st l = .ok p) :
    match lastVal "ttl" l with
    | some v => parseTtl v = .ok p.ttl ∧ p.ttl.isOk = true
    | none => p.ttl = st.ttl :=
  parseLoop_field k "ttl" (·.ttl) (fun v b => parseTtl v = .ok b ∧ b.isOk = true)
    (fun st st' n v hs => (stepAttr_fields hs).2.1) l st p h

/-- the `max_memory` field after the loop comes from the last `max_memory` written -/
theorem parseLoop_maxMemory {k : Kind} {l : AttrList} {st p : Parsed}
    (h : parseLoop k st l = .ok p) :
    match lastVal "max_memory" l with
    | some v => parseMaxMemory v = .ok p.maxMemory ∧ p.maxMemory.isOk = true
    | none => p.maxMemory = st.maxMemory :=
  parseLoop_field k "max_memory" (·.maxMemory) (fun v b => parseMaxMemory v = .ok b ∧ b.isOk = true)
    (fun st st' n v hs => (stepAttr_fields hs).2.2.1) l st p h

/-- the `frequency_weight` field after the loop comes from the last `frequency_weight` written -/
theorem parseLoop_frequencyWeight {k : Kind} {l : AttrList} {st p : Parsed}
    (h : parseLoop k st l = .ok p) :
    match lastVal "frequency_weight" l with
    | some v => parseFrequencyWeight v = .ok p.frequencyWeight ∧ p.frequencyWeight.isOk = true
    | none => p.frequencyWeight = st.frequencyWeight :=
  parseLoop_field k "frequency_weight" (·.frequencyWeight)
    (fun v b => parseFrequencyWeight v = .ok b ∧ b.isOk = true)
    (fun st st' n v hs => (stepAttr_fields hs).2.2.2) l st p h

/-- **No spliced `compile_error!` survives** (commit 82aef8c): in an accepted result the four value fields
    hold `None` / `Some(..)` tokens. -/
theorem parse_ok_fields {k : Kind} {l : AttrList} {p : Parsed} (h : parse k l = .ok p) :
    p.limit.isOk = true ∧ p.ttl.isOk = true ∧ p.maxMemory.isOk = true ∧ p.frequencyWeight.isOk = true := by
  have h1 := parseLoop_limit (k := k) (l := l) (st := Parsed.default) (p := p) h
  have h2 := parseLoop_ttl (k := k) (l := l) (st := Parsed.default) (p := p) h
  have h3 := parseLoop_maxMemory (k := k) (l := l) (st := Parsed.default) (p := p) h
  have h4 := parseLoop_frequencyWeight (k := k) (l := l) (st := Parsed.default) (p := p) h
  refine ⟨?_, ?_, ?_, ?_⟩
  · cases hl : lastVal "limit" l with
    | none => simp only [hl] at h1; rw [h1]; rfl
    | some v => simp only [hl] at h1; exact h1.2
  · cases hl : lastVal "ttl" l with
    | none => simp only [hl] at h2; rw [h2]; rfl
    | some v => simp only [hl] at h2; exact h2.2
  · cases hl : lastVal "max_memory" l with
    | none => simp only [hl] at h3; rw [h3]; rfl
    | some v => simp only [hl] at h3; exact h3.2
  · cases hl : lastVal "frequency_weight" l with
    | none => simp only [hl] at h4; rw [h4]; rfl
    | some v => simp only [hl] at h4; exact h4.2

/-! #### invalid values: the iteration fails in every state -/

/-- an invalid `limit` value yields `compile_error!` tokens -/
theorem parseLimit_invalid {v : AttrVal} (h : validLimit v = false) : (parseLimit v).isOk = false := by
  cases v with
  | intLit neg val suf =>
    cases neg
    · simp [validLimit] at h
      have : ¬ val < usizeBound := by omega
      simp [parseLimit, this, Spliced.isOk]
    · simp [parseLimit, Spliced.isOk]
  | _ => simp [parseLimit, Spliced.isOk]

/-- an invalid `ttl` value yields `compile_error!` tokens (or panics) -/
theorem parseTtl_invalid {v : AttrVal} (h : validTtl v = false) :
    ∀ t, parseTtl v = .ok t → t.isOk = false := by
  intro t ht
  cases v with
  | intLit neg val suf =>
    cases neg
    · simp [validTtl] at h
      have : ¬ val < 2 ^ 64 := by omega
      simp [parseTtl, this] at ht
    · simp [parseTtl] at ht
  | _ => simp [parseTtl] at ht; subst ht; rfl

/-- `max_memory`: whatever the scanner cannot read, numbers that do not fit before or after the
    multiplication, negative or oversized integer literals, every other kind of expression -/
theorem parseMaxMemory_bad {v : AttrVal} (h : badMaxMemory v = true) :
    ∀ t, parseMaxMemory v = .ok t → t.isOk = false := by
  intro t ht
  cases v with
  | strLit s =>
    simp only [badMaxMemory, mmLenient] at h
    simp only [parseMaxMemory, parseMaxMemoryStr] at ht
    have ht' := Except.ok.inj ht
    cases hscan : scanMM (s.toList.map Char.toUpper) with
    | none =>
      obtain ⟨e, he⟩ := parseMaxMemoryUpper_of_scan_none hscan
      rw [he] at ht'; rw [← ht']; rfl
    | some r =>
      obtain ⟨sg, n, k', j⟩ := r
      by_cases hn : n < usizeBound
      · simp [hscan, hn] at h
        rw [parseMaxMemoryUpper_of_scan hscan hn, mulUnit_of_ge h] at ht'
        rw [← ht']; rfl
      · obtain ⟨e, he⟩ := parseMaxMemoryUpper_of_scan_big hscan (by omega)
        rw [he] at ht'; rw [← ht']; rfl
  | intLit neg val suf =>
    cases neg
    · simp [badMaxMemory] at h
      have : ¬ val < usizeBound := by omega
      simp [parseMaxMemory, this] at ht
    · simp [parseMaxMemory] at ht
  | _ => simp [parseMaxMemory] at ht; subst ht; rfl

/-- `frequency_weight`: negative, zero or non-finite floats, negative or oversized integers, every other
    kind of expression -/
theorem parseFrequencyWeight_bad {v : AttrVal} (h : badFrequencyWeight v = true) :
    ∀ t, parseFrequencyWeight v = .ok t → t.isOk = false := by
  intro t ht
  cases v with
  | floatLit neg m e suf =>
    cases neg
    · simp only [badFrequencyWeight, Bool.false_or] at h
      cases hr : roundDec m e with
      | zero => simp [parseFrequencyWeight, hr] at ht; subst ht; rfl
      | inf => simp [parseFrequencyWeight, hr] at ht
      | finite x => simp [hr] at h
    · simp [parseFrequencyWeight] at ht; subst ht; rfl
  | intLit neg val suf =>
    cases neg
    · simp [badFrequencyWeight] at h
      have : ¬ val < 2 ^ 64 := by omega
      simp [parseFrequencyWeight, this] at ht
    · simp [parseFrequencyWeight] at ht
  | _ => simp [parseFrequencyWeight] at ht; subst ht; rfl

/-- an invalid `limit` makes the iteration return `Err` in every state -/
theorem stepAttr_limit_invalid (k : Kind) (st : Parsed) {v : AttrVal} (h : validLimit v = false) :
    ∃ e, stepAttr k st "limit" v = .error e := by
  simp only [stepAttr, if_true]
  exact liftValue_error _ (fun t ht => by cases ht; exact parseLimit_invalid h)

/-- an invalid `ttl` makes the iteration fail (`Err` or panic) in every state -/
theorem stepAttr_ttl_invalid (k : Kind) (st : Parsed) {v : AttrVal} (h : validTtl v = false) :
    ∃ e, stepAttr k st "ttl" v = .error e := by
  simp only [stepAttr, String.reduceEq, if_false, if_true]
  exact liftValue_error _ (parseTtl_invalid h)

/-- an invalid `max_memory` makes the iteration fail in every state -/
theorem stepAttr_maxMemory_invalid (k : Kind) (st : Parsed) {v : AttrVal} (h : badMaxMemory v = true) :
    ∃ e, stepAttr k st "max_memory" v = .error e := by
  simp only [stepAttr, String.reduceEq, if_false, if_true, false_and]
  exact liftValue_error _ (parseMaxMemory_bad h)

/-- an invalid `frequency_weight` makes the iteration fail in every state -/
theorem stepAttr_frequencyWeight_invalid (k : Kind) (st : Parsed) {v : AttrVal} (h : badFrequencyWeight v = true) :
    ∃ e, stepAttr k st "frequency_weight" v = .error e := by
  simp only [stepAttr, String.reduceEq, if_false, if_true, false_and]
  exact liftValue_error _ (parseFrequencyWeight_bad h)

/-! ### the textual `None` test -/

/-- a pattern whose first character does not occur is not contained -/
theorem hasInfix_cons_false_of_not_mem {c : Char} (pat : List Char) : ∀ {s : List Char}, c ∉ s → hasInfix (c :: pat) s = false
  | [], _ => by simp [hasInfix]
  | x :: s, h => by
    simp only [List.mem_cons, not_or] at h
    have hx : (c == x) = false := by simp [h.1]
    simp [hasInfix, List.isPrefixOf, hx, hasInfix_cons_false_of_not_mem pat h.2]

/-- the pattern `None` starts with `N` -/
theorem none_eq : "None".toList = 'N' :: "one".toList := by decide

/-- no `compile_error!` message of the parser contains a capital `N` -/
theorem N_not_mem_msg (e : CE) : 'N' ∉ e.msg.toList := by
  cases e <;> decide

/-- escaping only adds backslashes -/
theorem mem_escapeLit {c : Char} : ∀ {s : List Char}, c ∈ escapeLit s → c ∈ s ∨ c = '\\'
  | [], h => by simp [escapeLit] at h
  | x :: s, h => by
    unfold escapeLit at h
    split at h
    · simp only [List.mem_cons] at h
      rcases h with h | h | h
      · exact Or.inr h
      · exact Or.inl (by simp [h])
      · rcases mem_escapeLit h with h' | h'
        · exact Or.inl (by simp [h'])
        · exact Or.inr h'
    · simp only [List.mem_cons] at h
      rcases h with h | h
      · exact Or.inl (by simp [h])
      · rcases mem_escapeLit h with h' | h'
        · exact Or.inl (by simp [h'])
        · exact Or.inr h'

/-- `compile_error!(…)` tokens never contain `None` -/
theorem mmTokens_ce (k : Kind) (e : CE) : hasInfix "None".toList (mmTokens k (.compileError e)) = false := by
  rw [none_eq]
  apply hasInfix_cons_false_of_not_mem
  show 'N' ∉ "compile_error ! (\"".toList ++ escapeLit e.msg.toList ++ "\")".toList
  intro h
  rcases List.mem_append.mp h with h | h
  · rcases List.mem_append.mp h with h | h
    · exact absurd h (by decide)
    · rcases mem_escapeLit h with h' | h'
      · exact N_not_mem_msg e h'
      · exact absurd h' (by decide)
  · exact absurd h (by decide)

/-- `Some (<n>usize)` never contains `None`, whatever the digits -/
theorem mmTokens_some (k : Kind) (n : Nat) : hasInfix "None".toList (mmTokens k (.ok (some n))) = false := by
  rw [none_eq]
  apply hasInfix_cons_false_of_not_mem
  show 'N' ∉ "Some (".toList ++ Nat.toDigits 10 n ++ "usize)".toList
  intro h
  rcases List.mem_append.mp h with h | h
  · rcases List.mem_append.mp h with h | h
    · exact absurd h (by decide)
    · have := Nat.isDigit_of_mem_toDigits (by decide) (by decide) h
      exact absurd this (by decide)
  · exact absurd h (by decide)

/-- the default tokens of both macros contain `None` -/
theorem mmTokens_none (k : Kind) : hasInfix "None".toList (mmTokens k (.ok none)) = true := by
  cases k <;> decide


/-! ### decimal digit strings with a unit -/

/-- the decimal rendering of a number consists of digits -/
theorem toDigits_all_digit (n : Nat) : (Nat.toDigits 10 n).all Char.isDigit = true := by
  rw [List.all_eq_true]
  intro c hc
  exact Nat.isDigit_of_mem_toDigits (by decide) (by decide) hc

/-- upper-casing leaves a digit string alone -/
theorem map_toUpper_digits {ds : List Char} (h : ds.all Char.isDigit = true) : ds.map Char.toUpper = ds := by
  induction ds with
  | nil => rfl
  | cons d ds ih =>
    simp only [List.all_cons, Bool.and_eq_true] at h
    simp [toUpper_of_isDigit h.1, ih h.2]

/-- reading the decimal rendering of `n` gives `n` back -/
theorem decVal_toDigits (n : Nat) : decVal (Nat.toDigits 10 n) = n := by
  simp [decVal]

/-- the unit suffix of exponent `k`, upper-cased -/
def unitStr (k : Nat) : List Char := if k = 0 then [] else [unitChar k, 'B']

/-- the scanner on `<n><unit>` -/
theorem scanMM_digits_unit (n : Nat) {k : Nat} (hk : k ≤ 3) :
    scanMM (Nat.toDigits 10 n ++ unitStr k) = some (false, n, k, if k = 0 then 0 else 1) := by
  have hne : Nat.toDigits 10 n ≠ [] := Nat.toDigits_ne_nil
  have hall := toDigits_all_digit n
  have h0 := scanMM_sign false hne hall (unitStr k)
  simp only [signL, Bool.false_eq_true, if_false, List.nil_append] at h0
  rw [h0]
  have hrest : ∀ c r, unitStr k = c :: r → c.isDigit = false := by
    intro c r h
    have : k = 0 ∨ k = 1 ∨ k = 2 ∨ k = 3 := by omega
    rcases this with rfl | rfl | rfl | rfl <;> simp [unitStr, unitChar] at h <;> (rw [← h.1]; decide)
  obtain ⟨htw, hdw⟩ := takeWhile_digits_append (rest := unitStr k) hall hrest
  unfold scanBody
  rw [htw, hdw]
  simp only [hne, if_false, decVal_toDigits]
  have : k = 0 ∨ k = 1 ∨ k = 2 ∨ k = 3 := by omega
  rcases this with rfl | rfl | rfl | rfl <;> simp [unitStr, unitChar, scanUnit, unitExp, unitReps]

/-- **KB / MB / GB arithmetic.**  The string `<n><unit>` (unit in any letter case, or absent) denotes
    `n · 1024^k` bytes, `k = 0, 1, 2, 3` for no unit, `KB`, `MB`, `GB`. -/
theorem mmStrict_digits_unit (n : Nat) {k : Nat} (hk : k ≤ 3) (unit : List Char)
    (hu : unit.map Char.toUpper = unitStr k) (h : n * 1024 ^ k < usizeBound) :
    mmStrict (String.ofList (Nat.toDigits 10 n ++ unit)) = some (n * 1024 ^ k) := by
  unfold mmStrict
  rw [String.toList_ofList, List.map_append, map_toUpper_digits (toDigits_all_digit n), hu,
    scanMM_digits_unit n hk]
  have : (if k = 0 then 0 else 1) ≤ 1 := by split <;> omega
  simp [this, h]


end Cachelito.Attrs
