#!/usr/bin/env python3
"""Generate the prompt for a seed sub-agent (round tag, property id [, 'conc']) from the property text alone plus
the one-line summaries of earlier seeded changes for that property (so that the new change is different in kind).
Nothing else from /verif is given to the agent.  usage: make_seed_prompt.py r7 C05 [conc|seq] > prompt.txt"""
import sys, json, glob, os
rnd, pid = sys.argv[1], sys.argv[2]
mode = sys.argv[3] if len(sys.argv) > 3 else ""
here = os.path.dirname(os.path.abspath(__file__))
prop = [json.loads(l) for l in open(os.path.join(here, "..", "properties.jsonl")) if json.loads(l)["id"] == pid][0]
earlier = []
for d in sorted(glob.glob(os.path.join(here, "..", "seeded", f"S*-{pid}-*"))):
    earlier.append(" - " + json.load(open(d + "/meta.json"))["summary"][:330])
wt, out = f"/tmp/seed/wt_{rnd}_{pid}", f"/tmp/seed/out_{rnd}_{pid}"
tmpl = open(os.path.join(here, "briefs", "seed-agent-prompt-example.txt")).read()
head = tmpl.split("Be different in kind")[0].replace("/tmp/seed/wt_r6_C17", wt).replace("/tmp/seed/out_r6_C17", out)
tail = tmpl.split("Aim for a change that is genuinely hard to notice")[1].split("THE PROPERTY:")[0]
tail = tail.replace("/tmp/seed/wt_r6_C17", wt).replace("/tmp/seed/out_r6_C17", out).replace('"property": "C17"', f'"property": "{pid}"')
conc = ("For this property the breakage MUST need concurrency (two threads / tasks in a particular interleaving, or a future suspended or "
        "dropped at a particular await) — it must not be observable by any single-threaded sequence of complete calls.\n\n") if mode == "conc" else ""
seq = ("For this property prefer a breakage that a single thread can trigger, but only through a specific multi-step history or an unusual "
       "configuration / input combination.\n\n") if mode == "seq" else ""
print(head + "Be different in kind from these earlier changes for the same property (already tried, do not repeat them or trivial variants):\n"
      + "\n".join(earlier) + "\n\n" + conc + seq + "Aim for a change that is genuinely hard to notice" + tail + "THE PROPERTY:\n" + json.dumps(prop, indent=1))
