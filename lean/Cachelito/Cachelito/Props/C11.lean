/-
  C11 — `invalidate_on`: stale entries are never served and are refreshed.

  Wrapper level (`Cachelito.callFn`), for a function with an `invalidate_on` check
  (`spec.hasInvalidateOn = true`).  The check is an ORACLE supplied per call (`c.invalidateOn`, `true` =
  stale), so checks whose verdict changes between calls are covered.  Statements hold for every flavour,
  policy, limit, TTL, `max_memory`, both engine stores, unless a hypothesis says otherwise.  Where the
  property speaks of the fresh result "replacing" the stale entry, the store conditions of C09/C10 apply:
  the result is handed to the engine iff `shouldStore` (always, for a function without `cache_if` that is
  not a Result).
-/
import Cachelito.Lemmas.Wrapper

set_option linter.unusedSectionVars false
set_option linter.unusedSimpArgs false
set_option linter.unusedVariables false

namespace Cachelito.C11
open Cachelito Cachelito.Wrap
variable {K V S : Type} [DecidableEq K]

/-- (1a) **Valid entries are served without running the body.**  If the lookup hits and the check answers
    "not stale" on `(key, cached)`, the call returns the cached value, leaves the post-lookup state, and its
    trace is `checkCalled key cached false, returned cached (from cache)`. -/
theorem valid_entry_served (spec : FnSpec) (hI : spec.hasInvalidateOn = true) (tl : Tlru S) (size : V → Nat)
    (isOk : V → Bool) (rs : List Nat) (s : State K V) (c : CallIn K V) (cached : V)
    (hhit : (get spec.cfg s c.key).2 = some cached) (hvalid : c.invalidateOn c.key cached = false) :
    callFn spec tl size isOk rs s c =
      ((get spec.cfg s c.key).1, cached,
       [TraceEv.checkCalled c.key cached false, TraceEv.returned cached true]) := by
  have hb : runsBody spec s c = false := by rw [runsBody_of_some spec s c hhit, hI, hvalid]; rfl
  obtain ⟨v, h1, h2⟩ := callFn_hit spec tl size isOk rs s c hb
  rw [hhit] at h1; cases h1
  rw [h2]; simp [checkPart, hhit, hI, hvalid]

/-- (2a) **Stale entries are not served: the body runs again.**  If the lookup hits and the check answers
    "stale", the call returns the body's fresh value; its trace is `checkCalled key cached true, bodyRun`,
    then the `cache_if` consultation if configured, `stored key fresh` iff `shouldStore`, and
    `returned fresh (not from cache)`; the state is the engine store of `(key, fresh)` on the post-lookup
    state iff `shouldStore`, else the post-lookup state. -/
theorem stale_entry_reexecuted (spec : FnSpec) (hI : spec.hasInvalidateOn = true) (tl : Tlru S)
    (size : V → Nat) (isOk : V → Bool) (rs : List Nat) (s : State K V) (c : CallIn K V) (cached : V)
    (hhit : (get spec.cfg s c.key).2 = some cached) (hstale : c.invalidateOn c.key cached = true) :
    callFn spec tl size isOk rs s c =
      ((if shouldStore spec isOk (c.cacheIf c.key c.bodyVal) c.bodyVal then
          (if spec.useMem then insertMem spec.cfg tl size rs (get spec.cfg s c.key).1 c.key c.bodyVal
           else insert spec.cfg tl (rs.headD 0) (get spec.cfg s c.key).1 c.key c.bodyVal)
        else (get spec.cfg s c.key).1),
       c.bodyVal,
       [TraceEv.checkCalled c.key cached true, TraceEv.bodyRun] ++
         (if spec.hasCacheIf then [TraceEv.predCalled c.key c.bodyVal (c.cacheIf c.key c.bodyVal)] else []) ++
         (if shouldStore spec isOk (c.cacheIf c.key c.bodyVal) c.bodyVal
            then [TraceEv.stored c.key c.bodyVal] else []) ++
         [TraceEv.returned c.bodyVal false]) := by
  have hb : runsBody spec s c = true := by rw [runsBody_of_some spec s c hhit, hI, hstale]; rfl
  rw [callFn_body spec tl size isOk rs s c hb]
  simp only [checkPart, predPart, wouldStore, storeOp, hhit, hI, hstale, if_true]
  by_cases hw : shouldStore spec isOk (c.cacheIf c.key c.bodyVal) c.bodyVal = true <;> simp [hw]

/-- (2a, plain function: no `cache_if`, not a Result) the refresh is unconditional: trace
    `checkCalled key cached true, bodyRun, stored key fresh, returned fresh`. -/
theorem stale_entry_refreshed_plain (spec : FnSpec) (hI : spec.hasInvalidateOn = true)
    (hC : spec.hasCacheIf = false) (hR : spec.isResult = false) (tl : Tlru S)
    (size : V → Nat) (isOk : V → Bool) (rs : List Nat) (s : State K V) (c : CallIn K V) (cached : V)
    (hhit : (get spec.cfg s c.key).2 = some cached) (hstale : c.invalidateOn c.key cached = true) :
    callFn spec tl size isOk rs s c =
      ((if spec.useMem then insertMem spec.cfg tl size rs (get spec.cfg s c.key).1 c.key c.bodyVal
        else insert spec.cfg tl (rs.headD 0) (get spec.cfg s c.key).1 c.key c.bodyVal),
       c.bodyVal,
       [TraceEv.checkCalled c.key cached true, TraceEv.bodyRun, TraceEv.stored c.key c.bodyVal,
        TraceEv.returned c.bodyVal false]) := by
  have hw : shouldStore spec isOk (c.cacheIf c.key c.bodyVal) c.bodyVal = true :=
    wouldStore_plain spec isOk c hR hC
  rw [stale_entry_reexecuted spec hI tl size isOk rs s c cached hhit hstale, hw]
  simp [hC]

/-- (1b) **Served from the cache iff the lookup hit and the check says "not stale".**  In particular a value
    the check declares stale is never returned from the cache. -/
theorem served_iff_hit_and_valid (spec : FnSpec) (hI : spec.hasInvalidateOn = true) (tl : Tlru S)
    (size : V → Nat) (isOk : V → Bool) (rs : List Nat) (s : State K V) (c : CallIn K V) (v : V) :
    TraceEv.returned v true ∈ (callFn spec tl size isOk rs s c).2.2 ↔
      ((get spec.cfg s c.key).2 = some v ∧ c.invalidateOn c.key v = false) := by
  cases hg : (get spec.cfg s c.key).2 with
  | none =>
    rw [callFn_body spec tl size isOk rs s c (runsBody_of_none spec s c hg)]
    simp only [checkPart, predPart, hg]
    by_cases hw : wouldStore spec isOk c = true <;> by_cases hc : spec.hasCacheIf = true <;> simp [hw, hc]
  | some cached =>
    cases hst : c.invalidateOn c.key cached
    · rw [valid_entry_served spec hI tl size isOk rs s c cached hg hst]
      simp only [List.mem_cons, TraceEv.returned.injEq, and_true, List.mem_nil_iff, or_false,
        Option.some.injEq, reduceCtorEq, false_or]
      constructor
      · intro h; subst h; exact ⟨rfl, hst⟩
      · intro h; exact h.1.symm
    · rw [stale_entry_reexecuted spec hI tl size isOk rs s c cached hg hst]
      constructor
      · intro h
        exfalso
        by_cases hw : shouldStore spec isOk (c.cacheIf c.key c.bodyVal) c.bodyVal = true <;>
          by_cases hc : spec.hasCacheIf = true <;> simp [hw, hc] at h
      · rintro ⟨h1, h2⟩
        simp only [Option.some.injEq] at h1; subst h1
        rw [hst] at h2; cases h2

/-- (1c) when a call is served from the cache the body did not run -/
theorem served_no_body (spec : FnSpec) (hI : spec.hasInvalidateOn = true) (tl : Tlru S)
    (size : V → Nat) (isOk : V → Bool) (rs : List Nat) (s : State K V) (c : CallIn K V) (v : V)
    (h : TraceEv.returned v true ∈ (callFn spec tl size isOk rs s c).2.2) :
    TraceEv.bodyRun ∉ (callFn spec tl size isOk rs s c).2.2 := by
  obtain ⟨h1, h2⟩ := (served_iff_hit_and_valid spec hI tl size isOk rs s c v).mp h
  rw [valid_entry_served spec hI tl size isOk rs s c v h1 h2]
  simp

/-- (2b) **The old value never survives a refresh (all flavours, policies, limits, both stores).**
    After a call that ran the body and handed its result to the engine, whatever is held under the key is
    the FRESH entry (fresh value, stamped now, zero hits) — or nothing, if the store itself evicted the
    newcomer or refused it as oversize.  The stale entry is gone in every case (sync: `HashMap::insert`
    replaces; async: the store first drops the existing entry). -/
theorem old_value_never_survives (spec : FnSpec) (tl : Tlru S) (size : V → Nat) (isOk : V → Bool)
    (rs : List Nat) (s : State K V) (c : CallIn K V) (hb : runsBody spec s c = true)
    (hw : shouldStore spec isOk (c.cacheIf c.key c.bodyVal) c.bodyVal = true) :
    ∀ e, lookup c.key (callFn spec tl size isOk rs s c).1.store = some e →
      e = ⟨c.bodyVal, stamp spec.cfg s.now, 0⟩ := by
  intro e he
  have hw' : wouldStore spec isOk c = true := hw
  rw [callFn_state, hb, hw'] at he
  simp only [Bool.and_self, if_true] at he
  rcases storeOp_lookup spec tl size rs _ c.key c.bodyVal c.key e he with ⟨_, h⟩ | ⟨h, _⟩
  · rw [h, get_now]
  · exact absurd rfl h

/-- (2c) **Async: the fresh value is always held after the refresh** (every policy, every limit): the
    async store evicts BEFORE it writes, so the newcomer is never its own victim; the only exception is
    the memory-aware store refusing a value that alone exceeds `max_memory`. -/
theorem refresh_lands_async (spec : FnSpec) (hf : spec.cfg.flavour = .async) (tl : Tlru S) (size : V → Nat)
    (isOk : V → Bool) (rs : List Nat) (s : State K V) (c : CallIn K V) (hb : runsBody spec s c = true)
    (hw : shouldStore spec isOk (c.cacheIf c.key c.bodyVal) c.bodyVal = true)
    (hno : spec.useMem = true → oversize spec.cfg size c.bodyVal = false) :
    lookup c.key (callFn spec tl size isOk rs s c).1.store = some ⟨c.bodyVal, stamp spec.cfg s.now, 0⟩ := by
  have hw' : wouldStore spec isOk c = true := hw
  rw [callFn_state, hb, hw']
  simp only [Bool.and_self, if_true]
  rw [storeOp_async_self spec hf tl size rs _ c.key c.bodyVal hno, get_now]

/-- (2d) **Sync, plain store: a refresh of a held key always lands** (every policy).  In a consistent
    state whose queue is within the entry limit (true of every reachable state, C04) re-storing a key
    that is held does not grow the queue, so nothing is evicted and the fresh entry is held afterwards. -/
theorem refresh_lands_sync_plain (spec : FnSpec) (hf : spec.cfg.flavour ≠ .async) (hu : spec.useMem = false)
    (hI : spec.hasInvalidateOn = true) (tl : Tlru S) (size : V → Nat) (isOk : V → Bool) (rs : List Nat)
    (s : State K V) (c : CallIn K V) (cached : V) (hi : Inv s)
    (hl : ∀ n, spec.cfg.limit = some n → s.queue.length ≤ n)
    (hhit : (get spec.cfg s c.key).2 = some cached) (hstale : c.invalidateOn c.key cached = true)
    (hw : shouldStore spec isOk (c.cacheIf c.key c.bodyVal) c.bodyVal = true) :
    lookup c.key (callFn spec tl size isOk rs s c).1.store = some ⟨c.bodyVal, stamp spec.cfg s.now, 0⟩ := by
  have hb : runsBody spec s c = true := by rw [runsBody_of_some spec s c hhit, hI, hstale]; rfl
  have hw' : wouldStore spec isOk c = true := hw
  obtain ⟨_, e', he', _⟩ := get_some spec.cfg s c.key hhit
  have hk : c.key ∈ keys (get spec.cfg s c.key).1.store := by
    apply Classical.byContradiction; intro hn
    rw [(lookup_eq_none_iff _ _).mpr hn] at he'; cases he'
  rw [callFn_state, hb, hw']
  simp only [Bool.and_self, if_true, storeOp, hu, Bool.false_eq_true, if_false]
  rw [insert_sync_restore_present spec.cfg hf tl _ _ c.key c.bodyVal (get_inv spec.cfg s c.key hi) hk
      (fun n hn => Nat.le_trans (get_queue_length_le_sync spec.cfg hf s c.key) (hl n hn)),
    get_now]

/-- (2e) **Sync FIFO/LRU, limit ≥ 1, both stores: the refresh always lands** (value not oversize): the
    newcomer is at the back of the queue and FIFO/LRU evictions pop the front.  (For sync LFU / ARC /
    TLRU / Random under memory pressure the newcomer — zero hits — CAN be the victim of its own store;
    see the example at the end.  Then the key is simply absent, by (2b).) -/
theorem refresh_lands_sync_fifo_lru (spec : FnSpec)
    (hp : spec.cfg.policy = .fifo ∨ spec.cfg.policy = .lru) (hf : spec.cfg.flavour ≠ .async)
    (hl : spec.cfg.limit ≠ some 0) (tl : Tlru S) (size : V → Nat) (isOk : V → Bool) (rs : List Nat)
    (s : State K V) (c : CallIn K V) (hi : Inv s) (hb : runsBody spec s c = true)
    (hw : shouldStore spec isOk (c.cacheIf c.key c.bodyVal) c.bodyVal = true)
    (hno : spec.useMem = true → oversize spec.cfg size c.bodyVal = false) :
    lookup c.key (callFn spec tl size isOk rs s c).1.store = some ⟨c.bodyVal, stamp spec.cfg s.now, 0⟩ := by
  have hw' : wouldStore spec isOk c = true := hw
  rw [callFn_state, hb, hw']
  simp only [Bool.and_self, if_true]
  rw [storeOp_sync_fifo_lru_present spec hp hf hl tl size rs _ c.key c.bodyVal
    (get_inv spec.cfg s c.key hi) hno, get_now]

/-- (2f) **No eviction pressure: the refresh always lands** (all flavours and policies). -/
theorem refresh_lands_noevict (spec : FnSpec) (hne : NoEvict spec) (tl : Tlru S) (size : V → Nat)
    (isOk : V → Bool) (rs : List Nat) (s : State K V) (c : CallIn K V) (hb : runsBody spec s c = true)
    (hw : shouldStore spec isOk (c.cacheIf c.key c.bodyVal) c.bodyVal = true) :
    lookup c.key (callFn spec tl size isOk rs s c).1.store = some ⟨c.bodyVal, stamp spec.cfg s.now, 0⟩ := by
  have hw' : wouldStore spec isOk c = true := hw
  rw [callFn_state, hb, hw']
  simp only [Bool.and_self, if_true]
  rw [storeOp_noevict spec hne, if_pos rfl, get_now]

/-- (3a) **The next call consults the check on the FRESH value, never on the stale one.**  After a refresh
    (body ran, result handed to the engine) and any further history of ticks and calls — for the same key
    only calls that would store the same value again, in particular ANY history of calls for other keys —
    every `checkCalled` event of a call for the key carries the fresh value (or there is none: the call
    missed). -/
theorem next_check_sees_fresh (spec : FnSpec) (tl : Tlru S) (size : V → Nat) (isOk : V → Bool)
    (rs : List Nat) (s : State K V) (c : CallIn K V) (hb : runsBody spec s c = true)
    (hw : shouldStore spec isOk (c.cacheIf c.key c.bodyVal) c.bodyVal = true)
    (h2 : List (WEv K V))
    (hother : ∀ c0 ∈ callsOf h2, c0.key = c.key → wouldStore spec isOk c0 = true → c0.bodyVal = c.bodyVal)
    (c' : CallIn K V) (rs' : List Nat) (hk : c'.key = c.key) :
    ∀ k v st, TraceEv.checkCalled k v st ∈
        (callFn spec tl size isOk rs'
          (runCalls spec tl size isOk (callFn spec tl size isOk rs s c).1 h2).1 c').2.2 →
      k = c.key ∧ v = c.bodyVal ∧ st = c'.invalidateOn c.key c.bodyVal := by
  intro k v st hm
  have h0 : HeldSat c.key (fun x => x = c.bodyVal) (callFn spec tl size isOk rs s c).1 := by
    intro e he
    rw [old_value_never_survives spec tl size isOk rs s c hb hw e he]
  have h1 := runCalls_heldSat spec tl size isOk c.key (fun x => x = c.bodyVal) h2 _ hother h0
  obtain ⟨_, hk', hget, hst⟩ := checkCalled_mem spec tl size isOk rs' _ c' hm
  rw [hk] at hget hk' hst
  obtain ⟨⟨e, he, hev, _⟩, _⟩ := get_some spec.cfg _ c.key hget
  have hv : v = c.bodyVal := by rw [← hev]; exact h1 e he
  subst hv
  exact ⟨hk', rfl, hst⟩

/-- (3b) **…and is served from the cache if the check accepts the new value** (no eviction pressure, no
    expiry; all flavours and policies): after the refresh and any further history that leaves the entry
    alone, a call for the key whose check answers "not stale" on the fresh value returns it from the cache
    with trace `checkCalled key fresh false, returned fresh (from cache)` — the body does not run. -/
theorem refreshed_then_served (spec : FnSpec) (hI : spec.hasInvalidateOn = true) (hnp : NoPressure spec)
    (tl : Tlru S) (size : V → Nat) (isOk : V → Bool) (s : State K V) (c : CallIn K V) (rs : List Nat)
    (hb : runsBody spec s c = true)
    (hw : shouldStore spec isOk (c.cacheIf c.key c.bodyVal) c.bodyVal = true)
    (h2 : List (WEv K V)) (hkeep : ∀ c0 ∈ callsOf h2, c0.key = c.key → c0.invalidateOn c.key c.bodyVal = false)
    (c' : CallIn K V) (rs' : List Nat) (hk : c'.key = c.key)
    (hvalid : c'.invalidateOn c.key c.bodyVal = false) :
    (callFn spec tl size isOk rs'
        (runCalls spec tl size isOk (callFn spec tl size isOk rs s c).1 h2).1 c').2 =
      (c.bodyVal, [TraceEv.checkCalled c.key c.bodyVal false, TraceEv.returned c.bodyVal true]) := by
  rw [stored_then_served spec hnp tl size isOk s c rs hb hw h2
    (fun c0 hc0 hk0 => Or.inr (hkeep c0 hc0 hk0)) c' rs' hk (fun _ => Or.inr hvalid)]
  simp [hI]

/-- (3c) **Immediately following call, any configuration in which the refresh landed** (e.g. async with
    any policy and limit, by (2c)): if the fresh entry is held after the refresh and `ttl ≠ 0`, the very
    next call for the key hits on the fresh value, consults the check on it, and — if the check answers
    "not stale" — is served from the cache without running the body. -/
theorem landed_then_checked_and_served (spec : FnSpec) (hI : spec.hasInvalidateOn = true)
    (ht : spec.cfg.ttl ≠ some 0) (tl : Tlru S) (size : V → Nat) (isOk : V → Bool)
    (s : State K V) (c : CallIn K V) (rs : List Nat)
    (hland : lookup c.key (callFn spec tl size isOk rs s c).1.store =
      some ⟨c.bodyVal, stamp spec.cfg s.now, 0⟩)
    (c' : CallIn K V) (rs' : List Nat) (hk : c'.key = c.key) :
    (get spec.cfg (callFn spec tl size isOk rs s c).1 c'.key).2 = some c.bodyVal ∧
    (c'.invalidateOn c.key c.bodyVal = false →
      (callFn spec tl size isOk rs' (callFn spec tl size isOk rs s c).1 c').2 =
        (c.bodyVal, [TraceEv.checkCalled c.key c.bodyVal false, TraceEv.returned c.bodyVal true])) := by
  have hget : (get spec.cfg (callFn spec tl size isOk rs s c).1 c'.key).2 = some c.bodyVal := by
    rw [hk]
    apply get_fresh spec.cfg ht _ c.key c.bodyVal 0
    rw [callFn_now]; exact hland
  refine ⟨hget, fun hvalid => ?_⟩
  rw [valid_entry_served spec hI tl size isOk rs' _ c' c.bodyVal hget (by rw [hk]; exact hvalid), hk]

/-! ### Non-vacuity (`K = V = Nat`; the check "value < threshold", with a threshold that moves between calls) -/

def exTl : Tlru Nat := ⟨fun a b => decide (a < b), fun _ h _ r => h * r⟩
/-- a call whose check declares values below `thr` stale -/
def mk (k v thr : Nat) : WEv Nat Nat := .call ⟨k, v, fun _ _ => true, fun _ x => decide (x < thr)⟩ []

/-- async, LFU, limit 1 (maximal entry pressure), plain store -/
def specA : FnSpec :=
  { name := "f", isAsync := true, threadScope := false, cfg := ⟨.async, .lfu, some 1, none, some 60⟩,
    useMem := false, isResult := false, hasCacheIf := false, hasInvalidateOn := true,
    tags := [], events := [], deps := [] }

/-- **The 2-call refresh scenario (async), extended.**  Call 1 misses and stores 10.  Call 2: the check
    (threshold 20) declares 10 stale ⇒ body runs, 25 replaces 10.  Calls 3 and 4: the check accepts 25 ⇒
    served from the cache, no body.  Call 5: threshold 30 ⇒ 25 is stale ⇒ body runs, 40 stored.  The body runs
    exactly on calls 1, 2 and 5 (the unrepaired async store re-executed on calls 2, 3, 4, 5: finding F1). -/
example : (runCalls specA exTl id (fun _ => true) (State.init : State Nat Nat)
      [mk 1 10 0, mk 1 25 20, mk 1 99 20, .tick 500, mk 1 98 20, mk 1 40 30]).2 =
    [(10, [.bodyRun, .stored 1 10, .returned 10 false]),
     (25, [.checkCalled 1 10 true, .bodyRun, .stored 1 25, .returned 25 false]),
     (25, [.checkCalled 1 25 false, .returned 25 true]),
     (25, [.checkCalled 1 25 false, .returned 25 true]),
     (40, [.checkCalled 1 25 true, .bodyRun, .stored 1 40, .returned 40 false])] := by decide

/-- the store after the refresh holds only the fresh value -/
example : ((runCalls specA exTl id (fun _ => true) (State.init : State Nat Nat)
      [mk 1 10 0, mk 1 25 20]).1.store.map (fun p => (p.1, p.2.val))) = [(1, 25)] := by decide

/-- sync global LRU, limit 2, and thread-local FIFO with the memory-aware store: same behaviour -/
def specG : FnSpec := { specA with isAsync := false, cfg := ⟨.global, .lru, some 2, none, none⟩ }
def specT : FnSpec := { specA with isAsync := false, threadScope := true,
                                   cfg := ⟨.threadLocal, .fifo, some 2, some 100, none⟩, useMem := true }
example : (runCalls specG exTl id (fun _ => true) (State.init : State Nat Nat)
      [mk 1 10 0, mk 2 11 0, mk 1 25 20, mk 1 99 20, mk 2 98 0]).2 =
    [(10, [.bodyRun, .stored 1 10, .returned 10 false]),
     (11, [.bodyRun, .stored 2 11, .returned 11 false]),
     (25, [.checkCalled 1 10 true, .bodyRun, .stored 1 25, .returned 25 false]),
     (25, [.checkCalled 1 25 false, .returned 25 true]),
     (11, [.checkCalled 2 11 false, .returned 11 true])] := by decide
example : (runCalls specT exTl id (fun _ => true) (State.init : State Nat Nat)
      [mk 1 10 0, mk 1 25 20, mk 1 99 20]).2 =
    [(10, [.bodyRun, .stored 1 10, .returned 10 false]),
     (25, [.checkCalled 1 10 true, .bodyRun, .stored 1 25, .returned 25 false]),
     (25, [.checkCalled 1 25 false, .returned 25 true])] := by decide

/-- **The sync newcomer can be its own victim** (why (2c)–(2f) carry hypotheses): sync global LFU with
    `max_memory = 30` (size = value).  Key 2 is held and was hit once; key 1 holds 10 and is refreshed with 25:
    total 25 + 11 > 30, the LFU scan picks the entry with the fewest hits — the newcomer (0 hits).  Afterwards
    key 1 is absent (neither the stale 10 nor the fresh 25 is held) and the next call runs the body again. -/
def specL : FnSpec := { specA with isAsync := false, cfg := ⟨.global, .lfu, none, some 30, none⟩, useMem := true }
example : (runCalls specL exTl id (fun _ => true) (State.init : State Nat Nat)
      [mk 1 10 0, mk 2 11 0, mk 2 0 0, mk 1 25 20, mk 1 26 20]).2 =
    [(10, [.bodyRun, .stored 1 10, .returned 10 false]),
     (11, [.bodyRun, .stored 2 11, .returned 11 false]),
     (11, [.checkCalled 2 11 false, .returned 11 true]),
     (25, [.checkCalled 1 10 true, .bodyRun, .stored 1 25, .returned 25 false]),
     (26, [.bodyRun, .stored 1 26, .returned 26 false])] := by decide
example : ((runCalls specL exTl id (fun _ => true) (State.init : State Nat Nat)
      [mk 1 10 0, mk 2 11 0, mk 2 0 0, mk 1 25 20]).1.store.map (fun p => (p.1, p.2.val))) = [(2, 11)] := by
  decide

/-- hypotheses of (3b) are satisfiable -/
def specU : FnSpec := { specA with cfg := ⟨.async, .tlru, none, none, none⟩ }
example : NoPressure specU := ⟨⟨rfl, Or.inl rfl⟩, rfl⟩

end Cachelito.C11
