/-
  T19 — TRANSLATOR TIE, the callbacks `#[cache]` and `#[cache_async]` register with the invalidation registry (C12, C13, C18)

  The clear callback (run by `invalidate_by_tag` / `_event` / `_dependency` / `invalidate_cache`) and the conditional-invalidation
  callback (run by `invalidate_with` / `invalidate_all_with`) are closures inside the macros' `quote!` templates.
  `checklib/rust2lean.py` cuts their bodies out of the CURRENT macro source (the only `move` closure passed to
  `register_callback` resp. `register_invalidation_callback`), replaces the interpolated statics `#cache_ident` / `#order_ident`
  by the engine's fields and translates them as methods `macro_clear_callback` / `macro_cond_callback` of the sync global and
  the async engine (`Generated/PureGlobal.lean`, `Generated/PureAsync.lean`, regenerated on every check).

  Theorems: for every cache content and every predicate
    * the clear callback leaves the store and the queue EMPTY and touches nothing else — the model's `clear`;
    * the conditional callback leaves exactly the model's `invalidateWith p`: the store without the entries whose key
      satisfies `p` (the others untouched, in order), the queue without one slot per removed key (the others in order).
  These are the two operations `System.lean` / `C12` / `C13` run per cache; what selects the caches is the registry (`C12r`).
-/
import Cachelito.Generated.PureGlobal
import Cachelito.Generated.PureAsync
import Cachelito.Lemmas.Source
import Cachelito.Core

set_option linter.unusedSimpArgs false
set_option linter.unusedVariables false
set_option linter.unusedSectionVars false

namespace Cachelito.T19
open Cachelito Cachelito.RustLite Cachelito.Generated Cachelito.SourceLemmas

variable {K V F : Type} [DecidableEq K]

/-- one iteration of the removal loop both conditional callbacks run -/
def removeStep (acc : Store K V × List K) (key : K) : Store K V × List K :=
  (eraseKey key acc.1, acc.2.erase key)

/-- `if let Some(pos) = order.iter().position(|k| k == key) { order.remove(pos); }` is `List.erase` -/
theorem position_remove_eq_erase (key : K) (q : List K) :
    (match position (fun k => decide (k = key)) q with
     | some pos => (dequeRemove q pos).2
     | none => q) = q.erase key := by
  cases h : position (fun k => decide (k = key)) q with
  | none =>
    have := position_none key q h
    simp [List.erase_of_not_mem this]
  | some i =>
    obtain ⟨_, h2, _⟩ := position_some key q i h
    simp [dequeRemove, h2]

theorem foldl_removeStep_fst (ks : List K) : ∀ (m : Store K V) (q : List K),
    (ks.foldl removeStep (m, q)).1 = m.filter (fun e => decide (e.1 ∉ ks)) := by
  induction ks with
  | nil =>
    intro m q
    show m = m.filter (fun e => decide (e.1 ∉ ([] : List K)))
    exact (List.filter_eq_self.2 (by simp)).symm
  | cons k ks ih =>
    intro m q
    show (ks.foldl removeStep (eraseKey k m, q.erase k)).1 = _
    rw [ih (eraseKey k m) (q.erase k)]
    simp only [eraseKey, List.filter_filter]
    apply List.filter_congr
    intro e _
    by_cases h1 : e.1 = k <;> by_cases h2 : e.1 ∈ ks <;> simp [h1, h2]

theorem foldl_removeStep_snd (ks : List K) : ∀ (m : Store K V) (q : List K),
    (ks.foldl removeStep (m, q)).2 = ks.foldl (fun q k => q.erase k) q := by
  induction ks with
  | nil => intro m q; rfl
  | cons k ks ih =>
    intro m q
    exact ih (eraseKey k m) (q.erase k)

/-- a loop whose body is `removeStep` -/
theorem foldl_of_step {σ : Type} (F : σ → K → σ) (G : σ → K → σ) (hF : ∀ x key, F x key = G x key) :
    ∀ (ks : List K) (a : σ), ks.foldl F a = ks.foldl G a
  | [], _ => rfl
  | k :: ks, a => by simp only [List.foldl_cons, hF]; exact foldl_of_step F G hF ks _

/-- removing the keys selected by `p` one by one leaves the entries `p` rejects -/
theorem filter_not_mem_selected (p : K → Bool) (m : Store K V) :
    m.filter (fun e => decide (e.1 ∉ (keys m).filter p)) = m.filter (fun e => !p e.1) := by
  apply List.filter_congr
  intro e he
  have hk : e.1 ∈ keys m := by
    simp only [keys, List.mem_map]
    exact ⟨e, he, rfl⟩
  cases hp : p e.1 <;> simp [hp, hk]

/-! ## sync global (`cachelito-macros/src/lib.rs`) -/

/-- **the clear callback of `#[cache]` is the model's `clear`** -/
theorem global_clear_callback_eq (c : GlobalCache K V F) :
    Global.macro_clear_callback c = { c with map := [], order := [] } := by
  simp [Global.macro_clear_callback, clearAll]

theorem global_clear_callback_model (c : GlobalCache K V F) (now hs ms : Nat) :
    (Global.macro_clear_callback c).map = (Cachelito.clear (⟨c.map, c.order, now, hs, ms⟩ : State K V)).store ∧
    (Global.macro_clear_callback c).order = (Cachelito.clear (⟨c.map, c.order, now, hs, ms⟩ : State K V)).queue := by
  simp [global_clear_callback_eq, Cachelito.clear]

/-- **the conditional-invalidation callback of `#[cache]` is the model's `invalidateWith`** -/
theorem global_cond_callback_model (c : GlobalCache K V F) (p : K → Bool) (now hs ms : Nat) :
    Global.macro_cond_callback c p =
      { c with map := (Cachelito.invalidateWith p (⟨c.map, c.order, now, hs, ms⟩ : State K V)).store,
               order := (Cachelito.invalidateWith p (⟨c.map, c.order, now, hs, ms⟩ : State K V)).queue } := by
  unfold Global.macro_cond_callback Cachelito.invalidateWith
  dsimp only
  rw [foldl_of_step _ removeStep]
  · rw [foldl_removeStep_fst, foldl_removeStep_snd]
    rw [filter_not_mem_selected p c.map]
  · intro x key
    obtain ⟨m, q⟩ := x
    have := position_remove_eq_erase key q
    simp only [mapRemove, removeStep]
    cases hp : position (fun k' => decide (k' = key)) q <;> simp [hp] at this ⊢ <;> exact this

/-! ## async (`cachelito-async-macros/src/lib.rs`) -/

/-- **the clear callback of `#[cache_async]` is the model's `clear`** -/
theorem async_clear_callback_eq (c : AsyncCache K V F) :
    Async.macro_clear_callback c = { c with cache := [], order := [] } := by
  simp [Async.macro_clear_callback, clearAll]

theorem async_clear_callback_model (c : AsyncCache K V F) (now hs ms : Nat) :
    (Async.macro_clear_callback c).cache = (Cachelito.clear (⟨c.cache, c.order, now, hs, ms⟩ : State K V)).store ∧
    (Async.macro_clear_callback c).order = (Cachelito.clear (⟨c.cache, c.order, now, hs, ms⟩ : State K V)).queue := by
  simp [async_clear_callback_eq, Cachelito.clear]

/-- one iteration of the async callback's loop: the DashMap entry and one queue slot go -/
def removeStepA (x : AsyncCache K V F × List K) (key : K) : AsyncCache K V F × List K :=
  ({ x.1 with cache := eraseKey key x.1.cache }, x.2.erase key)

theorem foldl_removeStepA (ks : List K) : ∀ (c : AsyncCache K V F) (q : List K),
    ks.foldl removeStepA (c, q) =
      ({ c with cache := (ks.foldl removeStep (c.cache, q)).1 }, (ks.foldl removeStep (c.cache, q)).2) := by
  induction ks with
  | nil => intro c q; rfl
  | cons k ks ih =>
    intro c q
    show ks.foldl removeStepA ({ c with cache := eraseKey k c.cache }, q.erase k) = _
    rw [ih]
    rfl

/-- the keys the async callback collects from the DashMap are the stored keys the predicate selects -/
theorem collected_keys (p : K → Bool) (m : Store K V) :
    List.map (fun entry => Prod.fst entry) (List.filter (fun entry => p (Prod.fst entry)) m) = (keys m).filter p := by
  induction m with
  | nil => rfl
  | cons e m ih =>
    simp only [List.filter_cons, keys, List.map_cons]
    cases hp : p e.1 <;> simp [hp] <;> simpa [keys] using ih

/-- **the conditional-invalidation callback of `#[cache_async]` is the model's `invalidateWith`** -/
theorem async_cond_callback_model (c : AsyncCache K V F) (p : K → Bool) (now hs ms : Nat) :
    Async.macro_cond_callback c p =
      { c with cache := (Cachelito.invalidateWith p (⟨c.cache, c.order, now, hs, ms⟩ : State K V)).store,
               order := (Cachelito.invalidateWith p (⟨c.cache, c.order, now, hs, ms⟩ : State K V)).queue } := by
  unfold Async.macro_cond_callback Cachelito.invalidateWith
  dsimp only
  rw [foldl_of_step _ removeStepA]
  · rw [collected_keys, foldl_removeStepA, foldl_removeStep_fst, foldl_removeStep_snd]
    simp only []
    rw [filter_not_mem_selected p c.cache]
  · intro x key
    obtain ⟨m, q⟩ := x
    have := position_remove_eq_erase key q
    simp only [mapRemove, removeStepA]
    cases hp : position (fun k' => decide (k' = key)) q <;> simp [hp] at this ⊢ <;> exact this

/-! ## consequences used by C12 / C13 -/

/-- after the clear callback nothing is stored and nothing is tracked (C12) -/
theorem global_clear_empties (c : GlobalCache K V F) :
    (Global.macro_clear_callback c).map = [] ∧ (Global.macro_clear_callback c).order = [] ∧
    (Global.macro_clear_callback c).limit = c.limit ∧ (Global.macro_clear_callback c).stats = c.stats := by
  simp [global_clear_callback_eq]

/-- the conditional callback removes EXACTLY the selected keys: an entry survives iff the predicate rejects its key, and the
    survivors keep their values, births, hit counters and relative order (C13) -/
theorem global_cond_survivors (c : GlobalCache K V F) (p : K → Bool) :
    (Global.macro_cond_callback c p).map = c.map.filter (fun e => !p e.1) := by
  rw [global_cond_callback_model c p 0 0 0]; rfl

theorem async_cond_survivors (c : AsyncCache K V F) (p : K → Bool) :
    (Async.macro_cond_callback c p).cache = c.cache.filter (fun e => !p e.1) := by
  rw [async_cond_callback_model c p 0 0 0]; rfl

/-- a predicate that selects nothing changes nothing (the key listing the harness uses) -/
theorem global_cond_never (c : GlobalCache K V F) : Global.macro_cond_callback c (fun _ => false) = c := by
  rw [global_cond_callback_model c _ 0 0 0]
  have h1 : ∀ l : List K, List.filter (fun _ => false) l = [] := fun l => List.filter_eq_nil_iff.2 (by simp)
  cases c
  simp [Cachelito.invalidateWith, h1]

/-- non-vacuity: the translated sync callback run on a concrete cache with a duplicate-free queue -/
example : (Global.macro_cond_callback
      (⟨[("a", ⟨1, 0, 0⟩), ("b", ⟨2, 0, 3⟩), ("c", ⟨3, 0, 1⟩)], ["b", "a", "c"], some 3, none, .lru, none, none, ⟨0, 0⟩⟩ :
        GlobalCache String Nat (Option Nat)) (fun k => k == "a" || k == "c")).order = ["b"] := by
  decide

end Cachelito.T19
