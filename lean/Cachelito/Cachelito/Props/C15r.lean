/-
  C15r — the statistics registry as a data structure (`cachelito-core/src/stats_registry.rs`, `stats.rs`), and
  the proof that the abstraction used by `Cachelito/System.lean` ("`statsGet name` reads, `statsReset name`
  zeroes, the counters of the registered function of that name") is what the registry's table computes for
  the registration sequences the macros produce.

  Model: `Cachelito/StatsReg.lean` (`Reg` = table name → cell + the memory of counter cells, `StatsReg.step`,
  `runState`).  Every theorem of parts (1)–(7) is for EVERY operation history `ops` from the empty registry —
  registrations in any order, a name re-registered with another cell, one cell under several names, `clear`
  anywhere, recordings and resets on any cell interleaved anywhere.  The history is summarised by
  (`Cachelito/Lemmas/StatsReg.lean`):
    `bindingsSince ops`   — the `(name, cell)` registrations since the last `clear`, oldest first;
    `latest l n`          — the cell of the LAST pair for `n` in `l` (none if there is none);
    `zeroes pre op c`     — `op`, executed after `pre`, zeroes cell `c`: it is `CacheStats::reset` on `c`, or
                            `stats_registry::reset n` with `latest (bindingsSince pre) n = some c` (`zeroes_iff`);
    `noZero c pre b`      — no operation of `b`, executed after `pre`, zeroes `c` (`noZero_iff`);
    `hitCount c b` / `missCount c b` — number of `record_hit` / `record_miss` on cell `c` in `b`;
    `tally c [] ops 0/0`  — the counters of `c` computed by scanning the history with these notions.

  Property theorems and non-vacuity examples only; helper lemmas are in `Cachelito/Lemmas/StatsReg.lean`.
-/
import Cachelito.Lemmas.StatsReg

set_option linter.unusedSectionVars false
set_option linter.unusedSimpArgs false
set_option linter.unusedVariables false

namespace Cachelito.C15r
open Cachelito Cachelito.StatsReg Cachelito.SysLemmas Cachelito.StatsLemmas
open Cachelito.Registry (setKey getKey)
open Cachelito.RegLemmas (latest DistinctNames distinctNames_of_nodup)
variable {K V S : Type} [DecidableEq K]

/-! ### (1) the table: `get` / `get_ref` find the cell registered LAST under the name -/

/-- **The table.**  After any history the reference stored for `n` is the one of the LAST registration of `n`
    since the last `clear` (none if there is none), and no name is stored twice. -/
theorem table_eq_latest (ops : List StatsReg.Op) (n : String) :
    getKey (runState {} ops).table n = latest (bindingsSince ops) n ∧
    ((runState {} ops).table.map (·.1)).Nodup :=
  ⟨(rel_run ops).table_eq n, (rel_run ops).keys⟩

/-- **`get n` is exact.**  After any history `get n` changes nothing and returns a snapshot of exactly the
    counters of the cell registered LAST under `n` since the last `clear` — the counters that cell has NOW,
    i.e. including everything recorded on it after (or before) the registration, through whatever path — and
    `None` if `n` was never registered or the registry was cleared since. -/
theorem get_exact (ops : List StatsReg.Op) (n : String) :
    StatsReg.step (runState {} ops) (.get n) =
      (runState {} ops, .snap ((latest (bindingsSince ops) n).map (fun c => tally c [] ops Counters.zero))) := by
  simp only [StatsReg.step, (rel_run ops).table_eq]
  cases latest (bindingsSince ops) n with
  | none => rfl
  | some c => simp only [Option.map_some, cells_eq_tally]

/-- **`get_ref n` is exact**: it returns the very cell registered last under `n` (the cache's own static, not
    a copy) — reading through it gives that cell's current counters — or `None`; nothing changes. -/
theorem getRef_exact (ops : List StatsReg.Op) (n : String) :
    StatsReg.step (runState {} ops) (.getRef n) =
      (runState {} ops, .ref ((latest (bindingsSince ops) n).map (fun c => (c, tally c [] ops Counters.zero)))) := by
  simp only [StatsReg.step, (rel_run ops).table_eq]
  cases latest (bindingsSince ops) n with
  | none => rfl
  | some c => simp only [Option.map_some, cells_eq_tally]

/-- `get n` answers `None` exactly when `n` has no registration since the last `clear`. -/
theorem get_none_iff (ops : List StatsReg.Op) (n : String) :
    (StatsReg.step (runState {} ops) (.get n)).2 = .snap none ↔ ∀ c, (n, c) ∉ bindingsSince ops := by
  rw [get_exact, ← RegLemmas.latest_eq_none_iff]
  cases latest (bindingsSince ops) n <;> simp

/-- **The registry holds a REFERENCE.**  In any state in which `n` is bound to cell `c`, a `record_hit`
    (`record_miss`) performed afterwards on the cache's own cell `c` is visible through `get n`: the snapshot
    shows one more hit (miss).  And a snapshot is a value: it is what the cell held at the time of the call. -/
theorem record_visible_through_get (r : Reg) (n : String) (c : Cell) (h : getKey r.table n = some c) :
    (StatsReg.step (StatsReg.step r (.recordHit c)).1 (.get n)).2 =
      .snap (some ⟨(r.cells c).hits + 1, (r.cells c).misses⟩) ∧
    (StatsReg.step (StatsReg.step r (.recordMiss c)).1 (.get n)).2 =
      .snap (some ⟨(r.cells c).hits, (r.cells c).misses + 1⟩) := by
  simp [StatsReg.step, h, write_cells]

/-- **Re-registration replaces the reference, nothing else.**  `register n c` changes no cell at all; afterwards
    `get n` shows the counters of the NEW cell `c`, every other name is bound as before, and the old cell `c0`
    (if different) keeps its counters, can still be read and bumped directly by the cache that owns it, but is
    no longer reached by `reset n`. -/
theorem register_replaces (r : Reg) (n : String) (c : Cell) :
    (StatsReg.step r (.register n c)).1.cells = r.cells ∧
    (StatsReg.step (StatsReg.step r (.register n c)).1 (.get n)).2 = .snap (some (r.cells c)) ∧
    (∀ n', n' ≠ n → getKey (StatsReg.step r (.register n c)).1.table n' = getKey r.table n') ∧
    (∀ c0, c0 ≠ c →
      (StatsReg.step (StatsReg.step r (.register n c)).1 (.reset n)).1.cells c0 = r.cells c0) := by
  refine ⟨rfl, ?_, ?_, ?_⟩
  · simp [StatsReg.step, RegLemmas.getKey_setKey]
  · intro n' hn
    simp [StatsReg.step, RegLemmas.getKey_setKey, Ne.symm hn]
  · intro c0 hc
    simp [StatsReg.step, RegLemmas.getKey_setKey, write_cells, hc]

/-! ### (2) the cells: hits / misses = recordings since the last reset -/

/-- **The cells by history.**  After any history, every cell holds the counters `tally` computes from the
    history alone (a zeroing operation sets `0 / 0`, a recording on the cell adds one, nothing else counts). -/
theorem cells_by_history (ops : List StatsReg.Op) (c : Cell) :
    (runState {} ops).cells c = tally c [] ops Counters.zero :=
  cells_eq_tally ops c

/-- **hits / misses of a cell = number of `record_hit` / `record_miss` on it since its last reset.**  If the
    history is `a ++ op :: b` where `op` zeroes cell `c` (a `CacheStats::reset` on it, or a registry `reset` of a
    name bound to it at that moment) and nothing in `b` does, then `c` holds exactly the number of `record_hit`
    and of `record_miss` performed on `c` in `b` — whatever else happened in `b` (registrations, `clear`,
    recordings and resets on other cells, resets of names bound to other cells). -/
theorem counters_since_last_reset (a : List StatsReg.Op) (op : StatsReg.Op) (b : List StatsReg.Op) (c : Cell)
    (hz : zeroes a op c = true) (hb : noZero c (a ++ [op]) b = true) :
    (runState {} (a ++ op :: b)).cells c = ⟨hitCount c b, missCount c b⟩ := by
  rw [cells_eq_tally]
  exact tally_since_zero c [] a op b _ (by simpa using hz) (by simpa using hb)

/-- **… and since its creation if it was never reset**: with no zeroing operation in the whole history the cell
    holds the number of all recordings on it. -/
theorem counters_never_reset (ops : List StatsReg.Op) (c : Cell) (h : noZero c [] ops = true) :
    (runState {} ops).cells c = ⟨hitCount c ops, missCount c ops⟩ := by
  rw [cells_eq_tally, tally_noZero c [] ops _ h]
  simp [Counters.zero]

/-- `total_accesses` = hits + misses = the number of recordings since the last reset (both cases). -/
theorem total_is_recordings (a : List StatsReg.Op) (op : StatsReg.Op) (b : List StatsReg.Op) (c : Cell)
    (hz : zeroes a op c = true) (hb : noZero c (a ++ [op]) b = true) :
    ((runState {} (a ++ op :: b)).cells c).total = hitCount c b + missCount c b := by
  rw [counters_since_last_reset a op b c hz hb]; rfl

/-- **The read accessors are exact** (any state): `hits`, `misses`, `total_accesses` return the cell's counters
    and their sum, `hit_rate` / `miss_rate` are computed from (hits, total) / (misses, total); none of them
    changes anything. -/
theorem cell_reads_exact (r : Reg) (c : Cell) :
    StatsReg.step r (.hits c) = (r, .num (r.cells c).hits) ∧
    StatsReg.step r (.misses c) = (r, .num (r.cells c).misses) ∧
    StatsReg.step r (.total c) = (r, .num ((r.cells c).hits + (r.cells c).misses)) ∧
    StatsReg.step r (.hitRate c) = (r, .ratio (r.cells c).hits ((r.cells c).hits + (r.cells c).misses)) ∧
    StatsReg.step r (.missRate c) = (r, .ratio (r.cells c).misses ((r.cells c).hits + (r.cells c).misses)) :=
  ⟨rfl, rfl, rfl, rfl, rfl⟩

/-- **Recording touches one counter of one cell** (any state): `record_hit c` adds one to the hits of `c`,
    `record_miss c` one to its misses; the other counter, every other cell and the table are unchanged. -/
theorem record_exact (r : Reg) (c : Cell) :
    (StatsReg.step r (.recordHit c)).1.cells c = ⟨(r.cells c).hits + 1, (r.cells c).misses⟩ ∧
    (StatsReg.step r (.recordMiss c)).1.cells c = ⟨(r.cells c).hits, (r.cells c).misses + 1⟩ ∧
    (∀ c', c' ≠ c → (StatsReg.step r (.recordHit c)).1.cells c' = r.cells c' ∧
      (StatsReg.step r (.recordMiss c)).1.cells c' = r.cells c') ∧
    (StatsReg.step r (.recordHit c)).1.table = r.table ∧ (StatsReg.step r (.recordMiss c)).1.table = r.table := by
  refine ⟨by simp [StatsReg.step, write_cells], by simp [StatsReg.step, write_cells], ?_, rfl, rfl⟩
  intro c' h
  simp [StatsReg.step, write_cells, h]

/-! ### (3) `reset` -/

/-- **`reset n` is exact.**  After any history: if `n` has a registration since the last `clear`, `reset n`
    returns `true` and zeroes exactly the cell registered LAST under `n` (table and all other cells unchanged);
    otherwise it returns `false` and changes nothing. -/
theorem reset_exact (ops : List StatsReg.Op) (n : String) :
    StatsReg.step (runState {} ops) (.reset n) =
      match latest (bindingsSince ops) n with
      | some c => ((runState {} ops).write c Counters.zero, .flag true)
      | none => (runState {} ops, .flag false) := by
  simp only [StatsReg.step, (rel_run ops).table_eq]
  cases latest (bindingsSince ops) n <;> rfl

/-- `reset n` returns whether `n` is registered (has a registration since the last `clear`). -/
theorem reset_returns_registered (ops : List StatsReg.Op) (n : String) :
    (StatsReg.step (runState {} ops) (.reset n)).2 = .flag true ↔ ∃ c, (n, c) ∈ bindingsSince ops := by
  rw [reset_exact, ← RegLemmas.latest_isSome_iff]
  cases latest (bindingsSince ops) n <;> simp

/-- **`reset n` is a frame for every other cell** (any state): a cell that is not the one bound to `n` keeps
    its counters, and the table is unchanged. -/
theorem reset_frame_cells (r : Reg) (n : String) (c' : Cell) (h : getKey r.table n ≠ some c') :
    (StatsReg.step r (.reset n)).1.cells c' = r.cells c' ∧ (StatsReg.step r (.reset n)).1.table = r.table := by
  simp only [StatsReg.step]
  cases hk : getKey r.table n with
  | none => exact ⟨rfl, rfl⟩
  | some c =>
    have : c' ≠ c := fun e => h (by rw [hk, e])
    exact ⟨by simp [write_cells, this], rfl⟩

/-- **Resetting one name leaves all others unchanged.**  After any history, if `n'` is bound to a cell other
    than the one `n` is bound to (distinct caches), then `get n'` and `get_ref n'` return after `reset n` exactly
    what they returned before; and `get n` itself returns `0 / 0`. -/
theorem reset_frame_names (ops : List StatsReg.Op) (n n' : String) (c c' : Cell)
    (hn : latest (bindingsSince ops) n = some c) (hn' : latest (bindingsSince ops) n' = some c') (hne : c' ≠ c) :
    (StatsReg.step (StatsReg.step (runState {} ops) (.reset n)).1 (.get n')).2 =
      (StatsReg.step (runState {} ops) (.get n')).2 ∧
    (StatsReg.step (StatsReg.step (runState {} ops) (.reset n)).1 (.getRef n')).2 =
      (StatsReg.step (runState {} ops) (.getRef n')).2 ∧
    (StatsReg.step (StatsReg.step (runState {} ops) (.reset n)).1 (.get n)).2 = .snap (some Counters.zero) := by
  have h1 := (rel_run ops).table_eq n
  have h2 := (rel_run ops).table_eq n'
  rw [hn] at h1; rw [hn'] at h2
  simp [StatsReg.step, h1, h2, write_cells, hne]

/-- **Two names registered to the SAME cell share counters** — the reason the property assumes distinct
    names / caches: if `n` and `n'` are both bound to cell `c`, `reset n` also zeroes what `get n'` returns, and a
    recording counted for one is counted for the other. -/
theorem shared_cell_shares_counters (ops : List StatsReg.Op) (n n' : String) (c : Cell)
    (hn : latest (bindingsSince ops) n = some c) (hn' : latest (bindingsSince ops) n' = some c) :
    (StatsReg.step (runState {} ops) (.get n)).2 = (StatsReg.step (runState {} ops) (.get n')).2 ∧
    (StatsReg.step (StatsReg.step (runState {} ops) (.reset n)).1 (.get n')).2 = .snap (some Counters.zero) := by
  have h1 := (rel_run ops).table_eq n
  have h2 := (rel_run ops).table_eq n'
  rw [hn] at h1; rw [hn'] at h2
  simp [StatsReg.step, h1, h2, write_cells]

/-! ### (4) `list` -/

/-- **`list` = the registered names.**  After any history `list` changes nothing and returns a duplicate-free
    list whose members are exactly the names with a registration since the last `clear`. -/
theorem list_exact (ops : List StatsReg.Op) :
    ∃ l, StatsReg.step (runState {} ops) .list = (runState {} ops, .names l) ∧ l.Nodup ∧
      ∀ n, n ∈ l ↔ ∃ c, (n, c) ∈ bindingsSince ops :=
  ⟨_, rfl, (list_spec ops).1, (list_spec ops).2⟩

/-! ### (5) `clear` -/

/-- **`clear` empties the table but does not change any cell** (any state): afterwards every `get` / `get_ref`
    answers `None`, every `reset` answers `false` and changes nothing, `list` is empty — while every cell still
    holds its counters and can be read and bumped by the cache that owns it. -/
theorem clear_exact (r : Reg) (x : String) :
    (StatsReg.step r .clear).1.table = [] ∧ (StatsReg.step r .clear).1.cells = r.cells ∧
    (StatsReg.step (StatsReg.step r .clear).1 (.get x)).2 = .snap none ∧
    (StatsReg.step (StatsReg.step r .clear).1 (.getRef x)).2 = .ref none ∧
    StatsReg.step (StatsReg.step r .clear).1 (.reset x) = ((StatsReg.step r .clear).1, .flag false) ∧
    (StatsReg.step (StatsReg.step r .clear).1 .list).2 = .names [] :=
  ⟨rfl, rfl, rfl, rfl, rfl, rfl⟩

/-- only what is registered after the last `clear` counts: the history view is empty right after `clear` -/
theorem clear_forgets (ops : List StatsReg.Op) : bindingsSince (ops ++ [.clear]) = [] := by
  rw [bindingsSince_snoc]; rfl

/-! ### (6) queries change nothing -/

/-- **Reads are read-only** (any state): `get`, `get_ref`, `list` and the read accessors of a cell leave the
    table and every cell unchanged. -/
theorem queries_do_not_change (r : Reg) (op : StatsReg.Op) (h : isQuery op = true) : (StatsReg.step r op).1 = r :=
  step_query r h

/-- **Interleaved reads are invisible**: inserting any block of reads anywhere into a history does not change
    the resulting table and cells (from any start state). -/
theorem reads_insensitive (r : Reg) (a qs b : List StatsReg.Op) (hq : ∀ q, q ∈ qs → isQuery q = true) :
    runState r (a ++ qs ++ b) = runState r (a ++ b) := by
  rw [runState_append, runState_append, runState_append, runState_queries _ qs hq]

/-- `runState` is the state component of `run` (which also collects the outputs). -/
theorem run_state (r : Reg) (ops : List StatsReg.Op) : (StatsReg.run r ops).1 = runState r ops :=
  run_fst r ops

/-! ### (7) refinement: the abstraction of `System` is what the table computes

  `macroStatsOps fns called` is the registration history the macros produce when the global / async functions
  whose indices are in `called` (newest first, as in `Sys.called`) had their first call: in first-call order
  every such function registers its own static — cell `i` for function `i` — under its cache name
  (`name` attribute or function name); thread-scope functions and indices that name no function register
  nothing (`cachelito-macros/src/lib.rs:382-393` is in the global branch only; `cachelito-async-macros/src/lib.rs:506-513`).
  `regOf fns sys` is the registry that corresponds to a system state: the table built by
  `macroStatsOps fns sys.called`, over the memory in which cell `i` holds the counters of the shared cache
  instance of function `i`.  `DistinctNames fns`: cache names are pairwise distinct. -/

/-- **`statsGet` refines.**  On the registry that corresponds to `sys`, `get name` returns a snapshot `o` and
    changes nothing, and `sysStep … (.statsGet name)` returns exactly `o` (as a pair) and changes nothing. -/
theorem statsGet_refines (fns : List FnSpec) (hd : DistinctNames fns) (tls : Nat → Tlru S) (size : V → Nat)
    (isOk : V → Bool) (rs : List Nat) (sys : Sys K V) (name : String) :
    ∃ o : Option Counters,
      StatsReg.step (regOf fns sys) (.get name) = (regOf fns sys, .snap o) ∧
      sysStep fns tls size isOk rs sys (.statsGet name) = (sys, .stats (o.map (fun k => (k.hits, k.misses)))) :=
  statsGet_sim fns tls size isOk rs sys hd name

/-- **`statsReset` refines.**  `reset name` on the registry that corresponds to `sys` yields the registry that
    corresponds to the system after `sysStep … (.statsReset name)`, and both return the same flag. -/
theorem statsReset_refines (fns : List FnSpec) (hd : DistinctNames fns) (tls : Nat → Tlru S) (size : V → Nat)
    (isOk : V → Bool) (rs : List Nat) (sys : Sys K V) (name : String) :
    ∃ b : Bool,
      StatsReg.step (regOf fns sys) (.reset name) =
        (regOf fns (sysStep fns tls size isOk rs sys (.statsReset name)).1, .flag b) ∧
      (sysStep fns tls size isOk rs sys (.statsReset name)).2 = .flag b :=
  statsReset_sim fns tls size isOk rs sys hd name

/-- **A call of a global / async function refines** (no assumption on names): its effect on the statistics is
    `callOps`: on the first call the function's own cell `i` is registered under its cache name, then ONE
    recording on cell `i` — `record_hit` iff the lookup found an unexpired entry, else `record_miss`. -/
theorem call_refines (fns : List FnSpec) (tls : Nat → Tlru S) (size : V → Nat) (isOk : V → Bool) (rs : List Nat)
    (sys : Sys K V) {i : Nat} {spec : FnSpec} (hspec : fns[i]? = some spec) (hts : spec.threadScope = false)
    (th : Nat) (c : CallIn K V) :
    regOf fns (sysStep fns tls size isOk rs sys (.call i th c)).1 =
      runState (regOf fns sys)
        (callOps i spec.name (!sys.called.contains i) (Calls.found spec.cfg (sys.getCache ⟨i, none⟩) c.key)) :=
  call_sim fns tls size isOk rs sys hspec hts th c

/-- **Thread-scope functions register nothing and record nothing**: a call of a thread-scope function leaves
    the corresponding registry (table and every cell) unchanged. -/
theorem threadScope_call_refines (fns : List FnSpec) (tls : Nat → Tlru S) (size : V → Nat) (isOk : V → Bool)
    (rs : List Nat) (sys : Sys K V) {i : Nat} {spec : FnSpec} (hspec : fns[i]? = some spec)
    (hts : spec.threadScope = true) (th : Nat) (c : CallIn K V) :
    regOf fns (sysStep fns tls size isOk rs sys (.call i th c)).1 = regOf fns sys :=
  call_threadScope_sim fns tls size isOk rs sys hspec hts th c

/-- **Every step of the system is simulated**: the registry that corresponds to the state after ANY `sysStep`
    (calls of any function on any thread, ticks, the six invalidations, `statsGet`, `statsReset`) is obtained from
    the registry that corresponds to the state before by running `statOpsOf fns sys op` — `callOps` for a call of
    a global / async function, `get` / `reset` for the statistics requests, nothing for everything else. -/
theorem sysStep_refines (fns : List FnSpec) (hd : DistinctNames fns) (tls : Nat → Tlru S) (size : V → Nat)
    (isOk : V → Bool) (rs : List Nat) (sys : Sys K V) (op : SysOp K V) :
    regOf fns (sysStep fns tls size isOk rs sys op).1 = runState (regOf fns sys) (statOpsOf fns sys op) :=
  sysStep_sim fns tls size isOk rs sys hd op

/-- **Every history of the system is simulated, from the empty system to the empty registry**: after any
    `sysRun` the corresponding registry is the result of running the registry model, from the empty registry, on
    the statistics operations the history performed (`statTrace`). -/
theorem sysRun_refines (fns : List FnSpec) (hd : DistinctNames fns) (tls : Nat → Tlru S) (size : V → Nat)
    (isOk : V → Bool) (ops : List (SysOp K V × List Nat)) :
    regOf fns (sysRun fns tls size isOk (Sys.init : Sys K V) ops).1 =
      runState {} (statTrace fns tls size isOk (Sys.init : Sys K V) ops) := by
  rw [sysRun_sim fns tls size isOk Sys.init hd ops, regOf_init]

/-- **The abstract per-name counters of `sysStep` are what the table computes.**  After any history of the
    system, `statsGet name` returns what `get name` returns on the registry model run, from the empty registry,
    on the statistics operations of that history: the counters of the cell registered last under `name`,
    which by (2) are the recordings on it since its last reset.  Likewise the flag of `statsReset`. -/
theorem sysStep_outputs_agree (fns : List FnSpec) (hd : DistinctNames fns) (tls : Nat → Tlru S) (size : V → Nat)
    (isOk : V → Bool) (ops : List (SysOp K V × List Nat)) (rs : List Nat) (x : String) :
    let r := runState {} (statTrace fns tls size isOk (Sys.init : Sys K V) ops)
    let sys := (sysRun fns tls size isOk (Sys.init : Sys K V) ops).1
    (∀ o, (StatsReg.step r (.get x)).2 = .snap o →
      (sysStep fns tls size isOk rs sys (.statsGet x)).2 = .stats (o.map (fun k => (k.hits, k.misses)))) ∧
    (∀ b, (StatsReg.step r (.reset x)).2 = .flag b →
      (sysStep fns tls size isOk rs sys (.statsReset x)).2 = .flag b) := by
  intro r sys
  have hr : r = regOf fns sys := (sysRun_refines fns hd tls size isOk ops).symm
  refine ⟨?_, ?_⟩
  · intro o h
    obtain ⟨o', h1, h2⟩ := statsGet_refines fns hd tls size isOk rs sys x
    rw [hr, h1] at h; cases h; rw [h2]
  · intro b h
    obtain ⟨b', h1, h2⟩ := statsReset_refines fns hd tls size isOk rs sys x
    rw [hr, h1] at h; cases h; exact h2

/-! ### non-vacuity: concrete histories

  `exOps`: cache "users" owns cell 0, cache "orders" owns cell 1.  Lookups are recorded on both; "users" is read;
  then "alias" is registered to the SAME cell 0; "orders" is reset (a frame for "users"); "users" is RE-registered
  with another cell 2; recordings go on; the registry is cleared and "orders" registered again. -/

def exOps : List StatsReg.Op :=
  [.recordMiss 0,                                  -- 0: the cache records before anything is registered
   .register "users" 0, .register "orders" 1,      -- 1, 2
   .recordHit 0, .recordHit 0, .recordMiss 1,      -- 3, 4, 5
   .get "users", .get "orders", .get "nobody",     -- 6, 7, 8
   .register "alias" 0,                            -- 9: a second name for cell 0
   .reset "orders",                                -- 10
   .get "users", .get "orders", .get "alias",      -- 11, 12, 13
   .recordHit 1,                                   -- 14
   .register "users" 2,                            -- 15: re-registration with another cell
   .recordMiss 2, .recordHit 0,                    -- 16, 17
   .get "users", .getRef "alias", .list,           -- 18, 19, 20
   .reset "users", .reset "nobody",                -- 21, 22
   .hits 0, .misses 2, .total 1, .hitRate 0]       -- 23 .. 26

-- the outputs of the whole history, one per operation
example : (StatsReg.run {} exOps).2 =
    [.unit, .unit, .unit, .unit, .unit, .unit,
     .snap (some ⟨2, 1⟩), .snap (some ⟨0, 1⟩), .snap none,
     .unit, .flag true,
     .snap (some ⟨2, 1⟩), .snap (some ⟨0, 0⟩), .snap (some ⟨2, 1⟩),
     .unit, .unit, .unit, .unit,
     .snap (some ⟨0, 1⟩), .ref (some (0, ⟨3, 1⟩)), .names ["users", "orders", "alias"],
     .flag true, .flag false,
     .num 3, .num 0, .num 1, .ratio 3 4] := by decide
-- the history view
example : bindingsSince exOps = [("users", 0), ("orders", 1), ("alias", 0), ("users", 2)] := by decide
example : latest (bindingsSince exOps) "users" = some 2 ∧ latest (bindingsSince exOps) "alias" = some 0 ∧
    latest (bindingsSince exOps) "nobody" = none := by decide
-- the cells: the old cell 0 of "users" kept its counters (and is still bumped by its cache); `reset "users"`
-- zeroed the NEW cell 2 only
example : (runState {} exOps).cells 0 = ⟨3, 1⟩ ∧ (runState {} exOps).cells 1 = ⟨1, 0⟩ ∧
    (runState {} exOps).cells 2 = ⟨0, 0⟩ ∧ (runState {} exOps).cells 7 = ⟨0, 0⟩ := by decide
example : tally 0 [] exOps Counters.zero = ⟨3, 1⟩ ∧ tally 1 [] exOps Counters.zero = ⟨1, 0⟩ := by decide
-- `counters_since_last_reset` applies to cell 1: operation 10 (`reset "orders"`) zeroes it, nothing later does,
-- one hit since
example : zeroes (exOps.take 10) (.reset "orders") 1 = true ∧
    noZero 1 (exOps.take 10 ++ [.reset "orders"]) (exOps.drop 11) = true ∧
    hitCount 1 (exOps.drop 11) = 1 ∧ missCount 1 (exOps.drop 11) = 0 := by decide
-- `counters_never_reset` applies to cell 0 (its name "users" was re-bound before `reset "users"`)
example : noZero 0 [] exOps = true ∧ hitCount 0 exOps = 3 ∧ missCount 0 exOps = 1 := by decide
-- `reset "users"` (operation 21) zeroes cell 2, not cell 0; `reset "orders"` (operation 10) zeroes cell 1
example : zeroes (exOps.take 21) (.reset "users") 2 = true ∧ zeroes (exOps.take 21) (.reset "users") 0 = false ∧
    zeroes (exOps.take 10) (.reset "orders") 0 = false := by decide
-- two names registered to the SAME cell share counters: resetting "alias" zeroes what "users" shows
example : (StatsReg.run {} [.register "users" 0, .register "alias" 0, .recordHit 0, .recordMiss 0,
      .get "users", .get "alias", .reset "alias", .get "users"]).2 =
    [.unit, .unit, .unit, .unit, .snap (some ⟨1, 1⟩), .snap (some ⟨1, 1⟩), .flag true, .snap (some ⟨0, 0⟩)] := by
  decide
-- with DISTINCT cells, resetting one name is a frame for the other
example : (StatsReg.run {} [.register "users" 0, .register "orders" 1, .recordHit 0, .recordMiss 1,
      .reset "orders", .get "users", .get "orders"]).2 =
    [.unit, .unit, .unit, .unit, .flag true, .snap (some ⟨1, 0⟩), .snap (some ⟨0, 0⟩)] := by decide
-- `clear` empties the table but does not change any cell; a later registration finds the old counters
example : (StatsReg.run {} (exOps ++ [.clear, .get "users", .list, .reset "orders", .hits 0,
      .register "orders" 1, .get "orders"])).2.drop 27 =
    [.unit, .snap none, .names [], .flag false, .num 3, .unit, .snap (some ⟨1, 0⟩)] := by decide
example : bindingsSince (exOps ++ [.clear, .register "orders" 1]) = [("orders", 1)] := by decide
-- `isQuery` holds for the reads and fails for everything that writes
example : isQuery (.get "a") = true ∧ isQuery (.getRef "a") = true ∧ isQuery .list = true ∧
    isQuery (.hits 0) = true ∧ isQuery (.hitRate 0) = true ∧ isQuery (.register "a" 0) = false ∧
    isQuery (.reset "a") = false ∧ isQuery .clear = false ∧ isQuery (.recordHit 0) = false ∧
    isQuery (.cellReset 0) = false := by decide

/-! The refinement: `s0` global LRU named "alpha" with a TTL of 2 s, `s1` async LFU named "beta",
    `s2` thread-scope named "gamma" (no statistics).  The system history has a miss, a hit, an expired lookup
    (miss), calls of the other functions, an invalidation, a reset of "alpha" and a hit after it. -/

def exTl : Tlru Nat := ⟨fun a b => decide (a < b), fun _ h _ r => h * r⟩
def s0 : FnSpec := ⟨"alpha", false, false, ⟨.global, .lru, none, none, some 2⟩, false, false, false, false, ["t"], [], []⟩
def s1 : FnSpec := ⟨"beta", true, false, ⟨.async, .lfu, some 2, none, none⟩, false, false, false, false, [], [], []⟩
def s2 : FnSpec := ⟨"gamma", false, true, ⟨.threadLocal, .fifo, none, none, none⟩, false, false, false, false, [], [], []⟩
def exFns : List FnSpec := [s0, s1, s2]
def mk (k v : Nat) : CallIn Nat Nat := ⟨k, v, fun _ _ => true, fun _ _ => false⟩
def exSysOps : List (SysOp Nat Nat × List Nat) :=
  [(.statsGet "alpha", []),
   (.call 0 0 (mk 1 10), []), (.call 0 1 (mk 1 10), []),      -- alpha: first call (registers) miss, then hit
   (.tick 3000, []), (.call 0 0 (mk 1 10), []),               -- expired: miss
   (.call 1 0 (mk 9 90), []), (.call 1 1 (mk 9 90), []),      -- beta: first call (registers) miss, hit
   (.call 2 0 (mk 1 10), []),                                 -- gamma: thread scope — nothing
   (.statsGet "alpha", []), (.invalidateByTag "t", []), (.call 0 1 (mk 1 10), []),   -- invalidated: miss
   (.statsReset "alpha", []), (.call 0 0 (mk 1 10), []),      -- reset, then a hit
   (.statsGet "gamma", [])]
def exSys := (sysRun exFns (fun _ => exTl) (fun _ => 0) (fun _ => true) (Sys.init : Sys Nat Nat) exSysOps).1

example : DistinctNames exFns := distinctNames_of_nodup (by decide)
-- the statistics operations the system history performs on the registry
example : statTrace exFns (fun _ => exTl) (fun _ => 0) (fun _ => true) (Sys.init : Sys Nat Nat) exSysOps =
    [.get "alpha",
     .register "alpha" 0, .recordMiss 0, .recordHit 0, .recordMiss 0,
     .register "beta" 1, .recordMiss 1, .recordHit 1,
     .get "alpha", .recordMiss 0, .reset "alpha", .recordHit 0, .get "gamma"] := by decide
example : macroStatsOps exFns exSys.called = [.register "alpha" 0, .register "beta" 1] := by decide
-- both sides of `sysRun_refines` / `sysStep_outputs_agree` on this history
example : (StatsReg.step (regOf exFns exSys) (.get "alpha")).2 = .snap (some ⟨1, 0⟩) ∧
    (StatsReg.step (regOf exFns exSys) (.get "beta")).2 = .snap (some ⟨1, 1⟩) ∧
    (StatsReg.step (regOf exFns exSys) (.get "gamma")).2 = .snap none ∧
    (StatsReg.step (regOf exFns exSys) (.reset "gamma")).2 = .flag false := by decide
example : (StatsReg.run {} (statTrace exFns (fun _ => exTl) (fun _ => 0) (fun _ => true)
      (Sys.init : Sys Nat Nat) exSysOps ++ [.get "alpha", .get "beta", .list])).2.drop 13 =
    [.snap (some ⟨1, 0⟩), .snap (some ⟨1, 1⟩), .names ["alpha", "beta"]] := by decide
-- why distinct names are assumed: two functions sharing a name — the table holds the cell of the one called
-- LAST, `System` reads the one with the lowest index
example : macroStatsOps [s0, { s1 with name := "alpha" }] [1, 0] = [.register "alpha" 0, .register "alpha" 1] ∧
    latest (bindingsSince (macroStatsOps [s0, { s1 with name := "alpha" }] [1, 0])) "alpha" = some 1 := by decide

end Cachelito.C15r
