/-
  Cachelito.Basic — association-list stores and order queues (core Lean only).

  The store of every engine (`HashMap` / `DashMap`) is modelled as an association list whose
  keys are pairwise distinct (an invariant kept as a separate theorem, not a subtype); the
  order queue (`VecDeque<String>`) as a `List K`, front = head.
-/
namespace Cachelito

variable {K V : Type} [DecidableEq K]

/-- A cache entry: value, birth time (ms of the virtual clock) and hit counter.
    `cache_entry.rs:35-56` (sync) / the `(R, u64, u64)` tuple of the async cache. -/
structure Entry (V : Type) where
  val : V
  birth : Nat
  hits : Nat
  deriving Repr

abbrev Store (K V : Type) := List (K × Entry V)

/-- `HashMap::get`. -/
def lookup (k : K) : Store K V → Option (Entry V)
  | [] => none
  | (k', e) :: m => if k' = k then some e else lookup k m

/-- `HashMap::contains_key`. -/
def hasKey (k : K) (m : Store K V) : Bool := (lookup k m).isSome

/-- `HashMap::remove`. -/
def eraseKey (k : K) (m : Store K V) : Store K V := m.filter (fun p => p.1 ≠ k)

/-- `HashMap::insert` (replaces). -/
def put (k : K) (e : Entry V) (m : Store K V) : Store K V := eraseKey k m ++ [(k, e)]

/-- keys of the store -/
def keys (m : Store K V) : List K := m.map (·.1)

/-- `if let Some(e) = map.get_mut(k) { f(e) }` -/
def modify (k : K) (f : Entry V → Entry V) : Store K V → Store K V
  | [] => []
  | (k', e) :: m => if k' = k then (k', f e) :: m else (k', e) :: modify k f m

/-- `entry.increment_frequency()` on the entry of `k`, if any. -/
def bumpHits (k : K) (m : Store K V) : Store K V :=
  modify k (fun e => { e with hits := e.hits + 1 }) m

/-- `utils.rs:54-59 move_key_to_end`: only if the key is in the queue. -/
def moveToEnd (k : K) (q : List K) : List K :=
  if k ∈ q then q.erase k ++ [k] else q

/-- async `order.retain(|x| x != k); order.push_back(k)` -/
def retainPush (k : K) (q : List K) : List K := q.filter (fun x => x ≠ k) ++ [k]

/-- sync re-store: `if let Some(pos) = position(k) { remove(pos) }; push_back(k)` -/
def erasePush (k : K) (q : List K) : List K := q.erase k ++ [k]

end Cachelito
