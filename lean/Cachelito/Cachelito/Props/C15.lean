/-
  C15 — Hit/miss statistics are exact (engine level, sequential part).

  For every flavour, policy, limit, ttl, max_memory, score algebra, size function, random draws and
  every finite history: `hitStat + missStat` is the number of lookups performed, every lookup bumps
  exactly one of the two counters, `hitStat` exactly when an unexpired entry was found (so an expired
  lookup counts as a miss), and no other operation touches the counters.

  The per-name registry, `reset` and the concurrent part are proved elsewhere (wrapper / `Conc` level).
-/
import Cachelito.Lemmas.Hist

set_option linter.unusedSectionVars false
set_option linter.unusedSimpArgs false
set_option linter.unusedVariables false

namespace Cachelito.C15
open Cachelito Cachelito.Hist
variable {K V S : Type} [DecidableEq K]

/-- **A lookup counts as a hit exactly when an unexpired entry was found**, and then it serves that
    entry's value. -/
theorem hit_iff_unexpired_found (cfg : Cfg) (s : State K V) (k : K) :
    (get cfg s k).2.isSome = true ↔ ∃ e, lookup k s.store = some e ∧ expired cfg s.now e = false := by
  rw [get_result]
  cases hl : lookup k s.store with
  | none => simp
  | some e =>
    simp only [Option.some.injEq, exists_eq_left']
    cases expired cfg s.now e <;> simp

/-- **Every lookup bumps exactly one counter**: either it served a value, `hitStat` went up by one and
    `missStat` is unchanged, or it served nothing, `missStat` went up by one and `hitStat` is unchanged. -/
theorem get_counts_once (cfg : Cfg) (s : State K V) (k : K) :
    ((∃ v, (get cfg s k).2 = some v) ∧ (get cfg s k).1.hitStat = s.hitStat + 1 ∧
        (get cfg s k).1.missStat = s.missStat) ∨
    ((get cfg s k).2 = none ∧ (get cfg s k).1.hitStat = s.hitStat ∧
        (get cfg s k).1.missStat = s.missStat + 1) := by
  have h := get_stats cfg s k
  cases ho : (get cfg s k).2 with
  | none => right; exact ⟨rfl, h.2 ho⟩
  | some v => left; exact ⟨⟨v, rfl⟩, h.1 (by rw [ho]; rfl)⟩

/-- `hitStat` goes up iff the lookup served a value. -/
theorem hit_counted_iff_served (cfg : Cfg) (s : State K V) (k : K) :
    (get cfg s k).1.hitStat = s.hitStat + 1 ↔ (get cfg s k).2.isSome = true := by
  rcases get_counts_once cfg s k with ⟨⟨v, hv⟩, h1, _⟩ | ⟨hn, h1, _⟩
  · rw [hv]; simp [h1]
  · rw [hn, h1]; simp

/-- **An expired lookup counts as a miss**: the entry is found but expired, nothing is served,
    `missStat` goes up by one, `hitStat` is unchanged. -/
theorem expired_counts_as_miss (cfg : Cfg) (s : State K V) (k : K) (e : Entry V)
    (hl : lookup k s.store = some e) (hx : expired cfg s.now e = true) :
    (get cfg s k).2 = none ∧ (get cfg s k).1.missStat = s.missStat + 1 ∧ (get cfg s k).1.hitStat = s.hitStat := by
  have hn : (get cfg s k).2 = none := by rw [get_result, hl]; simp [hx]
  have := (get_stats cfg s k).2 hn
  exact ⟨hn, this.2, this.1⟩

/-- a lookup of an absent key counts as a miss -/
theorem absent_counts_as_miss (cfg : Cfg) (s : State K V) (k : K) (hl : lookup k s.store = none) :
    (get cfg s k).2 = none ∧ (get cfg s k).1.missStat = s.missStat + 1 ∧ (get cfg s k).1.hitStat = s.hitStat := by
  have hn : (get cfg s k).2 = none := by rw [get_result, hl]
  have := (get_stats cfg s k).2 hn
  exact ⟨hn, this.2, this.1⟩

/-- **No other operation changes the counters**: stores (plain or memory-aware, with all their
    evictions), clears, conditional invalidations and clock ticks leave `hitStat` and `missStat` alone. -/
theorem other_ops_keep_counters (cfg : Cfg) (tl : Tlru S) (size : V → Nat) (rs : List Nat) (s : State K V)
    (op : Op K V) (hop : ∀ k, op ≠ .get k) :
    (step cfg tl size rs s op).1.hitStat = s.hitStat ∧ (step cfg tl size rs s op).1.missStat = s.missStat := by
  have hg : isGet op = false := by
    cases op with
    | get k => exact absurd rfl (hop k)
    | _ => rfl
  have := step_stats_of_not_get cfg tl size rs s op hg
  exact ⟨this.1, this.2.1⟩

/-- one step: the counters grow by the hit / miss classification of the step's output, and the output
    is a lookup result exactly for lookups -/
theorem step_counts (cfg : Cfg) (tl : Tlru S) (size : V → Nat) (rs : List Nat) (s : State K V) (op : Op K V) :
    (step cfg tl size rs s op).1.hitStat = s.hitStat + (if isHit (step cfg tl size rs s op).2 then 1 else 0) ∧
    (step cfg tl size rs s op).1.missStat = s.missStat + (if isMiss (step cfg tl size rs s op).2 then 1 else 0) ∧
    ((if isHit (step cfg tl size rs s op).2 then 1 else 0) + (if isMiss (step cfg tl size rs s op).2 then 1 else 0)
      = if isGet op then 1 else 0) := by
  cases hg : isGet op with
  | false =>
    obtain ⟨h1, h2, h3⟩ := step_stats_of_not_get cfg tl size rs s op hg
    rw [h3]; simp [isHit, isMiss, h1, h2]
  | true =>
    cases op with
    | get k =>
      have hstep : step cfg tl size rs s (.get k) = ((get cfg s k).1, .val (get cfg s k).2) := rfl
      rw [hstep]
      rcases get_counts_once cfg s k with ⟨⟨v, hv⟩, h1, h2⟩ | ⟨hn, h1, h2⟩
      · simp [hv, isHit, isMiss, h1, h2]
      · simp [hn, isHit, isMiss, h1, h2]
    | insert k v => simp [isGet] at hg
    | insertMem k v => simp [isGet] at hg
    | clear => simp [isGet] at hg
    | invalidateWith p => simp [isGet] at hg
    | tick ms => simp [isGet] at hg

/-- **C15 for a history continued from any state**: the counters grow by exactly the number of lookups
    that served a value resp. served nothing, and together by the number of lookups. -/
theorem stats_exact_from (cfg : Cfg) (tl : Tlru S) (size : V → Nat) (s : State K V) (ops : List (Op K V × List Nat)) :
    (run cfg tl size s ops).1.hitStat = s.hitStat + (run cfg tl size s ops).2.countP isHit ∧
    (run cfg tl size s ops).1.missStat = s.missStat + (run cfg tl size s ops).2.countP isMiss ∧
    (run cfg tl size s ops).2.countP isHit + (run cfg tl size s ops).2.countP isMiss
      = ops.countP (fun p => isGet p.1) := by
  induction ops generalizing s with
  | nil => simp [run]
  | cons a ops ih =>
    obtain ⟨op, rs⟩ := a
    obtain ⟨h1, h2, h3⟩ := step_counts cfg tl size rs s op
    obtain ⟨i1, i2, i3⟩ := ih (step cfg tl size rs s op).1
    simp only [run, List.countP_cons]
    refine ⟨?_, ?_, ?_⟩
    · rw [i1, h1]; omega
    · rw [i2, h2]; omega
    · omega

/-- **C15, statistics exact for every history** from the empty cache: `hitStat` is the number of lookups
    that served a value, `missStat` the number of lookups that served nothing (absent or expired), and
    `hitStat + missStat` is the number of lookups performed. -/
theorem stats_exact (cfg : Cfg) (tl : Tlru S) (size : V → Nat) (ops : List (Op K V × List Nat)) :
    (run cfg tl size (State.init : State K V) ops).1.hitStat
        = (run cfg tl size (State.init : State K V) ops).2.countP isHit ∧
    (run cfg tl size (State.init : State K V) ops).1.missStat
        = (run cfg tl size (State.init : State K V) ops).2.countP isMiss ∧
    (run cfg tl size (State.init : State K V) ops).1.hitStat + (run cfg tl size (State.init : State K V) ops).1.missStat
        = ops.countP (fun p => isGet p.1) := by
  obtain ⟨h1, h2, h3⟩ := stats_exact_from cfg tl size (State.init : State K V) ops
  have z1 : (State.init : State K V).hitStat = 0 := rfl
  have z2 : (State.init : State K V).missStat = 0 := rfl
  rw [z1, Nat.zero_add] at h1
  rw [z2, Nat.zero_add] at h2
  exact ⟨h1, h2, by rw [h1, h2]; exact h3⟩

/-- the same after every prefix of a history (after every completed operation) -/
theorem stats_exact_prefix (cfg : Cfg) (tl : Tlru S) (size : V → Nat) (ops : List (Op K V × List Nat)) (i : Nat) :
    (run cfg tl size (State.init : State K V) (ops.take i)).1.hitStat
      + (run cfg tl size (State.init : State K V) (ops.take i)).1.missStat
        = (ops.take i).countP (fun p => isGet p.1) :=
  (stats_exact cfg tl size (ops.take i)).2.2

/-- **Per-lookup attribution in a history**: the `i`-th operation, if it is a lookup, raises `hitStat`
    by one iff its output is `some _`, and otherwise raises `missStat` by one; any other operation leaves
    both counters as they were. -/
theorem stats_step_in_history (cfg : Cfg) (tl : Tlru S) (size : V → Nat) (ops : List (Op K V × List Nat))
    (i : Nat) (op : Op K V) (rs : List Nat) (o : Out V) (hop : ops[i]? = some (op, rs))
    (hout : (run cfg tl size (State.init : State K V) ops).2[i]? = some o) :
    (run cfg tl size (State.init : State K V) (ops.take (i + 1))).1.hitStat
      = (run cfg tl size (State.init : State K V) (ops.take i)).1.hitStat + (if isHit o then 1 else 0) ∧
    (run cfg tl size (State.init : State K V) (ops.take (i + 1))).1.missStat
      = (run cfg tl size (State.init : State K V) (ops.take i)).1.missStat + (if isMiss o then 1 else 0) ∧
    ((if isHit o then 1 else 0) + (if isMiss o then 1 else 0) = if isGet op then 1 else 0) := by
  rw [run_out_at cfg tl size _ ops i op rs hop] at hout
  have ho := Option.some.inj hout
  rw [run_take_succ cfg tl size _ ops i op rs hop, ← ho]
  exact step_counts cfg tl size rs _ op

/-! ### Non-vacuity

  ttl = 1 s.  Lookups: key 1 absent (miss), key 1 fresh (hit), key 1 after 1 s (expired ⇒ miss, not a hit),
  key 2 fresh (hit), key 2 after `clear` (miss): 2 hits, 3 misses, 5 lookups among 10 operations. -/
def exTl : Tlru Nat := ⟨fun a b => decide (a < b), fun _ h _ r => h * r⟩
def exOps : List (Op Nat Nat × List Nat) :=
  [(.get 1, []), (.insert 1 10, []), (.get 1, []), (.tick 1000, []), (.get 1, []),
   (.insertMem 2 20, []), (.get 2, []), (.clear, []), (.invalidateWith (fun k => k == 2), []), (.get 2, [])]
def exGlobal : Cfg := ⟨.global, .lru, some 2, none, some 1⟩
def exAsync : Cfg := ⟨.async, .tlru, some 1, some 10, some 1⟩

example : (run exGlobal exTl (fun _ => 1) (State.init : State Nat Nat) exOps).1.hitStat = 2 ∧
    (run exGlobal exTl (fun _ => 1) (State.init : State Nat Nat) exOps).1.missStat = 3 ∧
    exOps.countP (fun p => isGet p.1) = 5 := by decide
example : (run exAsync exTl (fun _ => 1) (State.init : State Nat Nat) exOps).1.hitStat = 2 ∧
    (run exAsync exTl (fun _ => 1) (State.init : State Nat Nat) exOps).1.missStat = 3 := by decide
example : ((run exGlobal exTl (fun _ => 1) (State.init : State Nat Nat) exOps).2.map outVal) =
    [some none, none, some (some 10), none, some none, none, some (some 20), none, none, some none] := by decide
/-- the expired lookup (operation 4) finds an entry in the store and still counts as a miss -/
example : (lookup 1 (run exGlobal exTl (fun _ => 1) (State.init : State Nat Nat) (exOps.take 4)).1.store).isSome = true ∧
    (run exGlobal exTl (fun _ => 1) (State.init : State Nat Nat) (exOps.take 4)).1.missStat = 1 ∧
    (run exGlobal exTl (fun _ => 1) (State.init : State Nat Nat) (exOps.take 5)).1.missStat = 2 ∧
    (run exGlobal exTl (fun _ => 1) (State.init : State Nat Nat) (exOps.take 5)).1.hitStat = 1 := by decide

end Cachelito.C15
