/-
  Helper lemmas for C17: correctness of the trace matcher, rank discipline of skeleton runs, the chain
  argument behind deadlock freedom, the step-counting argument behind termination.
-/
import Cachelito.Conc

set_option linter.unusedSectionVars false
set_option linter.unusedSimpArgs false
set_option linter.unusedVariables false

namespace Cachelito.Conc

/-! ## A. The matcher -/

namespace Rx

theorem seq_inv {a b : Rx} {t : List Ev} (h : Matches (.seq a b) t) :
    ∃ t₁ t₂, t = t₁ ++ t₂ ∧ Matches a t₁ ∧ Matches b t₂ := by
  cases h with
  | seq h1 h2 => exact ⟨_, _, rfl, h1, h2⟩

theorem nullable_iff (r : Rx) : r.nullable = true ↔ Matches r [] := by
  induction r with
  | empty => simp only [nullable]; constructor
             · intro h; cases h
             · intro h; cases h
  | eps => simp only [nullable]; exact ⟨fun _ => .eps, fun _ => trivial⟩
  | ev e => simp only [nullable]; constructor
            · intro h; cases h
            · intro h; cases h
  | seq a b iha ihb =>
    simp only [nullable, Bool.and_eq_true, iha, ihb]
    constructor
    · rintro ⟨h1, h2⟩; exact Matches.seq h1 h2
    · intro h
      obtain ⟨t₁, t₂, ht, h1, h2⟩ := seq_inv h
      have : t₁ = [] ∧ t₂ = [] := by simpa using ht.symm
      rw [this.1] at h1; rw [this.2] at h2; exact ⟨h1, h2⟩
  | alt a b iha ihb =>
    simp only [nullable, Bool.or_eq_true, iha, ihb]
    constructor
    · rintro (h | h)
      · exact .altL h
      · exact .altR h
    · intro h
      cases h with
      | altL h => exact Or.inl h
      | altR h => exact Or.inr h
  | star a _ => simp only [nullable]; exact ⟨fun _ => .starNil, fun _ => trivial⟩

theorem mkSeq_iff (a b : Rx) (t : List Ev) : Matches (mkSeq a b) t ↔ Matches (.seq a b) t := by
  unfold mkSeq
  split
  · constructor
    · intro h; cases h
    · intro h; cases h with
      | seq h1 _ => cases h1
  · constructor
    · intro h; exact (Matches.seq .eps h)
    · intro h
      cases h with
      | seq h1 h2 => cases h1; simpa using h2
  · exact Iff.rfl

theorem mkAlt_iff (a b : Rx) (t : List Ev) : Matches (mkAlt a b) t ↔ Matches (.alt a b) t := by
  unfold mkAlt
  split
  · constructor
    · intro h; exact .altR h
    · intro h; cases h with
      | altL h => cases h
      | altR h => exact h
  · constructor
    · intro h; exact .altL h
    · intro h; cases h with
      | altL h => exact h
      | altR h => cases h
  · exact Iff.rfl

/-- a non-empty match of `a*` starts with a non-empty match of `a` -/
theorem star_cons_inv {a : Rx} {e : Ev} {t : List Ev} (h : Matches (.star a) (e :: t)) :
    ∃ t₁ t₂, t = t₁ ++ t₂ ∧ Matches a (e :: t₁) ∧ Matches (.star a) t₂ := by
  generalize hr : Rx.star a = r at h
  generalize hu : e :: t = u at h
  induction h with
  | eps => cases hr
  | ev _ => cases hr
  | seq _ _ => cases hr
  | altL _ => cases hr
  | altR _ => cases hr
  | starNil => cases hu
  | starCons h1 h2 ih1 ih2 =>
    rename_i a' t₁ t₂
    cases hr
    cases t₁ with
    | nil => exact ih2 rfl (by simpa using hu)
    | cons e' t₁' =>
      simp only [List.cons_append, List.cons.injEq] at hu
      obtain ⟨he, ht⟩ := hu
      subst he
      exact ⟨t₁', t₂, ht, h1, h2⟩

theorem deriv_iff (e : Ev) (r : Rx) (t : List Ev) : Matches (r.deriv e) t ↔ Matches r (e :: t) := by
  induction r generalizing t with
  | empty => simp only [deriv]; constructor <;> (intro h; cases h)
  | eps => simp only [deriv]; constructor <;> (intro h; cases h)
  | ev e' =>
    simp only [deriv]
    by_cases hee : e = e'
    · subst hee
      simp only [if_true]
      constructor
      · intro h; cases h; exact .ev e
      · intro h; cases h; exact .eps
    · simp only [hee, if_false]
      constructor
      · intro h; cases h
      · intro h; cases h; exact absurd rfl hee
  | seq a b iha ihb =>
    have key : Matches (.seq a b) (e :: t) ↔
        (∃ t₁ t₂, t = t₁ ++ t₂ ∧ Matches a (e :: t₁) ∧ Matches b t₂) ∨
        (Matches a [] ∧ Matches b (e :: t)) := by
      constructor
      · intro h
        obtain ⟨u₁, u₂, hu, h1, h2⟩ := seq_inv h
        cases u₁ with
        | nil => right; simp only [List.nil_append] at hu; subst hu; exact ⟨h1, h2⟩
        | cons e' u₁' =>
          simp only [List.cons_append, List.cons.injEq] at hu
          obtain ⟨he, ht⟩ := hu
          subst he
          left; exact ⟨u₁', u₂, ht, h1, h2⟩
      · rintro (⟨t₁, t₂, ht, h1, h2⟩ | ⟨h1, h2⟩)
        · subst ht
          have := Matches.seq h1 h2
          simpa using this
        · have := Matches.seq h1 h2
          simpa using this
    have left_iff : Matches (mkSeq (a.deriv e) b) t ↔
        ∃ t₁ t₂, t = t₁ ++ t₂ ∧ Matches a (e :: t₁) ∧ Matches b t₂ := by
      rw [mkSeq_iff]
      constructor
      · intro h
        obtain ⟨t₁, t₂, ht, h1, h2⟩ := seq_inv h
        exact ⟨t₁, t₂, ht, (iha t₁).1 h1, h2⟩
      · rintro ⟨t₁, t₂, ht, h1, h2⟩
        subst ht
        exact Matches.seq ((iha t₁).2 h1) h2
    simp only [deriv]
    by_cases hn : a.nullable = true
    · simp only [hn, if_true]
      rw [mkAlt_iff, key]
      constructor
      · intro h
        cases h with
        | altL h => exact Or.inl (left_iff.1 h)
        | altR h => exact Or.inr ⟨(nullable_iff a).1 hn, (ihb t).1 h⟩
      · rintro (h | ⟨_, h⟩)
        · exact .altL (left_iff.2 h)
        · exact .altR ((ihb t).2 h)
    · simp only [hn, if_false, Bool.false_eq_true]
      rw [key, left_iff]
      constructor
      · intro h; exact Or.inl h
      · rintro (h | ⟨h, _⟩)
        · exact h
        · exact absurd ((nullable_iff a).2 h) hn
  | alt a b iha ihb =>
    simp only [deriv]
    rw [mkAlt_iff]
    constructor
    · intro h
      cases h with
      | altL h => exact .altL ((iha t).1 h)
      | altR h => exact .altR ((ihb t).1 h)
    · intro h
      cases h with
      | altL h => exact .altL ((iha t).2 h)
      | altR h => exact .altR ((ihb t).2 h)
  | star a iha =>
    simp only [deriv]
    rw [mkSeq_iff]
    constructor
    · intro h
      obtain ⟨t₁, t₂, ht, h1, h2⟩ := seq_inv h
      subst ht
      have := Matches.starCons ((iha t₁).1 h1) h2
      simpa using this
    · intro h
      obtain ⟨t₁, t₂, ht, h1, h2⟩ := star_cons_inv h
      subst ht
      exact Matches.seq ((iha t₁).2 h1) h2

theorem derivs_iff (r : Rx) (t u : List Ev) : Matches (r.derivs t) u ↔ Matches r (t ++ u) := by
  induction t generalizing r with
  | nil => simp [derivs]
  | cons e t ih => simp only [derivs, List.cons_append]; rw [ih, deriv_iff]

theorem matchesB_iff (r : Rx) (t : List Ev) : r.matchesB t = true ↔ Matches r t := by
  unfold matchesB
  rw [nullable_iff, derivs_iff]
  simp

theorem nonEmptyB_iff (r : Rx) : r.nonEmptyB = true ↔ ∃ u, Matches r u := by
  induction r with
  | empty => simp only [nonEmptyB]; constructor
             · intro h; cases h
             · rintro ⟨_, h⟩; cases h
  | eps => simp only [nonEmptyB]; exact ⟨fun _ => ⟨[], .eps⟩, fun _ => trivial⟩
  | ev e => simp only [nonEmptyB]; exact ⟨fun _ => ⟨[e], .ev e⟩, fun _ => trivial⟩
  | seq a b iha ihb =>
    simp only [nonEmptyB, Bool.and_eq_true, iha, ihb]
    constructor
    · rintro ⟨⟨u, hu⟩, ⟨v, hv⟩⟩; exact ⟨u ++ v, .seq hu hv⟩
    · rintro ⟨_, h⟩
      obtain ⟨u, v, _, hu, hv⟩ := seq_inv h
      exact ⟨⟨u, hu⟩, ⟨v, hv⟩⟩
  | alt a b iha ihb =>
    simp only [nonEmptyB, Bool.or_eq_true, iha, ihb]
    constructor
    · rintro (⟨u, h⟩ | ⟨u, h⟩)
      · exact ⟨u, .altL h⟩
      · exact ⟨u, .altR h⟩
    · rintro ⟨u, h⟩
      cases h with
      | altL h => exact Or.inl ⟨u, h⟩
      | altR h => exact Or.inr ⟨u, h⟩
  | star a _ => simp only [nonEmptyB]; exact ⟨fun _ => ⟨[], .starNil⟩, fun _ => trivial⟩

end Rx

theorem runs_toRx {s : Skel} {t : List Ev} (h : Runs s t) : Rx.Matches s.toRx t := by
  induction h with
  | done => exact .eps
  | @crit l m b t _ ih =>
    simp only [Skel.toRx]
    have := Rx.Matches.seq (.ev (.acq l m)) (Rx.Matches.seq ih (.ev (.rel l)))
    simpa using this
  | seq _ _ ih1 ih2 => exact .seq ih1 ih2
  | altL _ ih => exact .altL ih
  | altR _ ih => exact .altR ih
  | starNil => exact .starNil
  | starCons _ _ ih1 ih2 => exact .starCons ih1 ih2

theorem star_toRx_runs {b : Skel} (ih : ∀ t, Rx.Matches b.toRx t → Runs b t) {r : Rx} {t : List Ev}
    (h : Rx.Matches r t) (hr : r = .star b.toRx) : Runs (.star b) t := by
  induction h with
  | eps => cases hr
  | ev _ => cases hr
  | seq _ _ => cases hr
  | altL _ => cases hr
  | altR _ => cases hr
  | starNil => exact .starNil
  | starCons h1 h2 ih1 ih2 =>
    cases hr
    exact .starCons (ih _ h1) (ih2 rfl)

theorem toRx_runs {s : Skel} {t : List Ev} (h : Rx.Matches s.toRx t) : Runs s t := by
  induction s generalizing t with
  | done => cases h; exact .done
  | crit l m b ih =>
    simp only [Skel.toRx] at h
    obtain ⟨t₁, t₂, ht, h1, h2⟩ := Rx.seq_inv h
    obtain ⟨t₃, t₄, ht', h3, h4⟩ := Rx.seq_inv h2
    cases h1; cases h4
    subst ht'; subst ht
    exact .crit (ih h3)
  | seq a b iha ihb =>
    obtain ⟨t₁, t₂, ht, h1, h2⟩ := Rx.seq_inv h
    subst ht
    exact .seq (iha h1) (ihb h2)
  | alt a b iha ihb =>
    cases h with
    | altL h => exact .altL (iha h)
    | altR h => exact .altR (ihb h)
  | star b ih => exact star_toRx_runs (fun t ht => ih ht) h rfl

/-- **The matcher is exact**: a trace is accepted iff it is one of the skeleton's event lists. -/
theorem accepts_iff (s : Skel) (t : List Ev) : accepts s t = true ↔ Runs s t := by
  unfold accepts
  rw [Rx.matchesB_iff]
  exact ⟨toRx_runs, runs_toRx⟩

/-- the prefix matcher is exact as well -/
theorem acceptsPrefix_iff (s : Skel) (t : List Ev) : acceptsPrefix s t = true ↔ ∃ u, Runs s (t ++ u) := by
  unfold acceptsPrefix
  rw [Rx.nonEmptyB_iff]
  constructor
  · rintro ⟨u, h⟩; exact ⟨u, toRx_runs ((Rx.derivs_iff _ _ _).1 h)⟩
  · rintro ⟨u, h⟩; exact ⟨u, (Rx.derivs_iff _ _ _).2 (runs_toRx h)⟩

theorem paths_rep_sound {b : Skel} {once : List (List Ev)} (h : ∀ t ∈ once, Runs b t) :
    ∀ (k : Nat) (t : List Ev), t ∈ Skel.paths.rep once k → Runs (.star b) t := by
  intro k
  induction k with
  | zero =>
    intro t ht
    simp only [Skel.paths.rep, List.mem_singleton] at ht
    subst ht; exact .starNil
  | succ k ih =>
    intro t ht
    simp only [Skel.paths.rep, List.mem_cons, List.mem_flatMap, List.mem_map] at ht
    rcases ht with rfl | ⟨t₁, h1, t₂, h2, rfl⟩
    · exact .starNil
    · exact .starCons (h t₁ h1) (ih t₂ h2)

/-- every enumerated path is an event list of the skeleton -/
theorem paths_sound (n : Nat) (s : Skel) : ∀ t ∈ s.paths n, Runs s t := by
  induction s with
  | done => intro t ht; simp only [Skel.paths, List.mem_singleton] at ht; subst ht; exact .done
  | crit l m b ih =>
    intro t ht
    simp only [Skel.paths, List.mem_map] at ht
    obtain ⟨u, hu, rfl⟩ := ht
    exact .crit (ih u hu)
  | seq a b iha ihb =>
    intro t ht
    simp only [Skel.paths, List.mem_flatMap, List.mem_map] at ht
    obtain ⟨t₁, h1, t₂, h2, rfl⟩ := ht
    exact .seq (iha t₁ h1) (ihb t₂ h2)
  | alt a b iha ihb =>
    intro t ht
    simp only [Skel.paths, List.mem_append] at ht
    rcases ht with h | h
    · exact .altL (iha t h)
    · exact .altR (ihb t h)
  | star b ih =>
    intro t ht
    simp only [Skel.paths] at ht
    exact paths_rep_sound ih n t ht

/-! ## B. Traces of well-formed skeletons are rank-ordered and balanced -/

theorem wfFrom_iff (H : List (Lock × Mode)) (p : List Ev) :
    WfFrom H p ↔ RankedFrom H p ∧ BalancedFrom H p := by
  induction p generalizing H with
  | nil => simp [WfFrom, RankedFrom, BalancedFrom]
  | cons e p ih =>
    cases e with
    | acq l m =>
      simp only [WfFrom, RankedFrom, BalancedFrom, ih]
      exact ⟨fun ⟨a, b, c⟩ => ⟨⟨a, b⟩, c⟩, fun ⟨⟨a, b⟩, c⟩ => ⟨a, b, c⟩⟩
    | rel l =>
      simp only [WfFrom, RankedFrom, BalancedFrom, ih]
      exact ⟨fun ⟨a, b, c⟩ => ⟨b, a, c⟩, fun ⟨b, a, c⟩ => ⟨a, b, c⟩⟩

theorem checkTrace_iff (H : List (Lock × Mode)) (p : List Ev) : checkTrace H p = true ↔ WfFrom H p := by
  induction p generalizing H with
  | nil => simp [checkTrace, WfFrom]
  | cons e p ih =>
    cases e with
    | acq l m => simp only [checkTrace, WfFrom, Bool.and_eq_true, List.all_eq_true, decide_eq_true_eq, ih]
    | rel l =>
      simp only [checkTrace, WfFrom, Bool.and_eq_true, List.any_eq_true, decide_eq_true_eq, ih]
      constructor
      · rintro ⟨⟨x, hx, hxl⟩, h⟩
        refine ⟨⟨x.2, ?_⟩, h⟩
        rw [← hxl]; exact hx
      · rintro ⟨⟨m, hm⟩, h⟩
        exact ⟨⟨(l, m), hm, rfl⟩, h⟩

/-- a lock ranked above everything held is not among the held ones -/
theorem filter_ne_of_ranks {H : List (Lock × Mode)} {l : Lock} (h : ∀ x ∈ H, x.1.rank < l.rank) :
    H.filter (fun x => decide (x.1 ≠ l)) = H := by
  rw [List.filter_eq_self]
  intro x hx
  have := h x hx
  simp only [ne_eq, decide_eq_true_eq]
  intro hxl
  rw [hxl] at this
  exact Nat.lt_irrefl _ this

/-- Core of T1: a run of a well-formed skeleton, started while holding `H` and followed by a good
    continuation `p`, is rank-ordered and balanced. -/
theorem runs_wfFrom {s : Skel} {t : List Ev} (hr : Runs s t) :
    ∀ (H : List (Lock × Mode)) (p : List Ev), s.wf (H.map Prod.fst) = true → WfFrom H p →
      WfFrom H (t ++ p) := by
  induction hr with
  | done => intro H p _ hp; simpa using hp
  | @crit l m b t _ ih =>
    intro H p hw hp
    simp only [Skel.wf, Bool.and_eq_true, List.all_eq_true, decide_eq_true_eq] at hw
    obtain ⟨hrk, hb⟩ := hw
    have hrk' : ∀ x ∈ H, x.1.rank < l.rank := fun x hx => hrk x.1 (List.mem_map_of_mem hx)
    simp only [List.cons_append, List.append_assoc, WfFrom]
    refine ⟨hrk', ?_⟩
    apply ih ((l, m) :: H) (.rel l :: p) (by simpa using hb)
    simp only [List.singleton_append, WfFrom]
    refine ⟨⟨m, by simp⟩, ?_⟩
    have : ((l, m) :: H).filter (fun x => decide (x.1 ≠ l)) = H := by
      simp only [List.filter_cons, ne_eq, not_true_eq_false, decide_false, Bool.false_eq_true, if_false]
      exact filter_ne_of_ranks hrk'
    rw [this]; exact hp
  | seq _ _ ih1 ih2 =>
    intro H p hw hp
    simp only [Skel.wf, Bool.and_eq_true] at hw
    rw [List.append_assoc]
    exact ih1 H _ hw.1 (ih2 H p hw.2 hp)
  | altL _ ih =>
    intro H p hw hp
    simp only [Skel.wf, Bool.and_eq_true] at hw
    exact ih H p hw.1 hp
  | altR _ ih =>
    intro H p hw hp
    simp only [Skel.wf, Bool.and_eq_true] at hw
    exact ih H p hw.2 hp
  | starNil => intro H p _ hp; simpa using hp
  | starCons _ _ ih1 ih2 =>
    intro H p hw hp
    rw [List.append_assoc]
    exact ih1 H _ (by simpa [Skel.wf] using hw) (ih2 H p hw hp)

theorem wf_seqs (H : List Lock) (ops : List Skel) : (Skel.seqs ops).wf H = ops.all (fun o => o.wf H) := by
  induction ops with
  | nil => rfl
  | cons o ops ih => simp [Skel.seqs, Skel.wf, ih]

theorem wf_alts (H : List Lock) (ops : List Skel) : (Skel.alts ops).wf H = ops.all (fun o => o.wf H) := by
  induction ops with
  | nil => rfl
  | cons o ops ih => simp [Skel.alts, Skel.wf, ih]

/-! ## C. Systems: the invariant and the chain argument -/

/-- every thread's remaining events are rank-ordered and balanced from what it holds -/
def AllWf (s : State) : Prop := ∀ th ∈ s, WfFrom th.held th.todo

theorem wfFrom_advance {th : Thread} (h : WfFrom th.held th.todo) :
    WfFrom th.advance.held th.advance.todo := by
  unfold Thread.advance
  match hp : th.todo with
  | [] => simpa [hp] using h
  | .acq l m :: p => rw [hp] at h; exact h.2
  | .rel l :: p => rw [hp] at h; exact h.2

theorem AllWf.advanceAt {s s' : State} {i : ThreadId} (h : AllWf s) (hs : advanceAt s i = some s') :
    AllWf s' := by
  unfold Conc.advanceAt at hs
  match hi : s[i]? with
  | none => simp [hi] at hs
  | some th =>
    simp only [hi, Option.some.injEq] at hs
    subst hs
    intro t ht
    rcases List.mem_or_eq_of_mem_set ht with h1 | h1
    · exact h t h1
    · subst h1; exact wfFrom_advance (h th (List.mem_of_getElem? hi))

theorem AllWf.init {paths : List (List Ev)} (h : ∀ t ∈ paths, WfFrom [] t) : AllWf (State.init paths) := by
  intro th hth
  simp only [State.init, List.mem_map] at hth
  obtain ⟨p, hp, rfl⟩ := hth
  exact h p hp

/-- a thread that holds something is unfinished -/
theorem todo_ne_nil_of_held {th : Thread} (h : WfFrom th.held th.todo) {x : Lock × Mode} (hx : x ∈ th.held) :
    th.todo ≠ [] := by
  intro h0
  rw [h0] at h
  simp only [WfFrom] at h
  rw [h] at hx
  cases hx

def wantRank (t : Thread) : Nat :=
  match t.todo with
  | .acq l _ :: _ => l.rank
  | _ => 0

def wantBound : State → Nat
  | [] => 0
  | t :: s => wantRank t + wantBound s

theorem wantRank_le_bound {s : State} {th : Thread} (h : th ∈ s) : wantRank th ≤ wantBound s := by
  induction s with
  | nil => cases h
  | cons t s ih =>
    simp only [wantBound]
    rcases List.mem_cons.1 h with h1 | h1
    · subst h1; omega
    · have := ih h1; omega

/-- A lock-granting policy `E` is *work conserving* when: only unfinished threads move; a release is never
    refused; and if NOBODY can move, then every thread that wants a lock finds that lock held by somebody.
    (Plain reader/writer semantics, writer preference, hand-off to a designated waiter … all qualify.) -/
structure WorkConserving (E : State → ThreadId → Bool) : Prop where
  unfinished : ∀ (s : State) (i : ThreadId), E s i = true → ∃ th : Thread, s[i]? = some th ∧ th.todo ≠ []
  rel : ∀ (s : State) (i : ThreadId) (th : Thread) (l : Lock) (p : List Ev),
    s[i]? = some th → th.todo = .rel l :: p → E s i = true
  holder : ∀ (s : State) (i : ThreadId) (th : Thread) (l : Lock) (m : Mode) (p : List Ev),
    s[i]? = some th → th.todo = .acq l m :: p → (∀ j, E s j = false) →
    ∃ o ∈ s, ∃ x ∈ o.held, x.1 = l

/-- **The chain argument.**  In a state whose threads all follow the rank discipline, under a work-conserving
    policy: if somebody is unfinished then somebody can move.  (If nobody could, every unfinished thread would
    wait for a lock; its holder is unfinished (balance) and waits for a strictly higher rank; climbing
    gives waited-for ranks above any bound.) -/
theorem progress {E : State → ThreadId → Bool} (hE : WorkConserving E) {s : State} (hwf : AllWf s)
    (hun : allFinished s = false) : ∃ i, E s i = true := by
  apply Classical.byContradiction
  intro hno
  have hno' : ∀ j, E s j = false := by
    intro j
    cases h : E s j
    · rfl
    · exact absurd ⟨j, h⟩ hno
  have hacq : ∀ (i : ThreadId) (th : Thread), s[i]? = some th → th.todo ≠ [] →
      ∃ l m p, th.todo = Ev.acq l m :: p := by
    intro i th hi hne
    match hp : th.todo with
    | [] => exact absurd hp hne
    | .rel l :: p =>
      have := hE.rel s i th l p hi hp
      rw [hno' i] at this; cases this
    | .acq l m :: p => exact ⟨l, m, p, rfl⟩
  have climb : ∀ n : Nat, ∃ (i : ThreadId) (th : Thread) (l : Lock) (m : Mode) (p : List Ev),
      s[i]? = some th ∧ th.todo = Ev.acq l m :: p ∧ n ≤ l.rank := by
    intro n
    induction n with
    | zero =>
      simp only [allFinished, List.all_eq_false] at hun
      obtain ⟨th, hth, hf⟩ := hun
      obtain ⟨i, hi⟩ := List.getElem?_of_mem hth
      have hne : th.todo ≠ [] := by
        intro h0; apply hf; simp [Thread.finished, h0]
      obtain ⟨l, m, p, hp⟩ := hacq i th hi hne
      exact ⟨i, th, l, m, p, hi, hp, Nat.zero_le _⟩
    | succ n ih =>
      obtain ⟨i, th, l, m, p, hi, ht, hn⟩ := ih
      obtain ⟨o, ho, x, hx, hxl⟩ := hE.holder s i th l m p hi ht hno'
      obtain ⟨j, hj⟩ := List.getElem?_of_mem ho
      have hwo := hwf o ho
      obtain ⟨l', m', p', ht'⟩ := hacq j o hj (todo_ne_nil_of_held hwo hx)
      rw [ht'] at hwo
      have := hwo.1 x hx
      rw [hxl] at this
      exact ⟨j, o, l', m', p', hj, ht', by omega⟩
  obtain ⟨i, th, l, m, p, hi, ht, hn⟩ := climb (wantBound s + 1)
  have := wantRank_le_bound (List.mem_of_getElem? hi)
  simp only [wantRank, ht] at this
  omega

theorem not_grantable {l : Lock} {m : Mode} {others : List Thread} (h : grantable l m others = false) :
    ∃ o ∈ others, ∃ x ∈ o.held, x.1 = l ∧ m.compat x.2 = false := by
  apply Classical.byContradiction
  intro hcon
  have : grantable l m others = true := by
    simp only [grantable, List.all_eq_true, Bool.or_eq_true, Bool.not_eq_true', decide_eq_false_iff_not]
    intro o ho x hx
    by_cases hxl : x.1 = l
    · right
      cases hc : m.compat x.2
      · exact absurd ⟨o, ho, x, hx, hxl, hc⟩ hcon
      · rfl
    · exact Or.inl hxl
  rw [this] at h
  cases h

/-- plain reader/writer semantics is work conserving -/
theorem workConserving_enabledB : WorkConserving enabledB where
  unfinished := by
    intro s i h
    unfold enabledB at h
    match hi : s[i]? with
    | none => simp [hi] at h
    | some th =>
      refine ⟨th, rfl, ?_⟩
      intro h0
      simp [hi, h0] at h
  rel := by
    intro s i th l p hi ht
    simp [enabledB, hi, ht]
  holder := by
    intro s i th l m p hi ht hno
    have := hno i
    simp only [enabledB, hi, ht] at this
    obtain ⟨o, ho, x, hx, hxl, _⟩ := not_grantable this
    exact ⟨o, List.mem_of_mem_eraseIdx ho, x, hx, hxl⟩

/-- so is writer preference: a refused reader is refused because of a holder or because of a waiting writer,
    and the waiting writer (refused too) is refused because of a holder -/
theorem workConserving_enabledWPB : WorkConserving enabledWPB where
  unfinished := by
    intro s i h
    unfold enabledWPB at h
    match hi : s[i]? with
    | none => simp [hi] at h
    | some th =>
      refine ⟨th, rfl, ?_⟩
      intro h0
      simp [hi, h0] at h
  rel := by
    intro s i th l p hi ht
    simp [enabledWPB, hi, ht]
  holder := by
    intro s i th l m p hi ht hno
    have hexcl : ∀ (j : ThreadId) (o : Thread) (q : List Ev), s[j]? = some o → o.todo = Ev.acq l .excl :: q →
        ∃ o ∈ s, ∃ x ∈ o.held, x.1 = l := by
      intro j o q hj ho
      have := hno j
      simp only [enabledWPB, hj, ho] at this
      obtain ⟨o', ho', x, hx, hxl, _⟩ := not_grantable this
      exact ⟨o', List.mem_of_mem_eraseIdx ho', x, hx, hxl⟩
    cases m with
    | excl => exact hexcl i th p hi ht
    | shared =>
      have := hno i
      simp only [enabledWPB, hi, ht, Bool.and_eq_false_iff, Bool.not_eq_false', List.any_eq_true] at this
      rcases this with h | ⟨w, hw, hwe⟩
      · obtain ⟨o, ho, x, hx, hxl, _⟩ := not_grantable h
        exact ⟨o, List.mem_of_mem_eraseIdx ho, x, hx, hxl⟩
      · obtain ⟨j, hj⟩ := List.getElem?_of_mem (List.mem_of_mem_eraseIdx hw)
        unfold Thread.wantsExcl at hwe
        match hq : w.todo with
        | [] => simp [hq] at hwe
        | .rel _ :: _ => simp [hq] at hwe
        | .acq _ .shared :: _ => simp [hq] at hwe
        | .acq l' .excl :: q =>
          simp only [hq, decide_eq_true_eq] at hwe
          subst hwe
          exact hexcl j w q hj hq

/-! ## D. Reachability, step counting, termination -/

/-- states reachable under policy `E` -/
inductive ReachWith (E : State → ThreadId → Bool) : State → State → Prop
  | refl (s : State) : ReachWith E s s
  | step {s s' s'' : State} {i : ThreadId} : ReachWith E s s' → stepWith E s' i = some s'' → ReachWith E s s''

/-- reachable under plain reader/writer semantics, resp. under writer preference -/
abbrev Reach := ReachWith enabledB
abbrev ReachWP := ReachWith enabledWPB

theorem AllWf.stepWith {E : State → ThreadId → Bool} {s s' : State} {i : ThreadId} (h : AllWf s)
    (hs : stepWith E s i = some s') : AllWf s' := by
  unfold Conc.stepWith at hs
  split at hs
  · exact h.advanceAt hs
  · cases hs

theorem AllWf.reach {E : State → ThreadId → Bool} {s s' : State} (h : AllWf s) (hr : ReachWith E s s') :
    AllWf s' := by
  induction hr with
  | refl => exact h
  | step _ hs ih => exact ih.stepWith hs

theorem reachWith_trans {E : State → ThreadId → Bool} {a b c : State} (h1 : ReachWith E a b)
    (h2 : ReachWith E b c) : ReachWith E a c := by
  induction h2 with
  | refl => exact h1
  | step _ hs ih => exact .step ih hs

theorem runScheduleWith_reach {E : State → ThreadId → Bool} {sched : List ThreadId} {s s' : State}
    (h : runScheduleWith E sched s = some s') : ReachWith E s s' := by
  induction sched generalizing s with
  | nil => simp only [runScheduleWith, Option.some.injEq] at h; subst h; exact .refl _
  | cons i is ih =>
    simp only [runScheduleWith] at h
    match hs : stepWith E s i with
    | none => simp [hs] at h
    | some s₁ =>
      simp only [hs, Option.bind_some] at h
      exact reachWith_trans (.step (.refl _) hs) (ih h)

theorem reachWith_runSchedule {E : State → ThreadId → Bool} {s s' : State} (h : ReachWith E s s') :
    ∃ sched, runScheduleWith E sched s = some s' := by
  have app : ∀ (sched : List ThreadId) (a b c : State) (i : ThreadId),
      runScheduleWith E sched a = some b → stepWith E b i = some c →
      runScheduleWith E (sched ++ [i]) a = some c := by
    intro sched
    induction sched with
    | nil =>
      intro a b c i h1 h2
      simp only [runScheduleWith, Option.some.injEq] at h1
      subst h1
      simp [runScheduleWith, h2]
    | cons j js ih =>
      intro a b c i h1 h2
      simp only [runScheduleWith, List.cons_append] at h1 ⊢
      match hs : stepWith E a j with
      | none => simp [hs] at h1
      | some a₁ =>
        simp only [hs, Option.bind_some] at h1 ⊢
        exact ih a₁ b c i h1 h2
  induction h with
  | refl => exact ⟨[], rfl⟩
  | step _ hs ih =>
    obtain ⟨sched, hsched⟩ := ih
    exact ⟨sched ++ [_], app sched _ _ _ _ hsched hs⟩

theorem remaining_set {s : State} {i : ThreadId} {th th' : Thread} (hi : s[i]? = some th) :
    remaining (s.set i th') + th.todo.length = remaining s + th'.todo.length := by
  induction s generalizing i with
  | nil => simp at hi
  | cons t s ih =>
    cases i with
    | zero =>
      simp only [List.getElem?_cons_zero, Option.some.injEq] at hi
      subst hi
      simp only [List.set_cons_zero, remaining]; omega
    | succ i =>
      simp only [List.getElem?_cons_succ] at hi
      have := ih hi
      simp only [List.set_cons_succ, remaining]; omega

theorem advance_length {th : Thread} (h : th.todo ≠ []) : th.advance.todo.length + 1 = th.todo.length := by
  unfold Thread.advance
  match hp : th.todo with
  | [] => exact absurd hp h
  | e :: p => simp

/-- every step performs exactly one of the remaining lock events -/
theorem remaining_stepWith {E : State → ThreadId → Bool} (hE : WorkConserving E) {s s' : State} {i : ThreadId}
    (hs : stepWith E s i = some s') : remaining s' + 1 = remaining s := by
  unfold stepWith at hs
  split at hs
  · rename_i he
    obtain ⟨th, hi, hne⟩ := hE.unfinished s i he
    simp only [advanceAt, hi, Option.some.injEq] at hs
    subst hs
    have h1 := remaining_set (th' := th.advance) hi
    have h2 := advance_length hne
    omega
  · cases hs

theorem remaining_runScheduleWith {E : State → ThreadId → Bool} (hE : WorkConserving E)
    {sched : List ThreadId} {s s' : State} (h : runScheduleWith E sched s = some s') :
    remaining s' + sched.length = remaining s := by
  induction sched generalizing s with
  | nil => simp only [runScheduleWith, Option.some.injEq] at h; subst h; simp
  | cons i is ih =>
    simp only [runScheduleWith] at h
    match hs : stepWith E s i with
    | none => simp [hs] at h
    | some s₁ =>
      simp only [hs, Option.bind_some] at h
      have h1 := remaining_stepWith hE hs
      have h2 := ih h
      simp only [List.length_cons]; omega

theorem allFinished_iff_remaining (s : State) : allFinished s = true ↔ remaining s = 0 := by
  induction s with
  | nil => simp [allFinished, remaining]
  | cons t s ih =>
    simp only [allFinished, List.all_cons, Bool.and_eq_true, remaining] at ih ⊢
    rw [ih]
    simp only [Thread.finished, List.isEmpty_iff]
    constructor
    · rintro ⟨h1, h2⟩; simp [h1, h2]
    · intro h
      have h1 : t.todo.length = 0 := by omega
      exact ⟨List.eq_nil_of_length_eq_zero h1, by omega⟩

theorem stepWith_some_of_enabled {E : State → ThreadId → Bool} (hE : WorkConserving E) {s : State} {i : ThreadId}
    (h : E s i = true) : ∃ s', stepWith E s i = some s' := by
  obtain ⟨th, hi, _⟩ := hE.unfinished s i h
  exact ⟨s.set i th.advance, by simp [stepWith, h, advanceAt, hi]⟩

/-- Any scheduler that picks an enabled thread whenever there is one drives the system, in exactly
    `remaining s` steps, to the state where every thread has finished. -/
theorem runPickWith_finishes {E : State → ThreadId → Bool} (hE : WorkConserving E) (pick : State → ThreadId)
    (hpick : ∀ s, (∃ i, E s i = true) → E s (pick s) = true) :
    ∀ (n : Nat) (s : State), AllWf s → remaining s ≤ n →
      ∃ s', runPickWith E pick n s = some s' ∧ allFinished s' = true ∧ ReachWith E s s' := by
  intro n
  induction n with
  | zero =>
    intro s _ hn
    exact ⟨s, rfl, (allFinished_iff_remaining s).2 (by omega), .refl _⟩
  | succ n ih =>
    intro s hwf hn
    simp only [runPickWith]
    cases hf : allFinished s
    · simp only [Bool.false_eq_true, if_false]
      have hen := hpick s (progress hE hwf hf)
      obtain ⟨s₁, hs₁⟩ := stepWith_some_of_enabled hE hen
      have hrem := remaining_stepWith hE hs₁
      obtain ⟨s', h1, h2, h3⟩ := ih s₁ (hwf.stepWith hs₁) (by omega)
      refine ⟨s', ?_, h2, reachWith_trans (.step (.refl _) hs₁) h3⟩
      simp only [hs₁, Option.bind_some]
      exact h1
    · exact ⟨s, by simp, hf, .refl _⟩

/-- the deadlock search only reports replayable schedules that end in a stuck state -/
theorem findStuck_sound : ∀ (n : Nat) (s : State) (sched : List ThreadId), findStuck n s = some sched →
    ∃ s', runSchedule sched s = some s' ∧ stuck s' = true := by
  intro n
  induction n with
  | zero =>
    intro s sched h
    simp only [findStuck] at h
    split at h
    · rename_i hst
      cases h
      exact ⟨s, rfl, hst⟩
    · cases h
  | succ n ih =>
    intro s sched h
    simp only [findStuck] at h
    split at h
    · rename_i hst
      cases h
      exact ⟨s, rfl, hst⟩
    · obtain ⟨i, _, hi⟩ := List.exists_of_findSome?_eq_some h
      match hs : stepThread s i with
      | none => simp [hs] at hi
      | some s₁ =>
        simp only [hs, Option.map_eq_some_iff] at hi
        obtain ⟨sch', h1, rfl⟩ := hi
        obtain ⟨s', h2, h3⟩ := ih s₁ sch' h1
        refine ⟨s', ?_, h3⟩
        simp only [runSchedule, runScheduleWith] at h2 ⊢
        simp only [stepThread] at hs
        simp [hs, h2]

/-! ## E. Threads running skeleton programs -/

/-- Thread `k` runs the operations `progs[k]` one after the other and `paths[k]` is one of the event lists
    it can produce (its choices at `alt`/`star` are its own). -/
def IsRunOf : List (List Skel) → List (List Ev) → Prop
  | [], [] => True
  | ops :: progs, t :: paths => Runs (Skel.seqs ops) t ∧ IsRunOf progs paths
  | _, _ => False

theorem allWf_of_isRunOf {progs : List (List Skel)} {paths : List (List Ev)}
    (hwf : ∀ ops ∈ progs, ∀ o ∈ ops, o.wf [] = true) (hrun : IsRunOf progs paths) :
    AllWf (State.init paths) := by
  apply AllWf.init
  induction progs generalizing paths with
  | nil =>
    cases paths with
    | nil => intro t ht; cases ht
    | cons _ _ => simp [IsRunOf] at hrun
  | cons ops progs ih =>
    cases paths with
    | nil => simp [IsRunOf] at hrun
    | cons t paths =>
      simp only [IsRunOf] at hrun
      intro u hu
      rcases List.mem_cons.1 hu with h1 | h1
      · subst h1
        have hw : (Skel.seqs ops).wf (([] : List (Lock × Mode)).map Prod.fst) = true := by
          rw [wf_seqs]
          simp only [List.map_nil, List.all_eq_true]
          exact hwf ops (List.mem_cons_self ..)
        have := runs_wfFrom hrun.1 [] [] hw (by simp [WfFrom])
        simpa using this
      · exact ih (fun ops' ho => hwf ops' (List.mem_cons_of_mem _ ho)) hrun.2 u h1

/-! ## E'. Suspended threads (C20 (a)) -/

/-- what a thread holds after performing the events `t`, starting with `H` -/
def heldAfterAll (H : List (Lock × Mode)) (t : List Ev) : List (Lock × Mode) := t.foldl heldAfter H

theorem heldAfterAll_of_wfFrom {H : List (Lock × Mode)} {t : List Ev} (h : WfFrom H t) :
    heldAfterAll H t = [] := by
  induction t generalizing H with
  | nil => simpa [heldAfterAll, WfFrom] using h
  | cons e t ih =>
    cases e with
    | acq l m => exact ih h.2
    | rel l => exact ih h.2

/-- The chain argument with some threads *suspended* (never scheduled — an async call parked at an await):
    as long as the suspended threads hold nothing, the others are never all blocked. -/
theorem progress_suspended {s : State} (hwf : AllWf s) (susp : ThreadId → Prop)
    (hs : ∀ (i : ThreadId) (th : Thread), s[i]? = some th → susp i → th.held = [])
    (hun : ∃ (i : ThreadId) (th : Thread), s[i]? = some th ∧ ¬ susp i ∧ th.todo ≠ []) :
    ∃ i, ¬ susp i ∧ enabledB s i = true := by
  apply Classical.byContradiction
  intro hno
  have hno' : ∀ j, ¬ susp j → enabledB s j = false := by
    intro j hj
    cases h : enabledB s j
    · rfl
    · exact absurd ⟨j, hj, h⟩ hno
  have hacq : ∀ (i : ThreadId) (th : Thread), s[i]? = some th → ¬ susp i → th.todo ≠ [] →
      ∃ l m p, th.todo = Ev.acq l m :: p := by
    intro i th hi hsi hne
    match hp : th.todo with
    | [] => exact absurd hp hne
    | .rel l :: p =>
      have := workConserving_enabledB.rel s i th l p hi hp
      rw [hno' i hsi] at this; cases this
    | .acq l m :: p => exact ⟨l, m, p, rfl⟩
  have climb : ∀ n : Nat, ∃ (i : ThreadId) (th : Thread) (l : Lock) (m : Mode) (p : List Ev),
      s[i]? = some th ∧ ¬ susp i ∧ th.todo = Ev.acq l m :: p ∧ n ≤ l.rank := by
    intro n
    induction n with
    | zero =>
      obtain ⟨i, th, hi, hsi, hne⟩ := hun
      obtain ⟨l, m, p, hp⟩ := hacq i th hi hsi hne
      exact ⟨i, th, l, m, p, hi, hsi, hp, Nat.zero_le _⟩
    | succ n ih =>
      obtain ⟨i, th, l, m, p, hi, hsi, ht, hn⟩ := ih
      have hb := hno' i hsi
      simp only [enabledB, hi, ht] at hb
      obtain ⟨o, ho, x, hx, hxl, _⟩ := not_grantable hb
      have ho' := List.mem_of_mem_eraseIdx ho
      obtain ⟨j, hj⟩ := List.getElem?_of_mem ho'
      have hsj : ¬ susp j := by
        intro hsj
        have := hs j o hj hsj
        rw [this] at hx; cases hx
      have hwo := hwf o ho'
      obtain ⟨l', m', p', ht'⟩ := hacq j o hj hsj (todo_ne_nil_of_held hwo hx)
      rw [ht'] at hwo
      have := hwo.1 x hx
      rw [hxl] at this
      exact ⟨j, o, l', m', p', hj, hsj, ht', by omega⟩
  obtain ⟨i, th, l, m, p, hi, _, ht, hn⟩ := climb (wantBound s + 1)
  have := wantRank_le_bound (List.mem_of_getElem? hi)
  simp only [wantRank, ht] at this
  omega

/-! ## F. The skeleton table for an arbitrary universe of caches -/

namespace Table
open Skel

theorem syncOps_wf (full : Bool) (c : Nat) : (syncOps full c).all (fun p => p.2.wf []) = true := by
  cases full <;> rfl

theorem asyncOps_wf (full : Bool) (c : Nat) : (asyncOps full c).all (fun p => p.2.wf []) = true := by
  cases full <;> rfl

theorem clearCbs_wf (full : Bool) (syncs asyncs : List Nat) :
    ∀ cb ∈ clearCbs full syncs asyncs, cb.wf [Rc] = true := by
  intro cb hcb
  simp only [clearCbs, List.mem_append, List.mem_map] at hcb
  rcases hcb with ⟨c, _, rfl⟩ | ⟨c, _, rfl⟩
  · rfl
  · cases full <;> rfl

theorem condCbs_wf (full : Bool) (syncs asyncs : List Nat) :
    ∀ cb ∈ condCbs full syncs asyncs, cb.wf [Rk] = true := by
  intro cb hcb
  simp only [condCbs, List.mem_append, List.mem_map] at hcb
  rcases hcb with ⟨c, _, rfl⟩ | ⟨c, _, rfl⟩
  · rfl
  · cases full <;> rfl

theorem invalidateBy_wf (x : Lock) (cbs : List Skel) (h : ∀ cb ∈ cbs, cb.wf [Rc] = true) :
    (invalidateBy x cbs).wf [] = true := by
  simp only [invalidateBy, rd, Skel.wf, List.all_nil, Bool.true_and, Bool.and_true, wf_alts, List.all_eq_true]
  exact h

theorem invalidateAllWith_wf (cbs : List Skel) (h : ∀ cb ∈ cbs, cb.wf [Rk] = true) :
    (invalidateAllWith cbs).wf [] = true := by
  simp only [invalidateAllWith, Skel.wf, List.all_nil, Bool.true_and, wf_alts, List.all_eq_true]
  exact h

theorem registryOps_wf (full : Bool) (syncs asyncs : List Nat) :
    ∀ p ∈ registryOps full syncs asyncs, p.2.wf [] = true := by
  intro p hp
  simp only [registryOps, List.mem_cons, List.not_mem_nil, or_false] at hp
  rcases hp with rfl | rfl | rfl | rfl | rfl | rfl | rfl | rfl | rfl | rfl | rfl | rfl | rfl | rfl
  · exact invalidateBy_wf _ _ (clearCbs_wf full syncs asyncs)
  · exact invalidateBy_wf _ _ (clearCbs_wf full syncs asyncs)
  · exact invalidateBy_wf _ _ (clearCbs_wf full syncs asyncs)
  · rfl
  · rfl
  · exact invalidateAllWith_wf _ (condCbs_wf full syncs asyncs)
  all_goals rfl

/-- every entry of the table, for any universe of caches and either level of detail, respects the ranks -/
theorem opTableOf_wf (full : Bool) (syncs asyncs : List Nat) :
    ∀ p ∈ opTableOf full syncs asyncs, p.2.wf [] = true := by
  intro p hp
  simp only [opTableOf, List.mem_append, List.mem_flatMap] at hp
  rcases hp with (⟨c, _, hc⟩ | ⟨c, _, hc⟩) | hp
  · exact (List.all_eq_true.1 (syncOps_wf full c)) p hc
  · exact (List.all_eq_true.1 (asyncOps_wf full c)) p hc
  · exact registryOps_wf full syncs asyncs p hp

end Table

end Cachelito.Conc
