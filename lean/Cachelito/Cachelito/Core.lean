/-
  Cachelito.Core — executable model of the three cache engines
  (`global_cache.rs`, `thread_local_cache.rs`, `async_global_cache.rs`, `utils.rs`).

  One `step` function with the flavour-dependent differences transcribed.  Source line numbers
  refer to the pinned commit of josepdcs/cachelito plus the `fix:` commits (see DESIGN.md §8).
  Imports nothing outside core Lean, so that the driver links as an executable.
-/
import Cachelito.Basic

namespace Cachelito

inductive Policy | fifo | lru | lfu | arc | random | tlru
  deriving DecidableEq, Repr

inductive Flavour | global | threadLocal | async
  deriving DecidableEq, Repr

/-- Configuration of one cache (`GlobalCache::new` / `ThreadLocalCache::new` / `AsyncGlobalCache::new`).
    `ttl` in seconds.  The TLRU `frequency_weight` lives in the `Tlru` scorer. -/
structure Cfg where
  flavour : Flavour
  policy : Policy
  limit : Option Nat
  maxMem : Option Nat
  ttl : Option Nat
  deriving DecidableEq, Repr

/-- The TLRU score is computed in `f64` by the implementation.  The model is generic in the score
    type: `lt` is `score < best_score`, `score cfg hits elapsedMs rank` transcribes
    `utils.rs:463-515` (sync: linear weight, real-valued elapsed) and
    `async_global_cache.rs:583-630` (power weight, whole seconds; `elapsedMs` is then a multiple of 1000). -/
structure Tlru (S : Type) where
  lt : S → S → Bool
  score : Cfg → (hits elapsedMs rank : Nat) → S

structure State (K V : Type) where
  store : Store K V
  queue : List K
  now : Nat            -- virtual clock, ms
  hitStat : Nat
  missStat : Nat

inductive Op (K V : Type)
  | get (k : K)
  | insert (k : K) (v : V)
  | insertMem (k : K) (v : V)
  | clear
  | invalidateWith (p : K → Bool)
  | tick (ms : Nat)

inductive Out (V : Type)
  | val (o : Option V)
  | unit
  deriving Repr

variable {K V S : Type} [DecidableEq K]

def State.init : State K V := ⟨[], [], 0, 0, 0⟩

/-! ### Expiry (`cache_entry.rs:92-98`, `async_global_cache.rs:326-334`) -/

/-- elapsed time as the engine sees it, in ms.  Sync: `Instant::elapsed` (saturating).
    Async: difference of whole unix seconds (`saturating_sub`). -/
def elapsedMs (cfg : Cfg) (now : Nat) (birth : Nat) : Nat :=
  match cfg.flavour with
  | .async => (now / 1000 - birth / 1000) * 1000
  | _ => now - birth

def expired (cfg : Cfg) (now : Nat) (e : Entry V) : Bool :=
  match cfg.ttl with
  | none => false
  | some t => decide (elapsedMs cfg now e.birth / 1000 ≥ t)

/-- the birth stamp recorded by a store: `Instant::now()` (sync) or whole unix seconds (async) -/
def stamp (cfg : Cfg) (now : Nat) : Nat :=
  match cfg.flavour with
  | .async => now / 1000 * 1000
  | _ => now

/-! ### Victim selection -/

/-- the `if score < best { best = score; key = k }` scan, continued from a current best -/
def firstMinAux (lt : S → S → Bool) : K × S → List (K × S) → K × S
  | b, [] => b
  | b, c :: cs => if lt c.2 b.2 then firstMinAux lt c cs else firstMinAux lt b cs

/-- first minimum in list order (the initial `best = MAX` is modelled as "the first candidate
    always wins"; scores never reach `f64::MAX` / `u64::MAX`, see DESIGN.md §9) -/
def firstMin (lt : S → S → Bool) : List (K × S) → Option K
  | [] => none
  | c :: cs => some (firstMinAux lt c cs).1

/-- scored candidates: queue keys that are stored, in queue order, with their position `idx`
    in the *whole* queue (orphans count for `idx` and `len`, as in the code) -/
def candsFrom (score : Entry V → Nat → Nat → S) (m : Store K V) (len : Nat) : Nat → List K → List (K × S)
  | _, [] => []
  | i, k :: q =>
    match lookup k m with
    | some e => (k, score e i len) :: candsFrom score m len (i + 1) q
    | none => candsFrom score m len (i + 1) q

def cands (score : Entry V → Nat → Nat → S) (m : Store K V) (q : List K) : List (K × S) :=
  candsFrom score m q.length 0 q

/-- recency rank.  Sync `utils.rs:379,482`: `total_len - idx`.  Async (after the rank fix): `idx + 1`. -/
def rank (cfg : Cfg) (idx len : Nat) : Nat :=
  match cfg.flavour with
  | .async => idx + 1
  | _ => len - idx

/-- victim of the LFU / ARC / TLRU scans -/
def victim (cfg : Cfg) (tl : Tlru S) (now : Nat) (m : Store K V) (q : List K) : Option K :=
  match cfg.policy with
  | .lfu => firstMin (fun a b => decide (a < b)) (cands (fun e _ _ => e.hits) m q)
  | .arc => firstMin (fun a b => decide (a < b)) (cands (fun e i len => e.hits * rank cfg i len) m q)
  | .tlru => firstMin tl.lt
      (cands (fun e i len => tl.score cfg e.hits (elapsedMs cfg now e.birth) (rank cfg i len)) m q)
  | _ => none

/-- FIFO/LRU: pop from the front until a stored key is found, remove it
    (`global_cache.rs:571-581,755-768`, `thread_local_cache.rs:499-513`, `async_global_cache.rs:678-687`) -/
def popStored (m : Store K V) : List K → Store K V × List K × Bool
  | [] => (m, [], false)
  | k :: q => if hasKey k m then (eraseKey k m, q, true) else popStored m q

/-- FIFO/LRU in the thread-local and async memory loops: pop ONE front key
    (`thread_local_cache.rs:635-644`, `async_global_cache.rs:882-889`) -/
def popOne (m : Store K V) : List K → Store K V × List K × Bool
  | [] => (m, [], false)
  | k :: q => (eraseKey k m, q, true)

/-- removal of a scored victim from both structures.  Sync: `remove_from_maps` (first queue
    occurrence); async: `cache.remove` + `order.retain`. -/
def removeBoth (cfg : Cfg) (k : K) (m : Store K V) (q : List K) : Store K V × List K :=
  match cfg.flavour with
  | .async => (eraseKey k m, q.filter (fun x => x ≠ k))
  | _ => (eraseKey k m, q.erase k)

/-- Random: `pos = fastrand::usize(..len)`; `order.remove(pos)`; `map.remove(key)`.  `r` is the raw draw. -/
def evictRandom (r : Nat) (m : Store K V) (q : List K) : Store K V × List K × Bool :=
  match q[r % q.length]? with
  | none => (m, q, false)                      -- only when the queue is empty (guarded by `!is_empty()`)
  | some k => (eraseKey k m, q.eraseIdx (r % q.length), true)

def evictScored (cfg : Cfg) (tl : Tlru S) (now : Nat) (m : Store K V) (q : List K) :
    Store K V × List K × Bool :=
  match victim cfg tl now m q with
  | none => (m, q, false)
  | some k => let (m', q') := removeBoth cfg k m q; (m', q', true)

/-- one eviction of the entry-limit step (all engines) -/
def evictLimit (cfg : Cfg) (tl : Tlru S) (now r : Nat) (m : Store K V) (q : List K) :
    Store K V × List K × Bool :=
  match cfg.policy with
  | .fifo | .lru => popStored m q
  | .random => evictRandom r m q
  | _ => evictScored cfg tl now m q

/-- one iteration of the memory loop -/
def evictMem (cfg : Cfg) (tl : Tlru S) (now r : Nat) (m : Store K V) (q : List K) :
    Store K V × List K × Bool :=
  match cfg.policy with
  | .fifo | .lru =>
    (match cfg.flavour with
     | .global => popStored m q
     | _ => popOne m q)
  | .random => evictRandom r m q
  | _ => evictScored cfg tl now m q

/-- `Σ estimate_memory(values)` -/
def totalMem (size : V → Nat) (m : Store K V) : Nat := (m.map (fun p => size p.2.val)).sum

/-- entry-limit step.  Sync (`global_cache.rs:529-585`, `thread_local_cache.rs:451-517`):
    after the store, `order.len() > limit`.  Async (`async_global_cache.rs:647-691`): before the
    store, `cache.len() >= limit`. -/
def overLimit (cfg : Cfg) (n : Nat) (m : Store K V) (q : List K) : Bool :=
  match cfg.flavour with
  | .async => decide (m.length ≥ n)
  | _ => decide (q.length > n)

def limitStep (cfg : Cfg) (tl : Tlru S) (now r : Nat) (m : Store K V) (q : List K) : Store K V × List K :=
  match cfg.limit with
  | none => (m, q)
  | some n =>
    if overLimit cfg n m q then
      let res := evictLimit cfg tl now r m q
      (res.1, res.2.1)
    else (m, q)

/-- the memory loop, `extra` = size of the value about to be stored (async) or 0 (sync, where the
    value is already in the store).  `fuel` bounds the iterations; `memLoop_fuel` (Lemmas) shows
    `q.length + 1` always suffices because every successful eviction shortens the queue.
    `rs` is the stream of random draws, one per iteration. -/
def memLoop (cfg : Cfg) (tl : Tlru S) (size : V → Nat) (now maxM extra : Nat) :
    Nat → List Nat → Store K V → List K → Store K V × List K × List Nat
  | 0, rs, m, q => (m, q, rs)
  | fuel + 1, rs, m, q =>
    if totalMem size m + extra ≤ maxM then (m, q, rs)
    else
      let (m', q', ev) := evictMem cfg tl now (rs.headD 0) m q
      if ev then memLoop cfg tl size now maxM extra fuel rs.tail m' q' else (m', q', rs.tail)

/-! ### Operations -/

/-- policies whose hits increment the frequency counter (`global_cache.rs:392-408`,
    `thread_local_cache.rs:274-290`, `async_global_cache.rs:340-354`) -/
def Policy.bumps : Policy → Bool
  | .lfu | .arc | .tlru => true
  | _ => false

/-- policies whose hits move the key to the back of the queue -/
def Policy.refreshes : Policy → Bool
  | .lru | .arc | .tlru => true
  | _ => false

/-- effect of a hit on store and queue.  Sync (`global_cache.rs:385-413`, `thread_local_cache.rs:267-295`):
    LRU moves, LFU bumps, ARC/TLRU move then bump.  Async (`async_global_cache.rs:336-385`): bump inside
    the shard guard, then — only if a bound is configured — `retain` + `push_back` if still stored. -/
def hitUpdate (cfg : Cfg) (k : K) (m : Store K V) (q : List K) : Store K V × List K :=
  let m1 := if cfg.policy.bumps then bumpHits k m else m
  match cfg.flavour with
  | .async =>
    let refresh := (cfg.limit.isSome || cfg.maxMem.isSome) && cfg.policy.refreshes && hasKey k m1
    (m1, if refresh then retainPush k q else q)
  | _ => (m1, if cfg.policy.refreshes then moveToEnd k q else q)

def get (cfg : Cfg) (s : State K V) (k : K) : State K V × Option V :=
  match lookup k s.store with
  | none => ({ s with missStat := s.missStat + 1 }, none)
  | some e =>
    if expired cfg s.now e then
      -- `global_cache.rs:364-373`, `thread_local_cache.rs:250-255`, `async_global_cache.rs:388-395`
      let r := removeBoth cfg k s.store s.queue
      ({ s with store := r.1, queue := r.2, missStat := s.missStat + 1 }, none)
    else
      let r := hitUpdate cfg k s.store s.queue
      ({ s with store := r.1, queue := r.2, hitStat := s.hitStat + 1 }, some e.val)

/-- `insert` (no memory estimator).  `r` = random draw for the entry-limit step. -/
def insert (cfg : Cfg) (tl : Tlru S) (r : Nat) (s : State K V) (k : K) (v : V) : State K V :=
  match cfg.flavour with
  | .async =>
    -- `async_global_cache.rs:443-464` (after the replace fix)
    let (m0, q0) := if hasKey k s.store then (eraseKey k s.store, s.queue.filter (fun x => x ≠ k))
                    else (s.store, s.queue)
    let (m1, q1) := limitStep cfg tl s.now r m0 q0
    { s with store := put k ⟨v, stamp cfg s.now, 0⟩ m1, queue := q1 ++ [k] }
  | _ =>
    -- `global_cache.rs:481-496`, `thread_local_cache.rs:348-366`
    let m0 := put k ⟨v, stamp cfg s.now, 0⟩ s.store
    let q0 := erasePush k s.queue
    let (m1, q1) := limitStep cfg tl s.now r m0 q0
    { s with store := m1, queue := q1 }

/-- `insert_with_memory`.  `rs` = random draws (memory loop iterations first, then the limit step). -/
def insertMem (cfg : Cfg) (tl : Tlru S) (size : V → Nat) (rs : List Nat) (s : State K V) (k : K) (v : V) :
    State K V :=
  match cfg.flavour with
  | .async =>
    -- `async_global_cache.rs:800-906`
    let (m0, q0) := if hasKey k s.store then (eraseKey k s.store, s.queue.filter (fun x => x ≠ k))
                    else (s.store, s.queue)
    match cfg.maxMem with
    | some maxM =>
      if size v > maxM then { s with store := m0, queue := q0 }
      else
        let (m1, q1, rs1) := memLoop cfg tl size s.now maxM (size v) (q0.length + 1) rs m0 q0
        let (m2, q2) := limitStep cfg tl s.now (rs1.headD 0) m1 q1
        { s with store := put k ⟨v, stamp cfg s.now, 0⟩ m2, queue := q2 ++ [k] }
    | none =>
      let (m2, q2) := limitStep cfg tl s.now (rs.headD 0) m0 q0
      { s with store := put k ⟨v, stamp cfg s.now, 0⟩ m2, queue := q2 ++ [k] }
  | _ =>
    -- `global_cache.rs:657-779`, `thread_local_cache.rs:529-656`
    let m0 := put k ⟨v, stamp cfg s.now, 0⟩ s.store
    let q0 := erasePush k s.queue
    match cfg.maxMem with
    | some maxM =>
      if size v > maxM then { s with store := eraseKey k m0, queue := q0.dropLast }
      else
        let (m1, q1, rs1) := memLoop cfg tl size s.now maxM 0 (q0.length + 1) rs m0 q0
        let (m2, q2) := limitStep cfg tl s.now (rs1.headD 0) m1 q1
        { s with store := m2, queue := q2 }
    | none =>
      let (m2, q2) := limitStep cfg tl s.now (rs.headD 0) m0 q0
      { s with store := m2, queue := q2 }

/-- `clear` (macro clear callbacks, `GlobalCache::clear`) -/
def clear (s : State K V) : State K V := { s with store := [], queue := [] }

/-- conditional invalidation callback (`cachelito-macros/src/lib.rs:203-233`,
    `cachelito-async-macros/src/lib.rs:389-414`): collect stored keys satisfying `p`, remove each
    from the store and (first occurrence) from the queue. -/
def invalidateWith (p : K → Bool) (s : State K V) : State K V :=
  let ks := (keys s.store).filter p
  { s with store := s.store.filter (fun e => !p e.1), queue := ks.foldl (fun q k => q.erase k) s.queue }

def step (cfg : Cfg) (tl : Tlru S) (size : V → Nat) (rs : List Nat) (s : State K V) :
    Op K V → State K V × Out V
  | .get k => let (s', o) := get cfg s k; (s', .val o)
  | .insert k v => (insert cfg tl (rs.headD 0) s k v, .unit)
  | .insertMem k v => (insertMem cfg tl size rs s k v, .unit)
  | .clear => (clear s, .unit)
  | .invalidateWith p => (invalidateWith p s, .unit)
  | .tick ms => ({ s with now := s.now + ms }, .unit)

/-- run a whole history; `rss i` = random draws of step `i` -/
def run (cfg : Cfg) (tl : Tlru S) (size : V → Nat) :
    State K V → List (Op K V × List Nat) → State K V × List (Out V)
  | s, [] => (s, [])
  | s, (op, rs) :: ops =>
    let (s1, o) := step cfg tl size rs s op
    let (s2, os) := run cfg tl size s1 ops
    (s2, o :: os)

end Cachelito
