/-
  Lemmas about the three-phase async call (`Cachelito/Async.lean`): `callLookup`, `callFinish`, pending
  calls, `aStep`, `aRun`.  Used by `Props/C20.lean`.

  Contents
    1. the two phases on one cache: factorisation of `callFn`, what the lookup phase can do to the store,
       what the finish phase does (invariant, entry bound, fresh entry)
    2. the system-level state change of `callBegin` / `callResume` / `callDrop` (`lookupOnly`, `register`)
    3. begin + resume = an ordinary call
    4. pending records never influence anything but their own resume: `forget`
    5. provenance of stored values: `completedBy`, `completions`, `aStep_prov`, `aRun_prov`
    6. `SysInv` and the entry bound through every `aStep`
    7. locks: a thread parked between two complete operations holds nothing, and the other threads finish

  Everything lives in `namespace Cachelito.AsyncLemmas`.
-/
import Cachelito.Async
import Cachelito.Lemmas.System
import Cachelito.Lemmas.Calls
import Cachelito.Lemmas.Wrapper
import Cachelito.Lemmas.Conc
import Cachelito.Props.C04

set_option linter.unusedSectionVars false
set_option linter.unusedSimpArgs false
set_option linter.unusedVariables false

namespace Cachelito.AsyncLemmas
open Cachelito Cachelito.SysLemmas
variable {K V S : Type} [DecidableEq K]

/-! ## 1. The two phases on one cache -/

/-- the state after the lookup phase is the state after the engine lookup -/
theorem callLookup_fst (spec : FnSpec) (s : State K V) (c : CallIn K V) :
    (callLookup spec s c).1 = (get spec.cfg s c.key).1 := by
  unfold callLookup
  generalize get spec.cfg s c.key = g
  obtain ⟨s1, o⟩ := g
  cases o with
  | none => rfl
  | some cached =>
    simp only
    split
    · split <;> rfl
    · rfl

/-- the finish phase is the miss path of the sequential wrapper -/
theorem callFinish_eq_missOut (spec : FnSpec) (tl : Tlru S) (size : V → Nat) (isOk : V → Bool) (rs : List Nat)
    (s : State K V) (c : CallIn K V) (pre : List (TraceEv K V)) :
    callFinish spec tl size isOk rs s c pre = Calls.missOut spec tl size isOk rs s c pre := rfl

/-- **Factorisation.**  The generated function is its lookup phase followed, when the body has to run, by
    its finish phase on the post-lookup state. -/
theorem callFn_factor (spec : FnSpec) (tl : Tlru S) (size : V → Nat) (isOk : V → Bool) (rs : List Nat)
    (s : State K V) (c : CallIn K V) :
    callFn spec tl size isOk rs s c =
      match callLookup spec s c with
      | (s1, .inl (v, tr)) => (s1, v, tr)
      | (s1, .inr pre) => callFinish spec tl size isOk rs s1 c pre := by
  unfold callFn callLookup callFinish
  generalize get spec.cfg s c.key = g
  obtain ⟨s1, o⟩ := g
  cases o with
  | none => rfl
  | some cached =>
    simp only
    by_cases hi : spec.hasInvalidateOn = true
    · by_cases hs : c.invalidateOn c.key cached = true
      · simp only [hi, hs, if_true]
      · simp only [hi, hs, if_true, if_false, Bool.false_eq_true]
    · simp only [hi, if_false, Bool.false_eq_true]

/-- the lookup phase served the call from the cache: the whole call is the lookup phase -/
theorem callFn_of_inl (spec : FnSpec) (tl : Tlru S) (size : V → Nat) (isOk : V → Bool) (rs : List Nat)
    (s : State K V) (c : CallIn K V) {v : V} {tr : List (TraceEv K V)}
    (h : (callLookup spec s c).2 = .inl (v, tr)) :
    callFn spec tl size isOk rs s c = ((callLookup spec s c).1, v, tr) := by
  rw [callFn_factor]
  generalize callLookup spec s c = r at h
  obtain ⟨s1, x⟩ := r
  simp only at h
  subst h
  rfl

/-- the body has to run: the whole call is the finish phase applied to the post-lookup state -/
theorem callFn_of_inr (spec : FnSpec) (tl : Tlru S) (size : V → Nat) (isOk : V → Bool) (rs : List Nat)
    (s : State K V) (c : CallIn K V) {pre : List (TraceEv K V)}
    (h : (callLookup spec s c).2 = .inr pre) :
    callFn spec tl size isOk rs s c = callFinish spec tl size isOk rs (callLookup spec s c).1 c pre := by
  rw [callFn_factor]
  generalize callLookup spec s c = r at h
  obtain ⟨s1, x⟩ := r
  simp only at h
  subst h
  rfl

/-- the lookup phase does not move the clock -/
theorem callLookup_now (spec : FnSpec) (s : State K V) (c : CallIn K V) : (callLookup spec s c).1.now = s.now := by
  rw [callLookup_fst]; exact Wrap.get_now _ _ _

/-- **The lookup phase never adds an entry and never changes a value**: every entry of the post-lookup
    store was in the pre-lookup store, with the same value (a hit counter may have moved). -/
theorem callLookup_sub_val (spec : FnSpec) (s : State K V) (c : CallIn K V) {x : K} {e' : Entry V}
    (h : lookup x (callLookup spec s c).1.store = some e') :
    ∃ e, lookup x s.store = some e ∧ e.val = e'.val := by
  rw [callLookup_fst] at h
  exact Wrap.get_sub_val spec.cfg s c.key h

/-- a key absent before the lookup phase is absent after it -/
theorem callLookup_absent (spec : FnSpec) (s : State K V) (c : CallIn K V) (x : K)
    (h : lookup x s.store = none) : lookup x (callLookup spec s c).1.store = none := by
  rw [callLookup_fst]; exact Wrap.get_absent spec.cfg s c.key x h

/-- the lookup phase never lengthens the store -/
theorem callLookup_length_le (spec : FnSpec) (s : State K V) (c : CallIn K V) :
    (callLookup spec s c).1.store.length ≤ s.store.length := by
  rw [callLookup_fst]; exact C04.get_length_le _ _ _

/-- entry predicates survive the lookup phase -/
theorem callLookup_allP {P : K → V → Prop} (spec : FnSpec) (s : State K V) (c : CallIn K V)
    (h : Calls.AllP P s.store) : Calls.AllP P (callLookup spec s c).1.store := by
  rw [callLookup_fst]; exact (Calls.get_allP spec.cfg s c.key h).1

/-- a value the lookup phase serves from the cache was stored under the call's key -/
theorem callLookup_inl_val {P : K → V → Prop} (spec : FnSpec) (s : State K V) (c : CallIn K V)
    (h : Calls.AllP P s.store) {v : V} {tr : List (TraceEv K V)}
    (hr : (callLookup spec s c).2 = .inl (v, tr)) : P c.key v := by
  have hg := (Calls.get_allP (P := P) spec.cfg s c.key h).2
  unfold callLookup at hr
  generalize get spec.cfg s c.key = g at hg hr
  obtain ⟨s1, o⟩ := g
  cases o with
  | none => simp only at hr; cases hr
  | some cached =>
    have hP := hg cached rfl
    simp only at hr
    split at hr
    · split at hr
      · cases hr
      · simp only [Sum.inl.injEq, Prod.mk.injEq] at hr; rw [← hr.1]; exact hP
    · simp only [Sum.inl.injEq, Prod.mk.injEq] at hr; rw [← hr.1]; exact hP

/-- the lookup phase keeps the store/queue invariant -/
theorem callLookup_inv (spec : FnSpec) (s : State K V) (c : CallIn K V) (h : Inv s) :
    Inv (callLookup spec s c).1 := by
  rw [callLookup_fst]; exact get_inv _ _ _ h

/-- the state after the finish phase: untouched, or one memory-aware / plain store of `(key, bodyVal)` -/
theorem callFinish_fst (spec : FnSpec) (tl : Tlru S) (size : V → Nat) (isOk : V → Bool) (rs : List Nat)
    (s : State K V) (c : CallIn K V) (pre : List (TraceEv K V)) :
    (callFinish spec tl size isOk rs s c pre).1 =
      if shouldStore spec isOk (c.cacheIf c.key c.bodyVal) c.bodyVal
      then Wrap.storeOp spec tl size rs s c.key c.bodyVal else s := by
  unfold callFinish Wrap.storeOp
  simp only
  split <;> rfl

/-- the finish phase returns the value the body produced -/
theorem callFinish_val (spec : FnSpec) (tl : Tlru S) (size : V → Nat) (isOk : V → Bool) (rs : List Nat)
    (s : State K V) (c : CallIn K V) (pre : List (TraceEv K V)) :
    (callFinish spec tl size isOk rs s c pre).2.1 = c.bodyVal :=
  Calls.missOut_val spec tl size isOk rs s c pre

/-- the finish phase keeps the store/queue invariant (it is at most one engine store) -/
theorem callFinish_inv (spec : FnSpec) (tl : Tlru S) (size : V → Nat) (isOk : V → Bool) (rs : List Nat)
    (s : State K V) (c : CallIn K V) (pre : List (TraceEv K V)) (h : Inv s) :
    Inv (callFinish spec tl size isOk rs s c pre).1 := by
  rcases Calls.missOut_fst spec tl size isOk rs s c pre with e | e | e <;>
    rw [callFinish_eq_missOut, e]
  · exact h
  · exact insertMem_inv _ _ _ _ _ _ _ h
  · exact insert_inv _ _ _ _ _ _ h

/-- the finish phase respects the entry limit: from a consistent state with at most `n` entries it ends with
    at most `n` entries (`limit = n ≥ 1`, every flavour and policy) -/
theorem callFinish_bound (spec : FnSpec) (tl : Tlru S) (size : V → Nat) (isOk : V → Bool) (rs : List Nat)
    (s : State K V) (c : CallIn K V) (pre : List (TraceEv K V)) (n : Nat)
    (hl : spec.cfg.limit = some n) (hn : 1 ≤ n) (hi : Inv s) (hb : s.store.length ≤ n) :
    (callFinish spec tl size isOk rs s c pre).1.store.length ≤ n := by
  rcases Calls.missOut_fst spec tl size isOk rs s c pre with e | e | e <;>
    rw [callFinish_eq_missOut, e]
  · exact hb
  · exact C04.insertMem_bound spec.cfg tl size rs s c.key c.bodyVal n hl hn hi hb
  · rw [C04.insert_exact spec.cfg tl _ s c.key c.bodyVal n hl hn hi hb]; exact Nat.min_le_left _ _

/-- the whole call respects the entry limit -/
theorem callFn_bound (spec : FnSpec) (tl : Tlru S) (size : V → Nat) (isOk : V → Bool) (rs : List Nat)
    (s : State K V) (c : CallIn K V) (n : Nat)
    (hl : spec.cfg.limit = some n) (hn : 1 ≤ n) (hi : Inv s) (hb : s.store.length ≤ n) :
    (callFn spec tl size isOk rs s c).1.store.length ≤ n := by
  have h1 := callLookup_inv spec s c hi
  have h2 := Nat.le_trans (callLookup_length_le spec s c) hb
  cases hr : (callLookup spec s c).2 with
  | inl x => obtain ⟨v, tr⟩ := x; rw [callFn_of_inl _ _ _ _ _ _ _ hr]; exact h2
  | inr pre => rw [callFn_of_inr _ _ _ _ _ _ _ hr]; exact callFinish_bound _ _ _ _ _ _ _ _ n hl hn h1 h2

/-- **The finish phase of an async cache writes the fresh entry**: if the value is accepted
    (`shouldStore`) and is not refused as oversize by the memory-aware store, the key afterwards holds the
    body's value, stamped with the CURRENT time of the cache, hit counter 0 — whatever had to be evicted. -/
theorem callFinish_lookup_self (spec : FnSpec) (hf : spec.cfg.flavour = .async) (tl : Tlru S) (size : V → Nat)
    (isOk : V → Bool) (rs : List Nat) (s : State K V) (c : CallIn K V) (pre : List (TraceEv K V))
    (hst : shouldStore spec isOk (c.cacheIf c.key c.bodyVal) c.bodyVal = true)
    (hno : spec.useMem = true → oversize spec.cfg size c.bodyVal = false) :
    lookup c.key (callFinish spec tl size isOk rs s c pre).1.store =
      some ⟨c.bodyVal, stamp spec.cfg s.now, 0⟩ := by
  rw [callFinish_fst, hst, if_pos rfl]
  exact Wrap.storeOp_async_self spec hf tl size rs s c.key c.bodyVal hno

/-- a value rejected by `cache_if` / the `Result` filter leaves the cache exactly as it is -/
theorem callFinish_rejected (spec : FnSpec) (tl : Tlru S) (size : V → Nat)
    (isOk : V → Bool) (rs : List Nat) (s : State K V) (c : CallIn K V) (pre : List (TraceEv K V))
    (hst : shouldStore spec isOk (c.cacheIf c.key c.bodyVal) c.bodyVal = false) :
    (callFinish spec tl size isOk rs s c pre).1 = s := by
  rw [callFinish_fst, hst]; rfl

/-- an accepted value that alone exceeds `max_memory` is not held afterwards -/
theorem callFinish_oversize (spec : FnSpec) (tl : Tlru S) (size : V → Nat)
    (isOk : V → Bool) (rs : List Nat) (s : State K V) (c : CallIn K V) (pre : List (TraceEv K V))
    (hst : shouldStore spec isOk (c.cacheIf c.key c.bodyVal) c.bodyVal = true)
    (hu : spec.useMem = true) (ho : oversize spec.cfg size c.bodyVal = true) :
    lookup c.key (callFinish spec tl size isOk rs s c pre).1.store = none := by
  rw [callFinish_fst, hst, if_pos rfl]
  unfold Wrap.storeOp
  rw [if_pos hu]
  exact Wrap.insertMem_oversize spec.cfg tl size rs s c.key c.bodyVal ho

/-- every entry after the finish phase is an old entry or the pair `(key, bodyVal)` of this call -/
theorem callFinish_allP {P : K → V → Prop} (spec : FnSpec) (tl : Tlru S) (size : V → Nat) (isOk : V → Bool)
    (rs : List Nat) (s : State K V) (c : CallIn K V) (pre : List (TraceEv K V))
    (h : Calls.AllP P s.store) (hk : P c.key c.bodyVal) :
    Calls.AllP P (callFinish spec tl size isOk rs s c pre).1.store := by
  rcases Calls.missOut_fst spec tl size isOk rs s c pre with e | e | e <;>
    rw [callFinish_eq_missOut, e]
  · exact h
  · exact Calls.insertMem_allP _ _ _ _ _ _ _ h hk
  · exact Calls.insert_allP _ _ _ _ _ _ h hk


/-! ## 2. The system-level state change of the three async steps -/

/-- first-call registration of a global / async function -/
def register (sys : Sys K V) (fn : Nat) : Sys K V :=
  if sys.called.contains fn then sys else { sys with called := fn :: sys.called }

/-- **Only the lookup phase**: the state change of `callBegin` without the pending record — registration
    and `callLookup` on the shared instance of function `fn`. -/
def lookupOnly (fns : List FnSpec) (sys : Sys K V) (fn : Nat) (c : CallIn K V) : Sys K V :=
  match fns[fn]? with
  | none => sys
  | some spec => register (sys.setCache ⟨fn, none⟩ (callLookup spec (sys.getCache ⟨fn, none⟩) c).1) fn

/-- registration does not touch any cache instance -/
theorem getCache_register (sys : Sys K V) (fn : Nat) (id : CacheId) :
    (register sys fn).getCache id = sys.getCache id := by
  unfold register; split
  · rfl
  · exact getCache_congr rfl rfl id

/-- registration does not move the clock -/
@[simp] theorem register_now (sys : Sys K V) (fn : Nat) : (register sys fn).now = sys.now := by
  unfold register; split <;> rfl

/-- the registration set after `register`: what it was, plus `fn` -/
theorem mem_register_called (sys : Sys K V) (fn i : Nat) :
    i ∈ (register sys fn).called ↔ i ∈ sys.called ∨ i = fn := by
  unfold register
  by_cases h : fn ∈ sys.called
  · simp only [List.contains_eq_mem, h, decide_true, if_true]
    constructor
    · exact Or.inl
    · rintro (h' | h'); exact h'; exact h' ▸ h
  · simp only [List.contains_eq_mem, h, decide_false, Bool.false_eq_true, if_false, List.mem_cons]
    constructor
    · rintro (h' | h'); exact Or.inr h'; exact Or.inl h'
    · rintro (h' | h'); exact Or.inr h'; exact Or.inl h'

/-- every instance after the lookup phase of a call of `fn`: the shared instance of `fn` moved by
    `callLookup`, all others untouched -/
theorem getCache_lookupOnly {fns : List FnSpec} {fn : Nat} {spec : FnSpec} (hs : fns[fn]? = some spec)
    (sys : Sys K V) (c : CallIn K V) (id : CacheId) :
    (lookupOnly fns sys fn c).getCache id =
      if id = ⟨fn, none⟩ then (callLookup spec (sys.getCache ⟨fn, none⟩) c).1 else sys.getCache id := by
  unfold lookupOnly
  rw [hs]
  simp only
  rw [getCache_register, Calls.getCache_setCache]

/-- the lookup phase of an unknown function does nothing -/
theorem lookupOnly_none {fns : List FnSpec} {fn : Nat} (hs : fns[fn]? = none) (sys : Sys K V) (c : CallIn K V) :
    lookupOnly fns sys fn c = sys := by
  unfold lookupOnly; rw [hs]

/-- the lookup phase does not move the system clock -/
theorem lookupOnly_now (fns : List FnSpec) (sys : Sys K V) (fn : Nat) (c : CallIn K V) :
    (lookupOnly fns sys fn c).now = sys.now := by
  unfold lookupOnly
  cases fns[fn]? with
  | none => rfl
  | some spec => simp only [register_now]; rfl

section steps
variable (fns : List FnSpec) (tls : Nat → Tlru S) (size : V → Nat) (isOk : V → Bool)

/-- **Frame: base operations do not read the pending calls.**  A base operation acts on `sys` exactly as
    `sysStep` does, returns `sysStep`'s output, and leaves the pending records alone. -/
theorem aStep_base (rs : List Nat) (a : ASys K V) (op : SysOp K V) :
    aStep fns tls size isOk rs a (.base op) =
      (⟨(sysStep fns tls size isOk rs a.sys op).1, a.pending⟩, .base (sysStep fns tls size isOk rs a.sys op).2) := by
  simp only [aStep]

/-- `callBegin` of an unknown function does nothing -/
theorem aStep_begin_none (rs : List Nat) (a : ASys K V) (id : Nat) {fn : Nat} (c : CallIn K V)
    (hs : fns[fn]? = none) :
    aStep fns tls size isOk rs a (.callBegin id fn c) = (a, .noSuchCall) := by
  simp only [aStep, hs]

/-- `callBegin`: the lookup phase runs on the shared instance; the call is over (served from the cache) or
    parked with its key and trace so far -/
theorem aStep_begin_some (rs : List Nat) (a : ASys K V) (id : Nat) {fn : Nat} {spec : FnSpec} (c : CallIn K V)
    (hs : fns[fn]? = some spec) :
    aStep fns tls size isOk rs a (.callBegin id fn c) =
      match (callLookup spec (a.sys.getCache ⟨fn, none⟩) c).2 with
      | .inl (v, tr) => (⟨lookupOnly fns a.sys fn c, a.pending⟩, .ret v tr)
      | .inr pre => (⟨lookupOnly fns a.sys fn c, ⟨id, fn, c, pre⟩ :: a.pending⟩, .suspended pre) := by
  simp only [aStep, hs, lookupOnly, register]
  generalize callLookup spec (a.sys.getCache ⟨fn, none⟩) c = r
  obtain ⟨s1, x⟩ := r
  cases x with
  | inl y => rfl
  | inr pre => rfl

/-- the system part of `callBegin` is `lookupOnly`, whatever the outcome -/
theorem aStep_begin_sys (rs : List Nat) (a : ASys K V) (id fn : Nat) (c : CallIn K V) :
    (aStep fns tls size isOk rs a (.callBegin id fn c)).1.sys = lookupOnly fns a.sys fn c := by
  cases hs : fns[fn]? with
  | none => rw [aStep_begin_none fns tls size isOk rs a id c hs, lookupOnly_none hs]
  | some spec =>
    rw [aStep_begin_some fns tls size isOk rs a id c hs]
    cases (callLookup spec (a.sys.getCache ⟨fn, none⟩) c).2 <;> rfl

/-- `callResume` of an id nobody is parked under does nothing -/
theorem aStep_resume_none (rs : List Nat) (a : ASys K V) (id : Nat)
    (hp : a.pending.find? (fun p => p.id = id) = none) :
    aStep fns tls size isOk rs a (.callResume id) = (a, .noSuchCall) := by
  simp only [aStep, hp]

/-- `callResume`: the finish phase runs on the CURRENT state of the shared instance; the record is removed -/
theorem aStep_resume_some (rs : List Nat) (a : ASys K V) (id : Nat) {p : PendingCall K V} {spec : FnSpec}
    (hp : a.pending.find? (fun p => p.id = id) = some p) (hs : fns[p.fn]? = some spec) :
    aStep fns tls size isOk rs a (.callResume id) =
      (⟨a.sys.setCache ⟨p.fn, none⟩
          (callFinish spec (tls p.fn) size isOk rs (a.sys.getCache ⟨p.fn, none⟩) p.c p.pre).1,
        a.pending.filter (fun q => q.id ≠ id)⟩,
       .ret (callFinish spec (tls p.fn) size isOk rs (a.sys.getCache ⟨p.fn, none⟩) p.c p.pre).2.1
            (callFinish spec (tls p.fn) size isOk rs (a.sys.getCache ⟨p.fn, none⟩) p.c p.pre).2.2) := by
  simp only [aStep, hp, hs]

/-- **`callDrop` leaves the caches exactly unchanged**: only the pending record disappears. -/
theorem aStep_drop (rs : List Nat) (a : ASys K V) (id : Nat) :
    aStep fns tls size isOk rs a (.callDrop id) = (⟨a.sys, a.pending.filter (fun q => q.id ≠ id)⟩, .unit) := by
  simp only [aStep]

/-- once the records of `id` are removed, no record of `id` is found -/
theorem find_filter_self_none (l : List (PendingCall K V)) (id : Nat) :
    (l.filter (fun q => q.id ≠ id)).find? (fun p => p.id = id) = none := by
  rw [List.find?_eq_none]
  intro x hx
  have := (List.mem_filter.mp hx).2
  simpa using this

/-- a dropped call cannot be resumed: right after `callDrop id`, `callResume id` finds nothing -/
theorem aStep_resume_after_drop (rs rs' : List Nat) (a : ASys K V) (id : Nat) :
    aStep fns tls size isOk rs' (aStep fns tls size isOk rs a (.callDrop id)).1 (.callResume id) =
      ((aStep fns tls size isOk rs a (.callDrop id)).1, .noSuchCall) := by
  rw [aStep_drop]
  exact aStep_resume_none fns tls size isOk rs' _ id (find_filter_self_none _ _)

/-- `aRun` over a concatenation -/
theorem aRun_append (a : ASys K V) (x y : List (AOp K V × List Nat)) :
    aRun fns tls size isOk a (x ++ y) =
      ((aRun fns tls size isOk (aRun fns tls size isOk a x).1 y).1,
       (aRun fns tls size isOk a x).2 ++ (aRun fns tls size isOk (aRun fns tls size isOk a x).1 y).2) := by
  induction x generalizing a with
  | nil => rfl
  | cons p x ih =>
    obtain ⟨op, rs⟩ := p
    simp only [List.cons_append, aRun, ih, List.cons_append]

/-- `aRun` over a non-empty history, with projections -/
theorem aRun_cons (a : ASys K V) (op : AOp K V) (rs : List Nat) (ops : List (AOp K V × List Nat)) :
    aRun fns tls size isOk a ((op, rs) :: ops) =
      ((aRun fns tls size isOk (aStep fns tls size isOk rs a op).1 ops).1,
       (aStep fns tls size isOk rs a op).2 :: (aRun fns tls size isOk (aStep fns tls size isOk rs a op).1 ops).2) := rfl

/-- a history of base operations only is `sysRun` on the system part; the pending records sit still -/
theorem aRun_base (a : ASys K V) (h : List (SysOp K V × List Nat)) :
    aRun fns tls size isOk a (h.map (fun x => (AOp.base x.1, x.2))) =
      (⟨(sysRun fns tls size isOk a.sys h).1, a.pending⟩, (sysRun fns tls size isOk a.sys h).2.map AOut.base) := by
  induction h generalizing a with
  | nil => rfl
  | cons x h ih =>
    obtain ⟨op, rs⟩ := x
    simp only [List.map_cons, aRun_cons, aStep_base, ih, sysRun, List.map_cons]

/-! ## 3. Begin + resume = an ordinary call -/

/-- removing identity `id` after writing `id` on top of a list without `id` gives that list back -/
theorem filter_ne_idem (l : List (CacheId × State K V)) (id : CacheId) (s : State K V) :
    ((id, s) :: l.filter (fun p => p.1 ≠ id)).filter (fun p => p.1 ≠ id) = l.filter (fun p => p.1 ≠ id) := by
  rw [List.filter_cons]
  simp only [ne_eq, not_true_eq_false, decide_false, Bool.false_eq_true, if_false, List.filter_filter, Bool.and_self]

/-- writing an instance, registering, writing the same instance again = writing once, registering -/
theorem setCache_register_setCache (sys : Sys K V) (id : CacheId) (s1 s2 : State K V) (fn : Nat) :
    (register (sys.setCache id s1) fn).setCache id s2 = register (sys.setCache id s2) fn := by
  unfold register
  have hc : ∀ s, (sys.setCache id s).called = sys.called := fun _ => rfl
  rw [hc, hc]
  split
  · unfold Sys.setCache; simp only [filter_ne_idem]
  · unfold Sys.setCache; simp only [filter_ne_idem]

/-- the system part of an ordinary call of a non-thread-scope function -/
theorem sysStep_call_shared (rs : List Nat) (sys : Sys K V) {fn : Nat} {spec : FnSpec} (t : Nat) (c : CallIn K V)
    (hs : fns[fn]? = some spec) (hts : spec.threadScope = false) :
    sysStep fns tls size isOk rs sys (.call fn t c) =
      (register (sys.setCache ⟨fn, none⟩ (callFn spec (tls fn) size isOk rs (sys.getCache ⟨fn, none⟩) c).1) fn,
       .ret (callFn spec (tls fn) size isOk rs (sys.getCache ⟨fn, none⟩) c).2.1
            (callFn spec (tls fn) size isOk rs (sys.getCache ⟨fn, none⟩) c).2.2) := by
  simp only [sysStep, hs, cacheIdOf, hts, Bool.false_eq_true, if_false, Bool.false_or, register]

/-- **Factorisation at system level.**  For a global/async function, `callBegin` either completes the call
    exactly as `sysStep (.call …)` would (served from the cache: same system, same value, same trace, nothing
    parked) — or parks it, and then an immediate `callResume` yields exactly the system, the value and the
    trace of `sysStep (.call …)`, including the `called` registration; the record is gone. -/
theorem begin_resume_eq_call {fn : Nat} {spec : FnSpec} (hs : fns[fn]? = some spec) (hts : spec.threadScope = false)
    (a : ASys K V) (id t : Nat) (c : CallIn K V) (rs rs0 : List Nat) :
    (∃ v tr, aStep fns tls size isOk rs0 a (.callBegin id fn c) =
        (⟨(sysStep fns tls size isOk rs a.sys (.call fn t c)).1, a.pending⟩, .ret v tr) ∧
      (sysStep fns tls size isOk rs a.sys (.call fn t c)).2 = .ret v tr) ∨
    (∃ pre v tr,
      (aStep fns tls size isOk rs0 a (.callBegin id fn c)).2 = .suspended pre ∧
      (aStep fns tls size isOk rs0 a (.callBegin id fn c)).1.pending = ⟨id, fn, c, pre⟩ :: a.pending ∧
      (sysStep fns tls size isOk rs a.sys (.call fn t c)).2 = .ret v tr ∧
      aStep fns tls size isOk rs (aStep fns tls size isOk rs0 a (.callBegin id fn c)).1 (.callResume id) =
        (⟨(sysStep fns tls size isOk rs a.sys (.call fn t c)).1, a.pending.filter (fun q => q.id ≠ id)⟩,
         .ret v tr)) := by
  rw [sysStep_call_shared fns tls size isOk rs a.sys t c hs hts, aStep_begin_some fns tls size isOk rs0 a id c hs]
  cases hr : (callLookup spec (a.sys.getCache ⟨fn, none⟩) c).2 with
  | inl x =>
    obtain ⟨v, tr⟩ := x
    left
    refine ⟨v, tr, ?_, ?_⟩
    · simp only [callFn_of_inl _ _ _ _ _ _ _ hr, lookupOnly, hs]
    · simp only [callFn_of_inl _ _ _ _ _ _ _ hr]
  | inr pre =>
    right
    simp only
    refine ⟨pre, _, _, rfl, rfl, rfl, ?_⟩
    have hfind : (⟨id, fn, c, pre⟩ :: a.pending : List (PendingCall K V)).find? (fun p => p.id = id) =
        some ⟨id, fn, c, pre⟩ := by
      simp [List.find?_cons]
    rw [aStep_resume_some fns tls size isOk rs _ id hfind hs]
    have hget : (lookupOnly fns a.sys fn c).getCache ⟨fn, none⟩ =
        (callLookup spec (a.sys.getCache ⟨fn, none⟩) c).1 := by
      rw [getCache_lookupOnly hs, if_pos rfl]
    simp only [hget, callFn_of_inr _ _ _ _ _ _ _ hr]
    have hsys : (lookupOnly fns a.sys fn c).setCache ⟨fn, none⟩
        (callFinish spec (tls fn) size isOk rs (callLookup spec (a.sys.getCache ⟨fn, none⟩) c).1 c pre).1 =
        register (a.sys.setCache ⟨fn, none⟩
          (callFinish spec (tls fn) size isOk rs (callLookup spec (a.sys.getCache ⟨fn, none⟩) c).1 c pre).1) fn := by
      simp only [lookupOnly, hs]
      exact setCache_register_setCache _ _ _ _ _
    rw [hsys]
    have hpend : (⟨id, fn, c, pre⟩ :: a.pending : List (PendingCall K V)).filter (fun q => q.id ≠ id) =
        a.pending.filter (fun q => q.id ≠ id) := by
      simp [List.filter_cons]
    rw [hpend]

end steps


/-! ## 4. Pending records influence nothing but their own resume -/

/-- erase every pending record parked under `id` -/
def forget (id : Nat) (a : ASys K V) : ASys K V := ⟨a.sys, a.pending.filter (fun q => q.id ≠ id)⟩

/-- does the operation name the call id `id`? -/
def mentions (id : Nat) : AOp K V → Bool
  | .base _ => false
  | .callBegin i _ _ => i == id
  | .callResume i => i == id
  | .callDrop i => i == id

/-- searching for the record of `i` is not affected by removing the records of another id -/
theorem find_filter_other (l : List (PendingCall K V)) {id i : Nat} (h : i ≠ id) :
    (l.filter (fun q => q.id ≠ id)).find? (fun p => p.id = i) = l.find? (fun p => p.id = i) := by
  induction l with
  | nil => rfl
  | cons x l ih =>
    by_cases hx : x.id = id
    · have hxi : ¬ x.id = i := fun hh => h (hh ▸ hx)
      have e1 : decide (x.id ≠ id) = false := by simp [hx]
      have e2 : decide (x.id = i) = false := by simp [hxi]
      rw [List.filter_cons, e1]
      simp only [Bool.false_eq_true, if_false, List.find?_cons, e2]
      exact ih
    · have e1 : decide (x.id ≠ id) = true := by simp [hx]
      rw [List.filter_cons, e1]
      simp only [if_true, List.find?_cons, ih]

/-- removing the records of two ids commutes -/
theorem filter_filter_comm (l : List (PendingCall K V)) (i j : Nat) :
    (l.filter (fun q => q.id ≠ i)).filter (fun q => q.id ≠ j) =
      (l.filter (fun q => q.id ≠ j)).filter (fun q => q.id ≠ i) := by
  simp only [List.filter_filter]
  congr 1
  funext q
  exact Bool.and_comm _ _

/-- forgetting records does not touch the system part -/
@[simp] theorem forget_sys (id : Nat) (a : ASys K V) : (forget id a).sys = a.sys := rfl

/-- forgetting is idempotent -/
theorem forget_forget (id : Nat) (a : ASys K V) : forget id (forget id a) = forget id a := by
  simp only [forget, List.filter_filter, Bool.and_self]

/-- forgetting an id nobody is parked under changes nothing -/
theorem forget_of_fresh (id : Nat) (a : ASys K V) (h : ∀ p ∈ a.pending, p.id ≠ id) : forget id a = a := by
  unfold forget
  have : a.pending.filter (fun q => q.id ≠ id) = a.pending := by
    rw [List.filter_eq_self]; intro p hp; simpa using h p hp
  rw [this]

section forgetting
variable (fns : List FnSpec) (tls : Nat → Tlru S) (size : V → Nat) (isOk : V → Bool)

/-- **Frame for pending records.**  An operation that does not name call `id` behaves identically — same
    system, same output, same other records — whether or not records of `id` are parked. -/
theorem aStep_forget (rs : List Nat) (a : ASys K V) (id : Nat) (op : AOp K V) (h : mentions id op = false) :
    aStep fns tls size isOk rs (forget id a) op =
      (forget id (aStep fns tls size isOk rs a op).1, (aStep fns tls size isOk rs a op).2) := by
  cases op with
  | base sop => simp only [aStep_base]; rfl
  | callBegin i fn c =>
    have hi : i ≠ id := by simpa [mentions] using h
    cases hs : fns[fn]? with
    | none => rw [aStep_begin_none fns tls size isOk rs _ i c hs, aStep_begin_none fns tls size isOk rs _ i c hs]
    | some spec =>
      rw [aStep_begin_some fns tls size isOk rs _ i c hs, aStep_begin_some fns tls size isOk rs _ i c hs]
      simp only [forget_sys]
      cases (callLookup spec (a.sys.getCache ⟨fn, none⟩) c).2 with
      | inl x => rfl
      | inr pre =>
        simp only [forget]
        rw [List.filter_cons_of_pos (by simpa using hi)]
  | callResume i =>
    have hi : i ≠ id := by simpa [mentions] using h
    have hfind := find_filter_other a.pending hi
    cases hp : a.pending.find? (fun p => p.id = i) with
    | none =>
      rw [aStep_resume_none fns tls size isOk rs a i hp,
        aStep_resume_none fns tls size isOk rs (forget id a) i (by simp only [forget]; rw [hfind, hp])]
    | some p =>
      cases hs : fns[p.fn]? with
      | none =>
        have e1 : aStep fns tls size isOk rs a (.callResume i) = (a, .noSuchCall) := by
          simp only [aStep, hp, hs]
        have e2 : aStep fns tls size isOk rs (forget id a) (.callResume i) = (forget id a, .noSuchCall) := by
          have : (forget id a).pending.find? (fun p => p.id = i) = some p := by
            simp only [forget]; rw [hfind, hp]
          simp only [aStep, this, hs]
        rw [e1, e2]
      | some spec =>
        rw [aStep_resume_some fns tls size isOk rs a i hp hs,
          aStep_resume_some fns tls size isOk rs (forget id a) i (by simp only [forget]; rw [hfind, hp]) hs]
        simp only [forget, filter_filter_comm a.pending id i]
  | callDrop i =>
    rw [aStep_drop, aStep_drop]
    simp only [forget, filter_filter_comm a.pending id i]

/-- the same over a whole history none of whose operations names `id` -/
theorem aRun_forget (a : ASys K V) (id : Nat) (ops : List (AOp K V × List Nat))
    (h : ∀ x ∈ ops, mentions id x.1 = false) :
    aRun fns tls size isOk (forget id a) ops =
      (forget id (aRun fns tls size isOk a ops).1, (aRun fns tls size isOk a ops).2) := by
  induction ops generalizing a with
  | nil => rfl
  | cons x ops ih =>
    obtain ⟨op, rs⟩ := x
    rw [aRun_cons, aRun_cons, aStep_forget fns tls size isOk rs a id op (h (op, rs) List.mem_cons_self)]
    simp only
    rw [ih _ (fun y hy => h y (List.mem_cons_of_mem _ hy))]

/-- what `callBegin id` leaves once its own record is forgotten: just the lookup phase -/
theorem forget_begin (rs : List Nat) (a : ASys K V) (id fn : Nat) (c : CallIn K V) :
    forget id (aStep fns tls size isOk rs a (.callBegin id fn c)).1 =
      ⟨lookupOnly fns a.sys fn c, a.pending.filter (fun q => q.id ≠ id)⟩ := by
  cases hs : fns[fn]? with
  | none => rw [aStep_begin_none fns tls size isOk rs a id c hs, lookupOnly_none hs]; rfl
  | some spec =>
    rw [aStep_begin_some fns tls size isOk rs a id c hs]
    cases (callLookup spec (a.sys.getCache ⟨fn, none⟩) c).2 with
    | inl x => rfl
    | inr pre =>
      simp only [forget]
      rw [List.filter_cons_of_neg (by simp)]

/-- **Drop = only the initial lookup happened.**  `begin id; h; drop id`, for any history `h` of operations
    that do not name `id` (base operations of every kind, begins / resumes / drops of other calls), ends in
    exactly the state — caches, registrations, clock AND the other pending calls — and with exactly the
    outputs of `h` run from the state in which only the lookup phase of the call was performed. -/
theorem begin_drop_eq_lookupOnly (a : ASys K V) (id fn : Nat) (c : CallIn K V) (rs0 rs1 : List Nat)
    (h : List (AOp K V × List Nat)) (hh : ∀ x ∈ h, mentions id x.1 = false) :
    aRun fns tls size isOk a ((.callBegin id fn c, rs0) :: h ++ [(.callDrop id, rs1)]) =
      ((aRun fns tls size isOk ⟨lookupOnly fns a.sys fn c, a.pending.filter (fun q => q.id ≠ id)⟩ h).1,
       (aStep fns tls size isOk rs0 a (.callBegin id fn c)).2 ::
         (aRun fns tls size isOk ⟨lookupOnly fns a.sys fn c, a.pending.filter (fun q => q.id ≠ id)⟩ h).2 ++
           [.unit]) := by
  rw [List.cons_append, aRun_cons, aRun_append]
  have hf := aRun_forget fns tls size isOk (aStep fns tls size isOk rs0 a (.callBegin id fn c)).1 id h hh
  rw [forget_begin] at hf
  rw [hf]
  simp only [aRun, aStep_drop, forget, List.cons_append]

/-- a call that is never resumed nor dropped (still parked at the end of the history): the caches evolve as
    if only its lookup phase had happened -/
theorem begin_parked_sys (a : ASys K V) (id fn : Nat) (c : CallIn K V) (rs0 : List Nat)
    (h : List (AOp K V × List Nat)) (hh : ∀ x ∈ h, mentions id x.1 = false) :
    (aRun fns tls size isOk a ((.callBegin id fn c, rs0) :: h)).1.sys =
      (aRun fns tls size isOk ⟨lookupOnly fns a.sys fn c, a.pending.filter (fun q => q.id ≠ id)⟩ h).1.sys ∧
    (aRun fns tls size isOk a ((.callBegin id fn c, rs0) :: h)).2.tail =
      (aRun fns tls size isOk ⟨lookupOnly fns a.sys fn c, a.pending.filter (fun q => q.id ≠ id)⟩ h).2 := by
  rw [aRun_cons]
  have hf := aRun_forget fns tls size isOk (aStep fns tls size isOk rs0 a (.callBegin id fn c)).1 id h hh
  rw [forget_begin] at hf
  rw [hf]
  exact ⟨rfl, rfl⟩

end forgetting

/-- the lookup phase reads the call only through its key and its `invalidate_on` oracle — not through the
    value the body would produce, nor through `cache_if` -/
theorem callLookup_congr (spec : FnSpec) (s : State K V) {c c' : CallIn K V}
    (hk : c.key = c'.key) (hio : c.invalidateOn = c'.invalidateOn) : callLookup spec s c = callLookup spec s c' := by
  obtain ⟨k, b, ci, io⟩ := c
  obtain ⟨k', b', ci', io'⟩ := c'
  simp only at hk hio
  subst hk; subst hio
  rfl

/-- `lookupOnly` reads the call only through its key and its `invalidate_on` oracle -/
theorem lookupOnly_congr (fns : List FnSpec) (sys : Sys K V) (fn : Nat) {c c' : CallIn K V}
    (hk : c.key = c'.key) (hio : c.invalidateOn = c'.invalidateOn) :
    lookupOnly fns sys fn c = lookupOnly fns sys fn c' := by
  unfold lookupOnly
  cases fns[fn]? with
  | none => rfl
  | some spec => simp only [callLookup_congr spec _ hk hio]

/-- the output of `callBegin` (served value and trace, or the trace so far) does not depend on the body value -/
theorem aStep_begin_out_congr (fns : List FnSpec) (tls : Nat → Tlru S) (size : V → Nat) (isOk : V → Bool)
    (rs : List Nat) (a : ASys K V) (id fn : Nat) {c c' : CallIn K V}
    (hk : c.key = c'.key) (hio : c.invalidateOn = c'.invalidateOn) :
    (aStep fns tls size isOk rs a (.callBegin id fn c)).2 = (aStep fns tls size isOk rs a (.callBegin id fn c')).2 := by
  cases hs : fns[fn]? with
  | none => rw [aStep_begin_none fns tls size isOk rs a id c hs, aStep_begin_none fns tls size isOk rs a id c' hs]
  | some spec =>
    rw [aStep_begin_some fns tls size isOk rs a id c hs, aStep_begin_some fns tls size isOk rs a id c' hs,
      callLookup_congr spec _ hk hio]
    cases (callLookup spec (a.sys.getCache ⟨fn, none⟩) c').2 <;> simp only

/-! ## 5. Provenance of stored values -/

/-- the call an operation COMPLETES (hands a body value to the engine), if any: an ordinary call of an
    existing function, or the resume of a call that is parked at that moment.  `callBegin` and `callDrop`
    complete nothing. -/
def completedBy (fns : List FnSpec) (a : ASys K V) : AOp K V → Option (CacheId × K × V)
  | .base (.call fn th c) =>
    (match fns[fn]? with
     | some spec => some (cacheIdOf spec fn th, c.key, c.bodyVal)
     | none => none)
  | .callResume i =>
    (match a.pending.find? (fun p => p.id = i) with
     | some p => (match fns[p.fn]? with
                  | some _ => some (⟨p.fn, none⟩, p.c.key, p.c.bodyVal)
                  | none => none)
     | none => none)
  | _ => none

/-- the completed calls of a history: cache instance, key, body value -/
def completions (fns : List FnSpec) (tls : Nat → Tlru S) (size : V → Nat) (isOk : V → Bool) :
    ASys K V → List (AOp K V × List Nat) → List (CacheId × K × V)
  | _, [] => []
  | a, (op, rs) :: ops =>
    (completedBy fns a op).toList ++ completions fns tls size isOk (aStep fns tls size isOk rs a op).1 ops

section prov
variable (fns : List FnSpec) (tls : Nat → Tlru S) (size : V → Nat) (isOk : V → Bool)

/-- **Provenance through one step.**  If every entry of every instance satisfies `P`, then after any `aStep`
    every entry satisfies `P` or is the `(key, bodyVal)` of the call this very step completed.  In
    particular `callBegin` and `callDrop` add nothing. -/
theorem aStep_prov (P : CacheId → K → V → Prop) (rs : List Nat) (a : ASys K V) (op : AOp K V)
    (h : ∀ id, Calls.AllP (P id) (a.sys.getCache id).store) (id : CacheId) :
    Calls.AllP (fun k v => P id k v ∨ completedBy fns a op = some (id, k, v))
      ((aStep fns tls size isOk rs a op).1.sys.getCache id).store := by
  have hmono : ∀ {m : Store K V}, Calls.AllP (P id) m →
      Calls.AllP (fun k v => P id k v ∨ completedBy fns a op = some (id, k, v)) m :=
    fun hm => Calls.AllP.mono (fun k v hk => Or.inl hk) hm
  cases op with
  | base sop =>
    rw [aStep_base]
    simp only
    rcases sysStep_shape fns tls size isOk rs a.sys sop id with e | e | ⟨p, e⟩ | e | ⟨fn, th, c, spec, e1, e2, e3, e⟩
    · rw [e]; exact hmono (h id)
    · rw [e]; exact Calls.AllP.nil _
    · rw [e]; exact hmono (Calls.invalidateWith_allP p _ (h id))
    · rw [e]; exact hmono (h id)
    · rw [e]
      obtain ⟨g1, g2, _⟩ := Calls.callFn_prov (P := P id) spec (tls fn) size isOk rs (a.sys.getCache id) c (h id)
      refine Calls.AllP.mono ?_ g1
      intro k v hk
      rcases hk with hk | hk
      · exact Or.inl hk
      · obtain ⟨rfl, rfl⟩ := g2 k v hk
        right
        subst e1
        simp only [completedBy, e2, e3]
  | callBegin i fn c =>
    rw [aStep_begin_sys]
    cases hs : fns[fn]? with
    | none => rw [lookupOnly_none hs]; exact hmono (h id)
    | some spec =>
      rw [getCache_lookupOnly hs]
      split
      · rename_i hid
        subst hid
        exact hmono (callLookup_allP spec _ c (h _))
      · exact hmono (h id)
  | callResume i =>
    cases hp : a.pending.find? (fun p => p.id = i) with
    | none => rw [aStep_resume_none fns tls size isOk rs a i hp]; exact hmono (h id)
    | some p =>
      cases hs : fns[p.fn]? with
      | none =>
        have e1 : aStep fns tls size isOk rs a (.callResume i) = (a, .noSuchCall) := by
          simp only [aStep, hp, hs]
        rw [e1]; exact hmono (h id)
      | some spec =>
        rw [aStep_resume_some fns tls size isOk rs a i hp hs]
        simp only
        rw [Calls.getCache_setCache]
        split
        · rename_i hid
          subst hid
          apply callFinish_allP
          · exact hmono (h _)
          · right; simp only [completedBy, hp, hs]
        · exact hmono (h id)
  | callDrop i => rw [aStep_drop]; exact hmono (h id)

/-- **Provenance over a history.**  Every entry of every cache instance after ANY history of base
    operations, begins, resumes and drops either descends from an entry present at the start (`P0`) or
    carries the key and body value of a call that was COMPLETED on that instance (`completions`): an
    ordinary call, or a parked call at the moment it was resumed — never of a call that is still parked or
    was dropped. -/
theorem aRun_prov (P0 : CacheId → K → V → Prop) (a : ASys K V) (ops : List (AOp K V × List Nat))
    (h : ∀ id, Calls.AllP (P0 id) (a.sys.getCache id).store) (id : CacheId) :
    Calls.AllP (fun k v => P0 id k v ∨ (id, k, v) ∈ completions fns tls size isOk a ops)
      ((aRun fns tls size isOk a ops).1.sys.getCache id).store := by
  induction ops generalizing a P0 with
  | nil => exact Calls.AllP.mono (fun k v hk => Or.inl hk) (h id)
  | cons x ops ih =>
    obtain ⟨op, rs⟩ := x
    rw [aRun_cons]
    simp only
    have h1 := aStep_prov fns tls size isOk P0 rs a op h
    have h2 := ih (fun id k v => P0 id k v ∨ completedBy fns a op = some (id, k, v)) _ h1
    refine Calls.AllP.mono ?_ h2
    intro k v hk
    simp only [completions, List.mem_append, Option.mem_toList]
    rcases hk with (hk | hk) | hk
    · exact Or.inl hk
    · exact Or.inr (Or.inl hk)
    · exact Or.inr (Or.inr hk)

/-- every cache instance of the empty system is empty -/
theorem getCache_init_store (id : CacheId) : ((Sys.init : Sys K V).getCache id).store = [] := rfl

/-- from the empty system: every stored entry is the `(key, bodyVal)` of a completed call -/
theorem aRun_prov_init (ops : List (AOp K V × List Nat)) (id : CacheId) :
    Calls.AllP (fun k v => (id, k, v) ∈ completions fns tls size isOk (ASys.init : ASys K V) ops)
      ((aRun fns tls size isOk (ASys.init : ASys K V) ops).1.sys.getCache id).store := by
  have := aRun_prov fns tls size isOk (fun _ _ _ => False) (ASys.init : ASys K V) ops
    (fun id => by rw [show (ASys.init : ASys K V).sys = Sys.init from rfl, getCache_init_store]; exact Calls.AllP.nil _) id
  refine Calls.AllP.mono ?_ this
  intro k v hk
  rcases hk with hk | hk
  · exact hk.elim
  · exact hk

/-- where a pending record comes from: it was parked before, or this very step is its `callBegin` -/
theorem pending_step (rs : List Nat) (a : ASys K V) (op : AOp K V) (p : PendingCall K V)
    (hp : p ∈ (aStep fns tls size isOk rs a op).1.pending) :
    p ∈ a.pending ∨ ∃ pre, op = .callBegin p.id p.fn p.c ∧ p = ⟨p.id, p.fn, p.c, pre⟩ := by
  cases op with
  | base sop => rw [aStep_base] at hp; exact Or.inl hp
  | callBegin i fn c =>
    cases hs : fns[fn]? with
    | none => rw [aStep_begin_none fns tls size isOk rs a i c hs] at hp; exact Or.inl hp
    | some spec =>
      rw [aStep_begin_some fns tls size isOk rs a i c hs] at hp
      cases hr : (callLookup spec (a.sys.getCache ⟨fn, none⟩) c).2 with
      | inl x => rw [hr] at hp; exact Or.inl hp
      | inr pre =>
        rw [hr] at hp
        rcases List.mem_cons.mp hp with hp | hp
        · subst hp; exact Or.inr ⟨pre, rfl, rfl⟩
        · exact Or.inl hp
  | callResume i =>
    cases hf : a.pending.find? (fun p => p.id = i) with
    | none => rw [aStep_resume_none fns tls size isOk rs a i hf] at hp; exact Or.inl hp
    | some q =>
      cases hs : fns[q.fn]? with
      | none =>
        have e1 : aStep fns tls size isOk rs a (.callResume i) = (a, .noSuchCall) := by
          simp only [aStep, hf, hs]
        rw [e1] at hp; exact Or.inl hp
      | some spec =>
        rw [aStep_resume_some fns tls size isOk rs a i hf hs] at hp
        exact Or.inl (List.mem_filter.mp hp).1
  | callDrop i => rw [aStep_drop] at hp; exact Or.inl (List.mem_filter.mp hp).1

/-- **Who the completed calls are.**  A completion recorded along a history is an ordinary call in the
    history, or a `callResume i` in the history of a record parked under `i` that was parked at the start or
    whose `callBegin` occurs in the history. -/
theorem mem_completions (a : ASys K V) (ops : List (AOp K V × List Nat)) (id : CacheId) (k : K) (v : V)
    (h : (id, k, v) ∈ completions fns tls size isOk a ops) :
    (∃ fn th c rs spec, (AOp.base (.call fn th c), rs) ∈ ops ∧ fns[fn]? = some spec ∧
        id = cacheIdOf spec fn th ∧ k = c.key ∧ v = c.bodyVal) ∨
    (∃ rs p, (AOp.callResume p.id, rs) ∈ ops ∧
        (p ∈ a.pending ∨ ∃ rs', (AOp.callBegin p.id p.fn p.c, rs') ∈ ops) ∧
        id = ⟨p.fn, none⟩ ∧ k = p.c.key ∧ v = p.c.bodyVal) := by
  induction ops generalizing a with
  | nil => simp [completions] at h
  | cons x ops ih =>
    obtain ⟨op, rs⟩ := x
    simp only [completions, List.mem_append, Option.mem_toList] at h
    rcases h with h | h
    · cases op with
      | base sop =>
        cases sop with
        | call fn th c =>
          simp only [completedBy] at h
          cases hs : fns[fn]? with
          | none => rw [hs] at h; cases h
          | some spec =>
            rw [hs] at h
            simp only [Option.some.injEq, Prod.mk.injEq] at h
            exact Or.inl ⟨fn, th, c, rs, spec, List.mem_cons_self, hs, h.1.symm, h.2.1.symm, h.2.2.symm⟩
        | _ => simp [completedBy] at h
      | callBegin i fn c => simp [completedBy] at h
      | callResume i =>
        simp only [completedBy] at h
        cases hf : a.pending.find? (fun p => p.id = i) with
        | none => rw [hf] at h; cases h
        | some p =>
          rw [hf] at h
          simp only at h
          have hpi : p.id = i := by simpa using List.find?_some hf
          cases hs : fns[p.fn]? with
          | none => rw [hs] at h; cases h
          | some spec =>
            rw [hs] at h
            simp only [Option.some.injEq, Prod.mk.injEq] at h
            refine Or.inr ⟨rs, p, ?_, Or.inl (List.mem_of_find?_eq_some hf), h.1.symm, h.2.1.symm, h.2.2.symm⟩
            rw [hpi]; exact List.mem_cons_self
      | callDrop i => simp [completedBy] at h
    · rcases ih _ h with ⟨fn, th, c, rs', spec, h1, h2⟩ | ⟨rs', p, h1, h2, h3⟩
      · exact Or.inl ⟨fn, th, c, rs', spec, List.mem_cons_of_mem _ h1, h2⟩
      · refine Or.inr ⟨rs', p, List.mem_cons_of_mem _ h1, ?_, h3⟩
        rcases h2 with h2 | ⟨rs'', h2⟩
        · rcases pending_step fns tls size isOk rs a op p h2 with h4 | ⟨pre, h4, _⟩
          · exact Or.inl h4
          · exact Or.inr ⟨rs, by rw [h4]; exact List.mem_cons_self⟩
        · exact Or.inr ⟨rs'', List.mem_cons_of_mem _ h2⟩

end prov

/-! ## 6. The invariant and the entry bound through every step -/

section invariants
variable (fns : List FnSpec) (tls : Nat → Tlru S) (size : V → Nat) (isOk : V → Bool)

/-- **Every `aStep` keeps the store/queue invariant of every cache instance** — in particular the late
    store of a resumed call, which runs on whatever the cache has become meanwhile. -/
theorem aStep_inv (rs : List Nat) (a : ASys K V) (op : AOp K V) (h : SysInv a.sys) :
    SysInv (aStep fns tls size isOk rs a op).1.sys := by
  cases op with
  | base sop => rw [aStep_base]; exact sysStep_inv fns tls size isOk rs a.sys sop h
  | callBegin i fn c =>
    rw [aStep_begin_sys]
    intro id
    cases hs : fns[fn]? with
    | none => rw [lookupOnly_none hs]; exact h id
    | some spec =>
      rw [getCache_lookupOnly hs]
      split
      · exact callLookup_inv spec _ c (h _)
      · exact h id
  | callResume i =>
    cases hp : a.pending.find? (fun p => p.id = i) with
    | none => rw [aStep_resume_none fns tls size isOk rs a i hp]; exact h
    | some p =>
      cases hs : fns[p.fn]? with
      | none =>
        have e1 : aStep fns tls size isOk rs a (.callResume i) = (a, .noSuchCall) := by
          simp only [aStep, hp, hs]
        rw [e1]; exact h
      | some spec =>
        rw [aStep_resume_some fns tls size isOk rs a i hp hs]
        intro id
        simp only
        rw [Calls.getCache_setCache]
        split
        · exact callFinish_inv _ _ _ _ _ _ _ _ (h _)
        · exact h id
  | callDrop i => rw [aStep_drop]; exact h

/-- the invariant holds after every history -/
theorem aRun_inv (a : ASys K V) (ops : List (AOp K V × List Nat)) (h : SysInv a.sys) :
    SysInv (aRun fns tls size isOk a ops).1.sys := by
  induction ops generalizing a with
  | nil => exact h
  | cons x ops ih =>
    obtain ⟨op, rs⟩ := x
    rw [aRun_cons]
    exact ih _ (aStep_inv fns tls size isOk rs a op h)

/-- a base operation respects the entry limit of every instance -/
theorem sysStep_bound (rs : List Nat) (sys : Sys K V) (op : SysOp K V) (id : CacheId) {spec : FnSpec} (n : Nat)
    (hs : fns[id.fn]? = some spec) (hl : spec.cfg.limit = some n) (hn : 1 ≤ n)
    (hi : Inv (sys.getCache id)) (hb : (sys.getCache id).store.length ≤ n) :
    ((sysStep fns tls size isOk rs sys op).1.getCache id).store.length ≤ n := by
  rcases sysStep_shape fns tls size isOk rs sys op id with e | e | ⟨p, e⟩ | e | ⟨fn, th, c, spec', e1, e2, e3, e⟩
  · rw [e]; exact hb
  · rw [e]; simp [clear]
  · rw [e]; exact Nat.le_trans (C04.invalidateWith_length_le p _) hb
  · rw [e]; exact hb
  · rw [e]
    have hfn : id.fn = fn := by rw [e3]; rfl
    rw [hfn, e2] at hs
    cases hs
    exact callFn_bound _ _ _ _ _ _ _ n hl hn hi hb

/-- **Every `aStep` respects the entry limit** of every cache instance whose function has `limit = n ≥ 1`
    (every flavour, every policy): a consistent instance with at most `n` entries has at most `n` entries
    afterwards — also after the late store of a resumed call. -/
theorem aStep_bound (rs : List Nat) (a : ASys K V) (op : AOp K V) (id : CacheId) {spec : FnSpec} (n : Nat)
    (hs : fns[id.fn]? = some spec) (hl : spec.cfg.limit = some n) (hn : 1 ≤ n)
    (hi : Inv (a.sys.getCache id)) (hb : (a.sys.getCache id).store.length ≤ n) :
    ((aStep fns tls size isOk rs a op).1.sys.getCache id).store.length ≤ n := by
  cases op with
  | base sop => rw [aStep_base]; exact sysStep_bound fns tls size isOk rs a.sys sop id n hs hl hn hi hb
  | callBegin i fn c =>
    rw [aStep_begin_sys]
    cases hs' : fns[fn]? with
    | none => rw [lookupOnly_none hs']; exact hb
    | some spec' =>
      rw [getCache_lookupOnly hs']
      split
      · rename_i hid
        subst hid
        exact Nat.le_trans (callLookup_length_le spec' _ c) hb
      · exact hb
  | callResume i =>
    cases hp : a.pending.find? (fun p => p.id = i) with
    | none => rw [aStep_resume_none fns tls size isOk rs a i hp]; exact hb
    | some p =>
      cases hs' : fns[p.fn]? with
      | none =>
        have e1 : aStep fns tls size isOk rs a (.callResume i) = (a, .noSuchCall) := by
          simp only [aStep, hp, hs']
        rw [e1]; exact hb
      | some spec' =>
        rw [aStep_resume_some fns tls size isOk rs a i hp hs']
        simp only
        rw [Calls.getCache_setCache]
        split
        · rename_i hid
          subst hid
          simp only at hs
          rw [hs'] at hs
          cases hs
          exact callFinish_bound _ _ _ _ _ _ _ _ n hl hn hi hb
        · exact hb
  | callDrop i => rw [aStep_drop]; exact hb

/-- the entry limit holds after every history started in a consistent, bounded system -/
theorem aRun_bound (a : ASys K V) (ops : List (AOp K V × List Nat)) (id : CacheId) {spec : FnSpec} (n : Nat)
    (hs : fns[id.fn]? = some spec) (hl : spec.cfg.limit = some n) (hn : 1 ≤ n)
    (hi : SysInv a.sys) (hb : (a.sys.getCache id).store.length ≤ n) :
    ((aRun fns tls size isOk a ops).1.sys.getCache id).store.length ≤ n := by
  induction ops generalizing a with
  | nil => exact hb
  | cons x ops ih =>
    obtain ⟨op, rs⟩ := x
    rw [aRun_cons]
    exact ih _ (aStep_inv fns tls size isOk rs a op hi)
      (aStep_bound fns tls size isOk rs a op id n hs hl hn (hi id) hb)

end invariants


/-! ## 7. Locks: a thread parked between two complete operations, and the others -/

namespace Locks
open Cachelito.Conc

/-- the lock skeletons of the two cache-touching phases of an async call respect the lock ranks -/
theorem asyncGet_wf (full : Bool) (c : Nat) : (Table.asyncGet full c).wf [] = true := by cases full <;> rfl
/-- the lock skeleton of the async plain store respects the lock ranks -/
theorem asyncInsert_wf (full : Bool) (c : Nat) : (Table.asyncInsert full c).wf [] = true := by cases full <;> rfl
/-- the lock skeleton of the async memory-aware store respects the lock ranks -/
theorem asyncInsertMem_wf (full : Bool) (c : Nat) : (Table.asyncInsertMem full c).wf [] = true := by
  cases full <;> rfl

/-- what is held after two event lists performed one after the other -/
theorem heldAfterAll_append (H : List (Lock × Mode)) (t u : List Ev) :
    heldAfterAll H (t ++ u) = heldAfterAll (heldAfterAll H t) u := by
  simp only [heldAfterAll, List.foldl_append]

/-- a thread with a next event performs it -/
theorem advance_cons {th : Conc.Thread} {e : Ev} {p : List Ev} (h : th.todo = e :: p) :
    th.advance = ⟨heldAfter th.held e, p⟩ := by
  simp only [Thread.advance, h]

/-- a finished thread does not move -/
theorem advance_nil {th : Conc.Thread} (h : th.todo = []) : th.advance = th := by
  simp only [Thread.advance, h]

/-- every thread of `s` stands somewhere on its event list `paths[i]` and holds exactly what the events it
    has performed so far leave held -/
def Tracks (paths : List (List Ev)) (s : Conc.State) : Prop :=
  ∀ (i : ThreadId) (th : Conc.Thread), s[i]? = some th →
    ∃ done, paths[i]? = some (done ++ th.todo) ∧ th.held = heldAfterAll [] done

/-- at the start every thread stands at the beginning of its event list, holding nothing -/
theorem tracks_init (paths : List (List Ev)) : Tracks paths (Conc.State.init paths) := by
  intro i th hi
  simp only [Conc.State.init, List.getElem?_map, Option.map_eq_some_iff] at hi
  obtain ⟨p, hp, rfl⟩ := hi
  exact ⟨[], by simpa using hp, rfl⟩

/-- a step of thread `i` replaces thread `i` by its advanced self and touches no other thread -/
theorem stepWith_eq_set {E : Conc.State → ThreadId → Bool} {s s' : Conc.State} {i : ThreadId}
    (h : stepWith E s i = some s') : ∃ th, s[i]? = some th ∧ s' = s.set i th.advance := by
  unfold stepWith at h
  split at h
  · unfold advanceAt at h
    cases hi : s[i]? with
    | none => rw [hi] at h; cases h
    | some th => rw [hi] at h; simp only [Option.some.injEq] at h; exact ⟨th, rfl, h.symm⟩
  · cases h

/-- `Tracks` is preserved by every step, under any lock-granting policy -/
theorem tracks_stepWith {E : Conc.State → ThreadId → Bool} {paths : List (List Ev)} {s s' : Conc.State}
    {i : ThreadId} (h : Tracks paths s) (hs : stepWith E s i = some s') : Tracks paths s' := by
  obtain ⟨th, hi, rfl⟩ := stepWith_eq_set hs
  intro j tj hj
  by_cases hij : i = j
  · subst hij
    have hlt : i < s.length := (List.getElem?_eq_some_iff.1 hi).1
    rw [List.getElem?_set_self hlt] at hj
    simp only [Option.some.injEq] at hj
    subst hj
    obtain ⟨done, hd1, hd2⟩ := h i th hi
    cases hp : th.todo with
    | nil => rw [advance_nil hp]; exact ⟨done, hd1, hd2⟩
    | cons e p =>
      rw [advance_cons hp]
      refine ⟨done ++ [e], ?_, ?_⟩
      · rw [hp] at hd1; simpa using hd1
      · simp only [heldAfterAll_append, ← hd2]; rfl
  · rw [List.getElem?_set_ne hij] at hj
    exact h j tj hj

/-- `Tracks` holds in every reachable state -/
theorem tracks_reach {E : Conc.State → ThreadId → Bool} {paths : List (List Ev)} {s : Conc.State}
    (hr : ReachWith E (Conc.State.init paths) s) : Tracks paths s := by
  generalize hs0 : Conc.State.init paths = s0 at hr
  induction hr with
  | refl => subst hs0; exact tracks_init paths
  | step _ hs ih => exact tracks_stepWith ih hs

/-- **A parked thread holds nothing.**  In any reachable state, a thread whose event list is `pre ++ post`,
    that has performed exactly `pre` (still to do: `post`), where `pre` leaves nothing held, holds no lock. -/
theorem parked_holds_nothing {E : Conc.State → ThreadId → Bool} {paths : List (List Ev)} {s : Conc.State}
    (hr : ReachWith E (Conc.State.init paths) s) {i : ThreadId} {th : Conc.Thread} {pre : List Ev}
    (hi : s[i]? = some th) (hpath : paths[i]? = some (pre ++ th.todo)) (hbal : heldAfterAll [] pre = []) :
    th.held = [] := by
  obtain ⟨done, hd1, hd2⟩ := tracks_reach hr i th hi
  rw [hpath] at hd1
  simp only [Option.some.injEq] at hd1
  have : pre = done := List.append_cancel_right hd1
  rw [hd2, ← this, hbal]

/-- **The other threads finish.**  In a state whose threads follow the rank discipline, if the threads in
    `susp` hold nothing and are never scheduled, there is a schedule of the OTHER threads only, every step of
    which is enabled, after which every other thread has performed all its events; the suspended threads
    are exactly where they were. -/
theorem others_finish {s : Conc.State} (hwf : AllWf s) (susp : ThreadId → Prop)
    (hs : ∀ (i : ThreadId) (th : Conc.Thread), s[i]? = some th → susp i → th.held = []) :
    ∃ (sched : List ThreadId) (s' : Conc.State), (∀ i ∈ sched, ¬ susp i) ∧ runSchedule sched s = some s' ∧
      (∀ (i : ThreadId) (th : Conc.Thread), s'[i]? = some th → ¬ susp i → th.todo = []) ∧
      (∀ i, susp i → s'[i]? = s[i]?) := by
  suffices H : ∀ (n : Nat) (s : Conc.State), remaining s ≤ n → AllWf s →
      (∀ (i : ThreadId) (th : Conc.Thread), s[i]? = some th → susp i → th.held = []) →
      ∃ (sched : List ThreadId) (s' : Conc.State), (∀ i ∈ sched, ¬ susp i) ∧ runSchedule sched s = some s' ∧
        (∀ (i : ThreadId) (th : Conc.Thread), s'[i]? = some th → ¬ susp i → th.todo = []) ∧
        (∀ i, susp i → s'[i]? = s[i]?) from H _ s (Nat.le_refl _) hwf hs
  intro n
  induction n with
  | zero =>
    intro s hr hwf hs
    refine ⟨[], s, by simp, rfl, ?_, fun _ _ => rfl⟩
    intro i th hi _
    have hfin := (allFinished_iff_remaining s).2 (by omega)
    simp only [allFinished, List.all_eq_true] at hfin
    have := hfin th (List.mem_of_getElem? hi)
    simpa [Thread.finished] using this
  | succ n ih =>
    intro s hr hwf hs
    by_cases hun : ∃ (i : ThreadId) (th : Conc.Thread), s[i]? = some th ∧ ¬ susp i ∧ th.todo ≠ []
    · obtain ⟨i, hsi, hen⟩ := progress_suspended hwf susp hs hun
      obtain ⟨s1, hs1⟩ := stepWith_some_of_enabled workConserving_enabledB hen
      have hrem := remaining_stepWith workConserving_enabledB hs1
      have hwf1 := hwf.stepWith hs1
      obtain ⟨thi, hthi, hset⟩ := stepWith_eq_set hs1
      have hframe : ∀ j, j ≠ i → s1[j]? = s[j]? := by
        intro j hj
        rw [hset, List.getElem?_set_ne (fun e => hj e.symm)]
      obtain ⟨sched, s', h1, h2, h3, h4⟩ := ih s1 (by omega) hwf1
        (fun j th hj hsj => hs j th (by rw [← hframe j (fun e => hsi (e ▸ hsj))]; exact hj) hsj)
      refine ⟨i :: sched, s', ?_, ?_, h3, ?_⟩
      · intro j hj
        rcases List.mem_cons.1 hj with rfl | hj
        · exact hsi
        · exact h1 j hj
      · simp only [runSchedule, runScheduleWith, hs1, Option.bind_some]
        exact h2
      · intro j hj
        rw [h4 j hj, hframe j (fun e => hsi (e ▸ hj))]
    · refine ⟨[], s, by simp, rfl, ?_, fun _ _ => rfl⟩
      intro i th hi hsi
      apply Classical.byContradiction
      intro hne
      exact hun ⟨i, th, hi, hsi, hne⟩

/-- Thread `i` of state `s` is parked at the await of an async call: its event list is `pre ++ (what it still
    has to do)`, where `pre` is a complete run of some rank-respecting operations `before` followed by the
    lookup phase `AsyncGlobalCache::get` of an async cache `c` — and nothing of the finish phase yet. -/
def ParkedAfterLookup (full : Bool) (paths : List (List Ev)) (s : Conc.State) (i : ThreadId) : Prop :=
  ∃ (th : Conc.Thread) (before : List Skel) (c : Nat) (pre : List Ev), s[i]? = some th ∧
    (∀ o ∈ before, o.wf [] = true) ∧ Runs (Skel.seqs (before ++ [Table.asyncGet full c])) pre ∧
    paths[i]? = some (pre ++ th.todo)

open Classical in
/-- a scheduler that picks an enabled thread whenever there is one -/
noncomputable def pickEnabled (s : Conc.State) : ThreadId :=
  if h : ∃ i, enabledB s i = true then Classical.choose h else 0

open Classical in
/-- `pickEnabled` picks an enabled thread whenever there is one -/
theorem pickEnabled_spec (s : Conc.State) (h : ∃ i, enabledB s i = true) : enabledB s (pickEnabled s) = true := by
  unfold pickEnabled
  rw [dif_pos h]
  exact Classical.choose_spec h

/-- from any state whose threads follow the rank discipline there is a schedule, every step enabled, that
    finishes every thread -/
theorem all_finish {s : Conc.State} (hwf : AllWf s) :
    ∃ (sched : List ThreadId) (s' : Conc.State), runSchedule sched s = some s' ∧ allFinished s' = true := by
  obtain ⟨s', _, h2, h3⟩ := runPickWith_finishes workConserving_enabledB pickEnabled pickEnabled_spec
    (remaining s) s hwf (Nat.le_refl _)
  obtain ⟨sched, hsched⟩ := reachWith_runSchedule h3
  exact ⟨sched, s', hsched, h2⟩

end Locks

end Cachelito.AsyncLemmas
