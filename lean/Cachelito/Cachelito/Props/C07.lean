/-
  C07 — FIFO evicts the oldest store, LRU the least recently used entry.

  Property theorems only (helper lemmas and the ghost definitions live in `Cachelito/Lemmas/Order.lean`).

  Ghost stamps: `stamps cfg tl size ops : Ghost K` is computed from the history `ops` and the outputs
  that `run` produced for it, nothing else (`Ghost`, `gstep`, `ghostOf`, `stamps` in `Lemmas/Order.lean`):
    * `n`            number of operations performed,
    * `lastStore k`  1-based index of the latest `insert` / `insert_with_memory` of `k` (0 = never),
    * `lastUse k`    1-based index of the latest store of `k` or lookup of `k` that returned a value.
  A lookup never changes `lastStore` (`reads_do_not_touch_lastStore`), so "stored longest ago" is
  independent of how often an entry was read.

  All statements quantify over every flavour (sync global, thread-local, async), every TLRU score
  algebra `tl`, every size function, every stream of random draws and every finite history.
-/
import Cachelito.Lemmas.Order

set_option linter.unusedSectionVars false
set_option linter.unusedSimpArgs false
set_option linter.unusedVariables false

namespace Cachelito.C07
open Cachelito
variable {K V S : Type} [DecidableEq K]

/-! ### The ghost does not influence the model -/

/-- The ghost-augmented run, with the ghost projected away, is exactly `run` (same final state, same
    outputs), and its ghost component is the fold `ghostOf` over the operations and the outputs of
    `run`: the stamps are a pure function of the history and the model's outputs. -/
theorem ghost_erasure (cfg : Cfg) (tl : Tlru S) (size : V → Nat) (s : State K V) (g : Ghost K)
    (ops : List (Op K V × List Nat)) :
    (grun cfg tl size (s, g) ops).1.1 = (run cfg tl size s ops).1 ∧
    (grun cfg tl size (s, g) ops).2 = (run cfg tl size s ops).2 ∧
    (grun cfg tl size (s, g) ops).1.2 = ghostOf g (ops.map (·.1)) (run cfg tl size s ops).2 := by
  rw [grun_eq]; exact ⟨rfl, rfl, rfl⟩

/-- The stamps after a history extended by one operation are the previous stamps updated by `gstep`
    with that operation and the output the model gave for it. -/
theorem stamps_step (cfg : Cfg) (tl : Tlru S) (size : V → Nat) (ops : List (Op K V × List Nat))
    (op : Op K V) (rs : List Nat) :
    (stamps cfg tl size (ops ++ [(op, rs)]) : Ghost K) =
      gstep (stamps cfg tl size ops) op
        (step cfg tl size rs (run cfg tl size (State.init : State K V) ops).1 op).2 :=
  stamps_snoc cfg tl size ops op rs

/-- A lookup — hit, miss or expired — never changes any key's `lastStore` stamp: the FIFO age of an
    entry does not depend on how often it was read. -/
theorem reads_do_not_touch_lastStore (g : Ghost K) (k : K) (o : Out V) :
    (gstep g (.get k : Op K V) o).lastStore = g.lastStore := by
  unfold gstep
  simp only
  split <;> rfl

/-- A store gives its key the freshest stamp (both `lastStore` and `lastUse` equal the new step
    counter), and leaves the stamps of all other keys alone. -/
theorem store_stamps_newcomer (g : Ghost K) (k : K) (v : V) (o : Out V) :
    (gstep g (.insert k v : Op K V) o).lastStore k = (gstep g (.insert k v : Op K V) o).n ∧
    (gstep g (.insert k v : Op K V) o).lastUse k = (gstep g (.insert k v : Op K V) o).n ∧
    (gstep g (.insertMem k v : Op K V) o).lastStore k = (gstep g (.insertMem k v : Op K V) o).n ∧
    (gstep g (.insertMem k v : Op K V) o).lastUse k = (gstep g (.insertMem k v : Op K V) o).n ∧
    ∀ x, x ≠ k →
      (gstep g (.insert k v : Op K V) o).lastStore x = g.lastStore x ∧
      (gstep g (.insert k v : Op K V) o).lastUse x = g.lastUse x ∧
      (gstep g (.insertMem k v : Op K V) o).lastStore x = g.lastStore x ∧
      (gstep g (.insertMem k v : Op K V) o).lastUse x = g.lastUse x := by
  simp only [gstep, upd, if_true, true_and]
  intro x hx
  simp only [hx, if_false, and_self]

/-! ### The queue is sorted by the policy's stamp in every reachable state -/

/-- **FIFO order invariant.**  After every history, in all three flavours, the eviction queue is
    strictly increasing (front to back) in the step index of each key's latest store. -/
theorem fifo_queue_sorted (cfg : Cfg) (hp : cfg.policy = .fifo) (tl : Tlru S) (size : V → Nat)
    (ops : List (Op K V × List Nat)) :
    (run cfg tl size (State.init : State K V) ops).1.queue.Pairwise
      (fun a b => (stamps cfg tl size ops : Ghost K).lastStore a < (stamps cfg tl size ops : Ghost K).lastStore b) := by
  have hok : RefreshOK cfg := by intro _ h; rw [hp] at h; cases h
  have := (run_ordInv (Or.inl hp) hok tl size ops).2.2
  rw [hp] at this
  exact this

/-- **LRU order invariant.**  After every history the eviction queue is strictly increasing (front to
    back) in the step index of each key's latest use (store or successful lookup).  For the async
    flavour this needs a configured bound (`limit` or `max_memory`), because the async engine skips the
    recency refresh on a hit otherwise (`async_global_cache.rs:369-383`); without any bound nothing is
    ever evicted (`unbounded_store_removes_nothing`), and the hypothesis cannot be dropped
    (`async_unbounded_lru_queue_not_sorted` below). -/
theorem lru_queue_sorted (cfg : Cfg) (hp : cfg.policy = .lru)
    (hb : cfg.flavour = .async → (cfg.limit.isSome || cfg.maxMem.isSome) = true)
    (tl : Tlru S) (size : V → Nat) (ops : List (Op K V × List Nat)) :
    (run cfg tl size (State.init : State K V) ops).1.queue.Pairwise
      (fun a b => (stamps cfg tl size ops : Ghost K).lastUse a < (stamps cfg tl size ops : Ghost K).lastUse b) := by
  have hok : RefreshOK cfg := fun hf _ => hb hf
  have := (run_ordInv (Or.inr hp) hok tl size ops).2.2
  rw [hp] at this
  exact this

/-- The order invariant is inductive from ANY consistent state, not only from the empty cache: if the
    bookkeeping invariant `Inv` and the order invariant `OrdInv` (stamps in the past, queue sorted by
    `lastStore` under FIFO / `lastUse` under LRU) hold, they hold after any operation. -/
theorem order_invariant_step (cfg : Cfg) (hp : cfg.policy = .fifo ∨ cfg.policy = .lru)
    (hb : cfg.flavour = .async → cfg.policy = .lru → (cfg.limit.isSome || cfg.maxMem.isSome) = true)
    (tl : Tlru S) (size : V → Nat) (rs : List Nat) (s : State K V) (g : Ghost K) (hi : Inv s)
    (ho : OrdInv cfg s g) (op : Op K V) :
    Inv (step cfg tl size rs s op).1 ∧
      OrdInv cfg (step cfg tl size rs s op).1 (gstep g op (step cfg tl size rs s op).2) :=
  ⟨step_inv cfg tl size rs s op hi, step_ordInv hp hb tl size rs hi ho op⟩

/-! ### Every FIFO/LRU eviction removes the queue head -/

/-- In a consistent store, one eviction under FIFO or LRU — in the entry-limit step and in an
    iteration of the memory loop, in every flavour — removes exactly the key at the front of the queue
    from both structures. -/
theorem eviction_pops_head (cfg : Cfg) (hp : cfg.policy = .fifo ∨ cfg.policy = .lru) (tl : Tlru S)
    (now r : Nat) (m : Store K V) (k : K) (rest : List K) (h : InvMQ m (k :: rest)) :
    evictLimit cfg tl now r m (k :: rest) = (eraseKey k m, rest, true) ∧
    evictMem cfg tl now r m (k :: rest) = (eraseKey k m, rest, true) :=
  ⟨evictLimit_head hp tl now r h, evictMem_head hp tl now r h⟩

/-- **Entry-limit pressure (component level).**  In a consistent store whose queue is sorted by a
    stamp `f`, every key removed by the FIFO/LRU entry-limit step has a strictly smaller stamp than
    every key that survives it: the victim is the minimum of `f` among the entries present. -/
theorem limit_victim_is_oldest (cfg : Cfg) (hp : cfg.policy = .fifo ∨ cfg.policy = .lru) (tl : Tlru S)
    (now r : Nat) (m : Store K V) (q : List K) (h : InvMQ m q) (f : K → Nat)
    (hs : q.Pairwise (fun a b => f a < f b)) :
    ∀ x y, x ∈ keys m → x ∉ keys (limitStep cfg tl now r m q).1 → y ∈ keys (limitStep cfg tl now r m q).1 →
      f x < f y :=
  limitStep_victim_oldest hp tl now r h hs

/-- **Memory pressure (component level).**  In a consistent store whose queue is sorted by a stamp `f`,
    every key removed by the FIFO/LRU memory loop — it may remove several — has a strictly smaller
    stamp than every key that survives the loop. -/
theorem memory_victims_are_oldest (cfg : Cfg) (hp : cfg.policy = .fifo ∨ cfg.policy = .lru) (tl : Tlru S)
    (size : V → Nat) (now maxM extra fuel : Nat) (rs : List Nat) (m : Store K V) (q : List K) (h : InvMQ m q)
    (f : K → Nat) (hs : q.Pairwise (fun a b => f a < f b)) :
    ∀ x y, x ∈ keys m → x ∉ keys (memLoop cfg tl size now maxM extra fuel rs m q).1 →
      y ∈ keys (memLoop cfg tl size now maxM extra fuel rs m q).1 → f x < f y :=
  memLoop_victims_oldest hp tl size now maxM extra fuel rs h hs

/-- Without `limit` and without `max_memory` a store never removes an entry (any flavour, any policy).
    This is why the bound hypothesis of `lru_queue_sorted` is harmless. -/
theorem unbounded_store_removes_nothing (cfg : Cfg) (hl : cfg.limit = none) (hm : cfg.maxMem = none)
    (tl : Tlru S) (size : V → Nat) (rs : List Nat) (s : State K V) (op : Op K V) (k : K)
    (hop : IsStore cfg size op k) :
    ∀ x, x ∈ keys s.store → x ∈ keys (step cfg tl size rs s op).1.store :=
  store_unbounded_keeps cfg hl hm tl size rs s hop

/-! ### Who is evicted, for every history

  `IsStore cfg size op k` says that `op` is `insert k v`, or `insert_with_memory k v` with a value that
  is not larger than `max_memory` (the oversize path does not cache the value and drops the key's old
  entry; it is not an eviction).  A plain `insert` can only be under entry-limit pressure; an
  `insert_with_memory` runs the memory loop and then the entry-limit step, so the statements below
  cover `limit`-only, `max_memory`-only and combined pressure. -/

/-- **C07, FIFO.**  After any history, when a store operation removes entries (because of `limit`,
    of `max_memory`, or both), every removed key was stored strictly longer ago than every key held
    afterwards — the survivors and the newcomer, which carries the freshest stamp.  So the victims are
    exactly the oldest stores, however often they were read (`lastStore` ignores lookups).  All three
    flavours, no side condition. -/
theorem fifo_evicts_oldest_store (cfg : Cfg) (hp : cfg.policy = .fifo) (tl : Tlru S) (size : V → Nat)
    (ops : List (Op K V × List Nat)) (op : Op K V) (rs : List Nat) (k : K) (hop : IsStore cfg size op k) :
    ∀ x y,
      x ∈ keys (run cfg tl size (State.init : State K V) ops).1.store →
      x ∉ keys (step cfg tl size rs (run cfg tl size (State.init : State K V) ops).1 op).1.store →
      y ∈ keys (step cfg tl size rs (run cfg tl size (State.init : State K V) ops).1 op).1.store →
      (stamps cfg tl size (ops ++ [(op, rs)]) : Ghost K).lastStore x <
        (stamps cfg tl size (ops ++ [(op, rs)]) : Ghost K).lastStore y := by
  have hok : RefreshOK cfg := by intro _ h; rw [hp] at h; cases h
  have hi := run_inv cfg tl size (State.init : State K V) ops inv_init
  have ho := run_ordInv (Or.inl hp) hok tl size ops
  have := store_victims_older (Or.inl hp) tl size rs hi ho hop
  rw [stamps_snoc]
  rw [hp] at this
  exact this

/-- **C07, LRU.**  After any history, when a store operation removes entries (because of `limit`,
    of `max_memory`, or both), every removed key was last used (stored or successfully looked up)
    strictly longer ago than every key held afterwards — the survivors and the newcomer.  All three
    flavours and NO side condition: for an async cache without any bound the queue order may be stale,
    but then nothing is ever removed. -/
theorem lru_evicts_least_recently_used (cfg : Cfg) (hp : cfg.policy = .lru) (tl : Tlru S) (size : V → Nat)
    (ops : List (Op K V × List Nat)) (op : Op K V) (rs : List Nat) (k : K) (hop : IsStore cfg size op k) :
    ∀ x y,
      x ∈ keys (run cfg tl size (State.init : State K V) ops).1.store →
      x ∉ keys (step cfg tl size rs (run cfg tl size (State.init : State K V) ops).1 op).1.store →
      y ∈ keys (step cfg tl size rs (run cfg tl size (State.init : State K V) ops).1 op).1.store →
      (stamps cfg tl size (ops ++ [(op, rs)]) : Ghost K).lastUse x <
        (stamps cfg tl size (ops ++ [(op, rs)]) : Ghost K).lastUse y := by
  by_cases hok : RefreshOK cfg
  · have hi := run_inv cfg tl size (State.init : State K V) ops inv_init
    have ho := run_ordInv (Or.inr hp) hok tl size ops
    have := store_victims_older (Or.inr hp) tl size rs hi ho hop
    rw [stamps_snoc]
    rw [hp] at this
    exact this
  · have hl : cfg.limit = none := by
      cases h : cfg.limit with
      | none => rfl
      | some n => exact absurd (fun _ _ => by simp [h]) hok
    have hm : cfg.maxMem = none := by
      cases h : cfg.maxMem with
      | none => rfl
      | some n => exact absurd (fun _ _ => by simp [h]) hok
    intro x y hx hnx _
    exact absurd (store_unbounded_keeps cfg hl hm tl size rs _ hop x hx) hnx

/-- **One store from any consistent, sorted state** (not only states reachable from the empty cache):
    every key removed by a FIFO/LRU store has a smaller policy stamp (`lastStore` under FIFO, `lastUse`
    under LRU) than every key held afterwards. -/
theorem store_evicts_min_stamp (cfg : Cfg) (hp : cfg.policy = .fifo ∨ cfg.policy = .lru) (tl : Tlru S)
    (size : V → Nat) (rs : List Nat) (s : State K V) (g : Ghost K) (hi : Inv s) (ho : OrdInv cfg s g)
    (op : Op K V) (k : K) (hop : IsStore cfg size op k) :
    ∀ x y, x ∈ keys s.store → x ∉ keys (step cfg tl size rs s op).1.store →
      y ∈ keys (step cfg tl size rs s op).1.store →
      (gstep g op (step cfg tl size rs s op).2).stamp cfg.policy x <
        (gstep g op (step cfg tl size rs s op).2).stamp cfg.policy y :=
  store_victims_older hp tl size rs hi ho hop

/-! ### Non-vacuity

  Concrete histories over `K = V = Nat`; the value is its own size estimate. -/

def exTl : Tlru Nat := ⟨fun a b => decide (a < b), fun _ h _ r => h * r⟩

/-- FIFO, limit 2, sync global: key 1 is read three times and is still the victim -/
def fifoCfg : Cfg := ⟨.global, .fifo, some 2, none, none⟩
def fifoOps : List (Op Nat Nat × List Nat) :=
  [(.insert 1 10, []), (.insert 2 20, []), (.get 1, []), (.get 1, []), (.get 1, [])]

example : keys (run fifoCfg exTl id (State.init : State Nat Nat) fifoOps).1.store = [1, 2] := by decide
example : (run fifoCfg exTl id (State.init : State Nat Nat) fifoOps).2 =
    [.unit, .unit, .val (some 10), .val (some 10), .val (some 10)] := by rfl
example : keys (step fifoCfg exTl id [] (run fifoCfg exTl id (State.init : State Nat Nat) fifoOps).1
    (.insert 3 30)).1.store = [2, 3] := by decide
example : IsStore fifoCfg id (.insert 3 30 : Op Nat Nat) 3 := Or.inl ⟨30, rfl⟩
/-- stamps: key 1 stored at step 1 (used last at step 5), key 2 at step 2, key 3 at step 6 -/
example : ((stamps fifoCfg exTl id (fifoOps ++ [(.insert 3 30, [])]) : Ghost Nat).lastStore 1,
           (stamps fifoCfg exTl id (fifoOps ++ [(.insert 3 30, [])]) : Ghost Nat).lastStore 2,
           (stamps fifoCfg exTl id (fifoOps ++ [(.insert 3 30, [])]) : Ghost Nat).lastStore 3,
           (stamps fifoCfg exTl id (fifoOps ++ [(.insert 3 30, [])]) : Ghost Nat).lastUse 1) = (1, 2, 6, 5) := by
  decide

/-- the hypotheses of `fifo_evicts_oldest_store` are satisfiable: instantiated at this history with victim 1
    and survivor 2 (resp. newcomer 3) it yields the concrete stamp inequalities -/
example : (stamps fifoCfg exTl id (fifoOps ++ [(.insert 3 30, [])]) : Ghost Nat).lastStore 1 <
    (stamps fifoCfg exTl id (fifoOps ++ [(.insert 3 30, [])]) : Ghost Nat).lastStore 2 :=
  fifo_evicts_oldest_store fifoCfg rfl exTl id fifoOps (.insert 3 30) [] 3 (Or.inl ⟨30, rfl⟩) 1 2
    (by decide) (by decide) (by decide)
example : (stamps fifoCfg exTl id (fifoOps ++ [(.insert 3 30, [])]) : Ghost Nat).lastStore 1 <
    (stamps fifoCfg exTl id (fifoOps ++ [(.insert 3 30, [])]) : Ghost Nat).lastStore 3 :=
  fifo_evicts_oldest_store fifoCfg rfl exTl id fifoOps (.insert 3 30) [] 3 (Or.inl ⟨30, rfl⟩) 1 3
    (by decide) (by decide) (by decide)

/-- LRU, limit 2, thread-local: the lookup of key 1 saves it, key 2 is the victim -/
def lruCfg : Cfg := ⟨.threadLocal, .lru, some 2, none, none⟩
def lruOps : List (Op Nat Nat × List Nat) :=
  [(.insert 1 10, []), (.insert 2 20, []), (.get 1, [])]

example : keys (run lruCfg exTl id (State.init : State Nat Nat) lruOps).1.store = [1, 2] := by decide
example : keys (step lruCfg exTl id [] (run lruCfg exTl id (State.init : State Nat Nat) lruOps).1
    (.insert 3 30)).1.store = [1, 3] := by decide
example : ((stamps lruCfg exTl id (lruOps ++ [(.insert 3 30, [])]) : Ghost Nat).lastUse 1,
           (stamps lruCfg exTl id (lruOps ++ [(.insert 3 30, [])]) : Ghost Nat).lastUse 2,
           (stamps lruCfg exTl id (lruOps ++ [(.insert 3 30, [])]) : Ghost Nat).lastUse 3) = (3, 2, 4) := by
  decide

example : (stamps lruCfg exTl id (lruOps ++ [(.insert 3 30, [])]) : Ghost Nat).lastUse 2 <
    (stamps lruCfg exTl id (lruOps ++ [(.insert 3 30, [])]) : Ghost Nat).lastUse 1 :=
  lru_evicts_least_recently_used lruCfg rfl exTl id lruOps (.insert 3 30) [] 3 (Or.inl ⟨30, rfl⟩) 2 1
    (by decide) (by decide) (by decide)

/-- LRU under memory pressure only, async (`max_memory = 30`, no `limit`): three entries of size 10,
    key 1 is read, then a value of size 20 arrives: the memory loop removes TWO victims, keys 2 and 3
    (the two least recently used); key 1 survives. -/
def memCfg : Cfg := ⟨.async, .lru, none, some 30, none⟩
def memOps : List (Op Nat Nat × List Nat) :=
  [(.insertMem 1 10, []), (.insertMem 2 10, []), (.insertMem 3 10, []), (.get 1, [])]

example : keys (run memCfg exTl id (State.init : State Nat Nat) memOps).1.store = [1, 2, 3] := by decide
example : keys (step memCfg exTl id [] (run memCfg exTl id (State.init : State Nat Nat) memOps).1
    (.insertMem 4 20)).1.store = [1, 4] := by decide
example : IsStore memCfg id (.insertMem 4 20 : Op Nat Nat) 4 := Or.inr ⟨20, rfl, by decide⟩
example : ((stamps memCfg exTl id (memOps ++ [(.insertMem 4 20, [])]) : Ghost Nat).lastUse 1,
           (stamps memCfg exTl id (memOps ++ [(.insertMem 4 20, [])]) : Ghost Nat).lastUse 2,
           (stamps memCfg exTl id (memOps ++ [(.insertMem 4 20, [])]) : Ghost Nat).lastUse 3,
           (stamps memCfg exTl id (memOps ++ [(.insertMem 4 20, [])]) : Ghost Nat).lastUse 4) = (4, 2, 3, 5) := by
  decide

/-- both victims (2 and 3) are older than the survivor 1, by the theorem -/
example : (stamps memCfg exTl id (memOps ++ [(.insertMem 4 20, [])]) : Ghost Nat).lastUse 2 <
      (stamps memCfg exTl id (memOps ++ [(.insertMem 4 20, [])]) : Ghost Nat).lastUse 1 ∧
    (stamps memCfg exTl id (memOps ++ [(.insertMem 4 20, [])]) : Ghost Nat).lastUse 3 <
      (stamps memCfg exTl id (memOps ++ [(.insertMem 4 20, [])]) : Ghost Nat).lastUse 1 :=
  ⟨lru_evicts_least_recently_used memCfg rfl exTl id memOps (.insertMem 4 20) [] 4
      (Or.inr ⟨20, rfl, by decide⟩) 2 1 (by decide) (by decide) (by decide),
   lru_evicts_least_recently_used memCfg rfl exTl id memOps (.insertMem 4 20) [] 4
      (Or.inr ⟨20, rfl, by decide⟩) 3 1 (by decide) (by decide) (by decide)⟩

/-- FIFO under memory pressure, sync global: the same history evicts keys 1 and 2 although key 1 was
    just read. -/
def memFifoCfg : Cfg := ⟨.global, .fifo, none, some 30, none⟩
example : keys (step memFifoCfg exTl id [] (run memFifoCfg exTl id (State.init : State Nat Nat) memOps).1
    (.insertMem 4 20)).1.store = [3, 4] := by decide

/-- The bound hypothesis of `lru_queue_sorted` cannot be dropped: an async LRU cache with neither
    `limit` nor `max_memory` does not refresh the queue on a hit, so after `insert 1; insert 2; get 1`
    the queue is `[1, 2]` while key 1 is the more recently used one. -/
def unboundedCfg : Cfg := ⟨.async, .lru, none, none, none⟩
theorem async_unbounded_lru_queue_not_sorted :
    (run unboundedCfg exTl id (State.init : State Nat Nat) lruOps).1.queue = [1, 2] ∧
    ¬ (stamps unboundedCfg exTl id lruOps : Ghost Nat).lastUse 1 <
        (stamps unboundedCfg exTl id lruOps : Ghost Nat).lastUse 2 := by
  decide

end Cachelito.C07
