/-
  Lemmas for C02: a type-directed parser for `Debug` output and the proof that it is a left inverse
  of `Keys.render` on every continuation that starts with a delimiter.  The parser is a proof
  device only (nothing in the driver uses it).
-/
import Cachelito.Keys

set_option linter.unusedVariables false
set_option linter.unusedSectionVars false
set_option linter.unusedSimpArgs false

namespace Cachelito.Keys

/-! ### Delimiters -/

/-- the characters that can follow a rendered value inside a key -/
def isDelim (c : Char) : Bool :=
  c == '|' || c == ',' || c == ')' || c == ']' || c == '}' || c == ' '

/-- `rest` is empty or starts with a delimiter -/
def delimStart : Text → Bool
  | [] => true
  | c :: _ => isDelim c

/-- a delimiter is one of the six listed characters -/
theorem isDelim_cases {c : Char} (h : isDelim c = true) :
    c = '|' ∨ c = ',' ∨ c = ')' ∨ c = ']' ∨ c = '}' ∨ c = ' ' := by
  simp [isDelim] at h
  rcases h with ((((h | h) | h) | h) | h) | h <;> simp [h]

/-- delimiters are structural punctuation (so they end an identifier) -/
theorem isDelim_structural {c : Char} (h : isDelim c = true) : isStructural c = true := by
  rcases isDelim_cases h with h | h | h | h | h | h <;> subst h <;> decide

/-- delimiters are not float characters (so they end a float token) -/
theorem isDelim_not_float {c : Char} (h : isDelim c = true) : isFloatChar c = false := by
  rcases isDelim_cases h with h | h | h | h | h | h <;> subst h <;> decide

/-! ### Generic pieces: prefix, span -/

/-- strip a literal prefix -/
def dropPrefix : Text → Text → Option Text
  | [], s => some s
  | _ :: _, [] => none
  | p :: ps, c :: cs => if p = c then dropPrefix ps cs else none

/-- stripping a prefix that is there leaves the rest -/
theorem dropPrefix_append (p rest : Text) : dropPrefix p (p ++ rest) = some rest := by
  induction p with
  | nil => simp [dropPrefix]
  | cons c cs ih => simp [dropPrefix, ih]

/-- longest prefix satisfying `p`, and the remainder -/
def spanP (p : Char → Bool) : Text → Text × Text
  | [] => ([], [])
  | c :: r => if p c then (c :: (spanP p r).1, (spanP p r).2) else ([], c :: r)

/-- a run of `p`-characters followed by text that does not start with one is split exactly there -/
theorem spanP_append (p : Char → Bool) (ds rest : Text) (h1 : ∀ c ∈ ds, p c = true)
    (h2 : ∀ c r, rest = c :: r → p c = false) : spanP p (ds ++ rest) = (ds, rest) := by
  induction ds with
  | nil =>
    cases rest with
    | nil => simp [spanP]
    | cons c r => simp [spanP, h2 c r rfl]
  | cons d ds ih =>
    have hd : p d = true := h1 d (by simp)
    have := ih (fun c hc => h1 c (by simp [hc]))
    simp [spanP, hd, this]

/-! ### Numbers -/

/-- value of a run of digits, most significant first -/
def foldDigits (val : Char → Option Nat) (b : Nat) (acc : Nat) (ds : Text) : Nat :=
  ds.foldl (fun a c => a * b + (val c).getD 0) acc

/-- consume the longest run of digits -/
def parseDigits (val : Char → Option Nat) (b : Nat) : Nat → Text → Nat × Text
  | acc, [] => (acc, [])
  | acc, c :: r =>
    match val c with
    | some d => parseDigits val b (acc * b + d) r
    | none => (acc, c :: r)

/-- a run of digits followed by a non-digit is consumed exactly and evaluated by `foldDigits` -/
theorem parseDigits_append (val : Char → Option Nat) (b acc : Nat) (ds rest : Text)
    (h1 : ∀ c ∈ ds, (val c).isSome = true) (h2 : ∀ c r, rest = c :: r → val c = none) :
    parseDigits val b acc (ds ++ rest) = (foldDigits val b acc ds, rest) := by
  induction ds generalizing acc with
  | nil =>
    cases rest with
    | nil => simp [parseDigits, foldDigits]
    | cons c r => simp [parseDigits, foldDigits, h2 c r rfl]
  | cons d ds ih =>
    have hd := h1 d (by simp)
    cases hv : val d with
    | none => simp [hv] at hd
    | some x =>
      have := ih (acc * b + x) (fun c hc => h1 c (by simp [hc]))
      simp [parseDigits, hv, this, foldDigits]

/-- appending a digit multiplies by the base and adds the digit -/
theorem foldDigits_snoc (val : Char → Option Nat) (b acc : Nat) (ds : Text) (d : Char) :
    foldDigits val b acc (ds ++ [d]) = foldDigits val b acc ds * b + (val d).getD 0 := by
  simp [foldDigits, List.foldl_append]

/-- positional rendering produces digits only -/
theorem renderRadix_valid (val : Char → Option Nat) (b : Nat) (dig : Nat → Char) (hb : 2 ≤ b)
    (hv : ∀ d, d < b → val (dig d) = some d) (fuel n : Nat) (hn : n ≤ fuel) :
    ∀ c ∈ renderRadix b dig fuel n, (val c).isSome = true := by
  induction fuel generalizing n with
  | zero =>
    have : n = 0 := by omega
    subst this
    simp [renderRadix, hv 0 (by omega)]
  | succ fuel ih =>
    unfold renderRadix
    split
    · rename_i h; simp [hv n h]
    · rename_i h
      have h1 : n / b ≤ fuel := by
        have : n / b < n := Nat.div_lt_self (by omega) (by omega)
        omega
      intro c hc
      simp only [List.mem_append, List.mem_singleton] at hc
      rcases hc with hc | hc
      · exact ih _ h1 c hc
      · subst hc; simp [hv _ (Nat.mod_lt n (by omega))]

/-- evaluating the positional rendering gives the number back -/
theorem renderRadix_fold (val : Char → Option Nat) (b : Nat) (dig : Nat → Char) (hb : 2 ≤ b)
    (hv : ∀ d, d < b → val (dig d) = some d) (fuel n : Nat) (hn : n ≤ fuel) :
    foldDigits val b 0 (renderRadix b dig fuel n) = n := by
  induction fuel generalizing n with
  | zero =>
    have : n = 0 := by omega
    subst this
    simp [renderRadix, foldDigits, hv 0 (by omega)]
  | succ fuel ih =>
    unfold renderRadix
    split
    · rename_i h; simp [foldDigits, hv n h]
    · rename_i h
      have h1 : n / b ≤ fuel := by
        have : n / b < n := Nat.div_lt_self (by omega) (by omega)
        omega
      rw [foldDigits_snoc, ih _ h1, hv _ (Nat.mod_lt n (by omega))]
      simp only [Option.getD_some]
      exact Nat.div_add_mod' n b

/-- positional rendering is never empty -/
theorem renderRadix_ne_nil (b : Nat) (dig : Nat → Char) (fuel n : Nat) :
    renderRadix b dig fuel n ≠ [] := by
  cases fuel with
  | zero => simp [renderRadix]
  | succ fuel => unfold renderRadix; split <;> simp

def decVal (c : Char) : Option Nat := if c.isDigit then some (c.toNat - 48) else none

def hexVal (c : Char) : Option Nat :=
  if c.isDigit then some (c.toNat - 48)
  else if 'a' ≤ c ∧ c ≤ 'f' then some (c.toNat - 87)
  else none

/-- `decVal` reads `decDigit` back -/
theorem decVal_decDigit : ∀ d, d < 10 → decVal (decDigit d) = some d := by decide

/-- `hexVal` reads `hexDigit` back -/
theorem hexVal_hexDigit : ∀ d, d < 16 → hexVal (hexDigit d) = some d := by decide

/-- delimiters are not decimal digits -/
theorem isDelim_decVal {c : Char} (h : isDelim c = true) : decVal c = none := by
  rcases isDelim_cases h with h | h | h | h | h | h <;> subst h <;> decide

/-- an unsigned decimal: at least one digit -/
def parseNat (s : Text) : Option (Nat × Text) :=
  match s with
  | [] => none
  | c :: r => if (decVal c).isSome then some (parseDigits decVal 10 0 (c :: r)) else none

/-- a rendered natural number starts with a digit -/
theorem renderNat_head (n : Nat) : ∃ d ds, renderNat n = d :: ds ∧ (decVal d).isSome = true := by
  have hne := renderRadix_ne_nil 10 decDigit n n
  have hv := renderRadix_valid decVal 10 decDigit (by omega) decVal_decDigit n n (Nat.le_refl n)
  unfold renderNat
  cases h : renderRadix 10 decDigit n n with
  | nil => exact absurd h hne
  | cons d ds => exact ⟨d, ds, rfl, hv d (by simp [h])⟩

/-- `parseNat` is a left inverse of `renderNat` before a delimiter -/
theorem parseNat_render (n : Nat) (rest : Text) (hd : delimStart rest = true) :
    parseNat (renderNat n ++ rest) = some (n, rest) := by
  obtain ⟨d, ds, hr, hdv⟩ := renderNat_head n
  have hv := renderRadix_valid decVal 10 decDigit (by omega) decVal_decDigit n n (Nat.le_refl n)
  have hf := renderRadix_fold decVal 10 decDigit (by omega) decVal_decDigit n n (Nat.le_refl n)
  have h2 : ∀ c r, rest = c :: r → decVal c = none := by
    intro c r hc; subst hc; exact isDelim_decVal hd
  have := parseDigits_append decVal 10 0 (renderNat n) rest hv h2
  rw [show foldDigits decVal 10 0 (renderNat n) = n from hf] at this
  unfold parseNat
  rw [hr] at this ⊢
  simp only [List.cons_append] at this ⊢
  simp [hdv, this]

/-- a signed decimal -/
def parseInt (s : Text) : Option (Int × Text) :=
  match s with
  | [] => none
  | c :: r =>
    if c = '-' then (parseNat r).map (fun p => (-(p.1 : Int), p.2))
    else (parseNat (c :: r)).map (fun p => ((p.1 : Int), p.2))

/-- `parseInt` is a left inverse of `renderInt` before a delimiter -/
theorem parseInt_render (i : Int) (rest : Text) (hd : delimStart rest = true) :
    parseInt (renderInt i ++ rest) = some (i, rest) := by
  cases i with
  | ofNat n =>
    obtain ⟨d, ds, hr, hdv⟩ := renderNat_head n
    have hp := parseNat_render n rest hd
    have hne : d ≠ '-' := by
      intro h; subst h; revert hdv; decide
    simp only [renderInt]
    rw [hr] at hp ⊢
    simp only [List.cons_append] at hp ⊢
    simp [parseInt, hne, hp]
  | negSucc n =>
    have hp := parseNat_render (n + 1) rest hd
    simp only [renderInt, List.cons_append]
    simp only [parseInt, if_true, hp, Option.map_some]
    congr 1

/-! ### Characters and strings -/

/-- after `\u{`: hex digits up to the closing brace -/
def parseHexBrace (s : Text) : Option (Nat × Text) :=
  match parseDigits hexVal 16 0 s with
  | (n, c :: r) => if c = '}' then some (n, r) else none
  | (_, []) => none

/-- the hex reader is a left inverse of `renderHex` up to the closing brace -/
theorem parseHexBrace_render (n : Nat) (rest : Text) :
    parseHexBrace (renderHex n ++ '}' :: rest) = some (n, rest) := by
  have hv := renderRadix_valid hexVal 16 hexDigit (by omega) hexVal_hexDigit n n (Nat.le_refl n)
  have hf := renderRadix_fold hexVal 16 hexDigit (by omega) hexVal_hexDigit n n (Nat.le_refl n)
  have h2 : ∀ c r, '}' :: rest = c :: r → hexVal c = none := by
    intro c r hc
    simp only [List.cons.injEq] at hc
    rw [← hc.1]; decide
  have := parseDigits_append hexVal 16 0 (renderHex n) ('}' :: rest) hv h2
  rw [show foldDigits hexVal 16 0 (renderHex n) = n from hf] at this
  simp [parseHexBrace, this]

/-- one (possibly escaped) character of a literal delimited by `q`; the caller has already checked
    that the input does not start with the closing quote -/
def parseEscChar (q : Quote) : Text → Option (Char × Text)
  | [] => none
  | c :: r =>
    if c = '\\' then
      match r with
      | [] => none
      | e :: r' =>
        if e = '0' then some ('\x00', r')
        else if e = 't' then some ('\t', r')
        else if e = 'r' then some ('\r', r')
        else if e = 'n' then some ('\n', r')
        else if e = '\\' then some ('\\', r')
        else if e = q.char then some (q.char, r')
        else if e = 'u' then
          match r' with
          | [] => none
          | b :: r'' =>
            if b = '{' then (parseHexBrace r'').map (fun p => (Char.ofNat p.1, p.2)) else none
        else none
    else some (c, r)

/-- the quote characters differ from every escape letter -/
theorem Quote.char_ne (q : Quote) :
    q.char ≠ '0' ∧ q.char ≠ 't' ∧ q.char ≠ 'r' ∧ q.char ≠ 'n' ∧ q.char ≠ '\\' ∧ q.char ≠ 'u' := by
  cases q <;> decide

/-- `parseEscChar` is a left inverse of `escapeChar`, for every escape predicate and continuation -/
theorem parseEscChar_escape (esc : Char → Bool) (q : Quote) (c : Char) (rest : Text) :
    parseEscChar q (escapeChar esc q c ++ rest) = some (c, rest) := by
  obtain ⟨q0, qt, qr, qn, qb, qu⟩ := q.char_ne
  unfold escapeChar
  split
  · rename_i h; subst h; simp [parseEscChar]
  split
  · rename_i h; subst h; simp [parseEscChar]
  split
  · rename_i h; subst h; simp [parseEscChar]
  split
  · rename_i h; subst h; simp [parseEscChar]
  split
  · rename_i h; subst h; simp [parseEscChar]
  split
  · rename_i h; subst h; simp [parseEscChar, q0, qt, qr, qn, qb]
  split
  · simp [unicodeEsc, parseEscChar, parseHexBrace_render, Char.ofNat_toNat, Ne.symm qu]
  · rename_i h0 ht hr hn hb hq he
    simp [parseEscChar, hb]

/-- the rendering of a character never starts with the closing quote -/
theorem escapeChar_head (esc : Char → Bool) (q : Quote) (c : Char) :
    ∃ d ds, escapeChar esc q c = d :: ds ∧ d ≠ q.char := by
  obtain ⟨q0, qt, qr, qn, qb, qu⟩ := q.char_ne
  unfold escapeChar
  split; · exact ⟨_, _, rfl, fun h => qb h.symm⟩
  split; · exact ⟨_, _, rfl, fun h => qb h.symm⟩
  split; · exact ⟨_, _, rfl, fun h => qb h.symm⟩
  split; · exact ⟨_, _, rfl, fun h => qb h.symm⟩
  split; · exact ⟨_, _, rfl, fun h => qb h.symm⟩
  split; · exact ⟨_, _, rfl, fun h => qb h.symm⟩
  split; · exact ⟨_, _, rfl, fun h => qb h.symm⟩
  · rename_i h0 ht hr hn hb hq he
    exact ⟨_, _, rfl, hq⟩

/-- literal body up to the closing quote; one unit of fuel per decoded character -/
def parseBody (q : Quote) : Nat → Text → Option (Text × Text)
  | 0, _ => none
  | fuel + 1, s =>
    match s with
    | [] => none
    | c :: r =>
      if c = q.char then some ([], r)
      else
        match parseEscChar q (c :: r) with
        | some (d, r') => (parseBody q fuel r').map (fun p => (d :: p.1, p.2))
        | none => none

/-- `parseBody` reads an escaped body back, given one unit of fuel per character plus one -/
theorem parseBody_escape (esc : Char → Bool) (q : Quote) (s rest : Text) (fuel : Nat)
    (hf : s.length < fuel) :
    parseBody q fuel (escapeBody esc q s ++ q.char :: rest) = some (s, rest) := by
  induction s generalizing fuel with
  | nil =>
    cases fuel with
    | zero => omega
    | succ fuel => simp [escapeBody, parseBody]
  | cons c cs ih =>
    cases fuel with
    | zero => omega
    | succ fuel =>
      obtain ⟨d, ds, hd, hne⟩ := escapeChar_head esc q c
      have hp := parseEscChar_escape esc q c (escapeBody esc q cs ++ q.char :: rest)
      have := ih fuel (by simp at hf; omega)
      simp only [escapeBody, List.append_assoc]
      rw [hd] at hp ⊢
      simp only [List.cons_append] at hp ⊢
      simp [parseBody, hne, hp, this]

/-- escaping never shortens -/
theorem escapeBody_length (esc : Char → Bool) (q : Quote) (s : Text) :
    s.length ≤ (escapeBody esc q s).length := by
  induction s with
  | nil => simp [escapeBody]
  | cons c cs ih =>
    obtain ⟨d, ds, hd, _⟩ := escapeChar_head esc q c
    simp [escapeBody, hd]; omega

/-- a string literal `"…"` -/
def parseStrLit (s : Text) : Option (Text × Text) :=
  match s with
  | [] => none
  | c :: r => if c = '"' then parseBody .double r.length r else none

/-- `parseStrLit` is a left inverse of `renderStr` (string literals are self-delimiting) -/
theorem parseStrLit_render (esc : Char → Bool) (s rest : Text) :
    parseStrLit (renderStr esc s ++ rest) = some (s, rest) := by
  have hl := escapeBody_length esc .double s
  have := parseBody_escape esc .double s rest
    (escapeBody esc .double s ++ '"' :: rest).length (by simp; omega)
  simp only [Quote.char, List.length_append, List.length_cons] at this
  simp [renderStr, parseStrLit, this]

/-- a character literal `'c'` -/
def parseCharLit (s : Text) : Option (Char × Text) :=
  match s with
  | [] => none
  | c :: r =>
    if c = '\'' then
      match parseEscChar .single r with
      | some (d, e :: r') => if e = '\'' then some (d, r') else none
      | _ => none
    else none

/-- `parseCharLit` is a left inverse of `renderChar` -/
theorem parseCharLit_render (esc : Char → Bool) (c : Char) (rest : Text) :
    parseCharLit (renderChar esc c ++ rest) = some (c, rest) := by
  have := parseEscChar_escape esc .single c ('\'' :: rest)
  simp [renderChar, parseCharLit, this]

/-! ### The type-directed parser -/

def parseBool (s : Text) : Option (Bool × Text) :=
  match dropPrefix ['t', 'r', 'u', 'e'] s with
  | some r => some (true, r)
  | none => (dropPrefix ['f', 'a', 'l', 's', 'e'] s).map (fun r => (false, r))

/-- `parseBool` is a left inverse of `renderBool` -/
theorem parseBool_render (b : Bool) (rest : Text) : parseBool (renderBool b ++ rest) = some (b, rest) := by
  cases b
  · have := dropPrefix_append ['f', 'a', 'l', 's', 'e'] rest
    simp only [List.cons_append, List.nil_append] at this
    simp [renderBool, parseBool, this]
    simp [dropPrefix]
  · have := dropPrefix_append ['t', 'r', 'u', 'e'] rest
    simp only [List.cons_append, List.nil_append] at this
    simp [renderBool, parseBool, this]

/-- a float token is the longest run of float characters; `g` reads it back -/
def parseFloat {F : Type} (g : Text → Option F) (s : Text) : Option (F × Text) :=
  (g (spanP isFloatChar s).1).map (fun f => (f, (spanP isFloatChar s).2))

/-- given a reader `g` for float tokens, `parseFloat` is a left inverse of the float printer before a delimiter -/
theorem parseFloat_render {F : Type} (rf : F → Text) (hf : FloatOK rf) (g : Text → Option F)
    (hg : ∀ f, g (rf f) = some f) (f : F) (rest : Text) (hd : delimStart rest = true) :
    parseFloat g (rf f ++ rest) = some (f, rest) := by
  have h2 : ∀ c r, rest = c :: r → isFloatChar c = false := by
    intro c r hc; subst hc; exact isDelim_not_float hd
  have := spanP_append isFloatChar (rf f) rest (hf.alphabet f) h2
  simp [parseFloat, this, hg]

/-- `, x, y` up to the closing bracket; the element parser is a parameter -/
def parseVecTail {F : Type} (p : Text → Option (Val F × Text)) :
    Nat → Text → Option (List (Val F) × Text)
  | 0, _ => none
  | fuel + 1, s =>
    match dropPrefix [']'] s with
    | some r => some ([], r)
    | none =>
      match dropPrefix [',', ' '] s with
      | none => none
      | some r =>
        match p r with
        | none => none
        | some (v, r) => (parseVecTail p fuel r).map (fun q => (v :: q.1, q.2))

mutual
/-- type-directed parser for `Debug` output; `g` reads a float token back -/
def parse {F : Type} (g : Text → Option F) : Ty → Text → Option (Val F × Text)
  | .uint, s => (parseNat s).map (fun p => (.nat p.1, p.2))
  | .sint, s => (parseInt s).map (fun p => (.int p.1, p.2))
  | .bool, s => (parseBool s).map (fun p => (.bool p.1, p.2))
  | .char, s => (parseCharLit s).map (fun p => (.char p.1, p.2))
  | .str, s => (parseStrLit s).map (fun p => (.str p.1, p.2))
  | .float, s => (parseFloat g s).map (fun p => (.float p.1, p.2))
  | .unit, s => (dropPrefix ['(', ')'] s).map (fun r => (.unit, r))
  | .option t, s =>
    match dropPrefix ['N', 'o', 'n', 'e'] s with
    | some r => some (.none, r)
    | none =>
      match dropPrefix ['S', 'o', 'm', 'e', '('] s with
      | none => none
      | some r =>
        match parse g t r with
        | none => none
        | some (v, r) => (dropPrefix [')'] r).map (fun r => (.some v, r))
  | .vec t, s =>
    match dropPrefix ['['] s with
    | none => none
    | some r =>
      match dropPrefix [']'] r with
      | some r => some (.vec [], r)
      | none =>
        match parse g t r with
        | none => none
        | some (v, r) => (parseVecTail (parse g t) r.length r).map (fun q => (.vec (v :: q.1), q.2))
  | .tuple ts, s =>
    match dropPrefix ['('] s with
    | none => none
    | some r =>
      match ts with
      | [] => (dropPrefix [')'] r).map (fun r => (.tuple [], r))
      | t :: ts =>
        match parse g t r with
        | none => none
        | some (v, r) =>
          match ts with
          | [] => (dropPrefix [',', ')'] r).map (fun r => (.tuple [v], r))
          | _ :: _ =>
            match parseTail g ts r with
            | none => none
            | some (vs, r) => (dropPrefix [')'] r).map (fun r => (.tuple (v :: vs), r))
  | .adt vars, s =>
    parseVariants g vars (spanP (fun c => !isStructural c) s).1 (spanP (fun c => !isStructural c) s).2
/-- `, a, b` for a fixed list of types -/
def parseTail {F : Type} (g : Text → Option F) : List Ty → Text → Option (List (Val F) × Text)
  | [], s => some ([], s)
  | t :: ts, s =>
    match dropPrefix [',', ' '] s with
    | none => none
    | some r =>
      match parse g t r with
      | none => none
      | some (v, r) => (parseTail g ts r).map (fun q => (v :: q.1, q.2))
/-- the payload of the (first) variant called `name` -/
def parseVariants {F : Type} (g : Text → Option F) : List Variant → Text → Text → Option (Val F × Text)
  | [], _, _ => none
  | .unit n :: more, name, r =>
    if name = n.chars then some (.unitV n, r) else parseVariants g more name r
  | .tuple n ts :: more, name, r =>
    if name = n.chars then
      match ts with
      | [] => some (.tupleV n [], r)
      | t :: ts =>
        match dropPrefix ['('] r with
        | none => none
        | some r =>
          match parse g t r with
          | none => none
          | some (v, r) =>
            match parseTail g ts r with
            | none => none
            | some (vs, r) => (dropPrefix [')'] r).map (fun r => (.tupleV n (v :: vs), r))
    else parseVariants g more name r
  | .named n fs :: more, name, r =>
    if name = n.chars then
      match fs with
      | [] => some (.namedV n [], r)
      | (f, t) :: fs =>
        match dropPrefix (' ' :: '{' :: ' ' :: (f.chars ++ [':', ' '])) r with
        | none => none
        | some r =>
          match parse g t r with
          | none => none
          | some (v, r) =>
            match parseFieldsTail g fs r with
            | none => none
            | some (fvs, r) => (dropPrefix [' ', '}'] r).map (fun r => (.namedV n ((f, v) :: fvs), r))
    else parseVariants g more name r
/-- `, x: a, y: b` for a fixed list of fields -/
def parseFieldsTail {F : Type} (g : Text → Option F) :
    List (Ident × Ty) → Text → Option (List (Ident × Val F) × Text)
  | [], s => some ([], s)
  | (f, t) :: fs, s =>
    match dropPrefix (',' :: ' ' :: (f.chars ++ [':', ' '])) s with
    | none => none
    | some r =>
      match parse g t r with
      | none => none
      | some (v, r) => (parseFieldsTail g fs r).map (fun q => ((f, v) :: q.1, q.2))
end

/-! ### Heads and delimiters of rendered text -/

/-- identifiers contain no structural punctuation -/
theorem Ident.all_nonstructural (n : Ident) : ∀ c ∈ n.chars, (!isStructural c) = true := by
  have := n.ok
  simp only [isIdent, Bool.and_eq_true, List.all_eq_true] at this
  exact this.2

/-- identifiers are non-empty and start with a non-structural character -/
theorem Ident.head (n : Ident) : ∃ c cs, n.chars = c :: cs ∧ isStructural c = false := by
  have h := n.ok
  have ha := n.all_nonstructural
  cases hc : n.chars with
  | nil => simp [isIdent, hc] at h
  | cons c cs =>
    refine ⟨c, cs, rfl, ?_⟩
    have := ha c (by simp [hc])
    simpa using this

/-- text starting with a delimiter -/
theorem delimStart_cons {c : Char} {r : Text} (h : isDelim c = true) : delimStart (c :: r) = true := h

/-- `, a, b` followed by delimiter-started text is delimiter-started -/
theorem delimStart_renderTail {F : Type} (fm : Fmt F) (vs : List (Val F)) (rest : Text)
    (h : delimStart rest = true) : delimStart (renderTail fm vs ++ rest) = true := by
  cases vs with
  | nil => simpa [renderTail] using h
  | cons v vs => simp [renderTail, delimStart, isDelim]

/-- `, x: a` followed by delimiter-started text is delimiter-started -/
theorem delimStart_renderFieldsTail {F : Type} (fm : Fmt F) (fs : List (Ident × Val F)) (rest : Text)
    (h : delimStart rest = true) : delimStart (renderFieldsTail fm fs ++ rest) = true := by
  cases fs with
  | nil => simpa [renderFieldsTail] using h
  | cons fv fs => obtain ⟨f, v⟩ := fv; simp [renderFieldsTail, delimStart, isDelim]

/-- a rendered value is never empty and never starts with `]` (so `[]` and `[x…` differ) -/
theorem render_not_close {F : Type} (fm : Fmt F) (hf : FloatOK fm.float) (v : Val F) (r : Text) :
    dropPrefix [']'] (render fm v ++ r) = none := by
  have hnat : ∀ n, dropPrefix [']'] (renderNat n ++ r) = none := by
    intro n
    obtain ⟨d, ds, h, hd⟩ := renderNat_head n
    have : ¬ ']' = d := by intro e; subst e; revert hd; decide
    simp [h, dropPrefix, this]
  have hid : ∀ (n : Ident) (x : Text), dropPrefix [']'] (n.chars ++ x) = none := by
    intro n x
    obtain ⟨c, cs, h, hs⟩ := n.head
    have : ¬ ']' = c := by intro e; subst e; revert hs; decide
    simp [h, dropPrefix, this]
  cases v with
  | nat n => simpa [render] using hnat n
  | int i =>
    cases i with
    | ofNat n => simpa [render, renderInt] using hnat n
    | negSucc n => simp [render, renderInt, dropPrefix]
  | bool b => cases b <;> simp [render, renderBool, dropPrefix]
  | char c => simp [render, renderChar, dropPrefix]
  | str s => simp [render, renderStr, dropPrefix]
  | float f =>
    cases h : fm.float f with
    | nil => exact absurd h (hf.nonempty f)
    | cons c cs =>
      have : ¬ ']' = c := by
        intro e; subst e
        have := hf.alphabet f ']' (by simp [h])
        revert this; decide
      simp [render, h, dropPrefix, this]
  | unit => simp [render, dropPrefix]
  | none => simp [render, dropPrefix]
  | some v => simp [render, dropPrefix]
  | vec vs => cases vs <;> simp [render, dropPrefix]
  | tuple vs =>
    match vs with
    | [] => simp [render, dropPrefix]
    | [v] => simp [render, dropPrefix]
    | v :: w :: vs => simp [render, dropPrefix]
  | unitV n => simpa [render] using hid n r
  | tupleV n vs =>
    cases vs with
    | nil => simpa [render] using hid n r
    | cons v vs => simpa [render] using hid n _
  | namedV n fs =>
    match fs with
    | [] => simpa [render] using hid n r
    | (f, v) :: fs => simpa [render] using hid n _

/-- what follows the constructor name of a user-type value -/
def renderPayload {F : Type} (fm : Fmt F) : Val F → Text
  | .tupleV _ (v :: vs) => '(' :: (render fm v ++ (renderTail fm vs ++ [')']))
  | .namedV _ ((f, v) :: fs) =>
      ' ' :: '{' :: ' ' :: (f.chars ++ ':' :: ' ' :: (render fm v ++ (renderFieldsTail fm fs ++ [' ', '}'])))
  | _ => []

/-- a user-type value renders as its constructor name followed by its payload -/
theorem render_adt {F : Type} (fm : Fmt F) (v : Val F) (n : Ident) (h : v.name? = some n) :
    render fm v = n.chars ++ renderPayload fm v := by
  cases v with
  | unitV m => simp [Val.name?] at h; subst h; simp [render, renderPayload]
  | tupleV m vs =>
    simp [Val.name?] at h; subst h
    cases vs <;> simp [render, renderPayload]
  | namedV m fs =>
    simp [Val.name?] at h; subst h
    match fs with
    | [] => simp [render, renderPayload]
    | (f, v) :: fs => simp [render, renderPayload]
  | _ => simp [Val.name?] at h

/-- what follows a constructor name starts with structural punctuation (so the name ends there) -/
theorem renderPayload_head {F : Type} (fm : Fmt F) (v : Val F) (rest : Text)
    (hd : delimStart rest = true) :
    ∀ c r, renderPayload fm v ++ rest = c :: r → (!isStructural c) = false := by
  intro c r h
  have hrest : ∀ c r, rest = c :: r → (!isStructural c) = false := by
    intro c r e; subst e; simp [isDelim_structural hd]
  cases v with
  | tupleV m vs =>
    cases vs with
    | nil => exact hrest c r (by simpa [renderPayload] using h)
    | cons v vs =>
      simp [renderPayload] at h
      rw [← h.1]; decide
  | namedV m fs =>
    match fs with
    | [] => exact hrest c r (by simpa [renderPayload] using h)
    | (f, v) :: fs =>
      simp [renderPayload] at h
      rw [← h.1]; decide
  | _ => exact hrest c r (by simpa [renderPayload] using h)

/-- a value of a user type has a constructor name -/
theorem wtVariants_name {F : Type} (vars : List Variant) (v : Val F) (h : wtVariants vars v = true) :
    ∃ n, v.name? = some n := by
  cases v <;> first | exact ⟨_, rfl⟩ | skip
  all_goals
    exfalso
    induction vars with
    | nil => simp [wtVariants] at h
    | cons var more ih => cases var <;> simp [wtVariants, Val.name?] at h <;> exact ih h

/-! ### The parser is a left inverse of `render` -/

/-- `, a, b` is at least as long as the number of elements (fuel bound for `parseVecTail`) -/
theorem renderTail_length {F : Type} (fm : Fmt F) (vs : List (Val F)) :
    vs.length ≤ (renderTail fm vs).length := by
  induction vs with
  | nil => simp
  | cons v vs ih => simp [renderTail]; omega

/-- the element loop of `Vec` reads `, a, b]` back, given a correct element parser -/
theorem parseVecTail_render {F : Type} (fm : Fmt F) (p : Text → Option (Val F × Text))
    (vs : List (Val F))
    (hp : ∀ v ∈ vs, ∀ rest, delimStart rest = true → p (render fm v ++ rest) = some (v, rest))
    (rest : Text) (fuel : Nat) (hfuel : vs.length < fuel) :
    parseVecTail p fuel (renderTail fm vs ++ ']' :: rest) = some (vs, rest) := by
  induction vs generalizing fuel with
  | nil =>
    cases fuel with
    | zero => omega
    | succ fuel => simp [renderTail, parseVecTail, dropPrefix]
  | cons v vs ih =>
    cases fuel with
    | zero => omega
    | succ fuel =>
      have h1 := hp v (by simp) (renderTail fm vs ++ ']' :: rest)
        (delimStart_renderTail fm vs _ (delimStart_cons (by decide)))
      have h2 := ih (fun w hw => hp w (by simp [hw])) fuel (by simp at hfuel; omega)
      simp [renderTail, parseVecTail, dropPrefix, h1, h2]

section
variable {F : Type} (fm : Fmt F) (hf : FloatOK fm.float) (g : Text → Option F)
  (hg : ∀ f, g (fm.float f) = some f)
include hf hg

mutual
/-- `parse` reads back exactly the rendered value and leaves the continuation untouched -/
theorem parse_render : (t : Ty) → (v : Val F) → wt t v = true → (rest : Text) →
    delimStart rest = true → parse g t (render fm v ++ rest) = some (v, rest)
  | .uint, v, h, rest, hd => by
    cases v <;> simp [wt] at h
    simp [render, parse, parseNat_render _ _ hd]
  | .sint, v, h, rest, hd => by
    cases v <;> simp [wt] at h
    simp [render, parse, parseInt_render _ _ hd]
  | .bool, v, h, rest, hd => by
    cases v <;> simp [wt] at h
    simp [render, parse, parseBool_render]
  | .char, v, h, rest, hd => by
    cases v <;> simp [wt] at h
    simp [render, parse, parseCharLit_render]
  | .str, v, h, rest, hd => by
    cases v <;> simp [wt] at h
    simp [render, parse, parseStrLit_render]
  | .float, v, h, rest, hd => by
    cases v <;> simp [wt] at h
    simp [render, parse, parseFloat_render fm.float hf g hg _ _ hd]
  | .unit, v, h, rest, hd => by
    cases v <;> simp [wt] at h
    simp [render, parse, dropPrefix]
  | .option t, v, h, rest, hd => by
    cases v <;> simp [wt] at h
    · simp [render, parse, dropPrefix]
    · rename_i w
      have ih := parse_render t w h (')' :: rest) (delimStart_cons (by decide))
      simp [render, parse, dropPrefix, ih]
  | .vec t, v, h, rest, hd => by
    cases v <;> simp [wt] at h
    rename_i vs
    cases vs with
    | nil => simp [render, parse, dropPrefix]
    | cons w ws =>
      have hw : wt t w = true := h w (by simp)
      have ih := parse_render t w hw (renderTail fm ws ++ ']' :: rest)
        (delimStart_renderTail fm ws _ (delimStart_cons (by decide)))
      have hnc := render_not_close fm hf w (renderTail fm ws ++ ']' :: rest)
      have hl := renderTail_length fm ws
      have ht := parseVecTail_render fm (parse g t) ws
        (fun x hx r hr => parse_render t x (h x (by simp [hx])) r hr) rest
        (renderTail fm ws ++ ']' :: rest).length (by simp; omega)
      simp only [List.length_append, List.length_cons] at ht
      simp [render, parse, dropPrefix, hnc, ih, ht]
  | .tuple ts, v, h, rest, hd => by
    cases v <;> simp [wt] at h
    rename_i vs
    match ts, vs, h with
    | [], [], _ => simp [render, parse, dropPrefix]
    | [], _ :: _, h => simp [wtList] at h
    | _ :: _, [], h => simp [wtList] at h
    | [t], [w], h =>
      simp [wtList] at h
      have ih := parse_render t w h (',' :: ')' :: rest) (delimStart_cons (by decide))
      simp [render, parse, dropPrefix, ih]
    | [t], _ :: _ :: _, h => simp [wtList] at h
    | _ :: _ :: _, [_], h => simp [wtList] at h
    | t :: t2 :: ts, w :: w2 :: ws, h =>
      simp only [wtList, Bool.and_eq_true] at h
      have ih := parse_render t w h.1 (renderTail fm (w2 :: ws) ++ ')' :: rest)
        (delimStart_renderTail fm _ _ (delimStart_cons (by decide)))
      have it := parseTail_render (t2 :: ts) (w2 :: ws) (by simp [wtList, h.2]) (')' :: rest) (delimStart_cons (by decide))
      simp [render, parse, dropPrefix, ih, it]
  | .adt vars, v, h, rest, hd => by
    simp only [wt] at h
    obtain ⟨n, hn⟩ : ∃ n, v.name? = some n := wtVariants_name vars v h
    have hs := spanP_append (fun c => !isStructural c) n.chars (renderPayload fm v ++ rest)
      n.all_nonstructural (renderPayload_head fm v rest hd)
    have iv := parseVariants_render vars v h n hn rest hd
    rw [render_adt fm v n hn]
    simp only [parse, List.append_assoc, hs, iv]
/-- type-directed `, a, b` is read back -/
theorem parseTail_render : (ts : List Ty) → (vs : List (Val F)) → wtList ts vs = true →
    (rest : Text) → delimStart rest = true →
    parseTail g ts (renderTail fm vs ++ rest) = some (vs, rest)
  | [], vs, h, rest, hd => by
    cases vs <;> simp [wtList] at h
    simp [renderTail, parseTail]
  | t :: ts, vs, h, rest, hd => by
    cases vs with
    | nil => simp [wtList] at h
    | cons w ws =>
      simp only [wtList, Bool.and_eq_true] at h
      have ih := parse_render t w h.1 (renderTail fm ws ++ rest) (delimStart_renderTail fm _ _ hd)
      have it := parseTail_render ts ws h.2 rest hd
      simp [renderTail, parseTail, dropPrefix, ih, it]
/-- the payload of a well-typed user-type value is read back by the variant selected by its name -/
theorem parseVariants_render : (vars : List Variant) → (v : Val F) → wtVariants vars v = true →
    (n : Ident) → v.name? = some n → (rest : Text) → delimStart rest = true →
    parseVariants g vars n.chars (renderPayload fm v ++ rest) = some (v, rest)
  | [], v, h, n, hn, rest, hd => by simp [wtVariants] at h
  | .unit m :: more, v, h, n, hn, rest, hd => by
    simp only [wtVariants, hn] at h
    by_cases e : n = m
    · subst e
      simp only [if_true] at h
      cases v <;> simp at h
      simp [Val.name?] at hn; subst hn
      simp [parseVariants, renderPayload]
    · have e' : ¬ some n = some m := by simpa using e
      have e'' : ¬ n.chars = m.chars := fun hc => e (Ident.ext hc)
      simp only [e', if_false] at h
      have := parseVariants_render more v h n hn rest hd
      rw [parseVariants, if_neg e'']
      exact this
  | .tuple m ts :: more, v, h, n, hn, rest, hd => by
    simp only [wtVariants, hn] at h
    by_cases e : n = m
    · subst e
      simp only [if_true] at h
      cases v <;> simp at h
      rename_i n' vs
      simp [Val.name?] at hn; subst hn
      cases ts with
      | nil =>
        cases vs with
        | nil => simp [parseVariants, renderPayload]
        | cons w ws => simp [wtList] at h
      | cons t ts =>
        cases vs with
        | nil => simp [wtList] at h
        | cons w ws =>
          simp only [wtList, Bool.and_eq_true] at h
          have ih := parse_render t w h.1 (renderTail fm ws ++ ')' :: rest)
            (delimStart_renderTail fm _ _ (delimStart_cons (by decide)))
          have it := parseTail_render ts ws h.2 (')' :: rest) (delimStart_cons (by decide))
          simp [parseVariants, renderPayload, dropPrefix, ih, it]
    · have e' : ¬ some n = some m := by simpa using e
      have e'' : ¬ n.chars = m.chars := fun hc => e (Ident.ext hc)
      simp only [e', if_false] at h
      have := parseVariants_render more v h n hn rest hd
      cases ts <;> (rw [parseVariants, if_neg e'']; exact this)
  | .named m fs :: more, v, h, n, hn, rest, hd => by
    simp only [wtVariants, hn] at h
    by_cases e : n = m
    · subst e
      simp only [if_true] at h
      cases v <;> simp at h
      rename_i n' fvs
      simp [Val.name?] at hn; subst hn
      match fs, fvs, h with
      | [], [], _ => simp [parseVariants, renderPayload]
      | [], _ :: _, h => simp [wtFields] at h
      | _ :: _, [], h => simp [wtFields] at h
      | (f, t) :: fs, (f', w) :: fws, h =>
        simp only [wtFields, Bool.and_eq_true, decide_eq_true_eq] at h
        obtain ⟨⟨hff, hw⟩, hfs⟩ := h
        subst hff
        have ih := parse_render t w hw (renderFieldsTail fm fws ++ ' ' :: '}' :: rest)
          (delimStart_renderFieldsTail fm _ _ (delimStart_cons (by decide)))
        have it := parseFieldsTail_render fs fws hfs (' ' :: '}' :: rest) (delimStart_cons (by decide))
        have hp := dropPrefix_append (' ' :: '{' :: ' ' :: (f.chars ++ [':', ' ']))
          (render fm w ++ (renderFieldsTail fm fws ++ ' ' :: '}' :: rest))
        simp only [List.cons_append, List.append_assoc, List.nil_append] at hp
        simp [parseVariants, renderPayload, hp, ih, it, dropPrefix]
    · have e' : ¬ some n = some m := by simpa using e
      have e'' : ¬ n.chars = m.chars := fun hc => e (Ident.ext hc)
      simp only [e', if_false] at h
      have := parseVariants_render more v h n hn rest hd
      match fs with
      | [] => rw [parseVariants, if_neg e'']; exact this
      | (f, t) :: fs => rw [parseVariants, if_neg e'']; exact this
/-- type-directed `, x: a, y: b` is read back -/
theorem parseFieldsTail_render : (fs : List (Ident × Ty)) → (fvs : List (Ident × Val F)) →
    wtFields fs fvs = true → (rest : Text) → delimStart rest = true →
    parseFieldsTail g fs (renderFieldsTail fm fvs ++ rest) = some (fvs, rest)
  | [], fvs, h, rest, hd => by
    cases fvs <;> simp [wtFields] at h
    simp [renderFieldsTail, parseFieldsTail]
  | (f, t) :: fs, fvs, h, rest, hd => by
    match fvs, h with
    | [], h => simp [wtFields] at h
    | (f', w) :: fws, h =>
      simp only [wtFields, Bool.and_eq_true, decide_eq_true_eq] at h
      obtain ⟨⟨hff, hw⟩, hfs⟩ := h
      subst hff
      have ih := parse_render t w hw (renderFieldsTail fm fws ++ rest)
        (delimStart_renderFieldsTail fm _ _ hd)
      have it := parseFieldsTail_render fs fws hfs rest hd
      have hp := dropPrefix_append (',' :: ' ' :: (f.chars ++ [':', ' ']))
        (render fm w ++ (renderFieldsTail fm fws ++ rest))
      simp only [List.cons_append, List.append_assoc, List.nil_append] at hp
      simp [renderFieldsTail, parseFieldsTail, hp, ih, it]
end

end

/-! ### Whole keys -/

/-- `|part|part…` for a fixed list of types -/
def parseKeyTail {F : Type} (g : Text → Option F) : List Ty → Text → Option (List (Val F))
  | [], _ => some []
  | t :: ts, s =>
    match dropPrefix ['|'] s with
    | none => none
    | some r =>
      match parse g t r with
      | none => none
      | some (v, r) => (parseKeyTail g ts r).map (fun vs => v :: vs)

/-- a whole key, part by part -/
def parseKey {F : Type} (g : Text → Option F) : List Ty → Text → Option (List (Val F))
  | [], _ => some []
  | t :: ts, s =>
    match parse g t s with
    | none => none
    | some (v, r) => (parseKeyTail g ts r).map (fun vs => v :: vs)

/-- `|part|part` is empty or starts with the separator -/
theorem delimStart_joinTail (ps : List Text) : delimStart (joinTail ['|'] ps) = true := by
  cases ps <;> simp [joinTail, delimStart, isDelim]

section
variable {F : Type} (fm : Fmt F) (hf : FloatOK fm.float) (g : Text → Option F)
  (hg : ∀ f, g (fm.float f) = some f)
include hf hg

/-- `|part|part…` of a well-typed list is read back part by part -/
theorem parseKeyTail_render (ts : List Ty) (vs : List (Val F)) (h : wtList ts vs = true) :
    parseKeyTail g ts (joinTail ['|'] (vs.map (render fm))) = some vs := by
  induction ts generalizing vs with
  | nil => cases vs <;> simp [wtList] at h; simp [parseKeyTail]
  | cons t ts ih =>
    cases vs with
    | nil => simp [wtList] at h
    | cons v vs =>
      simp only [wtList, Bool.and_eq_true] at h
      have h1 := parse_render fm hf g hg t v h.1 (joinTail ['|'] (vs.map (render fm)))
        (delimStart_joinTail _)
      simp [joinTail, parseKeyTail, dropPrefix, h1, ih vs h.2]

/-- a whole key of a well-typed list of parts is read back part by part -/
theorem parseKey_render (ts : List Ty) (vs : List (Val F)) (h : wtList ts vs = true) :
    parseKey g ts (joinWith ['|'] (vs.map (render fm))) = some vs := by
  cases ts with
  | nil => cases vs <;> simp [wtList] at h; simp [parseKey]
  | cons t ts =>
    cases vs with
    | nil => simp [wtList] at h
    | cons v vs =>
      simp only [wtList, Bool.and_eq_true] at h
      have h1 := parse_render fm hf g hg t v h.1 (joinTail ['|'] (vs.map (render fm)))
        (delimStart_joinTail _)
      have h2 := parseKeyTail_render fm hf g hg ts vs h.2
      simp [joinWith, parseKey, h1, h2]

end

/-- an injective printer has a reader (classically) -/
theorem FloatOK.exists_reader {F : Type} {rf : F → Text} (hf : FloatOK rf) :
    ∃ g : Text → Option F, ∀ f, g (rf f) = some f := by
  classical
  refine ⟨fun s => if h : ∃ f, rf f = s then some (Classical.choose h) else none, ?_⟩
  intro f
  have h : ∃ f', rf f' = rf f := ⟨f, rfl⟩
  simp only [dif_pos h]
  exact congrArg some (hf.inj _ _ (Classical.choose_spec h))

/-- parts of one signature: equal joined renderings, equal parts -/
theorem joinWith_render_injective {F : Type} (fm : Fmt F) (hf : FloatOK fm.float) (ts : List Ty)
    (a b : List (Val F)) (ha : wtList ts a = true) (hb : wtList ts b = true)
    (h : joinWith ['|'] (a.map (render fm)) = joinWith ['|'] (b.map (render fm))) : a = b := by
  obtain ⟨g, hg⟩ := hf.exists_reader
  have h1 := parseKey_render fm hf g hg ts a ha
  have h2 := parseKey_render fm hf g hg ts b hb
  rw [h, h2] at h1
  exact (Option.some.inj h1).symm

/-- receiver and arguments of a signature form a well-typed list of parts -/
theorem Sig.wt_keyVals {F : Type} (sig : Sig) (r : Option (Val F)) (a : List (Val F))
    (h : sig.wt r a = true) : wtList sig.tys (keyVals r a) = true := by
  obtain ⟨recv, args⟩ := sig
  cases recv <;> cases r <;> simp_all [Sig.wt, Sig.tys, keyVals, wtList]

/-- the list of parts determines receiver and arguments (for a fixed signature) -/
theorem Sig.keyVals_injective {F : Type} (sig : Sig) (ra rb : Option (Val F)) (a b : List (Val F))
    (ha : sig.wt ra a = true) (hb : sig.wt rb b = true) (h : keyVals ra a = keyVals rb b) :
    ra = rb ∧ a = b := by
  obtain ⟨recv, args⟩ := sig
  cases recv <;> cases ra <;> cases rb <;> simp_all [Sig.wt, keyVals]

/-- the float printer of the non-vacuity examples: `F := Nat`, printed in decimal -/
theorem floatOK_renderNat : FloatOK renderNat where
  inj x y h := by
    have h1 := parseNat_render x [] rfl
    have h2 := parseNat_render y [] rfl
    rw [h, h2] at h1
    simpa using h1.symm
  nonempty x := renderRadix_ne_nil _ _ _ _
  alphabet x c hc := by
    have := renderRadix_valid decVal 10 decDigit (by omega) decVal_decDigit x x (Nat.le_refl x) c hc
    simp only [decVal] at this
    split at this
    · rename_i hd; simp [isFloatChar, hd]
    · simp at this

/-! ### Without injectivity of the float printer: values up to the text of their floats -/

mutual
/-- replace every float leaf by its image under `h` -/
def Val.mapF {F G : Type} (h : F → G) : Val F → Val G
  | .nat n => .nat n
  | .int i => .int i
  | .bool b => .bool b
  | .char c => .char c
  | .str s => .str s
  | .float f => .float (h f)
  | .unit => .unit
  | .none => .none
  | .some v => .some (Val.mapF h v)
  | .vec vs => .vec (mapFList h vs)
  | .tuple vs => .tuple (mapFList h vs)
  | .unitV n => .unitV n
  | .tupleV n vs => .tupleV n (mapFList h vs)
  | .namedV n fs => .namedV n (mapFFields h fs)
def mapFList {F G : Type} (h : F → G) : List (Val F) → List (Val G)
  | [] => []
  | v :: vs => Val.mapF h v :: mapFList h vs
def mapFFields {F G : Type} (h : F → G) : List (Ident × Val F) → List (Ident × Val G)
  | [] => []
  | (f, v) :: fs => (f, Val.mapF h v) :: mapFFields h fs
end

/-- `mapFList` is `List.map` -/
theorem mapFList_eq_map {F G : Type} (h : F → G) (vs : List (Val F)) :
    mapFList h vs = vs.map (Val.mapF h) := by
  induction vs with
  | nil => simp [mapFList]
  | cons v vs ih => simp [mapFList, ih]

section
variable {F G : Type} (h : F → G) (fm : Fmt F) (gm : Fmt G) (hesc : gm.esc = fm.esc)
  (hfl : ∀ f, gm.float (h f) = fm.float f)
include hesc hfl

mutual
/-- rendering commutes with replacing floats, when the printers agree -/
theorem render_mapF : (v : Val F) → render gm (Val.mapF h v) = render fm v
  | .nat n => by simp [Val.mapF, render]
  | .int i => by simp [Val.mapF, render]
  | .bool b => by simp [Val.mapF, render]
  | .char c => by simp [Val.mapF, render, hesc]
  | .str s => by simp [Val.mapF, render, hesc]
  | .float f => by simp [Val.mapF, render, hfl]
  | .unit => by simp [Val.mapF, render]
  | .none => by simp [Val.mapF, render]
  | .some v => by simp [Val.mapF, render, render_mapF v]
  | .vec [] => by simp [Val.mapF, mapFList, render]
  | .vec (v :: vs) => by simp [Val.mapF, mapFList, render, render_mapF v, renderTail_mapF vs]
  | .tuple [] => by simp [Val.mapF, mapFList, render]
  | .tuple [v] => by simp [Val.mapF, mapFList, render, render_mapF v]
  | .tuple (v :: w :: vs) => by
    have := renderTail_mapF (w :: vs)
    simp only [mapFList] at this
    simp [Val.mapF, mapFList, render, render_mapF v, this]
  | .unitV n => by simp [Val.mapF, render]
  | .tupleV n [] => by simp [Val.mapF, mapFList, render]
  | .tupleV n (v :: vs) => by simp [Val.mapF, mapFList, render, render_mapF v, renderTail_mapF vs]
  | .namedV n [] => by simp [Val.mapF, mapFFields, render]
  | .namedV n ((f, v) :: fs) => by
    simp [Val.mapF, mapFFields, render, render_mapF v, renderFieldsTail_mapF fs]
/-- `render_mapF` for `, a, b` -/
theorem renderTail_mapF : (vs : List (Val F)) → renderTail gm (mapFList h vs) = renderTail fm vs
  | [] => by simp [mapFList, renderTail]
  | v :: vs => by simp [mapFList, renderTail, render_mapF v, renderTail_mapF vs]
/-- `render_mapF` for `, x: a` -/
theorem renderFieldsTail_mapF : (fs : List (Ident × Val F)) →
    renderFieldsTail gm (mapFFields h fs) = renderFieldsTail fm fs
  | [] => by simp [mapFFields, renderFieldsTail]
  | (f, v) :: fs => by simp [mapFFields, renderFieldsTail, render_mapF v, renderFieldsTail_mapF fs]
end

end

/-- replacing floats keeps the constructor name -/
theorem name?_mapF {F G : Type} (h : F → G) (v : Val F) : (Val.mapF h v).name? = v.name? := by
  cases v <;> simp [Val.mapF, Val.name?]

mutual
/-- replacing floats keeps well-typedness -/
theorem wt_mapF {F G : Type} (h : F → G) : (t : Ty) → (v : Val F) → wt t (Val.mapF h v) = wt t v
  | .uint, v => by cases v <;> simp [Val.mapF, wt]
  | .sint, v => by cases v <;> simp [Val.mapF, wt]
  | .bool, v => by cases v <;> simp [Val.mapF, wt]
  | .char, v => by cases v <;> simp [Val.mapF, wt]
  | .str, v => by cases v <;> simp [Val.mapF, wt]
  | .float, v => by cases v <;> simp [Val.mapF, wt]
  | .unit, v => by cases v <;> simp [Val.mapF, wt]
  | .option t, v => by
    cases v <;> simp [Val.mapF, wt]
    exact wt_mapF h t _
  | .vec t, v => by
    cases v <;> simp [Val.mapF, wt]
    rename_i vs
    rw [mapFList_eq_map]
    induction vs with
    | nil => simp
    | cons w ws ih => simp [wt_mapF h t w, ih]
  | .tuple ts, v => by
    cases v <;> simp [Val.mapF, wt]
    exact wtList_mapF h ts _
  | .adt vars, v => by
    simp only [wt]
    exact wtVariants_mapF h vars v
/-- `wt_mapF` for lists -/
theorem wtList_mapF {F G : Type} (h : F → G) : (ts : List Ty) → (vs : List (Val F)) →
    wtList ts (mapFList h vs) = wtList ts vs
  | [], vs => by cases vs <;> simp [mapFList, wtList]
  | t :: ts, vs => by
    cases vs with
    | nil => simp [mapFList, wtList]
    | cons v vs => simp [mapFList, wtList, wt_mapF h t v, wtList_mapF h ts vs]
/-- `wt_mapF` for user types -/
theorem wtVariants_mapF {F G : Type} (h : F → G) : (vars : List Variant) → (v : Val F) →
    wtVariants vars (Val.mapF h v) = wtVariants vars v
  | [], v => by simp [wtVariants]
  | .unit n :: more, v => by
    simp only [wtVariants, name?_mapF, wtVariants_mapF h more v]
    cases v <;> simp [Val.mapF]
  | .tuple n ts :: more, v => by
    simp only [wtVariants, name?_mapF, wtVariants_mapF h more v]
    cases v <;> simp [Val.mapF]
    rw [wtList_mapF h ts _]
  | .named n fs :: more, v => by
    simp only [wtVariants, name?_mapF, wtVariants_mapF h more v]
    cases v <;> simp [Val.mapF]
    rw [wtFields_mapF h fs _]
/-- `wt_mapF` for fields -/
theorem wtFields_mapF {F G : Type} (h : F → G) : (fs : List (Ident × Ty)) →
    (fvs : List (Ident × Val F)) → wtFields fs (mapFFields h fvs) = wtFields fs fvs
  | [], fvs => by cases fvs <;> simp [mapFFields, wtFields]
  | (f, t) :: fs, fvs => by
    match fvs with
    | [] => simp [mapFFields, wtFields]
    | (f', v) :: fvs => simp [mapFFields, wtFields, wt_mapF h t v, wtFields_mapF h fs fvs]
end

/-- the text of a float: a non-empty string over the float alphabet -/
def FloatText : Type := { t : Text // t ≠ [] ∧ ∀ c ∈ t, isFloatChar c = true }

/-- on float texts the identity printer satisfies the float assumptions -/
theorem floatOK_text : FloatOK (fun x : FloatText => x.val) where
  inj x y h := Subtype.ext h
  nonempty x := x.property.1
  alphabet x := x.property.2

mutual
/-- replacing floats twice is replacing them once by the composition -/
theorem mapF_comp {F G H : Type} (h : F → G) (k : G → H) :
    (v : Val F) → Val.mapF k (Val.mapF h v) = Val.mapF (fun x => k (h x)) v
  | .nat n => by simp [Val.mapF]
  | .int i => by simp [Val.mapF]
  | .bool b => by simp [Val.mapF]
  | .char c => by simp [Val.mapF]
  | .str s => by simp [Val.mapF]
  | .float f => by simp [Val.mapF]
  | .unit => by simp [Val.mapF]
  | .none => by simp [Val.mapF]
  | .some v => by simp [Val.mapF, mapF_comp h k v]
  | .vec vs => by simp [Val.mapF, mapFList_comp h k vs]
  | .tuple vs => by simp [Val.mapF, mapFList_comp h k vs]
  | .unitV n => by simp [Val.mapF]
  | .tupleV n vs => by simp [Val.mapF, mapFList_comp h k vs]
  | .namedV n fs => by simp [Val.mapF, mapFFields_comp h k fs]
/-- `mapF_comp` for lists -/
theorem mapFList_comp {F G H : Type} (h : F → G) (k : G → H) :
    (vs : List (Val F)) → mapFList k (mapFList h vs) = mapFList (fun x => k (h x)) vs
  | [] => by simp [mapFList]
  | v :: vs => by simp [mapFList, mapF_comp h k v, mapFList_comp h k vs]
/-- `mapF_comp` for fields -/
theorem mapFFields_comp {F G H : Type} (h : F → G) (k : G → H) :
    (fs : List (Ident × Val F)) → mapFFields k (mapFFields h fs) = mapFFields (fun x => k (h x)) fs
  | [] => by simp [mapFFields]
  | (f, v) :: fs => by simp [mapFFields, mapF_comp h k v, mapFFields_comp h k fs]
end

/-- keys are unchanged by replacing floats, when the printers agree -/
theorem keyOf_mapF {F G : Type} (h : F → G) (fm : Fmt F) (gm : Fmt G) (hesc : gm.esc = fm.esc)
    (hfl : ∀ f, gm.float (h f) = fm.float f) (r : Option (Val F)) (a : List (Val F)) :
    keyOf gm (r.map (Val.mapF h)) (a.map (Val.mapF h)) = keyOf fm r a := by
  have hv : keyVals (r.map (Val.mapF h)) (a.map (Val.mapF h)) = (keyVals r a).map (Val.mapF h) := by
    cases r <;> simp [keyVals]
  simp only [keyOf, hv, List.map_map]
  congr 1
  apply List.map_congr_left
  intro v _
  exact render_mapF h fm gm hesc hfl v

/-- signature well-typedness is unchanged by replacing floats -/
theorem Sig.wt_mapF {F G : Type} (h : F → G) (sig : Sig) (r : Option (Val F)) (a : List (Val F)) :
    sig.wt (r.map (Val.mapF h)) (a.map (Val.mapF h)) = sig.wt r a := by
  obtain ⟨recv, args⟩ := sig
  have := wtList_mapF h args a
  rw [mapFList_eq_map] at this
  cases recv <;> cases r <;> simp [Sig.wt, this, Keys.wt_mapF]

end Cachelito.Keys
