/-
  Cachelito.StatsReg — the statistics registry AS A DATA STRUCTURE
  (`cachelito-core/src/stats_registry.rs`, `cachelito-core/src/stats.rs`).

  The real thing is a process-global `RwLock<HashMap<String, &'static Lazy<CacheStats>>>`: an association
  table from names to REFERENCES to counter cells.  A cell (`CacheStats`: two `AtomicU64`) is owned by the
  cache it belongs to — the macros emit one `static … : Lazy<CacheStats>` per global / async function, hand
  `&STATIC` to `stats_registry::register` on the first call and pass the same static to the cache engine, which
  calls `record_hit` / `record_miss` on it.  So a later `record_hit` on the cache's own cell is visible through
  `stats_registry::get(name)`, two names may point to ONE cell, and re-registering a name only replaces the
  reference: the old cell stays where it is, with its counters, but is no longer reachable under that name.

  `Cachelito.System` abstracts all of this away (a map "registered function → counters of its cache").  This file
  models what the code stores, so that
    * the abstraction used by `System` can be PROVED to be what the table computes for the registration
      sequences the macros produce (`Cachelito.C15r`), and
    * the real `stats_registry` + `CacheStats` can be driven directly (arbitrary histories incl. re-registration
      with another cell, one cell under two names, `clear`) and compared with this model (`stats_diff`, driver
      `stats`).

  Memory is a total function `Cell → Counters` (a cell nobody touched reads `0 / 0`, as `CacheStats::new()`);
  a cell is identified by a natural number (its address).  `HashMap` is a list without duplicate keys;
  iteration order is not modelled (`list` is compared as a sorted list).  `u64` wrap-around of the counters
  (2^64 recorded lookups) is not modelled.  `hit_rate` / `miss_rate` are the pair (numerator, denominator) the
  floating-point quotient is computed from (`0.0` when the denominator is 0).
-/
import Cachelito.Registry

namespace Cachelito.StatsReg
open Cachelito.Registry (setKey getKey)

/-- the observable content of one `CacheStats` -/
structure Counters where
  hits : Nat
  misses : Nat
  deriving DecidableEq, Repr

/-- `CacheStats::new()` -/
def Counters.zero : Counters := ⟨0, 0⟩
/-- `total_accesses` -/
def Counters.total (k : Counters) : Nat := k.hits + k.misses
/-- `hit_rate` = `hits as f64 / total as f64`, `0.0` if `total == 0`: (numerator, denominator) -/
def Counters.hitRate (k : Counters) : Nat × Nat := (k.hits, k.total)
/-- `miss_rate`: (numerator, denominator) -/
def Counters.missRate (k : Counters) : Nat × Nat := (k.misses, k.total)

/-- a `&'static Lazy<CacheStats>`: the address of a counter cell -/
abbrev Cell := Nat

structure Reg where
  /-- `STATS_REGISTRY`: name → reference to a cell -/
  table : List (String × Cell) := []
  /-- the memory the references point into (the caches' own statics) -/
  cells : Cell → Counters := fun _ => Counters.zero

/-- write one cell -/
def Reg.write (r : Reg) (c : Cell) (k : Counters) : Reg :=
  { r with cells := fun c' => if c' = c then k else r.cells c' }

/-- `CacheStats::reset` through a reference: the heap with that cell zeroed (what the translated `stats.reset()` does) -/
def heapReset (cells : Cell → Counters) (c : Cell) : Cell → Counters :=
  fun c' => if c' = c then Counters.zero else cells c'

inductive Op
  /- `stats_registry` -/
  | register (name : String) (c : Cell)   -- `register(name, &CELL_c)`
  | get (name : String)                   -- `get(name)`: a cloned snapshot
  | getRef (name : String)                -- `get_ref(name)`: the reference itself (which cell) and what is read through it
  | reset (name : String)                 -- `reset(name)`
  | clear
  | list
  /- `CacheStats` methods called on a cell directly (by the cache that owns it, or through `get_ref`) -/
  | recordHit (c : Cell)
  | recordMiss (c : Cell)
  | cellReset (c : Cell)                  -- `CacheStats::reset`
  | hits (c : Cell)
  | misses (c : Cell)
  | total (c : Cell)                      -- `total_accesses`
  | hitRate (c : Cell)
  | missRate (c : Cell)
  deriving DecidableEq, Repr

inductive Out
  | unit
  | snap (s : Option Counters)            -- `Option<CacheStats>` (clone)
  | ref (r : Option (Cell × Counters))    -- `Option<&'static CacheStats>`: the cell and its content
  | flag (b : Bool)
  | names (l : List String)
  | num (n : Nat)
  | ratio (num den : Nat)
  deriving DecidableEq, Repr

def step (r : Reg) : Op → Reg × Out
  | .register name c => ({ r with table := setKey r.table name c }, .unit)
  | .get name => (r, .snap ((getKey r.table name).map r.cells))
  | .getRef name => (r, .ref ((getKey r.table name).map (fun c => (c, r.cells c))))
  | .reset name =>
    match getKey r.table name with
    | some c => (r.write c Counters.zero, .flag true)
    | none => (r, .flag false)
  | .clear => ({ r with table := [] }, .unit)
  | .list => (r, .names (r.table.map (·.1)))
  | .recordHit c => (r.write c { r.cells c with hits := (r.cells c).hits + 1 }, .unit)
  | .recordMiss c => (r.write c { r.cells c with misses := (r.cells c).misses + 1 }, .unit)
  | .cellReset c => (r.write c Counters.zero, .unit)
  | .hits c => (r, .num (r.cells c).hits)
  | .misses c => (r, .num (r.cells c).misses)
  | .total c => (r, .num (r.cells c).total)
  | .hitRate c => (r, .ratio (r.cells c).hitRate.1 (r.cells c).hitRate.2)
  | .missRate c => (r, .ratio (r.cells c).missRate.1 (r.cells c).missRate.2)

def run : Reg → List Op → Reg × List Out
  | r, [] => (r, [])
  | r, op :: ops =>
    let (r1, o) := step r op
    let (r2, os) := run r1 ops
    (r2, o :: os)

def runState (r : Reg) (ops : List Op) : Reg := ops.foldl (fun r op => (step r op).1) r

/-! ### What the macros do (`cachelito-macros/src/lib.rs:382-393`, `cachelito-async-macros/src/lib.rs:506-513`)

  On the FIRST execution of the global branch of a `#[cache]` function (`Once`) resp. of a `#[cache_async]`
  function (`OnceCell`) the function's own static is registered under the `name` attribute, or the function name
  when there is none.  The thread-local branch registers nothing (`generate_thread_local_branch` has no
  statistics at all).  Every lookup then calls `record_hit` or `record_miss` on that static. -/

/-- the statistics operations of one call of a global / async function whose static is cell `i`:
    registration if it is the first call, then one recorded lookup -/
def callOps (i : Cell) (name : String) (first hit : Bool) : List Op :=
  (if first then [.register name i] else []) ++ [if hit then .recordHit i else .recordMiss i]

end Cachelito.StatsReg
