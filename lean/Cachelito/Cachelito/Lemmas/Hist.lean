/-
  History-level helpers (core Lean only): what a history says about the clock and about the latest
  store of a key, how every engine operation transforms the *entries* of the store (removals only
  delete, stores replace, hits keep value and birth), the counters and the clock, and the two
  invariants built on that:

  * `TInv`  — every stored birth is the `stamp` of some clock reading not in the future;
  * `HInv`  — every stored entry carries the value and the (stamped) clock reading of the LATEST
              store of its key in the history.

  Used by C01 (last store wins), C06 (TTL) and C15 (statistics).  Everything lives in the namespace
  `Cachelito.Hist`.
-/
import Cachelito.Lemmas.Inv

set_option linter.unusedSectionVars false
set_option linter.unusedSimpArgs false
set_option linter.unusedVariables false

namespace Cachelito.Hist
open Cachelito
variable {K V S : Type} [DecidableEq K]

/-! ### Pure functions of a history -/

/-- the clock advance of one operation -/
def tickOf : Op K V → Nat
  | .tick ms => ms
  | _ => 0

/-- clock reading after a history started at clock 0 -/
def clockOf (h : List (Op K V × List Nat)) : Nat := (h.map (fun p => tickOf p.1)).sum

/-- the value an operation stores under `k`, if it is a store for `k` -/
def storesOf (k : K) : Op K V → Option V
  | .insert k' v => if k' = k then some v else none
  | .insertMem k' v => if k' = k then some v else none
  | _ => none

/-- latest store of `k` in a history given latest-first: value and clock reading at that store -/
def lastStoreRev (k : K) : List (Op K V × List Nat) → Option (V × Nat)
  | [] => none
  | p :: older =>
    match storesOf k p.1 with
    | some v => some (v, clockOf older)
    | none => lastStoreRev k older

/-- latest `insert k ·` / `insertMem k ·` of a history (oldest first): value and clock reading -/
def lastStore (h : List (Op K V × List Nat)) (k : K) : Option (V × Nat) := lastStoreRev k h.reverse

/-- the value of the latest store of `k` in the history -/
def lastStored (h : List (Op K V × List Nat)) (k : K) : Option V := (lastStore h k).map (·.1)

/-- the clock reading (ms) at the latest store of `k` in the history -/
def lastStoredAt (h : List (Op K V × List Nat)) (k : K) : Option Nat := (lastStore h k).map (·.2)

/-- is the operation a lookup -/
def isGet : Op K V → Bool
  | .get _ => true
  | _ => false

/-- output is a served value -/
def isHit : Out V → Bool
  | .val (some _) => true
  | _ => false

/-- output is a lookup that served nothing -/
def isMiss : Out V → Bool
  | .val none => true
  | _ => false

/-- projection of an output to a comparable value (`Out` has no `DecidableEq`) -/
def outVal : Out V → Option (Option V)
  | .val o => some o
  | .unit => none

theorem clockOf_nil : clockOf ([] : List (Op K V × List Nat)) = 0 := rfl

theorem clockOf_append (a b : List (Op K V × List Nat)) : clockOf (a ++ b) = clockOf a + clockOf b := by
  simp [clockOf, List.sum_append]

theorem clockOf_snoc (a : List (Op K V × List Nat)) (op : Op K V) (rs : List Nat) :
    clockOf (a ++ [(op, rs)]) = clockOf a + tickOf op := by
  simp [clockOf, List.sum_append]

theorem clockOf_reverse (a : List (Op K V × List Nat)) : clockOf a.reverse = clockOf a := by
  unfold clockOf
  rw [List.map_reverse, List.sum_reverse]

theorem clockOf_take_le (a : List (Op K V × List Nat)) (i : Nat) : clockOf (a.take i) ≤ clockOf a := by
  have := clockOf_append (a.take i) (a.drop i)
  rw [List.take_append_drop] at this
  omega

/-- appending one operation: a store for `k` becomes the latest one, anything else changes nothing -/
theorem lastStore_snoc (h : List (Op K V × List Nat)) (op : Op K V) (rs : List Nat) (k : K) :
    lastStore (h ++ [(op, rs)]) k =
      match storesOf k op with
      | some v => some (v, clockOf h)
      | none => lastStore h k := by
  unfold lastStore
  rw [List.reverse_append]
  simp only [List.reverse_cons, List.reverse_nil, List.nil_append, List.singleton_append, lastStoreRev,
    clockOf_reverse]

theorem lastStoreRev_time_le (k : K) (h : List (Op K V × List Nat)) (v : V) (t : Nat)
    (hl : lastStoreRev k h = some (v, t)) : t ≤ clockOf h := by
  induction h with
  | nil => simp [lastStoreRev] at hl
  | cons p older ih =>
    have hc : clockOf (p :: older) = tickOf p.1 + clockOf older := by simp [clockOf]
    simp only [lastStoreRev] at hl
    cases hs : storesOf k p.1 with
    | none => rw [hs] at hl; have := ih hl; omega
    | some v' =>
      rw [hs] at hl
      simp only [Option.some.injEq, Prod.mk.injEq] at hl
      omega

/-- the latest store of a key happened at a clock reading not after the end of the history -/
theorem lastStore_time_le (h : List (Op K V × List Nat)) (k : K) (v : V) (t : Nat)
    (hl : lastStore h k = some (v, t)) : t ≤ clockOf h := by
  have := lastStoreRev_time_le k h.reverse v t hl
  rwa [clockOf_reverse] at this

theorem storesOf_eq_some_iff (k : K) (op : Op K V) (v : V) :
    storesOf k op = some v ↔ op = .insert k v ∨ op = .insertMem k v := by
  cases op with
  | insert k' v' =>
    simp only [storesOf]
    by_cases hk : k' = k
    · subst hk; simp
    · simp [hk]
  | insertMem k' v' =>
    simp only [storesOf]
    by_cases hk : k' = k
    · subst hk; simp
    · simp [hk]
  | get k' => simp [storesOf]
  | clear => simp [storesOf]
  | invalidateWith p => simp [storesOf]
  | tick ms => simp [storesOf]

theorem lastStoreRev_eq_some_iff (k : K) (l : List (Op K V × List Nat)) (v : V) (t : Nat) :
    lastStoreRev k l = some (v, t) ↔
      ∃ newer older op rs, l = newer ++ (op, rs) :: older ∧ storesOf k op = some v ∧
        (∀ p ∈ newer, storesOf k p.1 = none) ∧ t = clockOf older := by
  induction l with
  | nil => simp [lastStoreRev]
  | cons p l ih =>
    obtain ⟨op0, rs0⟩ := p
    simp only [lastStoreRev]
    cases hs : storesOf k op0 with
    | some v' =>
      simp only [Option.some.injEq, Prod.mk.injEq]
      constructor
      · rintro ⟨h1, h2⟩
        subst h1
        exact ⟨[], l, op0, rs0, rfl, hs, by simp, h2.symm⟩
      · rintro ⟨newer, older, op, rs, h1, h2, h3, h4⟩
        cases newer with
        | nil =>
          simp only [List.nil_append, List.cons.injEq, Prod.mk.injEq] at h1
          obtain ⟨⟨h1a, _⟩, h1b⟩ := h1
          subst h1a; subst h1b
          rw [hs] at h2
          exact ⟨Option.some.inj h2, h4.symm⟩
        | cons n ns =>
          simp only [List.cons_append, List.cons.injEq] at h1
          have := h3 n List.mem_cons_self
          rw [← h1.1] at this
          simp only at this
          rw [hs] at this; cases this
    | none =>
      simp only
      rw [ih]
      constructor
      · rintro ⟨newer, older, op, rs, h1, h2, h3, h4⟩
        refine ⟨(op0, rs0) :: newer, older, op, rs, by rw [h1]; rfl, h2, ?_, h4⟩
        intro p hp
        rcases List.mem_cons.mp hp with hp | hp
        · subst hp; exact hs
        · exact h3 p hp
      · rintro ⟨newer, older, op, rs, h1, h2, h3, h4⟩
        cases newer with
        | nil =>
          simp only [List.nil_append, List.cons.injEq, Prod.mk.injEq] at h1
          obtain ⟨⟨h1a, _⟩, h1b⟩ := h1
          subst h1a
          rw [hs] at h2; cases h2
        | cons n ns =>
          simp only [List.cons_append, List.cons.injEq] at h1
          exact ⟨ns, older, op, rs, h1.2, h2, fun p hp => h3 p (List.mem_cons_of_mem _ hp), h4⟩

/-- **meaning of `lastStore`**: `lastStore h k = some (v, t)` iff the history splits as
    `pre ++ store :: post` where `store` is `insert k v` or `insertMem k v`, no operation of `post`
    stores under `k`, and `t` is the clock reading after `pre` -/
theorem lastStore_eq_some_iff (h : List (Op K V × List Nat)) (k : K) (v : V) (t : Nat) :
    lastStore h k = some (v, t) ↔
      ∃ pre post op rs, h = pre ++ (op, rs) :: post ∧ (op = .insert k v ∨ op = .insertMem k v) ∧
        (∀ p ∈ post, storesOf k p.1 = none) ∧ t = clockOf pre := by
  unfold lastStore
  rw [lastStoreRev_eq_some_iff]
  constructor
  · rintro ⟨newer, older, op, rs, h1, h2, h3, h4⟩
    refine ⟨older.reverse, newer.reverse, op, rs, ?_, (storesOf_eq_some_iff k op v).mp h2, ?_, ?_⟩
    · have := congrArg List.reverse h1
      simpa using this
    · intro p hp; exact h3 p (List.mem_reverse.mp hp)
    · rw [clockOf_reverse]; exact h4
  · rintro ⟨pre, post, op, rs, h1, h2, h3, h4⟩
    refine ⟨post.reverse, pre.reverse, op, rs, ?_, (storesOf_eq_some_iff k op v).mpr h2, ?_, ?_⟩
    · rw [h1]; simp
    · intro p hp; exact h3 p (List.mem_reverse.mp hp)
    · rw [clockOf_reverse]; exact h4

theorem lastStored_eq_some_iff (h : List (Op K V × List Nat)) (k : K) (v : V) :
    lastStored h k = some v ↔
      ∃ pre post op rs, h = pre ++ (op, rs) :: post ∧ (op = .insert k v ∨ op = .insertMem k v) ∧
        (∀ p ∈ post, storesOf k p.1 = none) := by
  unfold lastStored
  constructor
  · intro hl
    cases hs : lastStore h k with
    | none => rw [hs] at hl; cases hl
    | some r =>
      obtain ⟨v', t⟩ := r
      rw [hs] at hl
      simp only [Option.map_some, Option.some.injEq] at hl
      subst hl
      obtain ⟨pre, post, op, rs, h1, h2, h3, _⟩ := (lastStore_eq_some_iff h k v' t).mp hs
      exact ⟨pre, post, op, rs, h1, h2, h3⟩
  · rintro ⟨pre, post, op, rs, h1, h2, h3⟩
    rw [(lastStore_eq_some_iff h k v (clockOf pre)).mpr ⟨pre, post, op, rs, h1, h2, h3, rfl⟩]
    rfl

/-! ### `run`: prefixes and single outputs -/

theorem run_append (cfg : Cfg) (tl : Tlru S) (size : V → Nat) (s : State K V) (a b : List (Op K V × List Nat)) :
    run cfg tl size s (a ++ b) =
      ((run cfg tl size (run cfg tl size s a).1 b).1,
       (run cfg tl size s a).2 ++ (run cfg tl size (run cfg tl size s a).1 b).2) := by
  induction a generalizing s with
  | nil => simp [run]
  | cons x a ih =>
    obtain ⟨op, rs⟩ := x
    simp only [List.cons_append, run, ih]

theorem run_snoc_state (cfg : Cfg) (tl : Tlru S) (size : V → Nat) (s : State K V)
    (a : List (Op K V × List Nat)) (op : Op K V) (rs : List Nat) :
    (run cfg tl size s (a ++ [(op, rs)])).1 = (step cfg tl size rs (run cfg tl size s a).1 op).1 := by
  rw [run_append]; rfl

theorem run_length (cfg : Cfg) (tl : Tlru S) (size : V → Nat) (s : State K V) (ops : List (Op K V × List Nat)) :
    (run cfg tl size s ops).2.length = ops.length := by
  induction ops generalizing s with
  | nil => rfl
  | cons x ops ih =>
    obtain ⟨op, rs⟩ := x
    simp only [run, List.length_cons, ih]

/-- the `i`-th output of a run is the output of the `i`-th operation executed in the state reached by
    the first `i` operations -/
theorem run_out_at (cfg : Cfg) (tl : Tlru S) (size : V → Nat) (s : State K V) (ops : List (Op K V × List Nat))
    (i : Nat) (op : Op K V) (rs : List Nat) (hi : ops[i]? = some (op, rs)) :
    (run cfg tl size s ops).2[i]? = some (step cfg tl size rs (run cfg tl size s (ops.take i)).1 op).2 := by
  induction ops generalizing s i with
  | nil => simp at hi
  | cons x ops ih =>
    obtain ⟨op', rs'⟩ := x
    cases i with
    | zero =>
      simp only [List.getElem?_cons_zero, Option.some.injEq, Prod.mk.injEq] at hi
      obtain ⟨h1, h2⟩ := hi
      subst h1; subst h2
      simp [run]
    | succ i =>
      simp only [List.getElem?_cons_succ] at hi
      simp only [run, List.getElem?_cons_succ, List.take_succ_cons]
      exact ih _ i hi

theorem take_succ_of_getElem? {α : Type} (l : List α) (i : Nat) (a : α) (h : l[i]? = some a) :
    l.take (i + 1) = l.take i ++ [a] := by
  rw [List.take_add_one, h]; rfl

/-- the state after `i+1` operations is one `step` away from the state after `i` operations -/
theorem run_take_succ (cfg : Cfg) (tl : Tlru S) (size : V → Nat) (s : State K V) (ops : List (Op K V × List Nat))
    (i : Nat) (op : Op K V) (rs : List Nat) (hi : ops[i]? = some (op, rs)) :
    (run cfg tl size s (ops.take (i + 1))).1 = (step cfg tl size rs (run cfg tl size s (ops.take i)).1 op).1 := by
  rw [take_succ_of_getElem? ops i (op, rs) hi, run_snoc_state]

/-! ### Lookups after removals and stores -/

theorem lookup_eraseKey_some {k k' : K} {m : Store K V} {e : Entry V}
    (h : lookup k' (eraseKey k m) = some e) : k' ≠ k ∧ lookup k' m = some e := by
  by_cases hk : k' = k
  · subst hk; rw [lookup_eraseKey_self] at h; cases h
  · rw [lookup_eraseKey_ne hk] at h; exact ⟨hk, h⟩

theorem lookup_put (k k' : K) (e : Entry V) (m : Store K V) :
    lookup k' (put k e m) = if k' = k then some e else lookup k' m := by
  by_cases hk : k' = k
  · subst hk; rw [lookup_put_self, if_pos rfl]
  · rw [lookup_put_ne hk, if_neg hk]

theorem lookup_filter_key (p : K → Bool) (k : K) (m : Store K V) :
    lookup k (m.filter (fun e => p e.1)) = if p k then lookup k m else none := by
  induction m with
  | nil => simp [lookup]
  | cons a m ih =>
    obtain ⟨x, e⟩ := a
    by_cases hx : x = k
    · subst hx
      by_cases hp : p x = true
      · simp [List.filter_cons, hp, lookup]
      · simp only [Bool.not_eq_true] at hp
        simp [List.filter_cons, hp, lookup, ih]
    · by_cases hp : p x = true
      · simp [List.filter_cons, hp, lookup, hx, ih]
      · simp only [Bool.not_eq_true] at hp
        simp [List.filter_cons, hp, lookup, hx, ih]

theorem mem_keys_of_lookup {k : K} {m : Store K V} {e : Entry V} (h : lookup k m = some e) : k ∈ keys m := by
  apply Classical.byContradiction; intro hn
  rw [(lookup_eq_none_iff _ _).mpr hn] at h; cases h

/-- `m'` holds only entries of `m`, unchanged -/
def Sub (m' m : Store K V) : Prop := ∀ k e, lookup k m' = some e → lookup k m = some e

/-- `m'` holds only entries of `m` with the same value and birth (hit counters may differ) -/
def SubVB (m' m : Store K V) : Prop :=
  ∀ k e', lookup k m' = some e' → ∃ e, lookup k m = some e ∧ e'.val = e.val ∧ e'.birth = e.birth

/-- `m'` holds, under `k`, nothing but the fresh entry `e0`, and under other keys only entries of `m` -/
def Stored (k : K) (e0 : Entry V) (m m' : Store K V) : Prop :=
  ∀ k' e', lookup k' m' = some e' → (k' = k ∧ e' = e0) ∨ (k' ≠ k ∧ lookup k' m = some e')

theorem Sub.refl (m : Store K V) : Sub m m := fun _ _ h => h

theorem Sub.trans {a b c : Store K V} (h1 : Sub a b) (h2 : Sub b c) : Sub a c :=
  fun k e h => h2 k e (h1 k e h)

theorem Sub.toVB {a b : Store K V} (h : Sub a b) : SubVB a b :=
  fun k e hl => ⟨e, h k e hl, rfl, rfl⟩

theorem Sub.eraseKey (k : K) (m : Store K V) : Sub (eraseKey k m) m :=
  fun _ _ h => (lookup_eraseKey_some h).2

theorem Sub.keys {a b : Store K V} (h : Sub a b) : ∀ x, x ∈ keys a → x ∈ keys b := by
  intro x hx
  obtain ⟨e, he⟩ := lookup_isSome_of_mem_keys hx
  exact mem_keys_of_lookup (h x e he)

theorem Stored.of_sub_put {k : K} {e0 : Entry V} {m m' : Store K V} (h : Sub m' (put k e0 m)) :
    Stored k e0 m m' := by
  intro k' e' hl
  have := h k' e' hl
  rw [lookup_put] at this
  by_cases hk : k' = k
  · rw [if_pos hk] at this; left; exact ⟨hk, (Option.some.inj this).symm⟩
  · rw [if_neg hk] at this; right; exact ⟨hk, this⟩

theorem Stored.put_of_sub {k : K} {e0 : Entry V} {m m2 : Store K V} (h : Sub m2 m) :
    Stored k e0 m (put k e0 m2) := by
  intro k' e' hl
  rw [lookup_put] at hl
  by_cases hk : k' = k
  · rw [if_pos hk] at hl; left; exact ⟨hk, (Option.some.inj hl).symm⟩
  · rw [if_neg hk] at hl; right; exact ⟨hk, h k' e' hl⟩

theorem Stored.of_sub_not_mem {k : K} {e0 : Entry V} {m m' : Store K V} (h : Sub m' m) (hk : k ∉ keys m') :
    Stored k e0 m m' := by
  intro k' e' hl
  right
  refine ⟨?_, h k' e' hl⟩
  intro hh; subst hh; exact hk (mem_keys_of_lookup hl)

theorem Evicted.sub {m : Store K V} {q : List K} {r : Store K V × List K × Bool} (he : Evicted m q r) :
    Sub r.1 m := by
  rcases he with ⟨_, k, _, h1, _⟩ | ⟨_, _, h1, _⟩
  · rw [h1]; exact Sub.eraseKey k m
  · rw [h1]; exact Sub.refl m

theorem limitStep_sub {m : Store K V} {q : List K} (h : InvMQ m q) (cfg : Cfg) (tl : Tlru S) (now r : Nat) :
    Sub (limitStep cfg tl now r m q).1 m := by
  unfold limitStep
  cases cfg.limit with
  | none => exact Sub.refl m
  | some n =>
    simp only
    by_cases ho : overLimit cfg n m q = true <;> simp only [ho, if_true, if_false, Bool.false_eq_true]
    · exact Evicted.sub (evictLimit_spec h cfg tl now r)
    · exact Sub.refl m

theorem memLoop_sub (cfg : Cfg) (tl : Tlru S) (size : V → Nat) (now maxM extra : Nat)
    (fuel : Nat) (rs : List Nat) {m : Store K V} {q : List K} (h : InvMQ m q) :
    Sub (memLoop cfg tl size now maxM extra fuel rs m q).1 m := by
  induction fuel generalizing rs m q with
  | zero => exact Sub.refl m
  | succ fuel ih =>
    simp only [memLoop]
    split
    · exact Sub.refl m
    · have hs := evictMem_spec h cfg tl now (rs.headD 0)
      have hi := hs.inv h
      have hk := Evicted.sub hs
      generalize evictMem cfg tl now (rs.headD 0) m q = r at hs hi hk
      obtain ⟨m', q', ev⟩ := r
      simp only
      cases ev
      · exact hk
      · exact Sub.trans (ih rs.tail hi) hk

theorem asyncDrop_sub (m : Store K V) (q : List K) (k : K) :
    Sub (if hasKey k m then (eraseKey k m, q.filter (fun x => x ≠ k)) else (m, q)).1 m := by
  split
  · exact Sub.eraseKey k m
  · exact Sub.refl m

/-! ### What each operation does to the entries, the clock and the counters -/

theorem removeBoth_store (cfg : Cfg) (k : K) (m : Store K V) (q : List K) :
    (removeBoth cfg k m q).1 = eraseKey k m := by
  unfold removeBoth; cases cfg.flavour <;> rfl

theorem removeBoth_queue {m : Store K V} {q : List K} (h : InvMQ m q) (cfg : Cfg) (k : K) :
    (removeBoth cfg k m q).2 = q.filter (fun x => x ≠ k) := by
  rw [removeBoth_eq h]

theorem bumpHits_vb (k : K) (m : Store K V) : SubVB (bumpHits k m) m := by
  intro k' e' hl
  unfold bumpHits at hl
  by_cases hk : k' = k
  · subst hk
    rw [lookup_modify_self] at hl
    cases hm : lookup k' m with
    | none => rw [hm] at hl; cases hl
    | some e =>
      rw [hm] at hl
      simp only [Option.map_some, Option.some.injEq] at hl
      subst hl
      exact ⟨e, rfl, rfl, rfl⟩
  · rw [lookup_modify_ne hk] at hl; exact ⟨e', hl, rfl, rfl⟩

theorem hitUpdate_store (cfg : Cfg) (k : K) (m : Store K V) (q : List K) :
    (hitUpdate cfg k m q).1 = if cfg.policy.bumps then bumpHits k m else m := by
  unfold hitUpdate; cases cfg.flavour <;> rfl

theorem hitUpdate_vb (cfg : Cfg) (k : K) (m : Store K V) (q : List K) : SubVB (hitUpdate cfg k m q).1 m := by
  rw [hitUpdate_store]
  split
  · exact bumpHits_vb k m
  · exact (Sub.refl m).toVB

/-- a lookup keeps the value and birth of every entry it leaves in the store -/
theorem get_vb (cfg : Cfg) (s : State K V) (k : K) : SubVB (get cfg s k).1.store s.store := by
  unfold get
  cases hl : lookup k s.store with
  | none => exact (Sub.refl _).toVB
  | some e =>
    simp only
    split
    · simp only [removeBoth_store]; exact (Sub.eraseKey k _).toVB
    · exact hitUpdate_vb cfg k _ _

theorem get_now (cfg : Cfg) (s : State K V) (k : K) : (get cfg s k).1.now = s.now := by
  unfold get
  cases lookup k s.store with
  | none => rfl
  | some e => simp only; split <;> rfl

/-- a plain store leaves, under its key, the fresh entry only, and under other keys old entries only -/
theorem insert_stored (cfg : Cfg) (tl : Tlru S) (r : Nat) (s : State K V) (k : K) (v : V) (h : Inv s) :
    Stored k ⟨v, stamp cfg s.now, 0⟩ s.store (insert cfg tl r s k v).store := by
  unfold insert
  cases hf : cfg.flavour <;> simp only
  case async =>
    have h0 := asyncDrop_inv h k
    have hs0 := asyncDrop_sub s.store s.queue k
    generalize (if hasKey k s.store then (eraseKey k s.store, s.queue.filter (fun x => x ≠ k))
      else (s.store, s.queue)) = p at h0 hs0
    obtain ⟨m0, q0⟩ := p
    exact Stored.put_of_sub (Sub.trans (limitStep_sub h0 cfg tl s.now r) hs0)
  all_goals
    exact Stored.of_sub_put (limitStep_sub (InvMQ.put_erasePush h k _) cfg tl s.now r)

theorem insert_frame (cfg : Cfg) (tl : Tlru S) (r : Nat) (s : State K V) (k : K) (v : V) :
    (insert cfg tl r s k v).now = s.now ∧ (insert cfg tl r s k v).hitStat = s.hitStat ∧
    (insert cfg tl r s k v).missStat = s.missStat := by
  unfold insert
  cases hf : cfg.flavour <;> exact ⟨rfl, rfl, rfl⟩

/-- a memory-aware store leaves, under its key, the fresh entry or nothing, and under other keys old
    entries only -/
theorem insertMem_stored (cfg : Cfg) (tl : Tlru S) (size : V → Nat) (rs : List Nat) (s : State K V) (k : K) (v : V)
    (h : Inv s) : Stored k ⟨v, stamp cfg s.now, 0⟩ s.store (insertMem cfg tl size rs s k v).store := by
  unfold insertMem
  cases hf : cfg.flavour <;> simp only
  case async =>
    have h0 := asyncDrop_inv h k
    have hk0 := asyncDrop_not_mem s.store s.queue k
    have hs0 := asyncDrop_sub s.store s.queue k
    generalize (if hasKey k s.store then (eraseKey k s.store, s.queue.filter (fun x => x ≠ k))
      else (s.store, s.queue)) = p at h0 hk0 hs0
    obtain ⟨m0, q0⟩ := p
    simp only at h0 hk0 hs0 ⊢
    cases cfg.maxMem with
    | none => exact Stored.put_of_sub (Sub.trans (limitStep_sub h0 cfg tl s.now _) hs0)
    | some maxM =>
      simp only
      split
      · exact Stored.of_sub_not_mem hs0 hk0
      · have h1 := memLoop_inv cfg tl size s.now maxM (size v) (q0.length + 1) rs h0
        have hs1 := memLoop_sub cfg tl size s.now maxM (size v) (q0.length + 1) rs h0
        generalize memLoop cfg tl size s.now maxM (size v) (q0.length + 1) rs m0 q0 = r1 at h1 hs1
        obtain ⟨m1, q1, rs1⟩ := r1
        exact Stored.put_of_sub (Sub.trans (limitStep_sub h1 cfg tl s.now _) (Sub.trans hs1 hs0))
  all_goals
    have h0 := InvMQ.put_erasePush h k (⟨v, stamp cfg s.now, 0⟩ : Entry V)
    cases cfg.maxMem with
    | none => exact Stored.of_sub_put (limitStep_sub h0 cfg tl s.now _)
    | some maxM =>
      simp only
      split
      · exact Stored.of_sub_put (Sub.eraseKey k _)
      · have h1 := memLoop_inv cfg tl size s.now maxM 0 ((erasePush k s.queue).length + 1) rs h0
        have hs1 := memLoop_sub cfg tl size s.now maxM 0 ((erasePush k s.queue).length + 1) rs h0
        generalize memLoop cfg tl size s.now maxM 0 ((erasePush k s.queue).length + 1) rs
          (put k ⟨v, stamp cfg s.now, 0⟩ s.store) (erasePush k s.queue) = r1 at h1 hs1
        obtain ⟨m1, q1, rs1⟩ := r1
        exact Stored.of_sub_put (Sub.trans (limitStep_sub h1 cfg tl s.now _) hs1)

theorem insertMem_frame (cfg : Cfg) (tl : Tlru S) (size : V → Nat) (rs : List Nat) (s : State K V) (k : K) (v : V) :
    (insertMem cfg tl size rs s k v).now = s.now ∧ (insertMem cfg tl size rs s k v).hitStat = s.hitStat ∧
    (insertMem cfg tl size rs s k v).missStat = s.missStat := by
  unfold insertMem
  cases hf : cfg.flavour <;> simp only <;> cases cfg.maxMem <;>
    first
      | exact ⟨rfl, rfl, rfl⟩
      | (simp only; split <;> exact ⟨rfl, rfl, rfl⟩)

theorem invalidateWith_sub (p : K → Bool) (s : State K V) : Sub (invalidateWith p s).store s.store := by
  intro k e hl
  unfold invalidateWith at hl
  simp only at hl
  rw [lookup_filter_key (fun x => !p x)] at hl
  split at hl
  · exact hl
  · cases hl

/-- every operation other than a store keeps value and birth of what it leaves in the store -/
theorem step_vb_of_not_store (cfg : Cfg) (tl : Tlru S) (size : V → Nat) (rs : List Nat) (s : State K V)
    (op : Op K V) (hop : ∀ k, storesOf k op = none) : SubVB (step cfg tl size rs s op).1.store s.store := by
  cases op with
  | get k => exact get_vb cfg s k
  | insert k v => have := hop k; simp [storesOf] at this
  | insertMem k v => have := hop k; simp [storesOf] at this
  | clear => intro k e hl; simp [step, clear, lookup] at hl
  | invalidateWith p => exact (invalidateWith_sub p s).toVB
  | tick ms => exact (Sub.refl _).toVB

/-- the clock is advanced by `tick` and by nothing else -/
theorem step_now (cfg : Cfg) (tl : Tlru S) (size : V → Nat) (rs : List Nat) (s : State K V) (op : Op K V) :
    (step cfg tl size rs s op).1.now = s.now + tickOf op := by
  cases op with
  | get k => exact get_now cfg s k
  | insert k v => exact (insert_frame cfg tl _ s k v).1
  | insertMem k v => exact (insertMem_frame cfg tl size rs s k v).1
  | clear => rfl
  | invalidateWith p => rfl
  | tick ms => rfl

/-- operations other than lookups leave both counters alone -/
theorem step_stats_of_not_get (cfg : Cfg) (tl : Tlru S) (size : V → Nat) (rs : List Nat) (s : State K V)
    (op : Op K V) (hop : isGet op = false) :
    (step cfg tl size rs s op).1.hitStat = s.hitStat ∧ (step cfg tl size rs s op).1.missStat = s.missStat ∧
    (step cfg tl size rs s op).2 = .unit := by
  cases op with
  | get k => simp [isGet] at hop
  | insert k v => exact ⟨(insert_frame cfg tl _ s k v).2.1, (insert_frame cfg tl _ s k v).2.2, rfl⟩
  | insertMem k v =>
    exact ⟨(insertMem_frame cfg tl size rs s k v).2.1, (insertMem_frame cfg tl size rs s k v).2.2, rfl⟩
  | clear => exact ⟨rfl, rfl, rfl⟩
  | invalidateWith p => exact ⟨rfl, rfl, rfl⟩
  | tick ms => exact ⟨rfl, rfl, rfl⟩

/-- a lookup bumps exactly one counter: hits iff it served a value -/
theorem get_stats (cfg : Cfg) (s : State K V) (k : K) :
    ((get cfg s k).2.isSome = true → (get cfg s k).1.hitStat = s.hitStat + 1 ∧ (get cfg s k).1.missStat = s.missStat) ∧
    ((get cfg s k).2 = none → (get cfg s k).1.hitStat = s.hitStat ∧ (get cfg s k).1.missStat = s.missStat + 1) := by
  unfold get
  cases lookup k s.store with
  | none => simp
  | some e =>
    simp only
    split <;> simp

/-- what a lookup returns, as a function of the entry found and of the expiry test -/
theorem get_result (cfg : Cfg) (s : State K V) (k : K) :
    (get cfg s k).2 =
      match lookup k s.store with
      | none => none
      | some e => if expired cfg s.now e then none else some e.val := by
  unfold get
  cases lookup k s.store with
  | none => rfl
  | some e => simp only; split <;> rfl

/-! ### Expiry arithmetic -/

theorem stamp_le (cfg : Cfg) (t : Nat) : stamp cfg t ≤ t := by
  unfold stamp; cases cfg.flavour <;> simp only <;> omega

theorem stamp_idem (cfg : Cfg) (t : Nat) : stamp cfg (stamp cfg t) = stamp cfg t := by
  unfold stamp; cases cfg.flavour <;> simp only <;> omega

theorem stamp_mono (cfg : Cfg) {a b : Nat} (h : a ≤ b) : stamp cfg a ≤ stamp cfg b := by
  unfold stamp; cases cfg.flavour <;> simp only <;> omega

/-- the engine's expiry test, spelled out per flavour -/
theorem expired_iff (cfg : Cfg) (T now : Nat) (e : Entry V) (ht : cfg.ttl = some T) :
    expired cfg now e = true ↔
      (match cfg.flavour with
       | .async => now / 1000 - e.birth / 1000 ≥ T
       | _ => now - e.birth ≥ 1000 * T) := by
  unfold expired elapsedMs
  rw [ht]
  cases cfg.flavour <;> simp only [decide_eq_true_eq] <;> omega

/-- an entry whose stored age is `1000·T` ms or more is expired — every flavour, every birth -/
theorem expired_of_old (cfg : Cfg) (T now : Nat) (e : Entry V) (ht : cfg.ttl = some T)
    (h : now - e.birth ≥ 1000 * T) : expired cfg now e = true := by
  rw [expired_iff cfg T now e ht]
  cases cfg.flavour <;> simp only <;> omega

/-- when the stored birth is a stamp (a whole second for async), the expiry test is exactly
    "stored age ≥ `1000·T` ms" in every flavour -/
theorem expired_iff_of_stamped (cfg : Cfg) (T now : Nat) (e : Entry V) (ht : cfg.ttl = some T)
    (hb : stamp cfg e.birth = e.birth) :
    expired cfg now e = true ↔ now - e.birth ≥ 1000 * T := by
  rw [expired_iff cfg T now e ht]
  unfold stamp at hb
  cases hf : cfg.flavour <;> rw [hf] at hb <;> simp only at hb ⊢ <;> omega

/-! ### The two invariants -/

/-- every stored birth is the stamp of a clock reading that is not in the future -/
def TInv (cfg : Cfg) (s : State K V) : Prop :=
  ∀ k e, lookup k s.store = some e → ∃ t, t ≤ s.now ∧ e.birth = stamp cfg t

/-- the state reached by `h`: the clock is the sum of the ticks, and every stored entry carries the
    value and the stamped clock reading of the latest store of its key -/
def HInv (cfg : Cfg) (h : List (Op K V × List Nat)) (s : State K V) : Prop :=
  s.now = clockOf h ∧
  ∀ k e, lookup k s.store = some e → ∃ t, lastStore h k = some (e.val, t) ∧ e.birth = stamp cfg t

theorem hinv_init (cfg : Cfg) : HInv cfg [] (State.init : State K V) := by
  refine ⟨rfl, ?_⟩
  intro k e hl
  simp [State.init, lookup] at hl

theorem HInv.tinv {cfg : Cfg} {h : List (Op K V × List Nat)} {s : State K V} (hh : HInv cfg h s) : TInv cfg s := by
  intro k e hl
  obtain ⟨t, h1, h2⟩ := hh.2 k e hl
  exact ⟨t, by rw [hh.1]; exact lastStore_time_le h k _ t h1, h2⟩

theorem TInv.birth_stamped {cfg : Cfg} {s : State K V} (h : TInv cfg s) {k : K} {e : Entry V}
    (hl : lookup k s.store = some e) : stamp cfg e.birth = e.birth := by
  obtain ⟨t, _, h2⟩ := h k e hl
  rw [h2, stamp_idem]

theorem TInv.birth_le {cfg : Cfg} {s : State K V} (h : TInv cfg s) {k : K} {e : Entry V}
    (hl : lookup k s.store = some e) : e.birth ≤ s.now := by
  obtain ⟨t, h1, h2⟩ := h k e hl
  have := stamp_le cfg t
  omega

theorem storesOf_insert_self (k : K) (v : V) : storesOf k (Op.insert k v) = some v := by simp [storesOf]
theorem storesOf_insertMem_self (k : K) (v : V) : storesOf k (Op.insertMem k v) = some v := by simp [storesOf]
theorem storesOf_insert_ne {k k' : K} (h : k' ≠ k) (v : V) : storesOf k' (Op.insert k v) = none := by
  simp [storesOf, Ne.symm h]
theorem storesOf_insertMem_ne {k k' : K} (h : k' ≠ k) (v : V) : storesOf k' (Op.insertMem k v) = none := by
  simp [storesOf, Ne.symm h]

/-- one operation keeps the history invariant (the history grows by that operation) -/
theorem step_hinv (cfg : Cfg) (tl : Tlru S) (size : V → Nat) (rs : List Nat) (h : List (Op K V × List Nat))
    (s : State K V) (op : Op K V) (hi : Inv s) (hh : HInv cfg h s) :
    HInv cfg (h ++ [(op, rs)]) (step cfg tl size rs s op).1 := by
  refine ⟨by rw [step_now, clockOf_snoc, hh.1], ?_⟩
  -- stores
  have store_case : ∀ (k : K) (v : V) (m' : Store K V), storesOf k op = some v →
      (∀ k', k' ≠ k → storesOf k' op = none) →
      Stored k ⟨v, stamp cfg s.now, 0⟩ s.store m' →
      ∀ k' e', lookup k' m' = some e' →
        ∃ t, lastStore (h ++ [(op, rs)]) k' = some (e'.val, t) ∧ e'.birth = stamp cfg t := by
    intro k v m' hs1 hs2 hst k' e' hl
    rw [lastStore_snoc]
    rcases hst k' e' hl with ⟨hk, he⟩ | ⟨hk, hl'⟩
    · subst hk; subst he
      rw [hs1]
      exact ⟨clockOf h, rfl, by rw [hh.1]⟩
    · rw [hs2 k' hk]
      exact hh.2 k' e' hl'
  have other_case : (∀ k, storesOf k op = none) →
      ∀ k' e', lookup k' (step cfg tl size rs s op).1.store = some e' →
        ∃ t, lastStore (h ++ [(op, rs)]) k' = some (e'.val, t) ∧ e'.birth = stamp cfg t := by
    intro hop k' e' hl
    rw [lastStore_snoc, hop k']
    obtain ⟨e, he, hv, hb⟩ := step_vb_of_not_store cfg tl size rs s op hop k' e' hl
    obtain ⟨t, h1, h2⟩ := hh.2 k' e he
    exact ⟨t, by rw [hv]; exact h1, by rw [hb]; exact h2⟩
  cases op with
  | insert k v =>
    exact store_case k v _ (storesOf_insert_self k v) (fun k' hk => storesOf_insert_ne hk v)
      (insert_stored cfg tl _ s k v hi)
  | insertMem k v =>
    exact store_case k v _ (storesOf_insertMem_self k v) (fun k' hk => storesOf_insertMem_ne hk v)
      (insertMem_stored cfg tl size rs s k v hi)
  | get k => exact other_case (fun _ => rfl)
  | clear => exact other_case (fun _ => rfl)
  | invalidateWith p => exact other_case (fun _ => rfl)
  | tick ms => exact other_case (fun _ => rfl)

/-- running a history from a state that satisfies both invariants keeps them -/
theorem run_hinv (cfg : Cfg) (tl : Tlru S) (size : V → Nat) (h : List (Op K V × List Nat)) (s : State K V)
    (ops : List (Op K V × List Nat)) (hi : Inv s) (hh : HInv cfg h s) :
    HInv cfg (h ++ ops) (run cfg tl size s ops).1 := by
  induction ops generalizing h s with
  | nil => simpa [run] using hh
  | cons a ops ih =>
    obtain ⟨op, rs⟩ := a
    simp only [run]
    have := ih (h ++ [(op, rs)]) _ (step_inv cfg tl size rs s op hi) (step_hinv cfg tl size rs h s op hi hh)
    simpa using this

/-- every state reached from the empty cache satisfies the history invariant for its history -/
theorem hinv_reachable (cfg : Cfg) (tl : Tlru S) (size : V → Nat) (ops : List (Op K V × List Nat)) :
    HInv cfg ops (run cfg tl size (State.init : State K V) ops).1 := by
  have := run_hinv cfg tl size [] (State.init : State K V) ops inv_init (hinv_init cfg)
  simpa using this

theorem tinv_init (cfg : Cfg) : TInv cfg (State.init : State K V) := (hinv_init cfg).tinv

/-- one operation keeps "every stored birth is a stamp of a past clock reading" -/
theorem step_tinv (cfg : Cfg) (tl : Tlru S) (size : V → Nat) (rs : List Nat) (s : State K V) (op : Op K V)
    (hi : Inv s) (ht : TInv cfg s) : TInv cfg (step cfg tl size rs s op).1 := by
  have hnow := step_now cfg tl size rs s op
  have store_case : ∀ (k : K) (v : V), Stored k ⟨v, stamp cfg s.now, 0⟩ s.store (step cfg tl size rs s op).1.store →
      TInv cfg (step cfg tl size rs s op).1 := by
    intro k v hst k' e' hl
    rcases hst k' e' hl with ⟨hk, he⟩ | ⟨hk, hl'⟩
    · subst he; exact ⟨s.now, by omega, rfl⟩
    · obtain ⟨t, h1, h2⟩ := ht k' e' hl'
      exact ⟨t, by omega, h2⟩
  have other_case : (∀ k, storesOf k op = none) → TInv cfg (step cfg tl size rs s op).1 := by
    intro hop k' e' hl
    obtain ⟨e, he, hv, hb⟩ := step_vb_of_not_store cfg tl size rs s op hop k' e' hl
    obtain ⟨t, h1, h2⟩ := ht k' e he
    exact ⟨t, by omega, by rw [hb]; exact h2⟩
  cases op with
  | insert k v => exact store_case k v (insert_stored cfg tl _ s k v hi)
  | insertMem k v => exact store_case k v (insertMem_stored cfg tl size rs s k v hi)
  | get k => exact other_case (fun _ => rfl)
  | clear => exact other_case (fun _ => rfl)
  | invalidateWith p => exact other_case (fun _ => rfl)
  | tick ms => exact other_case (fun _ => rfl)

theorem run_tinv (cfg : Cfg) (tl : Tlru S) (size : V → Nat) (s : State K V) (ops : List (Op K V × List Nat))
    (hi : Inv s) (ht : TInv cfg s) : TInv cfg (run cfg tl size s ops).1 := by
  induction ops generalizing s with
  | nil => exact ht
  | cons a ops ih =>
    obtain ⟨op, rs⟩ := a
    simp only [run]
    exact ih _ (step_inv cfg tl size rs s op hi) (step_tinv cfg tl size rs s op hi ht)

/-- a plain store of a NEW key into a cache with spare capacity evicts nothing: the store is the old
    store plus the fresh entry, the queue the old queue plus the key -/
theorem insert_no_evict (cfg : Cfg) (tl : Tlru S) (r : Nat) (s : State K V) (k : K) (v : V) (n : Nat)
    (hl : cfg.limit = some n) (hi : Inv s) (hk : k ∉ keys s.store) (hlen : s.store.length < n) :
    (insert cfg tl r s k v).store = s.store ++ [(k, ⟨v, stamp cfg s.now, 0⟩)] ∧
    (insert cfg tl r s k v).queue = s.queue ++ [k] := by
  have hkq : k ∉ s.queue := fun hh => hk ((hi.2.2 k).mp hh)
  have hput : put k (⟨v, stamp cfg s.now, 0⟩ : Entry V) s.store = s.store ++ [(k, ⟨v, stamp cfg s.now, 0⟩)] := by
    simp [put, eraseKey_of_not_mem hk]
  have hq : erasePush k s.queue = s.queue ++ [k] := by
    simp [erasePush, List.erase_of_not_mem hkq]
  unfold insert
  cases hf : cfg.flavour <;> simp only
  case async =>
    have : hasKey k s.store = false := (hasKey_false_iff k s.store).mpr hk
    simp only [this, Bool.false_eq_true, if_false]
    have hno : overLimit cfg n s.store s.queue = false := by
      unfold overLimit; rw [hf]; simp only [decide_eq_false_iff_not]; omega
    simp only [limitStep, hl, hno, Bool.false_eq_true, if_false, hput, and_self]
  all_goals
    have hno : overLimit cfg n (put k (⟨v, stamp cfg s.now, 0⟩ : Entry V) s.store) (erasePush k s.queue) = false := by
      unfold overLimit; rw [hf]; simp only [decide_eq_false_iff_not, hq, List.length_append, List.length_singleton]
      have := hi.length_eq
      omega
    rw [hput, hq] at hno
    simp only [limitStep, hl, hno, Bool.false_eq_true, if_false, hput, hq, and_self]

end Cachelito.Hist
