/-
  C05 (engine part) — Memory limit: cached values never exceed `max_memory`, no needless eviction.

  Property theorems only (helper lemmas live in `Cachelito/Lemmas/Mem.lean`).  All statements
  quantify over every flavour (sync global, thread-local, async), every policy, every TLRU score
  algebra `tl`, every size function `size : V → Nat` (so in particular the built-in estimator of
  part (a) and any user `MemoryEstimator`), every stream of random draws and every state satisfying
  the bookkeeping invariant `Inv` (which holds in every reachable state, `C04.inv_reachable`).

  Reading guide (numbers as in the statement of C05):
    (1) termination / fuel adequacy   : `eviction_shortens_queue`, `eviction_fails_only_on_empty_queue`,
                                         `memLoop_never_out_of_fuel`, `memLoop_fuel_independent`
    (2) the bound                      : `insertMem_bound_of_fits`, `insertMem_bound`, `step_bound`,
                                         `memory_never_exceeded(_from, _prefix)`
    (3) oversize values                : `oversize_state`, `oversize_not_cached`, `oversize_others_untouched`,
                                         `oversize_queue_order`, `oversize_absent_noop`, `oversize_restore_drops_only_own_entry`
    (4) no needless eviction           : `fits_loop_identity_sync/async`, `fits_eq_plain_insert`,
                                         `fits_removes_at_most_one`, `fits_no_limit_removes_nothing`
    (5) only until the total fits      : `victim_sequence_step`, `memLoop_shortest_prefix`,
                                         `insertMem_sync_shortest_prefix`, `insertMem_async_shortest_prefix`
    lifts to reachable states          : `…_reachable`

  Scope: the model is sequential (one operation at a time).  Interleavings of two `insert_with_memory`
  calls on the sync global cache are NOT covered here (in the real `GlobalCache` the value is put
  into the map before the queue lock is taken and before the oversize check, so a pending oversize
  store is visible to concurrent lookups and memory loops; reproduction: `work/c05_race`).
-/
import Cachelito.Lemmas.Mem

set_option linter.unusedSectionVars false
set_option linter.unusedSimpArgs false
set_option linter.unusedVariables false

namespace Cachelito.C05
open Cachelito
variable {K V S : Type} [DecidableEq K]

/-! ## (1) No infinite eviction loop -/

/-- Every successful iteration of the memory loop (`evictMem` reporting `true`) removes exactly one
    key from the order queue, whatever the flavour and policy: the queue length is a strictly
    decreasing measure of the loop. -/
theorem eviction_shortens_queue (cfg : Cfg) (tl : Tlru S) (now r : Nat) {m : Store K V} {q : List K}
    (h : InvMQ m q) (hev : (evictMem cfg tl now r m q).2.2 = true) :
    (evictMem cfg tl now r m q).2.1.length + 1 = q.length :=
  (evictMem_spec h cfg tl now r).queue_length h hev

/-- An iteration reports "nothing evicted" only when the queue (hence the store) is empty, and then it
    changes nothing: the loop cannot stop early while there is still something to evict. -/
theorem eviction_fails_only_on_empty_queue (cfg : Cfg) (tl : Tlru S) (now r : Nat) {m : Store K V} {q : List K}
    (h : InvMQ m q) (hev : (evictMem cfg tl now r m q).2.2 = false) :
    q = [] ∧ m = [] ∧ (evictMem cfg tl now r m q).1 = m ∧ (evictMem cfg tl now r m q).2.1 = q := by
  rcases evictMem_spec h cfg tl now r with ⟨hb, _⟩ | ⟨_, h0, h1, h2⟩
  · rw [hb] at hev; cases hev
  · subst h0; exact ⟨rfl, h.store_nil, h1, h2⟩

/-- **Fuel adequacy.**  Called with `fuel = q.length + 1` (what `insertMem` passes), the memory loop
    never stops because the fuel ran out: on exit the total fits, or the queue is empty (nothing left
    to evict).  Together with `eviction_shortens_queue` this is the model-side proof that the
    eviction loop of `insert_with_memory` terminates after at most `q.length + 1` iterations. -/
theorem memLoop_never_out_of_fuel (cfg : Cfg) (tl : Tlru S) (size : V → Nat) (now maxM extra : Nat)
    (rs : List Nat) {m : Store K V} {q : List K} (h : InvMQ m q) :
    totalMem size (memLoop cfg tl size now maxM extra (q.length + 1) rs m q).1 + extra ≤ maxM ∨
      (memLoop cfg tl size now maxM extra (q.length + 1) rs m q).2.1 = [] :=
  memLoop_fuel cfg tl size now maxM extra rs h

/-- When the value to be stored fits on its own (`extra ≤ maxM`, always true where `insertMem` runs the
    loop) the loop exits with the total fitting — never with "nothing left to evict but still too big". -/
theorem memLoop_exits_fitting (cfg : Cfg) (tl : Tlru S) (size : V → Nat) (now maxM extra : Nat)
    (rs : List Nat) {m : Store K V} {q : List K} (h : InvMQ m q) (hx : extra ≤ maxM) :
    totalMem size (memLoop cfg tl size now maxM extra (q.length + 1) rs m q).1 + extra ≤ maxM :=
  memLoop_fits cfg tl size now maxM extra rs h hx

/-- The fuel is only a device for structural recursion: any amount `≥ q.length + 1` gives the same
    result, i.e. the loop is the unbounded `loop { … }` of the source. -/
theorem memLoop_fuel_independent (cfg : Cfg) (tl : Tlru S) (size : V → Nat) (now maxM extra : Nat)
    (d : Nat) (rs : List Nat) {m : Store K V} {q : List K} (h : InvMQ m q) :
    memLoop cfg tl size now maxM extra (q.length + 1 + d) rs m q =
      memLoop cfg tl size now maxM extra (q.length + 1) rs m q :=
  memLoop_fuel_irrelevant cfg tl size now maxM extra d rs h

/-! ## (2) The bound -/

/-- **Bound after a store of a value that fits on its own.**  With `max_memory = M`, in any consistent
    state (no assumption on the footprint before!), after `insert_with_memory k v` with `size v ≤ M`
    the footprint of the cached values is at most `M`. -/
theorem insertMem_bound_of_fits (cfg : Cfg) (tl : Tlru S) (size : V → Nat) (rs : List Nat) (s : State K V)
    (k : K) (v : V) (M : Nat) (hM : cfg.maxMem = some M) (hi : Inv s) (hv : size v ≤ M) :
    totalMem size (insertMem cfg tl size rs s k v).store ≤ M := by
  by_cases hf : cfg.flavour = .async
  · rw [insertMem_async_fit cfg tl size rs s k v M hf hM hv hi]
    simp only
    have h0 : InvMQ (eraseKey k s.store) (s.queue.filter (fun x => x ≠ k)) := InvMQ.remove hi k
    have hfit := memLoop_fits cfg tl size s.now M (size v) rs h0 hv
    have h1 := memLoop_inv cfg tl size s.now M (size v) ((s.queue.filter (fun x => x ≠ k)).length + 1) rs h0
    have h2 := limitStep_totalMem_le h1 cfg tl s.now ((asyncLoop cfg tl size M rs s k v).2.2.headD 0) size
    rw [totalMem_put]
    have h3 := totalMem_eraseKey_le size k (limitStep cfg tl s.now ((asyncLoop cfg tl size M rs s k v).2.2.headD 0)
      (asyncLoop cfg tl size M rs s k v).1 (asyncLoop cfg tl size M rs s k v).2.1).1
    unfold asyncLoop at h2 h3 ⊢
    simp only at h3 ⊢
    omega
  · rw [insertMem_sync_fit cfg tl size rs s k v M hf hM hv]
    simp only
    have h0 := InvMQ.put_erasePush hi k (⟨v, stamp cfg s.now, 0⟩ : Entry V)
    have hfit := memLoop_fits cfg tl size s.now M 0 rs h0 (Nat.zero_le _)
    have h1 := memLoop_inv cfg tl size s.now M 0 ((erasePush k s.queue).length + 1) rs h0
    have h2 := limitStep_totalMem_le h1 cfg tl s.now ((syncLoop cfg tl size M rs s k v).2.2.headD 0) size
    unfold syncLoop at h2 ⊢
    omega

/-- A store of an oversize value never increases the footprint (it only removes). -/
theorem insertMem_oversize_le (cfg : Cfg) (tl : Tlru S) (size : V → Nat) (rs : List Nat) (s : State K V)
    (k : K) (v : V) (M : Nat) (hM : cfg.maxMem = some M) (hi : Inv s) (hv : M < size v) :
    totalMem size (insertMem cfg tl size rs s k v).store ≤ totalMem size s.store := by
  rw [insertMem_oversize_eq cfg tl size rs s k v M hM hv hi]
  exact totalMem_eraseKey_le size k s.store

/-- **Bound after any memory-aware store**, oversize or not. -/
theorem insertMem_bound (cfg : Cfg) (tl : Tlru S) (size : V → Nat) (rs : List Nat) (s : State K V)
    (k : K) (v : V) (M : Nat) (hM : cfg.maxMem = some M) (hi : Inv s) (hb : totalMem size s.store ≤ M) :
    totalMem size (insertMem cfg tl size rs s k v).store ≤ M := by
  by_cases hv : size v ≤ M
  · exact insertMem_bound_of_fits cfg tl size rs s k v M hM hi hv
  · exact Nat.le_trans (insertMem_oversize_le cfg tl size rs s k v M hM hi (by omega)) hb

/-- Operations that are not stores (lookup incl. hit-counter bump, recency refresh and expiry purge;
    clear; conditional invalidation; passage of time) never increase the footprint. -/
theorem step_nonstore_le (cfg : Cfg) (tl : Tlru S) (size : V → Nat) (rs : List Nat) (s : State K V) (op : Op K V)
    (hop : ∀ k v, op ≠ .insert k v ∧ op ≠ .insertMem k v) :
    totalMem size (step cfg tl size rs s op).1.store ≤ totalMem size s.store := by
  cases op with
  | get k => exact totalMem_get_le size cfg s k
  | insert k v => exact absurd rfl (hop k v).1
  | insertMem k v => exact absurd rfl (hop k v).2
  | clear => simp [step, totalMem_clear]
  | invalidateWith p => exact totalMem_invalidateWith_le size p s
  | tick ms => exact Nat.le_refl _

/-- **One step keeps the bound**: every operation other than the plain (estimator-less) `insert`. -/
theorem step_bound (cfg : Cfg) (tl : Tlru S) (size : V → Nat) (rs : List Nat) (s : State K V) (op : Op K V)
    (M : Nat) (hM : cfg.maxMem = some M) (hop : op.viaMem = true) (hi : Inv s)
    (hb : totalMem size s.store ≤ M) :
    totalMem size (step cfg tl size rs s op).1.store ≤ M := by
  cases op with
  | get k => exact Nat.le_trans (totalMem_get_le size cfg s k) hb
  | insert k v => simp [Op.viaMem] at hop
  | insertMem k v => exact insertMem_bound cfg tl size rs s k v M hM hi hb
  | clear => simp [step, totalMem_clear]
  | invalidateWith p => exact Nat.le_trans (totalMem_invalidateWith_le size p s) hb
  | tick ms => exact hb

/-- The bound along any history started in any consistent state within the bound. -/
theorem memory_never_exceeded_from (cfg : Cfg) (tl : Tlru S) (size : V → Nat) (M : Nat)
    (hM : cfg.maxMem = some M) (ops : List (Op K V × List Nat)) (hops : AllViaMem ops)
    (s : State K V) (hi : Inv s) (hb : totalMem size s.store ≤ M) :
    totalMem size (run cfg tl size s ops).1.store ≤ M := by
  induction ops generalizing s with
  | nil => exact hb
  | cons a ops ih =>
    have hhead := hops.head
    have htail := hops.tail
    obtain ⟨op, rs⟩ := a
    simp only [run]
    exact ih htail _ (step_inv cfg tl size rs s op hi) (step_bound cfg tl size rs s op M hM hhead hi hb)

/-- **C05, bound for every history**: on a cache configured with `max_memory = M`, whose stores all go
    through `insert_with_memory` (as in the generated code), interleaved arbitrarily with lookups,
    clears, conditional invalidations and time steps, the total size of the cached values is at
    most `M` after every completed operation — under every policy and flavour. -/
theorem memory_never_exceeded (cfg : Cfg) (tl : Tlru S) (size : V → Nat) (M : Nat)
    (hM : cfg.maxMem = some M) (ops : List (Op K V × List Nat)) (hops : AllViaMem ops) :
    totalMem size (run cfg tl size (State.init : State K V) ops).1.store ≤ M :=
  memory_never_exceeded_from cfg tl size M hM ops hops _ inv_init (Nat.zero_le _)

/-- the bound also holds after every prefix of the history (every intermediate completed operation) -/
theorem memory_never_exceeded_prefix (cfg : Cfg) (tl : Tlru S) (size : V → Nat) (M : Nat)
    (hM : cfg.maxMem = some M) (ops : List (Op K V × List Nat)) (hops : AllViaMem ops) (i : Nat) :
    totalMem size (run cfg tl size (State.init : State K V) (ops.take i)).1.store ≤ M :=
  memory_never_exceeded cfg tl size M hM _ (hops.take i)

/-- On the async engine a value that fits on its own is always cached by the store (the bound is not
    obtained by dropping the newcomer).  On the sync engines the newcomer is stored *before* the loop
    and takes part in victim selection, so it may itself be the policy's victim. -/
theorem async_fitting_value_is_cached (cfg : Cfg) (tl : Tlru S) (size : V → Nat) (rs : List Nat) (s : State K V)
    (k : K) (v : V) (M : Nat) (hf : cfg.flavour = .async) (hM : cfg.maxMem = some M) (hi : Inv s)
    (hv : size v ≤ M) :
    lookup k (insertMem cfg tl size rs s k v).store = some ⟨v, stamp cfg s.now, 0⟩ := by
  rw [insertMem_async_fit cfg tl size rs s k v M hf hM hv hi]
  exact lookup_put_self k _ _

/-! ## (3) Oversize values -/

/-- **Oversize, exact effect** (every flavour): storing a value with `size v > M` leaves the state as
    it was except that `k` itself is no longer cached: the store is the old store without `k`, the
    queue the old queue without `k`; clock and statistics are untouched. -/
theorem oversize_state (cfg : Cfg) (tl : Tlru S) (size : V → Nat) (rs : List Nat) (s : State K V)
    (k : K) (v : V) (M : Nat) (hM : cfg.maxMem = some M) (hi : Inv s) (hv : M < size v) :
    insertMem cfg tl size rs s k v =
      { s with store := eraseKey k s.store, queue := s.queue.filter (fun x => x ≠ k) } :=
  insertMem_oversize_eq cfg tl size rs s k v M hM hv hi

/-- An oversize value is not cached. -/
theorem oversize_not_cached (cfg : Cfg) (tl : Tlru S) (size : V → Nat) (rs : List Nat) (s : State K V)
    (k : K) (v : V) (M : Nat) (hM : cfg.maxMem = some M) (hi : Inv s) (hv : M < size v) :
    lookup k (insertMem cfg tl size rs s k v).store = none := by
  rw [oversize_state cfg tl size rs s k v M hM hi hv]
  exact lookup_eraseKey_self k s.store

/-- An oversize value displaces nothing else: the entry (value, birth stamp, hit counter) of every
    other key is exactly what it was. -/
theorem oversize_others_untouched (cfg : Cfg) (tl : Tlru S) (size : V → Nat) (rs : List Nat) (s : State K V)
    (k : K) (v : V) (M : Nat) (hM : cfg.maxMem = some M) (hi : Inv s) (hv : M < size v)
    (k' : K) (hk : k' ≠ k) :
    lookup k' (insertMem cfg tl size rs s k v).store = lookup k' s.store := by
  rw [oversize_state cfg tl size rs s k v M hM hi hv]
  exact lookup_eraseKey_ne hk s.store

/-- … and the eviction order of the others is unchanged: the new queue is the old one with `k`
    filtered out (an order-preserving sub-list containing every other key). -/
theorem oversize_queue_order (cfg : Cfg) (tl : Tlru S) (size : V → Nat) (rs : List Nat) (s : State K V)
    (k : K) (v : V) (M : Nat) (hM : cfg.maxMem = some M) (hi : Inv s) (hv : M < size v) :
    (insertMem cfg tl size rs s k v).queue = s.queue.filter (fun x => x ≠ k) ∧
    (insertMem cfg tl size rs s k v).queue.Sublist s.queue ∧
    ∀ k', k' ≠ k → (k' ∈ (insertMem cfg tl size rs s k v).queue ↔ k' ∈ s.queue) := by
  rw [oversize_state cfg tl size rs s k v M hM hi hv]
  refine ⟨rfl, List.filter_sublist, ?_⟩
  intro k' hk
  simp [List.mem_filter, hk]

/-- If `k` was not cached, an oversize store is a no-op on the whole state. -/
theorem oversize_absent_noop (cfg : Cfg) (tl : Tlru S) (size : V → Nat) (rs : List Nat) (s : State K V)
    (k : K) (v : V) (M : Nat) (hM : cfg.maxMem = some M) (hi : Inv s) (hv : M < size v)
    (hk : k ∉ keys s.store) :
    insertMem cfg tl size rs s k v = s := by
  rw [oversize_state cfg tl size rs s k v M hM hi hv]
  exact remove_absent hi hk

/-- **The re-store subtlety, stated precisely.**  If `k` *was* cached and is re-stored with an oversize
    value, the one entry that disappears is the OLD entry of `k` itself (all three engines: the sync
    engines overwrite it before the size check and then remove the key; the async engine drops it in
    its "replace" prologue).  Exactly one entry is gone and it is `k`'s. -/
theorem oversize_restore_drops_only_own_entry (cfg : Cfg) (tl : Tlru S) (size : V → Nat) (rs : List Nat)
    (s : State K V) (k : K) (v : V) (M : Nat) (hM : cfg.maxMem = some M) (hi : Inv s) (hv : M < size v)
    (hk : k ∈ keys s.store) :
    (insertMem cfg tl size rs s k v).store.length + 1 = s.store.length ∧
    keys (insertMem cfg tl size rs s k v).store = (keys s.store).filter (fun x => x ≠ k) := by
  rw [oversize_state cfg tl size rs s k v M hM hi hv]
  exact ⟨length_eraseKey_of_mem hi.1 hk, keys_eraseKey k s.store⟩

/-! ## (4) No needless eviction -/

/-- Sync engines: if the total fits once the value is stored, the memory loop returns its input — it
    removes nothing and consumes no random draw. -/
theorem fits_loop_identity_sync (cfg : Cfg) (tl : Tlru S) (size : V → Nat) (rs : List Nat) (s : State K V)
    (k : K) (v : V) (M : Nat)
    (hfit : totalMem size (put k ⟨v, stamp cfg s.now, 0⟩ s.store) ≤ M) :
    syncLoop cfg tl size M rs s k v =
      (put k ⟨v, stamp cfg s.now, 0⟩ s.store, erasePush k s.queue, rs) :=
  memLoop_of_fits _ _ _ _ _ _ _ _ _ _ (by omega)

/-- Async engine: if the others plus the newcomer fit, the memory loop returns its input. -/
theorem fits_loop_identity_async (cfg : Cfg) (tl : Tlru S) (size : V → Nat) (rs : List Nat) (s : State K V)
    (k : K) (v : V) (M : Nat)
    (hfit : totalMem size (eraseKey k s.store) + size v ≤ M) :
    asyncLoop cfg tl size M rs s k v =
      (eraseKey k s.store, s.queue.filter (fun x => x ≠ k), rs) :=
  memLoop_of_fits _ _ _ _ _ _ _ _ _ _ hfit

/-- **No needless eviction** (every flavour): if the other entries plus the new value fit in `M`
    (for the sync engines this is `totalMem (put k … s.store) ≤ M`, see `totalMem_put`), the memory
    machinery does nothing at all: `insert_with_memory` behaves exactly like the plain `insert`, so the
    only thing that can remove an entry is the entry-limit step of C04. -/
theorem fits_eq_plain_insert (cfg : Cfg) (tl : Tlru S) (size : V → Nat) (rs : List Nat) (s : State K V)
    (k : K) (v : V) (M : Nat) (hM : cfg.maxMem = some M) (hi : Inv s)
    (hfit : totalMem size (eraseKey k s.store) + size v ≤ M) :
    insertMem cfg tl size rs s k v = insert cfg tl (rs.headD 0) s k v := by
  have hv : size v ≤ M := by omega
  by_cases hf : cfg.flavour = .async
  · rw [insertMem_async_fit cfg tl size rs s k v M hf hM hv hi,
      fits_loop_identity_async cfg tl size rs s k v M hfit]
    unfold insert
    simp only [hf, asyncDrop_eq hi k]
  · have hfit' : totalMem size (put k ⟨v, stamp cfg s.now, 0⟩ s.store) ≤ M := by
      rw [totalMem_put]; exact hfit
    rw [insertMem_sync_fit cfg tl size rs s k v M hf hM hv,
      fits_loop_identity_sync cfg tl size rs s k v M hfit']
    unfold insert
    cases hfl : cfg.flavour <;> simp only
    · exact absurd hfl hf

/-- When the total fits, at most one entry disappears (the entry-limit victim, if the limit is hit). -/
theorem fits_removes_at_most_one (cfg : Cfg) (tl : Tlru S) (size : V → Nat) (rs : List Nat) (s : State K V)
    (k : K) (v : V) (M : Nat) (hM : cfg.maxMem = some M) (hi : Inv s)
    (hfit : totalMem size (eraseKey k s.store) + size v ≤ M) :
    (put k ⟨v, stamp cfg s.now, 0⟩ s.store).length ≤ (insertMem cfg tl size rs s k v).store.length + 1 := by
  have hv : size v ≤ M := by omega
  by_cases hf : cfg.flavour = .async
  · rw [insertMem_async_fit cfg tl size rs s k v M hf hM hv hi,
      fits_loop_identity_async cfg tl size rs s k v M hfit]
    simp only
    have h0 : InvMQ (eraseKey k s.store) (s.queue.filter (fun x => x ≠ k)) := InvMQ.remove hi k
    have hk0 : k ∉ keys (eraseKey k s.store) := by rw [keys_eraseKey]; simp
    have hge := limitStep_length_ge h0 cfg tl s.now (rs.headD 0)
    have hk1 : k ∉ keys (limitStep cfg tl s.now (rs.headD 0) (eraseKey k s.store)
        (s.queue.filter (fun x => x ≠ k))).1 :=
      fun hh => hk0 (limitStep_keys_sub h0 cfg tl s.now _ k hh)
    rw [length_put_fresh hk1, length_put_eq]; omega
  · have hfit' : totalMem size (put k ⟨v, stamp cfg s.now, 0⟩ s.store) ≤ M := by
      rw [totalMem_put]; exact hfit
    rw [insertMem_sync_fit cfg tl size rs s k v M hf hM hv,
      fits_loop_identity_sync cfg tl size rs s k v M hfit']
    simp only
    exact limitStep_length_ge (InvMQ.put_erasePush hi k _) cfg tl s.now (rs.headD 0)

/-- When the total fits and no entry limit is configured, nothing is removed: the result is the old
    state with `k ↦ v` stored and `k` moved to the back of the queue; every other entry is untouched. -/
theorem fits_no_limit_removes_nothing (cfg : Cfg) (tl : Tlru S) (size : V → Nat) (rs : List Nat) (s : State K V)
    (k : K) (v : V) (M : Nat) (hM : cfg.maxMem = some M) (hl : cfg.limit = none) (hi : Inv s)
    (hfit : totalMem size (eraseKey k s.store) + size v ≤ M) :
    insertMem cfg tl size rs s k v =
      { s with store := put k ⟨v, stamp cfg s.now, 0⟩ s.store,
               queue := s.queue.filter (fun x => x ≠ k) ++ [k] } ∧
    ∀ k', k' ≠ k → lookup k' (insertMem cfg tl size rs s k v).store = lookup k' s.store := by
  have hv : size v ≤ M := by omega
  have main : insertMem cfg tl size rs s k v =
      { s with store := put k ⟨v, stamp cfg s.now, 0⟩ s.store,
               queue := s.queue.filter (fun x => x ≠ k) ++ [k] } := by
    by_cases hf : cfg.flavour = .async
    · rw [insertMem_async_fit cfg tl size rs s k v M hf hM hv hi,
        fits_loop_identity_async cfg tl size rs s k v M hfit]
      simp only [limitStep_no_limit _ _ _ _ _ _ hl, put_eraseKey]
    · have hfit' : totalMem size (put k ⟨v, stamp cfg s.now, 0⟩ s.store) ≤ M := by
        rw [totalMem_put]; exact hfit
      rw [insertMem_sync_fit cfg tl size rs s k v M hf hM hv,
        fits_loop_identity_sync cfg tl size rs s k v M hfit']
      simp only [limitStep_no_limit _ _ _ _ _ _ hl, erasePush, erase_eq_filter_of_nodup hi.2.1]
  refine ⟨main, ?_⟩
  intro k' hk
  rw [main]
  exact lookup_put_ne hk _ _

/-! ## (5) Evicted only until the total fits -/

/-- The victim sequence: `iterEvict … (i+1)` is `iterEvict … i` after one eviction in policy order
    (one queue key removed from store and queue, or nothing if the queue is empty). -/
theorem victim_sequence_step (cfg : Cfg) (tl : Tlru S) (now i : Nat) (rs : List Nat) {m : Store K V} {q : List K}
    (h : InvMQ m q) :
    ∃ ev, Evicted (iterEvict cfg tl now i rs m q).1 (iterEvict cfg tl now i rs m q).2.1
      ((iterEvict cfg tl now (i + 1) rs m q).1, (iterEvict cfg tl now (i + 1) rs m q).2.1, ev) :=
  iterEvict_evicted cfg tl now i rs h

/-- **Minimality of the memory loop.**  If the value to be stored fits on its own, the loop removes
    exactly the first `j` members of the policy's victim sequence, where `j` is the LEAST number of
    evictions after which the total fits: the total did not fit after `0, 1, …, j-1` evictions and fits
    after `j`; all `j` iterations are genuine evictions (the queue lost exactly `j` keys) and `j` random
    draws were consumed. -/
theorem memLoop_shortest_prefix (cfg : Cfg) (tl : Tlru S) (size : V → Nat) (now maxM extra : Nat)
    (rs : List Nat) {m : Store K V} {q : List K} (h : InvMQ m q) (hx : extra ≤ maxM) :
    ∃ j, j ≤ q.length ∧
      memLoop cfg tl size now maxM extra (q.length + 1) rs m q = iterEvict cfg tl now j rs m q ∧
      (∀ i, i < j → maxM < totalMem size (iterEvict cfg tl now i rs m q).1 + extra) ∧
      totalMem size (iterEvict cfg tl now j rs m q).1 + extra ≤ maxM ∧
      (∀ i, i ≤ j → (iterEvict cfg tl now i rs m q).2.1.length + i = q.length) ∧
      (iterEvict cfg tl now j rs m q).2.2 = rs.drop j := by
  obtain ⟨j, h1, h2, h3, h4, h5⟩ := memLoop_minimal cfg tl size now maxM extra _ rs h (Nat.le_refl _) hx
  exact ⟨j, h1, h2, h3, h4, h5, iterEvict_draws cfg tl now j rs m q⟩

/-- Minimality without the assumption `extra ≤ maxM`: the loop still stops at the first point where
    the total fits; the only other way out is an empty queue. -/
theorem memLoop_shortest_prefix_general (cfg : Cfg) (tl : Tlru S) (size : V → Nat) (now maxM extra : Nat)
    (rs : List Nat) {m : Store K V} {q : List K} (h : InvMQ m q) :
    ∃ j, j ≤ q.length + 1 ∧
      memLoop cfg tl size now maxM extra (q.length + 1) rs m q = iterEvict cfg tl now j rs m q ∧
      (∀ i, i < j → maxM < totalMem size (iterEvict cfg tl now i rs m q).1 + extra) ∧
      (totalMem size (iterEvict cfg tl now j rs m q).1 + extra ≤ maxM ∨
        (iterEvict cfg tl now j rs m q).2.1 = []) :=
  memLoop_char cfg tl size now maxM extra _ rs h (Nat.le_refl _)

/-- **Sync `insert_with_memory`, whole operation.**  For a value that fits on its own the result is:
    store `k`, remove the shortest prefix of the victim sequence after which the total is `≤ M`
    (`j` least), then run the entry-limit step once. -/
theorem insertMem_sync_shortest_prefix (cfg : Cfg) (tl : Tlru S) (size : V → Nat) (rs : List Nat) (s : State K V)
    (k : K) (v : V) (M : Nat) (hf : cfg.flavour ≠ .async) (hM : cfg.maxMem = some M) (hi : Inv s)
    (hv : size v ≤ M) :
    ∃ j, j ≤ (erasePush k s.queue).length ∧
      (∀ i, i < j → M < totalMem size
        (iterEvict cfg tl s.now i rs (put k ⟨v, stamp cfg s.now, 0⟩ s.store) (erasePush k s.queue)).1) ∧
      totalMem size
        (iterEvict cfg tl s.now j rs (put k ⟨v, stamp cfg s.now, 0⟩ s.store) (erasePush k s.queue)).1 ≤ M ∧
      insertMem cfg tl size rs s k v =
        { s with
          store := (limitStep cfg tl s.now ((rs.drop j).headD 0)
            (iterEvict cfg tl s.now j rs (put k ⟨v, stamp cfg s.now, 0⟩ s.store) (erasePush k s.queue)).1
            (iterEvict cfg tl s.now j rs (put k ⟨v, stamp cfg s.now, 0⟩ s.store) (erasePush k s.queue)).2.1).1
          queue := (limitStep cfg tl s.now ((rs.drop j).headD 0)
            (iterEvict cfg tl s.now j rs (put k ⟨v, stamp cfg s.now, 0⟩ s.store) (erasePush k s.queue)).1
            (iterEvict cfg tl s.now j rs (put k ⟨v, stamp cfg s.now, 0⟩ s.store) (erasePush k s.queue)).2.1).2 } := by
  have h0 := InvMQ.put_erasePush hi k (⟨v, stamp cfg s.now, 0⟩ : Entry V)
  obtain ⟨j, h1, h2, h3, h4, _, h6⟩ :=
    memLoop_shortest_prefix cfg tl size s.now M 0 rs h0 (Nat.zero_le _)
  refine ⟨j, h1, ?_, ?_, ?_⟩
  · intro i hij; have := h3 i hij; omega
  · omega
  · rw [insertMem_sync_fit cfg tl size rs s k v M hf hM hv]
    unfold syncLoop
    rw [h2, h6]

/-- **Async `insert_with_memory`, whole operation.**  For a value that fits on its own the result is:
    drop any previous entry of `k`, remove the shortest prefix of the victim sequence after which the
    others plus the newcomer are `≤ M` (`j` least), run the entry-limit step once, store `k`. -/
theorem insertMem_async_shortest_prefix (cfg : Cfg) (tl : Tlru S) (size : V → Nat) (rs : List Nat) (s : State K V)
    (k : K) (v : V) (M : Nat) (hf : cfg.flavour = .async) (hM : cfg.maxMem = some M) (hi : Inv s)
    (hv : size v ≤ M) :
    ∃ j, j ≤ (s.queue.filter (fun x => x ≠ k)).length ∧
      (∀ i, i < j → M < totalMem size
        (iterEvict cfg tl s.now i rs (eraseKey k s.store) (s.queue.filter (fun x => x ≠ k))).1 + size v) ∧
      totalMem size
        (iterEvict cfg tl s.now j rs (eraseKey k s.store) (s.queue.filter (fun x => x ≠ k))).1 + size v ≤ M ∧
      insertMem cfg tl size rs s k v =
        { s with
          store := put k ⟨v, stamp cfg s.now, 0⟩ (limitStep cfg tl s.now ((rs.drop j).headD 0)
            (iterEvict cfg tl s.now j rs (eraseKey k s.store) (s.queue.filter (fun x => x ≠ k))).1
            (iterEvict cfg tl s.now j rs (eraseKey k s.store) (s.queue.filter (fun x => x ≠ k))).2.1).1
          queue := (limitStep cfg tl s.now ((rs.drop j).headD 0)
            (iterEvict cfg tl s.now j rs (eraseKey k s.store) (s.queue.filter (fun x => x ≠ k))).1
            (iterEvict cfg tl s.now j rs (eraseKey k s.store) (s.queue.filter (fun x => x ≠ k))).2.1).2 ++ [k] } := by
  have h0 : InvMQ (eraseKey k s.store) (s.queue.filter (fun x => x ≠ k)) := InvMQ.remove hi k
  obtain ⟨j, h1, h2, h3, h4, _, h6⟩ :=
    memLoop_shortest_prefix cfg tl size s.now M (size v) rs h0 hv
  refine ⟨j, h1, h3, h4, ?_⟩
  rw [insertMem_async_fit cfg tl size rs s k v M hf hM hv hi]
  unfold asyncLoop
  rw [h2, h6]

/-! ## Lifting to reachable states

Every theorem above assumes only `Inv s`.  Every state reachable from the empty cache by ANY history
(plain stores included) satisfies `Inv` (`run_inv`), so all of (1), (3), (4), (5) hold in every
reachable state; the corollaries below spell this out for the headline statements. -/

/-- (3) in every reachable state: an oversize store only un-caches `k` itself. -/
theorem oversize_state_reachable (cfg : Cfg) (tl : Tlru S) (size : V → Nat) (ops : List (Op K V × List Nat))
    (rs : List Nat) (k : K) (v : V) (M : Nat) (hM : cfg.maxMem = some M) (hv : M < size v) :
    insertMem cfg tl size rs (run cfg tl size (State.init : State K V) ops).1 k v =
      { (run cfg tl size (State.init : State K V) ops).1 with
        store := eraseKey k (run cfg tl size (State.init : State K V) ops).1.store,
        queue := (run cfg tl size (State.init : State K V) ops).1.queue.filter (fun x => x ≠ k) } :=
  oversize_state cfg tl size rs _ k v M hM (run_inv cfg tl size _ ops inv_init) hv

/-- (4) in every reachable state: when the total fits, `insert_with_memory` is the plain `insert`. -/
theorem fits_eq_plain_insert_reachable (cfg : Cfg) (tl : Tlru S) (size : V → Nat) (ops : List (Op K V × List Nat))
    (rs : List Nat) (k : K) (v : V) (M : Nat) (hM : cfg.maxMem = some M)
    (hfit : totalMem size (eraseKey k (run cfg tl size (State.init : State K V) ops).1.store) + size v ≤ M) :
    insertMem cfg tl size rs (run cfg tl size (State.init : State K V) ops).1 k v =
      insert cfg tl (rs.headD 0) (run cfg tl size (State.init : State K V) ops).1 k v :=
  fits_eq_plain_insert cfg tl size rs _ k v M hM (run_inv cfg tl size _ ops inv_init) hfit

/-- (2) in every reachable state, even one reached through plain stores that overshot `M`: a
    memory-aware store of a value that fits on its own re-establishes the bound. -/
theorem insertMem_bound_of_fits_reachable (cfg : Cfg) (tl : Tlru S) (size : V → Nat)
    (ops : List (Op K V × List Nat)) (rs : List Nat) (k : K) (v : V) (M : Nat) (hM : cfg.maxMem = some M)
    (hv : size v ≤ M) :
    totalMem size (insertMem cfg tl size rs (run cfg tl size (State.init : State K V) ops).1 k v).store ≤ M :=
  insertMem_bound_of_fits cfg tl size rs _ k v M hM (run_inv cfg tl size _ ops inv_init) hv

/-- (1)+(5) in every reachable state, sync engines: the loop run by `insert_with_memory` exits with the
    total fitting after the least possible number of evictions. -/
theorem sync_loop_minimal_reachable (cfg : Cfg) (tl : Tlru S) (size : V → Nat) (ops : List (Op K V × List Nat))
    (rs : List Nat) (k : K) (v : V) (M : Nat) (hf : cfg.flavour ≠ .async) (hM : cfg.maxMem = some M)
    (hv : size v ≤ M) :
    ∃ j, (∀ i, i < j → M < totalMem size (iterEvict cfg tl (run cfg tl size (State.init : State K V) ops).1.now i rs
            (put k ⟨v, stamp cfg (run cfg tl size (State.init : State K V) ops).1.now, 0⟩
              (run cfg tl size (State.init : State K V) ops).1.store)
            (erasePush k (run cfg tl size (State.init : State K V) ops).1.queue)).1) ∧
      syncLoop cfg tl size M rs (run cfg tl size (State.init : State K V) ops).1 k v =
        iterEvict cfg tl (run cfg tl size (State.init : State K V) ops).1.now j rs
            (put k ⟨v, stamp cfg (run cfg tl size (State.init : State K V) ops).1.now, 0⟩
              (run cfg tl size (State.init : State K V) ops).1.store)
            (erasePush k (run cfg tl size (State.init : State K V) ops).1.queue) ∧
      totalMem size (syncLoop cfg tl size M rs (run cfg tl size (State.init : State K V) ops).1 k v).1 ≤ M := by
  have hi : Inv (run cfg tl size (State.init : State K V) ops).1 := run_inv cfg tl size _ ops inv_init
  generalize (run cfg tl size (State.init : State K V) ops).1 = s at hi
  have h0 := InvMQ.put_erasePush hi k (⟨v, stamp cfg s.now, 0⟩ : Entry V)
  obtain ⟨j, _, h2, h3, h4, _, _⟩ := memLoop_shortest_prefix cfg tl size s.now M 0 rs h0 (Nat.zero_le _)
  refine ⟨j, ?_, h2, ?_⟩
  · intro i hij; have := h3 i hij; omega
  · unfold syncLoop; rw [h2]; omega

/-- (1)+(5) in every reachable state, async engine. -/
theorem async_loop_minimal_reachable (cfg : Cfg) (tl : Tlru S) (size : V → Nat) (ops : List (Op K V × List Nat))
    (rs : List Nat) (k : K) (v : V) (M : Nat) (hM : cfg.maxMem = some M) (hv : size v ≤ M) :
    ∃ j, (∀ i, i < j → M < totalMem size (iterEvict cfg tl (run cfg tl size (State.init : State K V) ops).1.now i rs
            (eraseKey k (run cfg tl size (State.init : State K V) ops).1.store)
            ((run cfg tl size (State.init : State K V) ops).1.queue.filter (fun x => x ≠ k))).1 + size v) ∧
      asyncLoop cfg tl size M rs (run cfg tl size (State.init : State K V) ops).1 k v =
        iterEvict cfg tl (run cfg tl size (State.init : State K V) ops).1.now j rs
            (eraseKey k (run cfg tl size (State.init : State K V) ops).1.store)
            ((run cfg tl size (State.init : State K V) ops).1.queue.filter (fun x => x ≠ k)) ∧
      totalMem size (asyncLoop cfg tl size M rs (run cfg tl size (State.init : State K V) ops).1 k v).1
        + size v ≤ M := by
  have hi : Inv (run cfg tl size (State.init : State K V) ops).1 := run_inv cfg tl size _ ops inv_init
  generalize (run cfg tl size (State.init : State K V) ops).1 = s at hi
  have h0 : InvMQ (eraseKey k s.store) (s.queue.filter (fun x => x ≠ k)) := InvMQ.remove hi k
  obtain ⟨j, _, h2, h3, h4, _, _⟩ := memLoop_shortest_prefix cfg tl size s.now M (size v) rs h0 hv
  refine ⟨j, h3, h2, ?_⟩
  unfold asyncLoop; rw [h2]; exact h4

/-! ## Non-vacuity: concrete histories (`K = V = Nat`, `size := id`, `max_memory = 10`) -/

def exTl : Tlru Nat := ⟨fun a b => decide (a < b), fun _ h _ r => h * r⟩
def cfgG : Cfg := ⟨.global, .fifo, none, some 10, none⟩
def cfgT : Cfg := ⟨.threadLocal, .lru, none, some 10, none⟩
def cfgA : Cfg := ⟨.async, .lfu, none, some 10, none⟩

/-- two victims needed: 4 + 4 + 8 = 16 > 10, after one eviction 12 > 10, after two 8 ≤ 10 -/
def opsTwo : List (Op Nat Nat × List Nat) :=
  [(.insertMem 1 4, []), (.insertMem 2 4, []), (.get 1, []), (.insertMem 3 8, [])]
/-- exact fit: 4 + 6 = 10 evicts nothing -/
def opsExact : List (Op Nat Nat × List Nat) :=
  [(.insertMem 1 4, []), (.tick 5, []), (.insertMem 2 6, [])]
/-- oversize newcomer (11 > 10) for a fresh key, then for an already cached key -/
def opsOver : List (Op Nat Nat × List Nat) :=
  [(.insertMem 1 4, []), (.insertMem 2 5, []), (.insertMem 3 11, [])]
def opsOverRestore : List (Op Nat Nat × List Nat) :=
  [(.insertMem 1 4, []), (.insertMem 2 5, []), (.insertMem 1 11, [])]

example : AllViaMem opsTwo := by decide
example : AllViaMem opsExact ∧ AllViaMem opsOver ∧ AllViaMem opsOverRestore := by decide

-- two victims, all three engines; the bound is attained with 8 ≤ 10
example : keys (run cfgG exTl id (State.init : State Nat Nat) opsTwo).1.store = [3] := by decide
example : keys (run cfgT exTl id (State.init : State Nat Nat) opsTwo).1.store = [3] := by decide
example : keys (run cfgA exTl id (State.init : State Nat Nat) opsTwo).1.store = [3] := by decide
example : totalMem id (run cfgA exTl id (State.init : State Nat Nat) opsTwo).1.store = 8 := by decide
-- one victim suffices (4 + 4 + 6 = 14, after one eviction 10): only the first victim goes
example : keys (run cfgG exTl id (State.init : State Nat Nat)
    [(.insertMem 1 4, []), (.insertMem 2 4, []), (.insertMem 3 6, [])]).1.store = [2, 3] := by decide
-- the loop result is `iterEvict 2` and not `iterEvict 1` on the state before the third store
def exStore : Store Nat Nat := [(1, ⟨4, 0, 0⟩), (2, ⟨4, 0, 0⟩), (3, ⟨8, 0, 0⟩)]
example : (memLoop cfgG exTl id 0 10 0 4 [] exStore [1, 2, 3]).2.1 = (iterEvict cfgG exTl 0 2 [] exStore [1, 2, 3]).2.1
    ∧ (memLoop cfgG exTl id 0 10 0 4 [] exStore [1, 2, 3]).2.1 ≠ (iterEvict cfgG exTl 0 1 [] exStore [1, 2, 3]).2.1
    ∧ (memLoop cfgG exTl id 0 10 0 4 [] exStore [1, 2, 3]).2.1 ≠ (iterEvict cfgG exTl 0 3 [] exStore [1, 2, 3]).2.1 := by
  decide
-- exact fit: nothing evicted, total = 10 = M
example : keys (run cfgG exTl id (State.init : State Nat Nat) opsExact).1.store = [1, 2] := by decide
example : keys (run cfgT exTl id (State.init : State Nat Nat) opsExact).1.store = [1, 2] := by decide
example : keys (run cfgA exTl id (State.init : State Nat Nat) opsExact).1.store = [1, 2] := by decide
example : totalMem id (run cfgA exTl id (State.init : State Nat Nat) opsExact).1.store = 10 := by decide
-- oversize: not cached, nothing displaced, queue untouched
example : (run cfgG exTl id (State.init : State Nat Nat) opsOver).1.queue = [1, 2] := by decide
example : keys (run cfgT exTl id (State.init : State Nat Nat) opsOver).1.store = [1, 2] := by decide
example : keys (run cfgA exTl id (State.init : State Nat Nat) opsOver).1.store = [1, 2] := by decide
-- oversize re-store of a cached key: only that key's old entry goes
example : keys (run cfgG exTl id (State.init : State Nat Nat) opsOverRestore).1.store = [2] := by decide
example : keys (run cfgT exTl id (State.init : State Nat Nat) opsOverRestore).1.store = [2] := by decide
example : keys (run cfgA exTl id (State.init : State Nat Nat) opsOverRestore).1.store = [2] := by decide
-- the hypothesis "every store is an `insertMem`" is needed: a plain `insert` ignores `max_memory`
example : ¬ totalMem id (run cfgG exTl id (State.init : State Nat Nat) [(.insert 1 20, [])]).1.store ≤ 10 := by
  decide
-- sync engines: the newcomer takes part in victim selection (LFU: it has the fewest hits), so with
-- `max_memory` tight a fitting newcomer can be the one evicted; async keeps it (cf. `async_fitting_value_is_cached`)
example : keys (run ⟨.global, .lfu, none, some 10, none⟩ exTl id (State.init : State Nat Nat)
    [(.insertMem 1 6, []), (.get 1, []), (.insertMem 2 5, [])]).1.store = [1] := by decide
example : keys (run cfgA exTl id (State.init : State Nat Nat)
    [(.insertMem 1 6, []), (.get 1, []), (.insertMem 2 5, [])]).1.store = [2] := by decide

end Cachelito.C05
