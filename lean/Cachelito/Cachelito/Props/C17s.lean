/-
  C17s — the lock hierarchy checked against the CURRENT SOURCE (translator tie).

  `Cachelito/Generated/LockNesting.lean` is regenerated from /repo's source by `checklib/static_scopes.py` on every
  check of C17: `nesting` lists every statically possible nesting of lock acquisitions — lexical guard scopes,
  calls of functions that acquire locks while the caller's guards are alive, and the registered callbacks the
  registry runs while holding its callback table.  The theorems below are re-checked by the kernel against
  whatever the translator produced from the code as it is now:

    * `static_nesting_rank_increasing` — every nesting in the source strictly increases the rank of `Conc.Table`;
    * `static_nesting_in_table` — every nesting in the source is a nesting of some skeleton of THE TABLE
      (`Conc.Table.opTable`), i.e. the hand-written skeletons do not miss a nesting the code can perform;
    * `wf_of_pairs_rank_increasing` / `deadlock_free_of_source_nestings` — ANY skeleton (whatever the true control
      flow of an operation is) all of whose nestings are among the extracted ones is rank-disciplined, which is
      the hypothesis of `C17.deadlock_free`.

  A change of the code that takes the store lock before the queue mutex, re-enters a lock it holds, or holds a
  cache lock while taking a registry lock changes `nesting` and these proofs no longer check.
-/
import Cachelito.Generated.LockNesting

namespace Cachelito.C17s
open Cachelito.Conc Cachelito.Conc.Skel Cachelito.Conc.Table Cachelito.Generated

/-- the nestings (lock held, its mode, lock acquired, its mode) a skeleton can perform under `held` -/
def pairs (held : List (Lock × Mode)) : Skel → List (Lock × Mode × Lock × Mode)
  | .done => []
  | .crit l m b => held.map (fun h => (h.1, h.2, l, m)) ++ pairs ((l, m) :: held) b
  | .seq a b => pairs held a ++ pairs held b
  | .alt a b => pairs held a ++ pairs held b
  | .star b => pairs held b

/-- all nestings of THE TABLE (two sync caches 0 and 1, one async cache 2) -/
def tablePairs : List (Lock × Mode × Lock × Mode) := opTable.flatMap (fun p => pairs [] p.2)

/-- The translator classified every acquisition it met (no unknown receiver). -/
theorem translator_classified_everything : lockProblems = [] := by decide

/-- The translator saw the lock acquisition sites (non-vacuity of the two theorems below). -/
theorem translator_saw_sites : 0 < lockSites ∧ 0 < nesting.length := by decide

/-- **Every nesting of lock acquisitions in the current source strictly increases the rank**
    (registry < queue mutex < store lock). -/
theorem static_nesting_rank_increasing : ∀ e ∈ nesting, e.1.rank < e.2.2.1.rank := by decide

/-- **Every nesting in the current source is a nesting of some skeleton of THE TABLE.** -/
theorem static_nesting_in_table : ∀ e ∈ nesting, e ∈ tablePairs := by decide

/-- A skeleton all of whose nestings increase the rank is rank-disciplined (`Skel.wf`). -/
theorem wf_of_pairs_rank_increasing (s : Skel) (held : List (Lock × Mode))
    (h : ∀ e ∈ pairs held s, e.1.rank < e.2.2.1.rank) : s.wf (held.map (·.1)) = true := by
  induction s generalizing held with
  | done => simp [Skel.wf]
  | crit l m b ih =>
    simp only [Skel.wf, Bool.and_eq_true, List.all_eq_true, decide_eq_true_eq]
    refine ⟨?_, ?_⟩
    · intro x hx
      obtain ⟨y, hy, rfl⟩ := List.mem_map.mp hx
      have := h (y.1, y.2, l, m) (by
        simp only [pairs, List.mem_append, List.mem_map]
        exact Or.inl ⟨y, hy, rfl⟩)
      simpa using this
    · have := ih ((l, m) :: held) (fun e he => h e (by
        simp only [pairs, List.mem_append]; exact Or.inr he))
      simpa using this
  | seq a b iha ihb =>
    simp only [Skel.wf, Bool.and_eq_true]
    exact ⟨iha held (fun e he => h e (by simp only [pairs, List.mem_append]; exact Or.inl he)),
           ihb held (fun e he => h e (by simp only [pairs, List.mem_append]; exact Or.inr he))⟩
  | alt a b iha ihb =>
    simp only [Skel.wf, Bool.and_eq_true]
    exact ⟨iha held (fun e he => h e (by simp only [pairs, List.mem_append]; exact Or.inl he)),
           ihb held (fun e he => h e (by simp only [pairs, List.mem_append]; exact Or.inr he))⟩
  | star b ih =>
    simp only [Skel.wf]
    exact ih held (fun e he => h e (by simpa only [pairs] using he))

/-- **Whatever the control flow of an operation is, if its nestings are among those extracted from the source it is
    rank-disciplined** — the hypothesis under which `C17.deadlock_free` holds for any number of threads. -/
theorem wf_of_source_nestings (s : Skel) (h : ∀ e ∈ pairs [] s, e ∈ nesting) : s.wf [] = true := by
  have := wf_of_pairs_rank_increasing s [] (fun e he => static_nesting_rank_increasing e (h e he))
  simpa using this

/-- non-vacuity: the skeleton of `GlobalCache::insert` performs only extracted nestings -/
example : ∀ e ∈ pairs [] (syncInsert 0), e ∈ nesting := by decide

/-- and the pre-fix conditional-invalidation callback (store lock first, then the queue mutex) does not -/
example : ¬ (∀ e ∈ pairs [] (legacyCondCb 0), e ∈ nesting) := by decide

/-- **No DashMap shard guard is alive where the current source acquires a lock, touches the DashMap again, calls a function that
    does, or awaits.**  The lock model treats every DashMap operation as an atomic step (a shard lock is taken and released inside
    it); this is the obligation that makes that sound: a `Ref` / `RefMut` / iterator kept alive across a queue-mutex acquisition
    would add a lock of rank ABOVE the queue mutex that is taken BEFORE it (the inverse of every insert / eviction / invalidation
    path, which touch the DashMap under the queue mutex), and one kept across an `.await` blocks the shard while the call is
    suspended (C20).  The list is extracted by `checklib/static_scopes.py` from the current source on every run. -/
theorem shard_guards_never_held : shardHeld = [] := by decide

end Cachelito.C17s
