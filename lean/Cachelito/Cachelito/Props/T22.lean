/-
  T22 — TRANSLATOR TIE, cachelito-core/src/stats_registry.rs: the statistics registry (C15)

  The six public functions (`register`, `get`, `get_ref`, `list`, `clear`, `reset`) work on the process-global
  `STATS_REGISTRY : Lazy<RwLock<HashMap<String, &'static Lazy<CacheStats>>>>` — a table of REFERENCES to the caches' own counter
  cells.  `checklib/rust2lean.py` checks that declaration, turns the functions into methods of the registry state
  (`STATS_REGISTRY` → the table, `&'static Lazy<CacheStats>` → a cell reference, reading `(**stats).clone()` → the cell's content,
  `stats.reset()` → zeroing that cell in the heap) and translates them from /repo's CURRENT source
  (`Generated/PureStatsRegistry.lean`).

  Theorems: each translated function IS the operation of the hand-written `StatsReg.step` (about which `C15r` proves the
  table theorems and the refinement to `System.lean`): `register` replaces only the reference stored under the name;
  `get` is a snapshot of the cell the name points to NOW (so a later `record_hit` on the cache's own cell is visible);
  `get_ref` returns the reference itself; `reset` zeroes exactly that cell — every other cell, and the table, are untouched —
  and reports whether the name was registered; `clear` empties the table and touches no cell; `list` returns the names.
-/
import Cachelito.Generated.PureStatsRegistry
import Cachelito.StatsReg

set_option linter.unusedSimpArgs false
set_option linter.unusedVariables false

namespace Cachelito.T22
open Cachelito Cachelito.RustLite Cachelito.Generated Cachelito.StatsReg

theorem register_eq (r : Reg) (name : String) (c : Cell) :
    StatsRegistry.register r name c = (StatsReg.step r (.register name c)).1 := by
  simp [StatsRegistry.register, StatsReg.step]

theorem get_eq (r : Reg) (name : String) :
    (StatsReg.step r (.get name)).2 = .snap (StatsRegistry.get r name) := by
  simp [StatsRegistry.get, StatsReg.step]

theorem get_ref_eq (r : Reg) (name : String) :
    (StatsReg.step r (.getRef name)).2 = .ref ((StatsRegistry.get_ref r name).map (fun c => (c, r.cells c))) := by
  simp [StatsRegistry.get_ref, StatsReg.step]

theorem list_eq (r : Reg) : (StatsReg.step r .list).2 = .names (StatsRegistry.list r) := by
  simp [StatsRegistry.list, StatsReg.step]

theorem clear_eq (r : Reg) : StatsRegistry.clear r = (StatsReg.step r .clear).1 := by
  simp [StatsRegistry.clear, StatsReg.step, clearAll]

/-- **`reset` is the model's `reset`**: flag and state -/
theorem reset_eq (r : Reg) (name : String) :
    (StatsRegistry.reset r name).2 = (StatsReg.step r (.reset name)).1 ∧
    (StatsReg.step r (.reset name)).2 = .flag (StatsRegistry.reset r name).1 := by
  unfold StatsRegistry.reset
  simp only [StatsReg.step]
  cases h : Registry.getKey r.table name <;> simp [h, Reg.write]
  rfl

/-- `reset` is a frame for every cell other than the one the name points to, and for the table (C15: resetting one cache's
    statistics leaves every other cache's alone) -/
theorem reset_frame (r : Reg) (name : String) (c : Cell) (hc : Registry.getKey r.table name ≠ some c) :
    (StatsRegistry.reset r name).2.cells c = r.cells c ∧ (StatsRegistry.reset r name).2.table = r.table := by
  unfold StatsRegistry.reset
  cases h : Registry.getKey r.table name with
  | none => simp [h]
  | some c0 =>
    have : c ≠ c0 := fun e => hc (by rw [h, e])
    simp [h, heapReset, this]

/-- non-vacuity: two names, one shared cell, a reset through one name is visible through the other -/
example :
    let r0 : Reg := { table := [], cells := fun c => if c = 1 then ⟨3, 2⟩ else ⟨7, 7⟩ }
    let r1 := StatsRegistry.register (StatsRegistry.register r0 "a" 1) "b" 1
    StatsRegistry.get r1 "b" = some ⟨3, 2⟩ ∧ (StatsRegistry.reset r1 "a").1 = true ∧
    StatsRegistry.get (StatsRegistry.reset r1 "a").2 "b" = some ⟨0, 0⟩ ∧
    (StatsRegistry.reset r1 "a").2.cells 5 = ⟨7, 7⟩ ∧ StatsRegistry.list r1 = ["a", "b"] ∧
    (StatsRegistry.reset r1 "zz").1 = false := by
  decide

end Cachelito.T22
