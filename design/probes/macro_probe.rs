use cachelito::cache;
use cachelito_async::cache_async;
use std::sync::atomic::{AtomicUsize, Ordering::SeqCst};
use std::future::Future;
use std::pin::Pin;
use std::task::{Context, Poll, RawWaker, RawWakerVTable, Waker};

fn block_on<F: Future>(mut f: F) -> F::Output {
    fn noop(_: *const ()) {}
    fn clone(_: *const ()) -> RawWaker { RawWaker::new(std::ptr::null(), &VT) }
    static VT: RawWakerVTable = RawWakerVTable::new(clone, noop, noop, noop);
    let w = unsafe { Waker::from_raw(RawWaker::new(std::ptr::null(), &VT)) };
    let mut cx = Context::from_waker(&w);
    let mut f = unsafe { Pin::new_unchecked(&mut f) };
    loop { if let Poll::Ready(v) = f.as_mut().poll(&mut cx) { return v; } }
}

static EXEC: AtomicUsize = AtomicUsize::new(0);
static GEN: AtomicUsize = AtomicUsize::new(0);
fn stale(_k: &String, v: &usize) -> bool { *v < GEN.load(SeqCst) }

#[cache_async(invalidate_on = stale)]
async fn a_inv(x: u32) -> usize { EXEC.fetch_add(1, SeqCst); let _ = x; GEN.load(SeqCst) }

#[cache(invalidate_on = stale)]
fn s_inv(x: u32) -> usize { EXEC.fetch_add(1, SeqCst); let _ = x; GEN.load(SeqCst) }

type MyRes = Result<u32, String>;
#[cache]
fn io_res(x: u32) -> MyRes { EXEC.fetch_add(1, SeqCst); if x == 0 { Err("e".into()) } else { Ok(x) } }

#[cache(scope = "thread", limit = 1, policy = "lfu")]
fn tl_lfu(x: u32) -> u32 { x }

#[cache(limit = 2, tags = ["t"], name = "named")]
fn tagged(x: u32) -> u32 { EXEC.fetch_add(1, SeqCst); x }

fn main() {
    std::panic::set_hook(Box::new(|_| {}));
    // async invalidate_on
    EXEC.store(0, SeqCst);
    block_on(a_inv(1)); GEN.store(1, SeqCst);
    block_on(a_inv(1)); block_on(a_inv(1)); block_on(a_inv(1));
    println!("C11 async: executions after stale refresh = {} (expect 2)", EXEC.load(SeqCst));
    GEN.store(0, SeqCst); EXEC.store(0, SeqCst);
    s_inv(1); GEN.store(1, SeqCst); s_inv(1); s_inv(1); s_inv(1);
    println!("C11 sync: executions = {} (expect 2)", EXEC.load(SeqCst));
    println!("tl_lfu overflow: {}", if std::panic::catch_unwind(|| { tl_lfu(1); tl_lfu(2); }).is_ok() {"ok"} else {"PANIC"});
    EXEC.store(0, SeqCst);
    tagged(1); tagged(1);
    println!("tagged exec {} ; by_tag count {} ; by name {} ; by fn name {}", EXEC.load(SeqCst), cachelito::invalidate_by_tag("t"), cachelito::invalidate_cache("named"), cachelito::invalidate_cache("tagged"));
    tagged(1);
    println!("tagged exec after inval {}", EXEC.load(SeqCst));
    let keys = std::sync::Mutex::new(vec![]);
    let r = cachelito::invalidate_with("named", |k| { let _ = k; false });
    cachelito::invalidate_all_with(|n, k| { keys.lock().unwrap().push(format!("{}:{}", n, k)); false });
    let mut keys = keys.into_inner().unwrap(); keys.sort();
    println!("invalidate_with ret {} keys {:?}", r, keys);
    EXEC.store(0, SeqCst); let _ = io_res(0); let _ = io_res(0); println!("alias Result Err cached? executions = {} (2 = not cached)", EXEC.load(SeqCst));
    println!("stats named {:?}", cachelito::stats_registry::get("named").map(|s| (s.hits(), s.misses())));
}
