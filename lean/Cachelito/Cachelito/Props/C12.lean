/-
  C12 — Tag / event / dependency / name invalidation empties every matching cache.

  "After invalidate_by_tag, invalidate_by_event, invalidate_by_dependency or invalidate_cache returns,
   every global or async cache that has been used at least once, declares at least one tag, event or
   dependency, and matches the request (by that tag, event or dependency, or by its name) holds no entry
   from before the call: the next call for any arguments runs the body.  The returned count (or boolean)
   equals the number of such caches."

  Property theorems only (helper lemmas: `Cachelito/Lemmas/System.lean`).  Everything is stated for every
  list of cached functions `fns` (sync global, async and thread-scope mixed, any metadata layout, any
  policy / limit / TTL per function), every TLRU algebra, size function, `Result` classifier, random
  draws, every system state — in particular every state reached by a history from `Sys.init` — and every
  request, including strings nothing declares.  "Such a cache" is `Target fns sys op i`:
  function `i` exists, is not thread-scope, has been called (`i ∈ sys.called`), declares metadata
  (`HasMeta`) and matches the request (`Matches op spec`).
-/
import Cachelito.Lemmas.System

set_option linter.unusedSectionVars false
set_option linter.unusedSimpArgs false
set_option linter.unusedVariables false

namespace Cachelito.C12
open Cachelito Cachelito.SysLemmas
variable {K V S : Type} [DecidableEq K]

/-! ### "used at least once" -/

/-- **Registration = first call.**  After any history from the initial system, function `i` is in the
    registration set exactly when the history contains a call of `i` and `i` is an existing function that
    is not thread-scope. -/
theorem called_iff (fns : List FnSpec) (tls : Nat → Tlru S) (size : V → Nat) (isOk : V → Bool)
    (ops : List (SysOp K V × List Nat)) (i : Nat) :
    i ∈ (sysRun fns tls size isOk (Sys.init : Sys K V) ops).1.called ↔
      ∃ th c rs spec, (SysOp.call i th c, rs) ∈ ops ∧ fns[i]? = some spec ∧ spec.threadScope = false := by
  rw [mem_called_sysRun]
  constructor
  · rintro (h | h)
    · simp [Sys.init] at h
    · exact h
  · exact Or.inr

/-- a clear callback exists exactly for the functions that are registered and declare metadata -/
theorem clear_callback_iff (fns : List FnSpec) (sys : Sys K V) (i : Nat) :
    hasClearCallback fns sys i = true ↔
      ∃ spec, fns[i]? = some spec ∧ spec.threadScope = false ∧ i ∈ sys.called ∧ HasMeta spec :=
  hasClearCallback_iff fns sys i

/-! ### (1) every matching cache is emptied — store AND order queue -/

/-- **C12, emptying (all four requests at once).**  In every system state, after a tag / event /
    dependency / name invalidation `op`, the cache of every function that exists, is global or async, has
    been called, declares metadata and matches `op` has an empty store and an empty order queue. -/
theorem invalidation_empties (fns : List FnSpec) (tls : Nat → Tlru S) (size : V → Nat) (isOk : V → Bool)
    (rs : List Nat) (sys : Sys K V) (op : SysOp K V) (i : Nat) (spec : FnSpec)
    (hs : fns[i]? = some spec) (hts : spec.threadScope = false) (hc : i ∈ sys.called)
    (hm : HasMeta spec) (hmatch : Matches op spec) :
    ((sysStep fns tls size isOk rs sys op).1.getCache ⟨i, none⟩).store = [] ∧
    ((sysStep fns tls size isOk rs sys op).1.getCache ⟨i, none⟩).queue = [] := by
  obtain ⟨sel, hsel⟩ := groupSel_of_matches hmatch
  have := (group_getCache fns tls size isOk rs sys hsel ⟨i, none⟩).1 ⟨rfl, spec, hs, hts, hc, hm, hmatch⟩
  rw [this]; exact ⟨rfl, rfl⟩

/-- `invalidate_by_tag t`: every registered global/async cache declaring tag `t` is emptied
    (declaring `t` already means the metadata is non-empty). -/
theorem invalidateByTag_empties (fns : List FnSpec) (tls : Nat → Tlru S) (size : V → Nat) (isOk : V → Bool)
    (rs : List Nat) (sys : Sys K V) (t : String) (i : Nat) (spec : FnSpec)
    (hs : fns[i]? = some spec) (hts : spec.threadScope = false) (hc : i ∈ sys.called) (ht : t ∈ spec.tags) :
    ((sysStep fns tls size isOk rs sys (.invalidateByTag t)).1.getCache ⟨i, none⟩).store = [] ∧
    ((sysStep fns tls size isOk rs sys (.invalidateByTag t)).1.getCache ⟨i, none⟩).queue = [] :=
  invalidation_empties fns tls size isOk rs sys _ i spec hs hts hc
    (Or.inl (fun h => by rw [h] at ht; cases ht)) ht

/-- `invalidate_by_event e`: every registered global/async cache declaring event `e` is emptied. -/
theorem invalidateByEvent_empties (fns : List FnSpec) (tls : Nat → Tlru S) (size : V → Nat) (isOk : V → Bool)
    (rs : List Nat) (sys : Sys K V) (e : String) (i : Nat) (spec : FnSpec)
    (hs : fns[i]? = some spec) (hts : spec.threadScope = false) (hc : i ∈ sys.called) (he : e ∈ spec.events) :
    ((sysStep fns tls size isOk rs sys (.invalidateByEvent e)).1.getCache ⟨i, none⟩).store = [] ∧
    ((sysStep fns tls size isOk rs sys (.invalidateByEvent e)).1.getCache ⟨i, none⟩).queue = [] :=
  invalidation_empties fns tls size isOk rs sys _ i spec hs hts hc
    (Or.inr (Or.inl (fun h => by rw [h] at he; cases he))) he

/-- `invalidate_by_dependency d`: every registered global/async cache declaring dependency `d` is emptied. -/
theorem invalidateByDependency_empties (fns : List FnSpec) (tls : Nat → Tlru S) (size : V → Nat)
    (isOk : V → Bool) (rs : List Nat) (sys : Sys K V) (d : String) (i : Nat) (spec : FnSpec)
    (hs : fns[i]? = some spec) (hts : spec.threadScope = false) (hc : i ∈ sys.called) (hd : d ∈ spec.deps) :
    ((sysStep fns tls size isOk rs sys (.invalidateByDependency d)).1.getCache ⟨i, none⟩).store = [] ∧
    ((sysStep fns tls size isOk rs sys (.invalidateByDependency d)).1.getCache ⟨i, none⟩).queue = [] :=
  invalidation_empties fns tls size isOk rs sys _ i spec hs hts hc
    (Or.inr (Or.inr (fun h => by rw [h] at hd; cases hd))) hd

/-- `invalidate_cache name`: the registered global/async cache of that name is emptied, provided it
    declares at least one tag, event or dependency (otherwise it owns no clear callback). -/
theorem invalidateCache_empties (fns : List FnSpec) (tls : Nat → Tlru S) (size : V → Nat) (isOk : V → Bool)
    (rs : List Nat) (sys : Sys K V) (name : String) (i : Nat) (spec : FnSpec)
    (hs : fns[i]? = some spec) (hts : spec.threadScope = false) (hc : i ∈ sys.called)
    (hm : HasMeta spec) (hn : spec.name = name) :
    ((sysStep fns tls size isOk rs sys (.invalidateCache name)).1.getCache ⟨i, none⟩).store = [] ∧
    ((sysStep fns tls size isOk rs sys (.invalidateCache name)).1.getCache ⟨i, none⟩).queue = [] :=
  invalidation_empties fns tls size isOk rs sys _ i spec hs hts hc hm hn

/-- **C12 over histories.**  For every history `ops` from the initial system that contains a call of
    `i`, an invalidation matching `i` executed next leaves `i`'s cache with empty store and queue. -/
theorem invalidation_empties_history (fns : List FnSpec) (tls : Nat → Tlru S) (size : V → Nat) (isOk : V → Bool)
    (ops : List (SysOp K V × List Nat)) (rs : List Nat) (op : SysOp K V) (i : Nat) (spec : FnSpec)
    (hs : fns[i]? = some spec) (hts : spec.threadScope = false)
    (th0 : Nat) (c0 : CallIn K V) (rs0 : List Nat) (hcalled : (SysOp.call i th0 c0, rs0) ∈ ops)
    (hm : HasMeta spec) (hmatch : Matches op spec) :
    let sys := (sysRun fns tls size isOk (Sys.init : Sys K V) ops).1
    ((sysStep fns tls size isOk rs sys op).1.getCache ⟨i, none⟩).store = [] ∧
    ((sysStep fns tls size isOk rs sys op).1.getCache ⟨i, none⟩).queue = [] := by
  intro sys
  exact invalidation_empties fns tls size isOk rs sys op i spec hs hts
    ((called_iff fns tls size isOk ops i).mpr ⟨th0, c0, rs0, spec, hcalled, hs, hts⟩) hm hmatch

/-! ### (2) the returned count / boolean -/

/-- **C12, count.**  `invalidate_by_tag` returns the number of "such caches": there is a duplicate-free
    list containing exactly the functions that exist, are global/async, have been called, and declare
    the tag, and the returned count is its length. -/
theorem invalidateByTag_count (fns : List FnSpec) (tls : Nat → Tlru S) (size : V → Nat) (isOk : V → Bool)
    (rs : List Nat) (sys : Sys K V) (t : String) :
    ∃ l : List Nat, l.Nodup ∧
      (∀ i, i ∈ l ↔ ∃ spec, fns[i]? = some spec ∧ spec.threadScope = false ∧ i ∈ sys.called ∧ t ∈ spec.tags) ∧
      (sysStep fns tls size isOk rs sys (.invalidateByTag t)).2 = .count l.length := by
  refine ⟨clearTargets fns sys (fun spec => spec.tags.contains t), clearTargets_nodup _ _ _, ?_, rfl⟩
  intro i
  rw [mem_clearTargets, isTarget_iff_target (op := (.invalidateByTag t : SysOp K V)) rfl]
  constructor
  · rintro ⟨spec, h1, h2, h3, _, h5⟩; exact ⟨spec, h1, h2, h3, h5⟩
  · rintro ⟨spec, h1, h2, h3, h5⟩
    exact ⟨spec, h1, h2, h3, Or.inl (fun h => by rw [h] at h5; cases h5), h5⟩

/-- `invalidate_by_event` returns the number of registered global/async caches declaring the event. -/
theorem invalidateByEvent_count (fns : List FnSpec) (tls : Nat → Tlru S) (size : V → Nat) (isOk : V → Bool)
    (rs : List Nat) (sys : Sys K V) (e : String) :
    ∃ l : List Nat, l.Nodup ∧
      (∀ i, i ∈ l ↔ ∃ spec, fns[i]? = some spec ∧ spec.threadScope = false ∧ i ∈ sys.called ∧ e ∈ spec.events) ∧
      (sysStep fns tls size isOk rs sys (.invalidateByEvent e)).2 = .count l.length := by
  refine ⟨clearTargets fns sys (fun spec => spec.events.contains e), clearTargets_nodup _ _ _, ?_, rfl⟩
  intro i
  rw [mem_clearTargets, isTarget_iff_target (op := (.invalidateByEvent e : SysOp K V)) rfl]
  constructor
  · rintro ⟨spec, h1, h2, h3, _, h5⟩; exact ⟨spec, h1, h2, h3, h5⟩
  · rintro ⟨spec, h1, h2, h3, h5⟩
    exact ⟨spec, h1, h2, h3, Or.inr (Or.inl (fun h => by rw [h] at h5; cases h5)), h5⟩

/-- `invalidate_by_dependency` returns the number of registered global/async caches declaring the
    dependency. -/
theorem invalidateByDependency_count (fns : List FnSpec) (tls : Nat → Tlru S) (size : V → Nat)
    (isOk : V → Bool) (rs : List Nat) (sys : Sys K V) (d : String) :
    ∃ l : List Nat, l.Nodup ∧
      (∀ i, i ∈ l ↔ ∃ spec, fns[i]? = some spec ∧ spec.threadScope = false ∧ i ∈ sys.called ∧ d ∈ spec.deps) ∧
      (sysStep fns tls size isOk rs sys (.invalidateByDependency d)).2 = .count l.length := by
  refine ⟨clearTargets fns sys (fun spec => spec.deps.contains d), clearTargets_nodup _ _ _, ?_, rfl⟩
  intro i
  rw [mem_clearTargets, isTarget_iff_target (op := (.invalidateByDependency d : SysOp K V)) rfl]
  constructor
  · rintro ⟨spec, h1, h2, h3, _, h5⟩; exact ⟨spec, h1, h2, h3, h5⟩
  · rintro ⟨spec, h1, h2, h3, h5⟩
    exact ⟨spec, h1, h2, h3, Or.inr (Or.inr (fun h => by rw [h] at h5; cases h5)), h5⟩

/-- `invalidate_cache name` returns `true` exactly when a registered global/async function of that
    name with metadata exists; with pairwise distinct names there is at most one, so the boolean is
    the number of such caches (0 or 1). -/
theorem invalidateCache_flag (fns : List FnSpec) (hnames : (fns.map (·.name)).Nodup)
    (tls : Nat → Tlru S) (size : V → Nat) (isOk : V → Bool) (rs : List Nat) (sys : Sys K V) (name : String) :
    ∃ l : List Nat, l.Nodup ∧ l.length ≤ 1 ∧
      (∀ i, i ∈ l ↔ ∃ spec, fns[i]? = some spec ∧ spec.threadScope = false ∧ i ∈ sys.called ∧
                      HasMeta spec ∧ spec.name = name) ∧
      (sysStep fns tls size isOk rs sys (.invalidateCache name)).2 = .flag (decide (l.length = 1)) := by
  have hmem : ∀ i, i ∈ clearTargets fns sys (fun spec => spec.name = name) ↔
      ∃ spec, fns[i]? = some spec ∧ spec.threadScope = false ∧ i ∈ sys.called ∧ HasMeta spec ∧ spec.name = name := by
    intro i
    rw [mem_clearTargets, isTarget_iff_target (op := (.invalidateCache name : SysOp K V)) rfl]
    exact Iff.rfl
  have hnd := clearTargets_nodup fns sys (fun spec => spec.name = name)
  have hle : (clearTargets fns sys (fun spec => spec.name = name)).length ≤ 1 := by
    generalize clearTargets fns sys (fun spec => spec.name = name) = l at hmem hnd
    match l, hmem, hnd with
    | [], _, _ => simp
    | [a], _, _ => simp
    | a :: b :: l, hmem, hnd =>
      exfalso
      obtain ⟨sa, ha1, _, _, _, ha5⟩ := (hmem a).mp List.mem_cons_self
      obtain ⟨sb, hb1, _, _, _, hb5⟩ := (hmem b).mp (List.mem_cons_of_mem _ List.mem_cons_self)
      have := index_unique_of_name hnames ha1 hb1 (ha5.trans hb5.symm)
      subst this
      simp at hnd
  refine ⟨_, hnd, hle, hmem, ?_⟩
  show SysOut.flag (!(clearTargets fns sys (fun spec => spec.name = name)).isEmpty) = _
  congr 1
  generalize clearTargets fns sys (fun spec => spec.name = name) = l at hle
  match l, hle with
  | [], _ => rfl
  | [a], _ => rfl
  | a :: b :: l, hle => simp at hle

/-- the boolean of `invalidate_cache`, without the distinct-names assumption: `true` iff some such
    cache exists -/
theorem invalidateCache_flag_iff (fns : List FnSpec) (tls : Nat → Tlru S) (size : V → Nat) (isOk : V → Bool)
    (rs : List Nat) (sys : Sys K V) (name : String) :
    ∃ b, (sysStep fns tls size isOk rs sys (.invalidateCache name)).2 = .flag b ∧
      (b = true ↔ ∃ i, Target fns sys (.invalidateCache name : SysOp K V) i) := by
  refine ⟨_, rfl, ?_⟩
  rw [isEmpty_eq_false_iff_exists_mem]
  constructor
  · rintro ⟨i, hi⟩
    exact ⟨i, (isTarget_iff_target (op := (.invalidateCache name : SysOp K V)) rfl i).mp
      ((mem_clearTargets _ _ _ _).mp hi)⟩
  · rintro ⟨i, hi⟩
    exact ⟨i, (mem_clearTargets _ _ _ _).mpr
      ((isTarget_iff_target (op := (.invalidateCache name : SysOp K V)) rfl i).mpr hi)⟩

/-- **Unknown requests do nothing.**  If no cache is a target of the request (for instance a tag,
    event, dependency or name nothing declares, or declared only by functions never called or by
    thread-scope functions), the call returns 0 / `false` and the whole system state is unchanged. -/
theorem invalidation_no_target (fns : List FnSpec) (tls : Nat → Tlru S) (size : V → Nat) (isOk : V → Bool)
    (rs : List Nat) (sys : Sys K V) (op : SysOp K V) (sel : FnSpec → Bool) (hsel : groupSel op = some sel)
    (hno : ∀ i, ¬ Target fns sys op i) :
    sysStep fns tls size isOk rs sys op =
      (sys, match op with | .invalidateCache _ => .flag false | _ => .count 0) := by
  have hnil : clearTargets fns sys sel = [] := by
    cases hl : clearTargets fns sys sel with
    | nil => rfl
    | cons a l =>
      exfalso
      apply hno a
      rw [← isTarget_iff_target hsel, ← mem_clearTargets, hl]; exact List.mem_cons_self
  have h1 := sysStep_group fns tls size isOk rs sys hsel
  have h2 := group_out fns tls size isOk rs sys hsel
  rw [hnil] at h1 h2
  rw [clearAll_nil] at h1
  apply Prod.ext
  · exact h1
  · rw [h2]; cases op <;> rfl

/-- a tag that no function declares: count 0, nothing changes -/
theorem invalidateByTag_unknown (fns : List FnSpec) (tls : Nat → Tlru S) (size : V → Nat) (isOk : V → Bool)
    (rs : List Nat) (sys : Sys K V) (t : String) (hno : ∀ spec ∈ fns, t ∉ spec.tags) :
    sysStep fns tls size isOk rs sys (.invalidateByTag t) = (sys, .count 0) := by
  apply invalidation_no_target fns tls size isOk rs sys (.invalidateByTag t) _ rfl
  rintro i ⟨spec, h1, _, _, _, h5⟩
  exact hno spec (List.mem_of_getElem? h1) h5

/-- an event that no function declares: count 0, nothing changes -/
theorem invalidateByEvent_unknown (fns : List FnSpec) (tls : Nat → Tlru S) (size : V → Nat) (isOk : V → Bool)
    (rs : List Nat) (sys : Sys K V) (e : String) (hno : ∀ spec ∈ fns, e ∉ spec.events) :
    sysStep fns tls size isOk rs sys (.invalidateByEvent e) = (sys, .count 0) := by
  apply invalidation_no_target fns tls size isOk rs sys (.invalidateByEvent e) _ rfl
  rintro i ⟨spec, h1, _, _, _, h5⟩
  exact hno spec (List.mem_of_getElem? h1) h5

/-- a dependency that no function declares: count 0, nothing changes -/
theorem invalidateByDependency_unknown (fns : List FnSpec) (tls : Nat → Tlru S) (size : V → Nat)
    (isOk : V → Bool) (rs : List Nat) (sys : Sys K V) (d : String) (hno : ∀ spec ∈ fns, d ∉ spec.deps) :
    sysStep fns tls size isOk rs sys (.invalidateByDependency d) = (sys, .count 0) := by
  apply invalidation_no_target fns tls size isOk rs sys (.invalidateByDependency d) _ rfl
  rintro i ⟨spec, h1, _, _, _, h5⟩
  exact hno spec (List.mem_of_getElem? h1) h5

/-- a name that no function carries: `false`, nothing changes -/
theorem invalidateCache_unknown (fns : List FnSpec) (tls : Nat → Tlru S) (size : V → Nat) (isOk : V → Bool)
    (rs : List Nat) (sys : Sys K V) (name : String) (hno : ∀ spec ∈ fns, spec.name ≠ name) :
    sysStep fns tls size isOk rs sys (.invalidateCache name) = (sys, .flag false) := by
  apply invalidation_no_target fns tls size isOk rs sys (.invalidateCache name) _ rfl
  rintro i ⟨spec, h1, _, _, _, h5⟩
  exact hno spec (List.mem_of_getElem? h1) h5

/-! ### (3) the next call for any arguments runs the body -/

/-- **A call on an emptied cache runs the body.**  If the shared cache of a global/async function holds
    no entry, a call with any arguments by any thread executes the body (the trace contains `bodyRun`)
    and returns the body's value. -/
theorem call_on_empty_runs_body (fns : List FnSpec) (tls : Nat → Tlru S) (size : V → Nat) (isOk : V → Bool)
    (rs : List Nat) (sys : Sys K V) (i : Nat) (spec : FnSpec) (hs : fns[i]? = some spec)
    (hts : spec.threadScope = false) (he : (sys.getCache ⟨i, none⟩).store = []) (th : Nat) (c : CallIn K V) :
    ∃ tr, (sysStep fns tls size isOk rs sys (.call i th c)).2 = .ret c.bodyVal tr ∧ TraceEv.bodyRun ∈ tr := by
  have hid : cacheIdOf spec i th = ⟨i, none⟩ := by simp [cacheIdOf, hts]
  have h1 := (sysStep_call fns tls size isOk rs sys i th c hs).1
  rw [hid] at h1
  have h2 := callFn_of_store_nil spec (tls i) size isOk rs (sys.getCache ⟨i, none⟩) c he
  refine ⟨_, ?_, h2.2.1⟩
  rw [h1, h2.1]

/-- **C12, complete statement.**  Take any system state `sys` (e.g. one reached by a history), any
    matching invalidation `op` for a registered global/async function `i` with metadata, then any
    history `mid` that contains no call of `i` (calls of other functions, ticks, further invalidations,
    statistics operations), then a call of `i` with arbitrary arguments: the body runs and its value is
    returned — nothing stored before the invalidation is served. -/
theorem invalidation_then_call_runs_body (fns : List FnSpec) (tls : Nat → Tlru S) (size : V → Nat)
    (isOk : V → Bool) (sys : Sys K V) (rs : List Nat) (op : SysOp K V) (i : Nat) (spec : FnSpec)
    (hs : fns[i]? = some spec) (hts : spec.threadScope = false) (hc : i ∈ sys.called)
    (hm : HasMeta spec) (hmatch : Matches op spec)
    (mid : List (SysOp K V × List Nat)) (hmid : ∀ th c rs', (SysOp.call i th c, rs') ∉ mid)
    (rs' : List Nat) (th : Nat) (c : CallIn K V) :
    let s1 := (sysStep fns tls size isOk rs sys op).1
    let s2 := (sysRun fns tls size isOk s1 mid).1
    ∃ tr, (sysStep fns tls size isOk rs' s2 (.call i th c)).2 = .ret c.bodyVal tr ∧ TraceEv.bodyRun ∈ tr := by
  intro s1 s2
  have h1 := invalidation_empties fns tls size isOk rs sys op i spec hs hts hc hm hmatch
  have h2 := sysRun_store_nil fns tls size isOk s1 mid ⟨i, none⟩ (by
    intro fn th' c' rs'' spec' hmem hs' hid
    unfold cacheIdOf at hid
    have hfn : i = fn := congrArg CacheId.fn hid
    subst hfn
    exact hmid th' c' rs'' hmem) h1
  exact call_on_empty_runs_body fns tls size isOk rs' s2 i spec hs hts h2.1 th c

/-- the same from the initial system: a history that calls `i`, a matching invalidation, a history
    without calls of `i`, then a call of `i` — the body runs. -/
theorem history_invalidation_then_call_runs_body (fns : List FnSpec) (tls : Nat → Tlru S) (size : V → Nat)
    (isOk : V → Bool) (ops : List (SysOp K V × List Nat)) (rs : List Nat) (op : SysOp K V) (i : Nat)
    (spec : FnSpec) (hs : fns[i]? = some spec) (hts : spec.threadScope = false)
    (th0 : Nat) (c0 : CallIn K V) (rs0 : List Nat) (hcalled : (SysOp.call i th0 c0, rs0) ∈ ops)
    (hm : HasMeta spec) (hmatch : Matches op spec)
    (mid : List (SysOp K V × List Nat)) (hmid : ∀ th c rs', (SysOp.call i th c, rs') ∉ mid)
    (rs' : List Nat) (th : Nat) (c : CallIn K V) :
    let s0 := (sysRun fns tls size isOk (Sys.init : Sys K V) ops).1
    let s1 := (sysStep fns tls size isOk rs s0 op).1
    let s2 := (sysRun fns tls size isOk s1 mid).1
    ∃ tr, (sysStep fns tls size isOk rs' s2 (.call i th c)).2 = .ret c.bodyVal tr ∧ TraceEv.bodyRun ∈ tr := by
  intro s0
  exact invalidation_then_call_runs_body fns tls size isOk s0 rs op i spec hs hts
    ((called_iff fns tls size isOk ops i).mpr ⟨th0, c0, rs0, spec, hcalled, hs, hts⟩) hm hmatch mid hmid rs' th c

/-- **Frame for the intervening operations**: a history none of whose operations is addressed to cache
    instance `id` (calls of other functions or, for thread scope, other threads; invalidations whose
    targets do not include it; statistics operations on other names) leaves `id` exactly as it was,
    except that ticks advance its clock. -/
theorem other_operations_frame (fns : List FnSpec) (tls : Nat → Tlru S) (size : V → Nat) (isOk : V → Bool)
    (sys : Sys K V) (ops : List (SysOp K V × List Nat)) (id : CacheId)
    (h : NotAddressed fns tls size isOk sys ops id) :
    (sysRun fns tls size isOk sys ops).1.getCache id =
      { sys.getCache id with now := (sys.getCache id).now + ticksOf ops } :=
  sysRun_frame fns tls size isOk sys ops id h

/-! ### Non-vacuity (K = V = Nat)

  Four functions: `users` (sync global, tag "user", event "login"), `orders` (async, tags "user" and
  "order", dependency "users"), `local` (thread scope, also tagged "user" — registers nothing) and
  `plain` (global, no metadata — owns no clear callback).  All are called, then `invalidate_by_tag
  "user"` returns 2, empties exactly the first two caches (store and queue), and the next call of
  `users` with the argument that was cached runs the body again. -/

def exTl : Nat → Tlru Nat := fun _ => ⟨fun a b => decide (a < b), fun _ h _ r => h * r⟩
def exSpec (name : String) (isAsync threadScope : Bool) (fl : Flavour) (tags events deps : List String) : FnSpec :=
  { name := name, isAsync := isAsync, threadScope := threadScope, cfg := ⟨fl, .fifo, some 2, none, none⟩,
    useMem := false, isResult := false, hasCacheIf := false, hasInvalidateOn := false,
    tags := tags, events := events, deps := deps }
def exFns : List FnSpec :=
  [exSpec "users" false false .global ["user"] ["login"] [],
   exSpec "orders" true false .async ["user", "order"] [] ["users"],
   exSpec "local" false true .threadLocal ["user"] [] [],
   exSpec "plain" false false .global [] [] []]
def exCall (k v : Nat) : CallIn Nat Nat := ⟨k, v, fun _ _ => true, fun _ _ => false⟩
def exHist : List (SysOp Nat Nat × List Nat) :=
  [(.call 0 0 (exCall 1 10), []), (.call 0 1 (exCall 2 20), []), (.call 1 0 (exCall 1 11), []),
   (.call 2 0 (exCall 1 12), []), (.call 3 0 (exCall 1 13), []), (.tick 5, [])]
def exSys : Sys Nat Nat := (sysRun exFns exTl (fun _ => 0) (fun _ => true) Sys.init exHist).1
def exStep (sys : Sys Nat Nat) (op : SysOp Nat Nat) : Sys Nat Nat × SysOut Nat Nat :=
  sysStep exFns exTl (fun _ => 0) (fun _ => true) [] sys op
def isCount : SysOut Nat Nat → Option Nat
  | .count n => some n
  | _ => none
def isFlag : SysOut Nat Nat → Option Bool
  | .flag b => some b
  | _ => none
/-- did the call run the body, and what did it return -/
def ranBody : SysOut Nat Nat → Option (Bool × Nat)
  | .ret v tr => some (tr.any (fun e => match e with | .bodyRun => true | _ => false), v)
  | _ => none

-- the names are pairwise distinct (standing assumption)
example : (exFns.map (·.name)).Nodup := by decide
-- registered: the three non-thread-scope functions
example : exSys.called = [3, 1, 0] := by decide
-- before: every cache holds its entries
example : keys (exSys.getCache ⟨0, none⟩).store = [1, 2] ∧ (exSys.getCache ⟨0, none⟩).queue = [1, 2] := by decide
example : keys (exSys.getCache ⟨1, none⟩).store = [1] := by decide
-- a cached argument is served from the cache before the invalidation
example : ranBody (exStep exSys (.call 0 0 (exCall 1 99))).2 = some (false, 10) := by decide
-- invalidate_by_tag "user": count 2 (thread-scope `local` is not counted)
example : isCount (exStep exSys (.invalidateByTag "user")).2 = some 2 := by decide
-- store AND queue of both matching caches are empty
example : let s := (exStep exSys (.invalidateByTag "user")).1
    (s.getCache ⟨0, none⟩).store.length = 0 ∧ (s.getCache ⟨0, none⟩).queue = [] ∧
    (s.getCache ⟨1, none⟩).store.length = 0 ∧ (s.getCache ⟨1, none⟩).queue = [] := by decide
-- the thread-scope cache and the cache without metadata keep their entry
example : let s := (exStep exSys (.invalidateByTag "user")).1
    keys (s.getCache ⟨2, some 0⟩).store = [1] ∧ keys (s.getCache ⟨3, none⟩).store = [1] := by decide
-- the next call with the formerly cached argument runs the body and returns the fresh value
example : ranBody (exStep (exStep exSys (.invalidateByTag "user")).1 (.call 0 0 (exCall 1 99))).2
    = some (true, 99) := by decide
-- the other request kinds
example : isCount (exStep exSys (.invalidateByTag "order")).2 = some 1 := by decide
example : isCount (exStep exSys (.invalidateByEvent "login")).2 = some 1 := by decide
example : isCount (exStep exSys (.invalidateByDependency "users")).2 = some 1 := by decide
example : isFlag (exStep exSys (.invalidateCache "orders")).2 = some true := by decide
-- the tag table is not consulted for events: "user" is a tag, not an event
example : isCount (exStep exSys (.invalidateByEvent "user")).2 = some 0 := by decide
-- a cache without metadata owns no clear callback; unknown names; thread-scope names
example : isFlag (exStep exSys (.invalidateCache "plain")).2 = some false := by decide
example : isFlag (exStep exSys (.invalidateCache "nobody")).2 = some false := by decide
example : isFlag (exStep exSys (.invalidateCache "local")).2 = some false := by decide
example : isCount (exStep exSys (.invalidateByTag "nothing")).2 = some 0 := by decide
-- a function that declares the tag but was never called is not counted
example : isCount (exStep (Sys.init : Sys Nat Nat) (.invalidateByTag "user")).2 = some 0 := by decide

end Cachelito.C12
