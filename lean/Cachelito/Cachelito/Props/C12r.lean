/-
  C12r — the invalidation registry as a data structure (`cachelito-core/src/invalidation.rs`,
  `InvalidationRegistry`), and the proof that the abstraction used by `Cachelito/System.lean`
  ("a cache owns a clear callback iff its function was called, is not thread-scope and declares metadata")
  is what the registry's tables compute for the registration sequences the macros produce.

  Model: `Cachelito/Registry.lean` (`Reg`, `Registry.step`, `runState`).  Every theorem of the first part is
  for EVERY operation history `ops` from the empty registry — registrations in any order, re-registration
  of a name with other metadata or another callback, `clear` anywhere, requests interleaved anywhere.
  The history is summarised by three lists (`Cachelito/Lemmas/Registry.lean`):
    `regsSince ops`  — the `(name, metadata)` registrations since the last `clear`, oldest first,
    `cbsSince ops`   — the `(name, identifier)` clear-callback registrations since the last `clear`,
    `condsSince ops` — the same for conditional-invalidation callbacks,
  and `latest l n` is the identifier of the LAST pair for `n` in `l`.  A callback is represented by the
  identifier it was registered with; "the callback runs" = its identifier is in the reported list.

  Property theorems and non-vacuity examples only; helper lemmas are in `Cachelito/Lemmas/Registry.lean`.
-/
import Cachelito.Lemmas.Registry

set_option linter.unusedSectionVars false
set_option linter.unusedSimpArgs false
set_option linter.unusedVariables false

namespace Cachelito.C12r
open Cachelito Cachelito.Registry Cachelito.SysLemmas Cachelito.RegLemmas
variable {K V S : Type} [DecidableEq K]

/-! ### (1) the three association tables -/

/-- **Tag table.**  After any history, cache `n` is in the set stored under tag `t` exactly when SOME
    registration of `n` since the last `clear` declared `t` (a later re-registration with other metadata
    does not remove the older association — this is what the code does). -/
theorem tags_get_iff (ops : List Registry.Op) (t n : String) :
    n ∈ (runState {} ops).tags.get t ↔ ∃ m, (n, m) ∈ regsSince ops ∧ t ∈ m.tags :=
  (rel_run ops).tags_mem t n

/-- **Event table**: same as `tags_get_iff` for events. -/
theorem events_get_iff (ops : List Registry.Op) (e n : String) :
    n ∈ (runState {} ops).events.get e ↔ ∃ m, (n, m) ∈ regsSince ops ∧ e ∈ m.events :=
  (rel_run ops).events_mem e n

/-- **Dependency table**: same as `tags_get_iff` for dependencies. -/
theorem deps_get_iff (ops : List Registry.Op) (d n : String) :
    n ∈ (runState {} ops).deps.get d ↔ ∃ m, (n, m) ∈ regsSince ops ∧ d ∈ m.deps :=
  (rel_run ops).deps_mem d n

/-- Each cache name is stored at most once under a tag (the sets are sets). -/
theorem tags_get_nodup (ops : List Registry.Op) (t : String) : ((runState {} ops).tags.get t).Nodup :=
  (rel_run ops).tags_nodup t

/-- Each cache name is stored at most once under an event. -/
theorem events_get_nodup (ops : List Registry.Op) (e : String) : ((runState {} ops).events.get e).Nodup :=
  (rel_run ops).events_nodup e

/-- Each cache name is stored at most once under a dependency. -/
theorem deps_get_nodup (ops : List Registry.Op) (d : String) : ((runState {} ops).deps.get d).Nodup :=
  (rel_run ops).deps_nodup d

/-- The three read-only queries (`get_caches_by_tag` …) return exactly those sets and change nothing. -/
theorem getBy_exact (ops : List Registry.Op) (x : String) :
    Registry.step (runState {} ops) (.getByTag x) = (runState {} ops, .names ((runState {} ops).tags.get x)) ∧
    Registry.step (runState {} ops) (.getByEvent x) = (runState {} ops, .names ((runState {} ops).events.get x)) ∧
    Registry.step (runState {} ops) (.getDependents x) = (runState {} ops, .names ((runState {} ops).deps.get x)) :=
  ⟨rfl, rfl, rfl⟩

/-- The metadata table holds, for every name, the metadata of its LAST registration since the last
    `clear`, and no name twice. -/
theorem metas_eq_latest (ops : List Registry.Op) (n : String) :
    getKey (runState {} ops).metas n = latest (regsSince ops) n ∧
    ((runState {} ops).metas.map (·.1)).Nodup :=
  ⟨(rel_run ops).metas_eq n, (rel_run ops).metas_keys⟩

/-! ### (2) the callback tables -/

/-- **Clear-callback table.**  The callback stored for `n` is the LAST one registered for `n` since the
    last `clear` (none if there is none). -/
theorem clearCb_eq_latest (ops : List Registry.Op) (n : String) :
    getKey (runState {} ops).clearCb n = latest (cbsSince ops) n :=
  (rel_run ops).clearCb_eq n

/-- **Conditional-callback table**: same for the conditional-invalidation callbacks. -/
theorem condCb_eq_latest (ops : List Registry.Op) (n : String) :
    getKey (runState {} ops).condCb n = latest (condsSince ops) n :=
  (rel_run ops).condCb_eq n

/-- Both callback tables hold every name at most once. -/
theorem callback_keys_nodup (ops : List Registry.Op) :
    ((runState {} ops).clearCb.map (·.1)).Nodup ∧ ((runState {} ops).condCb.map (·.1)).Nodup :=
  ⟨(rel_run ops).clearCb_keys, (rel_run ops).condCb_keys⟩

/-! ### (3) `invalidate_by_tag` / `_event` / `_dependency` -/

/-- **`invalidate_by_tag t` is exact.**  After any history the request leaves the registry unchanged,
    reports a list `l` of callbacks that ran and returns `l.length`, where
    * a callback `id` ran exactly when some cache `n` has a registration since the last `clear` that
      declares `t` and `id` is the latest clear callback of `n`;
    * `l` is obtained from the duplicate-free set stored under `t` by taking the latest callback of every
      name that owns one — so every matching cache's callback runs exactly once per matching name and nothing
      else runs;
    * the returned count is the number of names stored under `t` that own a callback. -/
theorem byTag_exact (ops : List Registry.Op) (t : String) :
    ∃ l, Registry.step (runState {} ops) (.byTag t) = (runState {} ops, .count l.length l) ∧
      (∀ id, id ∈ l ↔ ∃ n m, (n, m) ∈ regsSince ops ∧ t ∈ m.tags ∧ latest (cbsSince ops) n = some id) ∧
      l = ((runState {} ops).tags.get t).filterMap (latest (cbsSince ops)) ∧
      l.length = (((runState {} ops).tags.get t).filter (fun n => (latest (cbsSince ops) n).isSome)).length := by
  have h := invoke_exact ops ((runState {} ops).tags.get t) (fun m => t ∈ m.tags) (tags_get_iff ops t)
  exact ⟨_, rfl, h.1, invokeAll_eq ops _, h.2⟩

/-- **`invalidate_by_event e` is exact** (as `byTag_exact`, on the event table). -/
theorem byEvent_exact (ops : List Registry.Op) (e : String) :
    ∃ l, Registry.step (runState {} ops) (.byEvent e) = (runState {} ops, .count l.length l) ∧
      (∀ id, id ∈ l ↔ ∃ n m, (n, m) ∈ regsSince ops ∧ e ∈ m.events ∧ latest (cbsSince ops) n = some id) ∧
      l = ((runState {} ops).events.get e).filterMap (latest (cbsSince ops)) ∧
      l.length = (((runState {} ops).events.get e).filter (fun n => (latest (cbsSince ops) n).isSome)).length := by
  have h := invoke_exact ops ((runState {} ops).events.get e) (fun m => e ∈ m.events) (events_get_iff ops e)
  exact ⟨_, rfl, h.1, invokeAll_eq ops _, h.2⟩

/-- **`invalidate_by_dependency d` is exact** (as `byTag_exact`, on the dependency table). -/
theorem byDep_exact (ops : List Registry.Op) (d : String) :
    ∃ l, Registry.step (runState {} ops) (.byDep d) = (runState {} ops, .count l.length l) ∧
      (∀ id, id ∈ l ↔ ∃ n m, (n, m) ∈ regsSince ops ∧ d ∈ m.deps ∧ latest (cbsSince ops) n = some id) ∧
      l = ((runState {} ops).deps.get d).filterMap (latest (cbsSince ops)) ∧
      l.length = (((runState {} ops).deps.get d).filter (fun n => (latest (cbsSince ops) n).isSome)).length := by
  have h := invoke_exact ops ((runState {} ops).deps.get d) (fun m => d ∈ m.deps) (deps_get_iff ops d)
  exact ⟨_, rfl, h.1, invokeAll_eq ops _, h.2⟩

/-! ### (4) `invalidate_cache` / `invalidate_with` -/

/-- **`invalidate_cache n` is exact.**  If a clear callback was registered for `n` since the last `clear`
    the request returns `true` and runs exactly the latest one; otherwise it returns `false` and runs
    nothing.  The registry is unchanged either way. -/
theorem byName_exact (ops : List Registry.Op) (n : String) :
    Registry.step (runState {} ops) (.byName n) =
      match latest (cbsSince ops) n with
      | some id => (runState {} ops, .flag true [id])
      | none => (runState {} ops, .flag false []) := by
  simp only [Registry.step, clearCb_eq_latest]
  cases latest (cbsSince ops) n <;> rfl

/-- **`invalidate_with n` is exact**: `true` + exactly the latest conditional callback of `n`, else
    `false` + nothing; the registry is unchanged. -/
theorem withPred_exact (ops : List Registry.Op) (n : String) :
    Registry.step (runState {} ops) (.withPred n) =
      match latest (condsSince ops) n with
      | some id => (runState {} ops, .flag true [id])
      | none => (runState {} ops, .flag false []) := by
  simp only [Registry.step, condCb_eq_latest]
  cases latest (condsSince ops) n <;> rfl

/-! ### (5) `invalidate_all_with` -/

/-- **`invalidate_all_with` is exact.**  There is a duplicate-free list `names` — exactly the names with a
    conditional callback registered since the last `clear` — such that the callbacks that run are, name by
    name, the latest conditional callback of each; the returned count is the number of such names and the
    registry is unchanged.  Consequently a callback runs iff it is the latest one of some name. -/
theorem allWith_exact (ops : List Registry.Op) :
    ∃ (names : List String) (l : List Nat), Registry.step (runState {} ops) .allWith = (runState {} ops, .count l.length l) ∧
      names.Nodup ∧ (∀ n, n ∈ names ↔ ∃ id, (n, id) ∈ condsSince ops) ∧
      names.map (latest (condsSince ops)) = l.map some ∧
      l.length = names.length ∧
      (∀ id, id ∈ l ↔ ∃ n, latest (condsSince ops) n = some id) := by
  obtain ⟨h1, h2, h3⟩ := allWith_names ops
  refine ⟨_, _, rfl, h1, h2, h3, by simp, ?_⟩
  intro id
  have hl := filterMap_eq_of_map_eq_some _ _ _ h3
  rw [← hl, List.mem_filterMap]
  constructor
  · rintro ⟨n, _, hn⟩; exact ⟨n, hn⟩
  · rintro ⟨n, hn⟩; exact ⟨n, (h2 n).mpr ⟨id, mem_of_latest hn⟩, hn⟩

/-! ### (6) requests do not change the registry -/

/-- **Requests are read-only** — in ANY registry state, every operation other than `register`,
    `register_callback`, `register_invalidation_callback` and `clear` leaves the state unchanged. -/
theorem queries_do_not_change (r : Reg) (op : Registry.Op)
    (h1 : ∀ n m, op ≠ .register n m) (h2 : ∀ n id, op ≠ .registerCallback n id)
    (h3 : ∀ n id, op ≠ .registerCond n id) (h4 : op ≠ .clear) :
    (Registry.step r op).1 = r := by
  apply step_query
  cases op <;> first | rfl | skip
  · exact absurd rfl (h1 _ _)
  · exact absurd rfl (h2 _ _)
  · exact absurd rfl (h3 _ _)
  · exact absurd rfl h4

/-- **Interleaved requests are invisible (1)**: inserting any block of requests anywhere into a history
    does not change the resulting registry (from any start state). -/
theorem requests_insensitive (r : Reg) (a qs b : List Registry.Op) (hq : ∀ q, q ∈ qs → isQuery q = true) :
    runState r (a ++ qs ++ b) = runState r (a ++ b) := by
  rw [runState_append, runState_append, runState_append, runState_queries _ qs hq]

/-- **Interleaved requests are invisible (2)**: the registry depends only on the sub-sequence of
    registrations and `clear`s — two histories that agree after deleting all requests end in the same
    registry. -/
theorem requests_insensitive' (r : Reg) (ops ops' : List Registry.Op)
    (h : ops.filter (fun op => !isQuery op) = ops'.filter (fun op => !isQuery op)) :
    runState r ops = runState r ops' := by
  rw [runState_filter r ops, runState_filter r ops', h]

/-- `runState` is the state component of `run` (which also collects the outputs). -/
theorem run_state (r : Reg) (ops : List Registry.Op) : (Registry.run r ops).1 = runState r ops :=
  run_fst r ops

/-! ### (7) `clear` -/

/-- **`clear` forgets everything.**  After `clear` (from any state, after any history) the registry is the
    empty registry, in which every request runs nothing and returns 0 / `false` / the empty set. -/
theorem clear_forgets (r : Reg) (ops : List Registry.Op) (x : String) :
    runState r (ops ++ [.clear]) = {} ∧
    Registry.step {} (.byTag x) = ({}, .count 0 []) ∧
    Registry.step {} (.byEvent x) = ({}, .count 0 []) ∧
    Registry.step {} (.byDep x) = ({}, .count 0 []) ∧
    Registry.step {} (.byName x) = ({}, .flag false []) ∧
    Registry.step {} (.withPred x) = ({}, .flag false []) ∧
    Registry.step {} .allWith = ({}, .count 0 []) ∧
    Registry.step {} (.getByTag x) = ({}, .names []) ∧
    Registry.step {} (.getByEvent x) = ({}, .names []) ∧
    Registry.step {} (.getDependents x) = ({}, .names []) := by
  refine ⟨?_, rfl, rfl, rfl, rfl, rfl, rfl, rfl, rfl, rfl⟩
  rw [runState_append]; rfl

/-! ### (8) refinement: the abstraction of `System` is what the tables compute

  `macroOps fns called` is the registration history the macros produce when the global / async functions
  whose indices are in `called` (newest first, as in `Sys.called`) had their first call: in first-call
  order, a function that declares metadata registers its metadata and its clear callback, every function
  registers its conditional callback (callback identifier = function index); thread-scope functions and
  indices that name no function register nothing.  `DistinctNames fns`: cache names are pairwise distinct.
  No assumption on `called` is needed (duplicates and out-of-range indices are handled). -/

/-- **`invalidate_by_tag` refines `System`.**  On the registry built by the macro registrations of
    `sys.called`, the request runs — as a set, and each at most once — exactly the callbacks of
    `clearTargets fns sys (·.tags.contains t)`, and the returned count is the number of those targets, i.e.
    what `sysStep … (.invalidateByTag t)` returns. -/
theorem byTag_refines (fns : List FnSpec) (hd : DistinctNames fns) (sys : Sys K V) (t : String) :
    ∃ l, Registry.step (runState {} (macroOps fns sys.called)) (.byTag t) =
        (runState {} (macroOps fns sys.called), .count l.length l) ∧
      (∀ i, i ∈ l ↔ i ∈ clearTargets fns sys (fun spec => spec.tags.contains t)) ∧ l.Nodup ∧
      l.length = (clearTargets fns sys (fun spec => spec.tags.contains t)).length := by
  obtain ⟨l, h1, h2, h3, _⟩ := byTag_exact (macroOps fns sys.called) t
  have hm : ∀ i, i ∈ l ↔ i ∈ clearTargets fns sys (fun spec => spec.tags.contains t) := fun i =>
    (h2 i).trans (targets_iff hd sys (fun m => t ∈ m.tags) _ (fun s => by simp [metaOf]) i)
  have hn : l.Nodup := by
    rw [h3, ← invokeAll_eq]; exact invokeAll_nodup_macro fns sys.called (tags_get_nodup _ t)
  exact ⟨l, h1, hm, hn, length_eq_of_nodup_of_mem_iff hn (clearTargets_nodup fns sys _) hm⟩

/-- **`invalidate_by_event` refines `System`** (as `byTag_refines`). -/
theorem byEvent_refines (fns : List FnSpec) (hd : DistinctNames fns) (sys : Sys K V) (e : String) :
    ∃ l, Registry.step (runState {} (macroOps fns sys.called)) (.byEvent e) =
        (runState {} (macroOps fns sys.called), .count l.length l) ∧
      (∀ i, i ∈ l ↔ i ∈ clearTargets fns sys (fun spec => spec.events.contains e)) ∧ l.Nodup ∧
      l.length = (clearTargets fns sys (fun spec => spec.events.contains e)).length := by
  obtain ⟨l, h1, h2, h3, _⟩ := byEvent_exact (macroOps fns sys.called) e
  have hm : ∀ i, i ∈ l ↔ i ∈ clearTargets fns sys (fun spec => spec.events.contains e) := fun i =>
    (h2 i).trans (targets_iff hd sys (fun m => e ∈ m.events) _ (fun s => by simp [metaOf]) i)
  have hn : l.Nodup := by
    rw [h3, ← invokeAll_eq]; exact invokeAll_nodup_macro fns sys.called (events_get_nodup _ e)
  exact ⟨l, h1, hm, hn, length_eq_of_nodup_of_mem_iff hn (clearTargets_nodup fns sys _) hm⟩

/-- **`invalidate_by_dependency` refines `System`** (as `byTag_refines`). -/
theorem byDep_refines (fns : List FnSpec) (hd : DistinctNames fns) (sys : Sys K V) (d : String) :
    ∃ l, Registry.step (runState {} (macroOps fns sys.called)) (.byDep d) =
        (runState {} (macroOps fns sys.called), .count l.length l) ∧
      (∀ i, i ∈ l ↔ i ∈ clearTargets fns sys (fun spec => spec.deps.contains d)) ∧ l.Nodup ∧
      l.length = (clearTargets fns sys (fun spec => spec.deps.contains d)).length := by
  obtain ⟨l, h1, h2, h3, _⟩ := byDep_exact (macroOps fns sys.called) d
  have hm : ∀ i, i ∈ l ↔ i ∈ clearTargets fns sys (fun spec => spec.deps.contains d) := fun i =>
    (h2 i).trans (targets_iff hd sys (fun m => d ∈ m.deps) _ (fun s => by simp [metaOf]) i)
  have hn : l.Nodup := by
    rw [h3, ← invokeAll_eq]; exact invokeAll_nodup_macro fns sys.called (deps_get_nodup _ d)
  exact ⟨l, h1, hm, hn, length_eq_of_nodup_of_mem_iff hn (clearTargets_nodup fns sys _) hm⟩

/-- **`invalidate_cache` refines `System`.**  The request returns `!ts.isEmpty` and runs exactly the list
    `ts = clearTargets fns sys (·.name = name)` — the very list and flag of `sysStep … (.invalidateCache name)`. -/
theorem byName_refines (fns : List FnSpec) (hd : DistinctNames fns) (sys : Sys K V) (name : String) :
    Registry.step (runState {} (macroOps fns sys.called)) (.byName name) =
      (runState {} (macroOps fns sys.called),
        .flag (!(clearTargets fns sys (fun spec => spec.name = name)).isEmpty)
          (clearTargets fns sys (fun spec => spec.name = name))) := by
  rw [byName_exact, targets_eq_of_latest (clearTargets_nodup fns sys _) (byName_targets hd sys name)]
  cases latest (cbsSince (macroOps fns sys.called)) name <;> rfl

/-- **`invalidate_with` refines `System`.**  The request returns `!ts.isEmpty` and runs exactly `ts`, the
    target list of `sysStep … (.invalidateWith name p)`: the registered functions named `name`. -/
theorem withPred_refines (fns : List FnSpec) (hd : DistinctNames fns) (sys : Sys K V) (name : String) :
    Registry.step (runState {} (macroOps fns sys.called)) (.withPred name) =
      (runState {} (macroOps fns sys.called),
        .flag (!((List.range fns.length).filter (fun i => isRegistered fns sys i &&
            (match fns[i]? with | some spec => spec.name = name | none => false))).isEmpty)
          ((List.range fns.length).filter (fun i => isRegistered fns sys i &&
            (match fns[i]? with | some spec => spec.name = name | none => false)))) := by
  show _ = (_, Out.flag (!(regTargets fns sys (fun spec => spec.name = name)).isEmpty)
    (regTargets fns sys (fun spec => spec.name = name)))
  rw [withPred_exact, targets_eq_of_latest (regTargets_nodup fns sys _) (withPred_targets hd sys name)]
  cases latest (condsSince (macroOps fns sys.called)) name <;> rfl

/-- **`invalidate_all_with` refines `System`.**  The request runs — as a set, each once — exactly the
    conditional callbacks of the target list of `sysStep … (.invalidateAllWith p)` (all registered
    functions) and returns its length; and the name under which callback `i` is stored (the name the real
    code passes to the user predicate) is the name of function `i`, as in `sysStep`. -/
theorem allWith_refines (fns : List FnSpec) (hd : DistinctNames fns) (sys : Sys K V) :
    ∃ l, Registry.step (runState {} (macroOps fns sys.called)) .allWith =
        (runState {} (macroOps fns sys.called), .count l.length l) ∧
      (∀ i, i ∈ l ↔ i ∈ (List.range fns.length).filter (fun i => isRegistered fns sys i)) ∧ l.Nodup ∧
      l.length = ((List.range fns.length).filter (fun i => isRegistered fns sys i)).length ∧
      (∀ n i, (n, i) ∈ (runState {} (macroOps fns sys.called)).condCb → ∃ s, fns[i]? = some s ∧ s.name = n) := by
  obtain ⟨hm, hn⟩ := allWith_macro hd sys
  refine ⟨_, rfl, hm, hn, length_eq_of_nodup_of_mem_iff hn (regAll_nodup fns sys) hm, ?_⟩
  intro n i hmem
  obtain ⟨h1, _, h3⟩ := allWith_names (macroOps fns sys.called)
  have hk : getKey (runState {} (macroOps fns sys.called)).condCb n = some i :=
    getKey_of_mem h1 hmem
  rw [condCb_eq_latest] at hk
  obtain ⟨s, _, g2, _, g5⟩ := (mem_conds_macro fns sys.called n i).mp (mem_of_latest hk)
  exact ⟨s, g2, g5.symm⟩

/-- **The counts / flags of `System` are the registry's.**  For the registry built by the macro
    registrations of `sys.called`, the value returned by each registry request is the value `sysStep`
    returns for the corresponding system request. -/
theorem sysStep_outputs_agree (fns : List FnSpec) (hd : DistinctNames fns) (tls : Nat → Tlru S) (size : V → Nat)
    (isOk : V → Bool) (rs : List Nat) (sys : Sys K V) (x : String) (p : K → Bool) (q : String → K → Bool) :
    let r := runState {} (macroOps fns sys.called)
    (∀ n l, (Registry.step r (.byTag x)).2 = .count n l →
      (sysStep fns tls size isOk rs sys (.invalidateByTag x)).2 = .count n) ∧
    (∀ n l, (Registry.step r (.byEvent x)).2 = .count n l →
      (sysStep fns tls size isOk rs sys (.invalidateByEvent x)).2 = .count n) ∧
    (∀ n l, (Registry.step r (.byDep x)).2 = .count n l →
      (sysStep fns tls size isOk rs sys (.invalidateByDependency x)).2 = .count n) ∧
    (∀ b l, (Registry.step r (.byName x)).2 = .flag b l →
      (sysStep fns tls size isOk rs sys (.invalidateCache x)).2 = .flag b) ∧
    (∀ b l, (Registry.step r (.withPred x)).2 = .flag b l →
      (sysStep fns tls size isOk rs sys (.invalidateWith x p)).2 = .flag b) ∧
    (∀ n l, (Registry.step r .allWith).2 = .count n l →
      (sysStep fns tls size isOk rs sys (.invalidateAllWith q)).2 = .count n) := by
  intro r
  refine ⟨?_, ?_, ?_, ?_, ?_, ?_⟩
  · intro n l h
    obtain ⟨l', h1, _, _, h4⟩ := byTag_refines fns hd sys x
    rw [h1] at h; cases h; simp only [sysStep, h4]
  · intro n l h
    obtain ⟨l', h1, _, _, h4⟩ := byEvent_refines fns hd sys x
    rw [h1] at h; cases h; simp only [sysStep, h4]
  · intro n l h
    obtain ⟨l', h1, _, _, h4⟩ := byDep_refines fns hd sys x
    rw [h1] at h; cases h; simp only [sysStep, h4]
  · intro b l h
    rw [byName_refines fns hd sys x] at h; cases h; simp only [sysStep]
  · intro b l h
    rw [withPred_refines fns hd sys x] at h; cases h; rfl
  · intro n l h
    obtain ⟨l', h1, _, _, h4, _⟩ := allWith_refines fns hd sys
    rw [h1] at h; cases h; simp only [sysStep, h4]


/-! ### non-vacuity: concrete histories

  `exOps`: `users` registers (tag "user", event "login") with callback 0, a request is interleaved,
  `orders` registers (tags "user","order", dependency "users") with callback 1, then `users` RE-registers
  with other metadata (tag "admin" only) and another clear callback (7), and `plain` registers only a
  conditional callback. -/

def exOps : List Registry.Op :=
  [.register "users" ⟨["user"], ["login"], []⟩, .registerCallback "users" 0, .registerCond "users" 0,
   .byTag "user",
   .register "orders" ⟨["user", "order"], [], ["users"]⟩, .registerCallback "orders" 1, .registerCond "orders" 1,
   .register "users" ⟨["admin"], [], []⟩, .registerCallback "users" 7,
   .registerCond "plain" 3]

-- the history view
example : regsSince exOps = [("users", ⟨["user"], ["login"], []⟩), ("orders", ⟨["user", "order"], [], ["users"]⟩),
    ("users", ⟨["admin"], [], []⟩)] := by decide
example : cbsSince exOps = [("users", 0), ("orders", 1), ("users", 7)] := by decide
example : condsSince exOps = [("users", 0), ("orders", 1), ("plain", 3)] := by decide
example : latest (cbsSince exOps) "users" = some 7 ∧ latest (cbsSince exOps) "plain" = none := by decide
-- the tables: the re-registration of `users` did NOT remove its older "user" / "login" associations
example : (runState {} exOps).tags.get "user" = ["users", "orders"] := by decide
example : (runState {} exOps).tags.get "admin" = ["users"] := by decide
example : (runState {} exOps).events.get "login" = ["users"] := by decide
example : (runState {} exOps).deps.get "users" = ["orders"] := by decide
example : getKey (runState {} exOps).metas "users" = some ⟨["admin"], [], []⟩ := by decide
-- requests: the LATEST callback of `users` (7) runs, once; counts are the number of callbacks run
example : (Registry.step (runState {} exOps) (.byTag "user")).2 = .count 2 [7, 1] := by decide
example : (Registry.step (runState {} exOps) (.byTag "order")).2 = .count 1 [1] := by decide
example : (Registry.step (runState {} exOps) (.byEvent "login")).2 = .count 1 [7] := by decide
example : (Registry.step (runState {} exOps) (.byDep "users")).2 = .count 1 [1] := by decide
example : (Registry.step (runState {} exOps) (.byEvent "user")).2 = .count 0 [] := by decide
example : (Registry.step (runState {} exOps) (.byName "users")).2 = .flag true [7] := by decide
example : (Registry.step (runState {} exOps) (.byName "plain")).2 = .flag false [] := by decide
example : (Registry.step (runState {} exOps) (.withPred "plain")).2 = .flag true [3] := by decide
example : (Registry.step (runState {} exOps) (.withPred "nobody")).2 = .flag false [] := by decide
example : (Registry.step (runState {} exOps) .allWith).2 = .count 3 [0, 1, 3] := by decide
-- a name in a table WITHOUT a clear callback is not counted (metadata registered, callback not)
example : (Registry.step (runState {} [.register "a" ⟨["t"], [], []⟩, .register "b" ⟨["t"], [], []⟩,
    .registerCallback "b" 5]) (.byTag "t")).2 = .count 1 [5] := by decide
-- the output of the interleaved request inside the history (only `users` was registered then)
example : (Registry.run {} exOps).2[3]? = some (.count 1 [0]) := by decide
-- `clear`, then a fresh registration: only what came after the `clear` counts
example : regsSince (exOps ++ [.clear, .register "x" ⟨["user"], [], []⟩, .registerCallback "x" 9]) =
    [("x", ⟨["user"], [], []⟩)] := by decide
example : (Registry.step (runState {} (exOps ++ [.clear, .register "x" ⟨["user"], [], []⟩,
    .registerCallback "x" 9])) (.byTag "user")).2 = .count 1 [9] := by decide
example : (Registry.step (runState {} (exOps ++ [.clear])) .allWith).2 = .count 0 [] := by decide
-- `isQuery` holds for the requests and fails for the four mutating operations
example : isQuery (.byTag "user") = true ∧ isQuery .allWith = true ∧ isQuery (.getDependents "x") = true ∧
    isQuery (.register "a" ⟨[], [], []⟩) = false ∧ isQuery (.registerCallback "a" 0) = false ∧
    isQuery (.registerCond "a" 0) = false ∧ isQuery .clear = false := by decide

/-! The refinement: the four functions of the C12 example.  `called` lists (newest first) the
    global `plain` (3), the thread-scope `local` (2), `orders` (1), `users` (0), and an index that names
    no function (9): the thread-scope function and the stray index register nothing. -/

def exSpec (name : String) (isAsync threadScope : Bool) (fl : Flavour) (tags events deps : List String) : FnSpec :=
  { name := name, isAsync := isAsync, threadScope := threadScope, cfg := ⟨fl, .fifo, some 2, none, none⟩,
    useMem := false, isResult := false, hasCacheIf := false, hasInvalidateOn := false,
    tags := tags, events := events, deps := deps }
def exFns : List FnSpec :=
  [exSpec "users" false false .global ["user"] ["login"] [],
   exSpec "orders" true false .async ["user", "order"] [] ["users"],
   exSpec "local" false true .threadLocal ["user"] [] [],
   exSpec "plain" false false .global [] [] []]
def exSys : Sys Nat Nat := ⟨[], [9, 3, 2, 1, 0], 0⟩

example : DistinctNames exFns := distinctNames_of_nodup (by decide)
example : regsSince (macroOps exFns exSys.called) =
    [("users", ⟨["user"], ["login"], []⟩), ("orders", ⟨["user", "order"], [], ["users"]⟩)] := by decide
example : cbsSince (macroOps exFns exSys.called) = [("users", 0), ("orders", 1)] := by decide
example : condsSince (macroOps exFns exSys.called) = [("users", 0), ("orders", 1), ("plain", 3)] := by decide
example : (Registry.step (runState {} (macroOps exFns exSys.called)) (.byTag "user")).2 = .count 2 [0, 1] ∧
    clearTargets exFns exSys (fun spec => spec.tags.contains "user") = [0, 1] := by decide
example : (Registry.step (runState {} (macroOps exFns exSys.called)) (.byDep "users")).2 = .count 1 [1] ∧
    clearTargets exFns exSys (fun spec => spec.deps.contains "users") = [1] := by decide
example : (Registry.step (runState {} (macroOps exFns exSys.called)) (.byName "orders")).2 = .flag true [1] ∧
    clearTargets exFns exSys (fun spec => spec.name = "orders") = [1] := by decide
example : (Registry.step (runState {} (macroOps exFns exSys.called)) (.byName "plain")).2 = .flag false [] ∧
    (Registry.step (runState {} (macroOps exFns exSys.called)) (.byName "local")).2 = .flag false [] := by decide
example : (Registry.step (runState {} (macroOps exFns exSys.called)) (.withPred "plain")).2 = .flag true [3] ∧
    (Registry.step (runState {} (macroOps exFns exSys.called)) (.withPred "local")).2 = .flag false [] := by decide
example : (Registry.step (runState {} (macroOps exFns exSys.called)) .allWith).2 = .count 3 [0, 1, 3] ∧
    (List.range exFns.length).filter (fun i => isRegistered exFns exSys i) = [0, 1, 3] := by decide
-- why distinct names are assumed: two functions sharing a name overwrite each other's callback, the
-- registry then runs ONE callback where `System` would clear two caches
example : (Registry.step (runState {} (macroOps
      [exSpec "dup" false false .global ["t"] [] [], exSpec "dup" false false .global ["t"] [] []] [1, 0]))
    (.byTag "t")).2 = .count 1 [1] := by decide

end Cachelito.C12r
