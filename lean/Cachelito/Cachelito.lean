-- Root of the `Cachelito` library: the executable model.  Property theorems are under
-- `Cachelito/Props/`, helper lemmas under `Cachelito/Lemmas/`; `Cachelito/All.lean` imports everything.
import Cachelito.Basic
import Cachelito.Core
import Cachelito.Wrapper
import Cachelito.System
import Cachelito.Async
import Cachelito.ConcData
