/-
  C03 — A result is computed once per distinct arguments and then reused (sequential part).

  Setting: any list of cached functions `fns` (arbitrary configurations), function `id.fn` in the PLAIN
  configuration `Calls.Plain` (no entry limit, no TTL, no memory bound in effect, no `cache_if`, no
  `invalidate_on`, not a `Result` function; every flavour, policy and scope), and any history of calls
  (to any function, by any thread), clock ticks and statistics operations — no registry invalidation.

  `id : CacheId` is one cache instance: `⟨fn, none⟩` for a global-scope or async function (shared by all
  threads), `⟨fn, some t⟩` for thread `t` of a thread-scope function (`Calls.cacheIdOf_shared`,
  `Calls.cacheIdOf_thread`), so every statement below is "per thread for thread scope".

  Vocabulary (defined in `Lemmas/Calls.lean`): `callsOn fns id ops` the calls of the history that land on
  `id`, `keysOn` their keys, `firstVal hist k` the body value of the first call with key `k`,
  `runsOn fns id ops outs` the number of `bodyRun` events in the traces of the calls on `id`,
  `distinct l` the duplicate-free list of members of `l`.

  The interleaving part of C03 (several callers missing concurrently) is proved elsewhere.
-/
import Cachelito.Lemmas.Calls

set_option linter.unusedSectionVars false
set_option linter.unusedSimpArgs false
set_option linter.unusedVariables false

namespace Cachelito.C03
open Cachelito Cachelito.Calls
variable {K V S : Type} [DecidableEq K]

section
variable (fns : List FnSpec) (tls : Nat → Tlru S) (size : V → Nat) (isOk : V → Bool)

/-- **(1) The store holds exactly the keys called so far.**  After any history without invalidations,
    the keys stored in instance `id` are pairwise distinct and are exactly the keys that were called on
    that instance. -/
theorem store_keys_eq_called {id : CacheId} {spec : FnSpec} (hspec : fns[id.fn]? = some spec) (hp : Plain spec)
    (ops : List (SysOp K V × List Nat)) (hno : ∀ p ∈ ops, isInvalidation p.1 = false) :
    (keys ((sysRun fns tls size isOk (Sys.init : Sys K V) ops).1.getCache id).store).Nodup ∧
    ∀ k, k ∈ keys ((sysRun fns tls size isOk (Sys.init : Sys K V) ops).1.getCache id).store ↔
      k ∈ keysOn fns id ops := by
  have h := (plain_run fns tls size isOk hspec hp ops hno Sys.init [] plainInv_nil).1
  rw [List.nil_append] at h
  exact ⟨h.1, fun k => h.mem_iff k⟩

/-- The value stored under a key is the value the body returned in the FIRST call with that key on this
    instance; later calls never overwrite it. -/
theorem stored_value_is_first_body_value {id : CacheId} {spec : FnSpec} (hspec : fns[id.fn]? = some spec)
    (hp : Plain spec) (ops : List (SysOp K V × List Nat)) (hno : ∀ p ∈ ops, isInvalidation p.1 = false) (k : K) :
    (lookup k ((sysRun fns tls size isOk (Sys.init : Sys K V) ops).1.getCache id).store).map (·.val) =
      firstVal (callsOn fns id ops) k := by
  have h := (plain_run fns tls size isOk hspec hp ops hno Sys.init [] plainInv_nil).1
  rw [List.nil_append] at h
  exact h.2 k

/-- **The store only grows**: a key stored after a history is still stored after any continuation of
    that history (without invalidations). -/
theorem store_only_grows {id : CacheId} {spec : FnSpec} (hspec : fns[id.fn]? = some spec) (hp : Plain spec)
    (ops more : List (SysOp K V × List Nat)) (hno : ∀ p ∈ ops ++ more, isInvalidation p.1 = false) (k : K)
    (hk : k ∈ keys ((sysRun fns tls size isOk (Sys.init : Sys K V) ops).1.getCache id).store) :
    k ∈ keys ((sysRun fns tls size isOk (Sys.init : Sys K V) (ops ++ more)).1.getCache id).store := by
  have h1 := (store_keys_eq_called fns tls size isOk hspec hp ops
    (fun p hp' => hno p (List.mem_append_left _ hp'))).2 k
  have h2 := (store_keys_eq_called fns tls size isOk hspec hp (ops ++ more) hno).2 k
  rw [h2, keysOn_append]
  exact List.mem_append_left _ (h1.mp hk)

/-- **(2) The body runs exactly once per distinct key** (general form): the number of body executions
    of the calls on instance `id` equals the length of ANY duplicate-free enumeration of the keys called
    on that instance. -/
theorem body_runs_eq_card {id : CacheId} {spec : FnSpec} (hspec : fns[id.fn]? = some spec) (hp : Plain spec)
    (ops : List (SysOp K V × List Nat)) (hno : ∀ p ∈ ops, isInvalidation p.1 = false)
    (d : List K) (hd : d.Nodup) (hmem : ∀ k, k ∈ d ↔ k ∈ keysOn fns id ops) :
    runsOn fns id ops (sysRun fns tls size isOk (Sys.init : Sys K V) ops).2 = d.length := by
  have h := (plain_run fns tls size isOk hspec hp ops hno Sys.init [] plainInv_nil).2
  obtain ⟨hn, hk⟩ := store_keys_eq_called fns tls size isOk hspec hp ops hno
  have hlen := length_eq_of_nodup_of_mem_iff hn hd (fun k => (hk k).trans (hmem k).symm)
  have h0 : (keys ((Sys.init : Sys K V).getCache id).store).length = 0 := rfl
  omega

/-- **(2) The body runs exactly once per distinct key**: `#bodyRun events = #distinct keys called`, per
    cache instance (hence once per thread for thread scope). -/
theorem body_runs_once_per_distinct_key {id : CacheId} {spec : FnSpec} (hspec : fns[id.fn]? = some spec)
    (hp : Plain spec) (ops : List (SysOp K V × List Nat)) (hno : ∀ p ∈ ops, isInvalidation p.1 = false) :
    runsOn fns id ops (sysRun fns tls size isOk (Sys.init : Sys K V) ops).2 =
      (distinct (keysOn fns id ops)).length :=
  body_runs_eq_card fns tls size isOk hspec hp ops hno _ (nodup_distinct _) (mem_distinct _)

/-- **(3) Every later call is served from the cache.**  After any history `pre`, a call of function `fn`
    by thread `th` whose key was already called on the same instance does not run the body: its trace is
    exactly `[returned v true]` and `v` is the value the body produced in the first call with that key. -/
theorem repeated_call_served_from_cache {fn : Nat} {spec : FnSpec} (hspec : fns[fn]? = some spec) (hp : Plain spec)
    (pre : List (SysOp K V × List Nat)) (hno : ∀ p ∈ pre, isInvalidation p.1 = false)
    (th : Nat) (c : CallIn K V) (rs : List Nat) (hrep : c.key ∈ keysOn fns (cacheIdOf spec fn th) pre) :
    ∃ v, firstVal (callsOn fns (cacheIdOf spec fn th) pre) c.key = some v ∧
      (sysStep fns tls size isOk rs (sysRun fns tls size isOk (Sys.init : Sys K V) pre).1 (.call fn th c)).2 =
        .ret v [TraceEv.returned v true] := by
  have hspec' : fns[(cacheIdOf spec fn th).fn]? = some spec := hspec
  have h := (plain_run fns tls size isOk hspec' hp pre hno Sys.init [] plainInv_nil).1
  rw [List.nil_append] at h
  obtain ⟨_, _, g3, _⟩ := plain_callFn hp (tls fn) size isOk rs _ c _ h
  cases hf : firstVal (callsOn fns (cacheIdOf spec fn th) pre) c.key with
  | none => exact absurd hrep ((firstVal_none_iff _ _).mp hf)
  | some v =>
    refine ⟨v, rfl, ?_⟩
    rw [out_call fns tls size isOk rs _ th c hspec, g3 v hf]

/-- The first call with a key on an instance runs the body exactly once, hands the result to the
    engine and returns it. -/
theorem first_call_runs_body {fn : Nat} {spec : FnSpec} (hspec : fns[fn]? = some spec) (hp : Plain spec)
    (pre : List (SysOp K V × List Nat)) (hno : ∀ p ∈ pre, isInvalidation p.1 = false)
    (th : Nat) (c : CallIn K V) (rs : List Nat) (hnew : c.key ∉ keysOn fns (cacheIdOf spec fn th) pre) :
    (sysStep fns tls size isOk rs (sysRun fns tls size isOk (Sys.init : Sys K V) pre).1 (.call fn th c)).2 =
      .ret c.bodyVal [TraceEv.bodyRun, TraceEv.stored c.key c.bodyVal, TraceEv.returned c.bodyVal false] := by
  have hspec' : fns[(cacheIdOf spec fn th).fn]? = some spec := hspec
  have h := (plain_run fns tls size isOk hspec' hp pre hno Sys.init [] plainInv_nil).1
  rw [List.nil_append] at h
  obtain ⟨_, _, _, g4⟩ := plain_callFn hp (tls fn) size isOk rs _ c _ h
  rw [out_call fns tls size isOk rs _ th c hspec, g4 ((firstVal_none_iff _ _).mpr hnew)]

/-- **(3), indexed form.**  In any history, if operation `j` is a call whose key occurred before on the
    same instance (among the first `j` operations), then output `j` is `ret v [returned v true]` with `v`
    the first body value for that key: no `bodyRun` event. -/
theorem repeated_call_at_index {fn : Nat} {spec : FnSpec} (hspec : fns[fn]? = some spec) (hp : Plain spec)
    (ops : List (SysOp K V × List Nat)) (hno : ∀ p ∈ ops, isInvalidation p.1 = false)
    (j th : Nat) (c : CallIn K V) (rs : List Nat) (hj : ops[j]? = some (.call fn th c, rs))
    (hrep : c.key ∈ keysOn fns (cacheIdOf spec fn th) (ops.take j)) :
    ∃ v, firstVal (callsOn fns (cacheIdOf spec fn th) (ops.take j)) c.key = some v ∧
      (sysRun fns tls size isOk (Sys.init : Sys K V) ops).2[j]? = some (.ret v [TraceEv.returned v true]) := by
  obtain ⟨v, h1, h2⟩ := repeated_call_served_from_cache fns tls size isOk hspec hp (ops.take j)
    (fun p hp' => hno p (List.mem_of_mem_take hp')) th c rs hrep
  exact ⟨v, h1, by rw [sysRun_out fns tls size isOk _ ops j _ rs hj, h2]⟩

end

/-! ### Non-vacuity

Three functions: `f0` global LRU (plain), `f1` thread-scope LFU (plain), `f2` async FIFO with a limit
of 1 and `cache_if` (NOT plain — other functions may be configured arbitrarily).  Two threads 0 and 1.
The history has 7 calls, two ticks and a statistics reset. -/

def exTl : Tlru Nat := ⟨fun a b => decide (a < b), fun _ h _ r => h * r⟩
def f0 : FnSpec := ⟨"f0", false, false, ⟨.global, .lru, none, none, none⟩, false, false, false, false, [], [], []⟩
def f1 : FnSpec := ⟨"f1", false, true, ⟨.threadLocal, .lfu, none, none, none⟩, true, false, false, false, [], [], []⟩
def f2 : FnSpec := ⟨"f2", true, false, ⟨.async, .fifo, some 1, none, some 5⟩, false, false, true, false, ["t"], [], []⟩
def exFns : List FnSpec := [f0, f1, f2]
def mk (k v : Nat) : CallIn Nat Nat := ⟨k, v, fun _ _ => true, fun _ _ => false⟩
/-- the body is deliberately impure (second call with key 1 would return 99): the cache must keep 10 -/
def exOps : List (SysOp Nat Nat × List Nat) :=
  [(.call 0 0 (mk 1 10), []), (.call 1 0 (mk 1 100), []), (.tick 5000, []), (.call 0 1 (mk 1 99), []),
   (.call 2 1 (mk 7 70), []), (.call 0 1 (mk 2 20), []), (.statsReset "f0", []), (.call 1 1 (mk 1 101), []),
   (.tick 1, []), (.call 0 0 (mk 2 21), [])]
def exRun := sysRun exFns (fun _ => exTl) (fun _ => 0) (fun _ => true) (Sys.init : Sys Nat Nat) exOps

example : Plain f0 := ⟨rfl, rfl, Or.inl rfl, rfl, rfl, rfl⟩
example : Plain f1 := ⟨rfl, rfl, Or.inr rfl, rfl, rfl, rfl⟩
example : ∀ p ∈ exOps, isInvalidation p.1 = false := by decide
/-- global `f0`: 4 calls by two threads on keys 1,1,2,2 — two body runs, keys [1,2], values 10 and 20 -/
example : runsOn exFns ⟨0, none⟩ exOps exRun.2 = 2 := by decide
example : keysOn exFns ⟨0, none⟩ exOps = [1, 1, 2, 2] := by decide
example : keys (exRun.1.getCache ⟨0, none⟩).store = [1, 2] := by decide
example : (exRun.1.getCache ⟨0, none⟩).store.map (fun p => (p.1, p.2.val)) = [(1, 10), (2, 20)] := by decide
/-- thread-scope `f1`: both threads call key 1 — one body run PER THREAD -/
example : runsOn exFns ⟨1, some 0⟩ exOps exRun.2 = 1 ∧ runsOn exFns ⟨1, some 1⟩ exOps exRun.2 = 1 := by decide
/-- the repeated call of `f0` with key 1 (operation 3, by the other thread) returns 10 without running the body -/
example : (match exRun.2[3]? with | some (SysOut.ret v tr) => (v, bodyRuns tr, tr.length) | _ => (0, 9, 9)) = (10, 0, 1) := by
  decide

end Cachelito.C03
