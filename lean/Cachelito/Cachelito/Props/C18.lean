/-
  C18 — Concurrent use keeps values correct and the cache consistent.

  "Under every interleaving of concurrent calls and invalidations on a global or async cache, each call
   still returns the function's value for its own arguments.  Once all callers have returned, the cache
   holds at most `limit` entries (at most `max_memory` bytes), every entry it holds can still be evicted,
   expired and invalidated, and subsequent sequential use again respects the bounds and returns correct
   values."

  Model: `Cachelito.ConcData` — any number of threads, each running an arbitrary program of engine
  operations (`get`, `insert`, `insertMem`, `clear`, `invalidateWith p`, `tick`), every operation split into
  the atomic micro-steps (= critical sections) of the real code; `crun sch c` runs the schedule `sch`
  (ANY list of thread ids).  All theorems quantify over every number of threads, every program, every
  schedule, every policy, `tl : Tlru S`, `size`, and every stream of random draws (they are part of the
  programs).  "Calls of a function `f`" = every store operation of every program writes `(k, f k)`
  (`OpOK f`), as the generated wrapper does (key = rendering of the arguments, C02).

    (a) values                      : `calls_return_function_value`, `records_are_own_operations`,
                                      `one_thread_is_sequential` (model sanity: 1 thread = `Cachelito.run`)
    (b) async engine, EVERY point   : `async_consistent_at_every_point`, `async_limit_at_every_point`,
                                      `async_memory_at_every_point`, `async_then_sequential`
    (c) sync engine                 : `sync_inflight_invariant`, `sync_bound_inflight` (every point),
                                      `sync_quiescent` , `sync_quiescent_memory` (quiescence),
                                      `allDone_quiescent`
    (d) sequential use afterwards   : `sync_then_sequential`, `sync_then_sequential_memory`
    refutations of the unfixed code : examples F6, F8 at the end;  non-vacuity examples.

  Nothing is `_partial`.  Limits of the MODEL (not of the proofs), see the header of `ConcData.lean`: in THIS
  file the queue section of the sync `insert_with_memory` (several nested store-lock sections inside one
  queue-mutex section) is one micro-step — `Props/C18f.lean` re-proves (a), (c), (d) for the FINE model
  `ConcDataFine` in which every one of those store-lock sections is its own micro-step, other threads' store-only
  sections may fall between them, and the queue mutex is modelled explicitly; DashMap operations are atomic;
  the clock is read in the micro-step that uses it.

  Helper lemmas: `Cachelito/Lemmas/ConcData.lean`.
-/
import Cachelito.Lemmas.ConcData

set_option linter.unusedSectionVars false
set_option linter.unusedSimpArgs false
set_option linter.unusedVariables false

namespace Cachelito.C18
open Cachelito Cachelito.ConcData

variable {K V S : Type} [DecidableEq K]

/-! ## (a) Values -/

/-- **Each call returns the function's value for its own arguments** — under every interleaving, in the
    sync and the async engine (and even in the unfixed code, `legacy = true`).  If the cache starts with
    pairs `(k, f k)` only and every store operation of every thread writes `(k, f k)`, then after ANY
    schedule every stored pair is `(k, f k)`, and every finished lookup `get k` of every thread that
    returned a value returned `f k`. -/
theorem calls_return_function_value (legacy : Bool) (f : K → V) (cfg : Cfg) (tl : Tlru S) (size : V → Nat)
    (s0 : State K V) (progs : List (List (Op K V × List Nat)))
    (hs0 : ValOK f s0.store) (hprogs : ∀ prog, prog ∈ progs → ∀ x, x ∈ prog → OpOK f x.1)
    (sch : List ThreadId) :
    ValOK f (crunWith legacy cfg tl size sch (CState.start s0 progs)).shared.store ∧
    ∀ t, t ∈ (crunWith legacy cfg tl size sch (CState.start s0 progs)).threads →
      ∀ op o, (op, o) ∈ t.done → ∀ k v, op = .get k → o = .val (some v) → v = f k := by
  have h := crunWith_invariant (legacy := legacy) (cfg := cfg) (tl := tl) (size := size) (ValInv f)
    (fun c i c' hc hs => cstepWith_val c i c' hc hs) sch _ (valInv_start s0 progs hs0 hprogs)
  exact ⟨h.1, fun t ht op o hr => (h.2 t ht).2.2 (op, o) hr⟩

/-- **The records are the program's own operations**: at every point of every schedule, what a thread
    has finished followed by what it still has to run is exactly its program — so the lookup a record
    `(get k, value)` speaks about is the thread's own call with its own key. -/
theorem records_are_own_operations (legacy : Bool) (cfg : Cfg) (tl : Tlru S) (size : V → Nat)
    (s0 : State K V) (progs : List (List (Op K V × List Nat))) (sch : List ThreadId) :
    (crunWith legacy cfg tl size sch (CState.start s0 progs)).threads.map fullOps =
      progs.map (fun p => p.map (·.1)) := by
  have h := crunWith_invariant (legacy := legacy) (cfg := cfg) (tl := tl) (size := size)
    (fun c => Fits legacy cfg c ∧ c.threads.map fullOps = progs.map (fun p => p.map (·.1)))
    (fun c i c' hc hs => by
      have := cstepWith_fits c i c' hc.1 hs
      exact ⟨this.1, this.2.trans hc.2⟩)
    sch _ ⟨fits_start legacy cfg s0 progs, fullOps_start s0 progs⟩
  exact h.2

/-- **Model sanity: one thread = the sequential model.**  A system with one thread running `prog` to
    completion ends in exactly the state, and reports exactly the outputs, that `Cachelito.run` computes
    (both engines, every policy): the micro-step transcription adds nothing but the preemption points. -/
theorem one_thread_is_sequential (cfg : Cfg) (tl : Tlru S) (size : V → Nat) (prog : List (Op K V × List Nat))
    (s0 : State K V) (N : Nat) (hN : 3 * prog.length ≤ N) :
    (crun cfg tl size (List.replicate N 0) (CState.start s0 [prog])).shared = (run cfg tl size s0 prog).1 ∧
    (crun cfg tl size (List.replicate N 0) (CState.start s0 [prog])).threads.map (fun t => t.done.map (·.2))
      = [(run cfg tl size s0 prog).2] := by
  have h := single_thread_is_run cfg tl size prog s0 [] N hN
  have hs : (CState.start s0 [prog] : CState K V) = ⟨s0, [⟨prog, none, []⟩]⟩ := rfl
  rw [hs, h]
  refine ⟨rfl, ?_⟩
  simp only [List.map_cons, List.map_nil, List.nil_append, List.cons.injEq, and_true]
  have hlen : ∀ (ops : List (Op K V × List Nat)) (s : State K V), (run cfg tl size s ops).2.length = ops.length := by
    intro ops
    induction ops with
    | nil => intro s; rfl
    | cons a ops ih => intro s; obtain ⟨op, rs⟩ := a; simp [run, ih]
  rw [List.map_snd_zip]
  simp [hlen]

/-! ## (b) Async engine: consistent at EVERY point of every interleaving -/

/-- **Async: the queue is a duplicate-free enumeration of the stored keys after every critical section**
    (not only at quiescence): every micro-step of every operation preserves the sequential invariant `Inv`. -/
theorem async_consistent_at_every_point (cfg : Cfg) (tl : Tlru S) (size : V → Nat) (hf : cfg.flavour = .async)
    (s0 : State K V) (hi : Inv s0) (progs : List (List (Op K V × List Nat))) (sch : List ThreadId) :
    Inv (crun cfg tl size sch (CState.start s0 progs)).shared := by
  refine crunWith_invariant (fun c => Inv c.shared) ?_ sch _ hi
  intro c i c' hc hs
  obtain ⟨t, op, rs, _, _, hsh⟩ := cstepWith_shared hs
  rw [hsh]; exact micro_async_inv cfg tl size c.shared op rs t.pend hf hc

/-- **Async: never more than `limit` entries, at every point of every interleaving** (`limit = n ≥ 1`). -/
theorem async_limit_at_every_point (cfg : Cfg) (tl : Tlru S) (size : V → Nat) (hf : cfg.flavour = .async)
    (n : Nat) (hl : cfg.limit = some n) (hn : 1 ≤ n)
    (s0 : State K V) (hi : Inv s0) (hb : s0.store.length ≤ n)
    (progs : List (List (Op K V × List Nat))) (sch : List ThreadId) :
    (crun cfg tl size sch (CState.start s0 progs)).shared.store.length ≤ n := by
  have h := crunWith_invariant (legacy := false) (cfg := cfg) (tl := tl) (size := size)
    (fun c => Inv c.shared ∧ c.shared.store.length ≤ n) ?_ sch (CState.start s0 progs) ⟨hi, hb⟩
  · exact h.2
  · intro c i c' hc hs
    obtain ⟨t, op, rs, _, _, hsh⟩ := cstepWith_shared hs
    rw [hsh]
    exact ⟨micro_async_inv cfg tl size c.shared op rs t.pend hf hc.1,
           micro_async_bound cfg tl size c.shared op rs t.pend hf n hl hn hc.1 hc.2⟩

/-- **Async: never more than `max_memory` bytes, at every point of every interleaving**, when all stores
    go through `insert_with_memory` (as in the generated code when `max_memory` is set). -/
theorem async_memory_at_every_point (cfg : Cfg) (tl : Tlru S) (size : V → Nat) (hf : cfg.flavour = .async)
    (M : Nat) (hM : cfg.maxMem = some M)
    (s0 : State K V) (hi : Inv s0) (hb : totalMem size s0.store ≤ M)
    (progs : List (List (Op K V × List Nat)))
    (hvia : ∀ prog, prog ∈ progs → ∀ x, x ∈ prog → x.1.viaMem = true) (sch : List ThreadId) :
    totalMem size (crun cfg tl size sch (CState.start s0 progs)).shared.store ≤ M := by
  have h := crunWith_invariant (legacy := false) (cfg := cfg) (tl := tl) (size := size)
    (fun c => Inv c.shared ∧ totalMem size c.shared.store ≤ M ∧ ProgAll (fun op => op.viaMem = true) c)
    ?_ sch (CState.start s0 progs) ⟨hi, hb, progAll_start _ s0 progs hvia⟩
  · exact h.2.1
  · intro c i c' hc hs
    obtain ⟨t, op, rs, ht, hop, hsh⟩ := cstepWith_shared hs
    refine ⟨?_, ?_, cstepWith_progAll hc.2.2 hs⟩
    · rw [hsh]; exact micro_async_inv cfg tl size c.shared op rs t.pend hf hc.1
    · rw [hsh]
      exact micro_async_mem cfg tl size c.shared op rs t.pend hf M hM (hc.2.2 t ht (op, rs) hop) hc.1 hc.2.1

/-- **Async: sequential use after (or in the middle of) any interleaving.**  The shared state reached by
    any schedule is a state of the sequential model satisfying `Inv` with at most `n` entries, so every
    sequential theorem stated for "any state satisfying `Inv`" (C04 `step_bound`, C05, C06–C08, C13) applies
    to every sequential continuation; in particular the continuation keeps `Inv` and the entry bound, and
    its lookups return `f` of their key. -/
theorem async_then_sequential (f : K → V) (cfg : Cfg) (tl : Tlru S) (size : V → Nat) (hf : cfg.flavour = .async)
    (n : Nat) (hl : cfg.limit = some n) (hn : 1 ≤ n)
    (s0 : State K V) (hi : Inv s0) (hb : s0.store.length ≤ n) (hs0 : ValOK f s0.store)
    (progs : List (List (Op K V × List Nat))) (hprogs : ∀ prog, prog ∈ progs → ∀ x, x ∈ prog → OpOK f x.1)
    (sch : List ThreadId) (ops : List (Op K V × List Nat)) (hops : ∀ x, x ∈ ops → OpOK f x.1) :
    Inv (run cfg tl size (crun cfg tl size sch (CState.start s0 progs)).shared ops).1 ∧
    (run cfg tl size (crun cfg tl size sch (CState.start s0 progs)).shared ops).1.store.length ≤ n ∧
    (∀ rs op, (step cfg tl size rs (crun cfg tl size sch (CState.start s0 progs)).shared op).1.store.length ≤ n) ∧
    ∀ a o, (a, o) ∈ ops.zip (run cfg tl size (crun cfg tl size sch (CState.start s0 progs)).shared ops).2 →
      ∀ k v, a.1 = .get k → o = .val (some v) → v = f k := by
  have h1 := async_consistent_at_every_point cfg tl size hf s0 hi progs sch
  have h2 := async_limit_at_every_point cfg tl size hf n hl hn s0 hi hb progs sch
  have h3 := (calls_return_function_value false f cfg tl size s0 progs hs0 hprogs sch).1
  exact ⟨run_inv cfg tl size _ ops h1, run_bound_from cfg tl size n hl hn ops _ h1 h2,
         fun rs op => C04.step_bound cfg tl size rs _ op n hl hn h1 h2,
         (run_val cfg tl size ops _ h3 hops).2⟩

/-! ## (c) Sync engine: the store write of a store precedes its queue section -/

/-- **Sync: the in-flight invariant holds at every point of every interleaving.**  Stored keys are
    distinct, the queue is duplicate-free, and every stored key that is missing from the queue is the key
    of a thread that has written the store and has not yet run its queue section (`pendKeys`).  Queue keys
    that are not stored (orphans) may exist. -/
theorem sync_inflight_invariant (cfg : Cfg) (tl : Tlru S) (size : V → Nat) (hf : cfg.flavour ≠ .async)
    (s0 : State K V) (h0 : WeakInv s0) (progs : List (List (Op K V × List Nat))) (sch : List ThreadId) :
    SyncInv (crun cfg tl size sch (CState.start s0 progs)).shared.store
            (crun cfg tl size sch (CState.start s0 progs)).shared.queue
            (pendKeys (crun cfg tl size sch (CState.start s0 progs)).threads) := by
  refine crunWith_invariant (legacy := false) (cfg := cfg) (tl := tl) (size := size) SyncSys ?_ sch _ ?_
  · intro c i c' hc hs; exact (cstep_sync hf c i c' hc hs).1
  · unfold SyncSys; rw [pendKeys_start]; exact h0

/-- **Sync: the capacity invariant holds at every point of every interleaving** (`limit = n`, any `n`):
    under EVERY policy the store holds at most `n` entries plus one per store in flight; under FIFO, LRU
    and Random moreover the queue has at most `n` slots whenever the queue mutex is free.  (Inductive
    form: for every policy but Random the entry count is the invariant; for Random — whose victim may be an
    orphan slot — the slot count is, and the entry count follows from it.) -/
theorem sync_bound_inflight (cfg : Cfg) (tl : Tlru S) (size : V → Nat) (hf : cfg.flavour ≠ .async)
    (n : Nat) (hl : cfg.limit = some n)
    (s0 : State K V) (h0 : WeakInv s0) (hb0 : WeakBound cfg n s0)
    (progs : List (List (Op K V × List Nat))) (sch : List ThreadId) :
    (crun cfg tl size sch (CState.start s0 progs)).shared.store.length
        ≤ n + (pendKeys (crun cfg tl size sch (CState.start s0 progs)).threads).length ∧
    (cfg.policy = .fifo ∨ cfg.policy = .lru ∨ cfg.policy = .random →
      (crun cfg tl size sch (CState.start s0 progs)).shared.queue.length ≤ n) := by
  have h := crunWith_invariant (legacy := false) (cfg := cfg) (tl := tl) (size := size)
    (fun c => SyncSys c ∧ SyncSysBound cfg n c) ?_ sch (CState.start s0 progs) ?_
  · exact ⟨sync_entries_le h.1 h.2, h.2.slots⟩
  · intro c i c' hc hs
    have := cstep_sync hf c i c' hc.1 hs
    exact ⟨this.1, this.2 n hl hc.2⟩
  · unfold SyncSys SyncSysBound; rw [pendKeys_start]; exact ⟨h0, hb0⟩

/-- a thread list in which everybody has returned is quiescent (no operation in progress) -/
theorem allDone_quiescent (cfg : Cfg) (tl : Tlru S) (size : V → Nat)
    (s0 : State K V) (progs : List (List (Op K V × List Nat))) (sch : List ThreadId)
    (hd : AllDone (crun cfg tl size sch (CState.start s0 progs))) :
    Quiescent (crun cfg tl size sch (CState.start s0 progs)) := by
  refine quiescent_of_allDone ?_ hd
  exact crunWith_invariant (legacy := false) (cfg := cfg) (tl := tl) (size := size) WF
    (fun c i c' hc hs => cstepWith_wf c i c' hc hs) sch _ (wf_start s0 progs)

/-- **Sync, at quiescence** (no operation in progress — in particular once all callers have returned):
    stored keys distinct, queue duplicate-free, EVERY stored key is in the queue (so every entry can still
    be evicted, expired and invalidated), and, with `limit = n`, at most `n` entries — under every policy,
    Random included.  The state again satisfies the hypotheses `WeakInv` / `WeakBound` of this theorem's
    own family, so concurrent phases compose. -/
theorem sync_quiescent (cfg : Cfg) (tl : Tlru S) (size : V → Nat) (hf : cfg.flavour ≠ .async)
    (s0 : State K V) (h0 : WeakInv s0) (progs : List (List (Op K V × List Nat))) (sch : List ThreadId)
    (hq : Quiescent (crun cfg tl size sch (CState.start s0 progs))) :
    ((keys (crun cfg tl size sch (CState.start s0 progs)).shared.store).Nodup ∧
     (crun cfg tl size sch (CState.start s0 progs)).shared.queue.Nodup ∧
     ∀ x, x ∈ keys (crun cfg tl size sch (CState.start s0 progs)).shared.store →
          x ∈ (crun cfg tl size sch (CState.start s0 progs)).shared.queue) ∧
    WeakInv (crun cfg tl size sch (CState.start s0 progs)).shared ∧
    ∀ n, cfg.limit = some n → WeakBound cfg n s0 →
      (crun cfg tl size sch (CState.start s0 progs)).shared.store.length ≤ n ∧
      WeakBound cfg n (crun cfg tl size sch (CState.start s0 progs)).shared := by
  have h1 := sync_inflight_invariant cfg tl size hf s0 h0 progs sch
  rw [pendKeys_of_quiescent hq] at h1
  refine ⟨⟨h1.keysNodup, h1.queueNodup, ?_⟩, h1, ?_⟩
  · intro x hx
    apply Classical.byContradiction; intro hn
    exact absurd (h1.tracked x hx hn) (by simp)
  · intro n hl hb0
    have h2 := sync_bound_inflight cfg tl size hf n hl s0 h0 hb0 progs sch
    rw [pendKeys_of_quiescent hq] at h2
    have hwb : WeakBound cfg n (crun cfg tl size sch (CState.start s0 progs)).shared :=
      ⟨fun _ => h2.1, h2.2⟩
    exact ⟨weak_length_le h1 hwb, hwb⟩

/-- **Sync, memory at quiescence** (`max_memory = M`, all stores through `insert_with_memory`, values
    `f k`): at every point of every interleaving the footprint exceeds `M` by at most the sizes of the
    values whose queue section (with its memory loop) has not run yet — the last thread to run its
    memory loop sees every value — hence at quiescence the footprint is at most `M`. -/
theorem sync_quiescent_memory (f : K → V) (cfg : Cfg) (tl : Tlru S) (size : V → Nat) (hf : cfg.flavour ≠ .async)
    (M : Nat) (hM : cfg.maxMem = some M)
    (s0 : State K V) (h0 : WeakInv s0) (hs0 : ValOK f s0.store) (hb0 : totalMem size s0.store ≤ M)
    (progs : List (List (Op K V × List Nat)))
    (hprogs : ∀ prog, prog ∈ progs → ∀ x, x ∈ prog → OpOK f x.1)
    (hvia : ∀ prog, prog ∈ progs → ∀ x, x ∈ prog → x.1.viaMem = true) (sch : List ThreadId) :
    totalMem size (crun cfg tl size sch (CState.start s0 progs)).shared.store
      ≤ M + ((pendKeys (crun cfg tl size sch (CState.start s0 progs)).threads).map (fun k => size (f k))).sum ∧
    (Quiescent (crun cfg tl size sch (CState.start s0 progs)) →
      totalMem size (crun cfg tl size sch (CState.start s0 progs)).shared.store ≤ M) := by
  have h := crunWith_invariant (legacy := false) (cfg := cfg) (tl := tl) (size := size)
    (fun c => SyncSys c ∧ ValInv f c ∧ NoPlain c ∧ MemSys size f M c) ?_ sch (CState.start s0 progs) ?_
  · refine ⟨h.2.2.2, fun hq => ?_⟩
    have := h.2.2.2
    unfold MemSys MemInv at this
    have hpk : pendKeys (crunWith false cfg tl size sch (CState.start s0 progs)).threads = [] :=
      pendKeys_of_quiescent hq
    rw [hpk] at this
    simp only [List.map_nil, List.sum_nil, Nat.add_zero] at this
    exact this
  · intro c i c' hc hs
    exact ⟨(cstep_sync hf c i c' hc.1 hs).1, cstepWith_val c i c' hc.2.1 hs, cstep_noPlain c i c' hc.2.2.1 hs,
           cstep_sync_mem hf f M hM c i c' hc.1 hc.2.1 hc.2.2.1 hc.2.2.2 hs⟩
  · refine ⟨?_, valInv_start s0 progs hs0 hprogs, ?_, ?_⟩
    · unfold SyncSys; rw [pendKeys_start]; exact h0
    · intro t ht
      simp only [CState.start, List.mem_map] at ht
      obtain ⟨prog, hprog, rfl⟩ := ht
      exact ⟨hvia prog hprog, by intro k v r hh; simp [Thread.start] at hh⟩
    · unfold MemSys MemInv; rw [pendKeys_start]; simpa [CState.start] using hb0

/-! ## (d) Sequential use after quiescence -/

/-- **Sync: subsequent sequential use respects the bound and returns correct values.**  From the state
    left by any schedule at quiescence — every stored key queued, no duplicates, orphan queue keys possibly
    present, i.e. a state that need NOT satisfy the sequential invariant `Inv` — every sequential history of
    ALL engine operations, under EVERY policy, keeps that consistency, never holds more than `limit = n`
    entries after any operation, and every lookup that returns a value returns `f` of its key. -/
theorem sync_then_sequential (f : K → V) (cfg : Cfg) (tl : Tlru S) (size : V → Nat) (hf : cfg.flavour ≠ .async)
    (n : Nat) (hl : cfg.limit = some n)
    (s0 : State K V) (h0 : WeakInv s0) (hb0 : WeakBound cfg n s0) (hs0 : ValOK f s0.store)
    (progs : List (List (Op K V × List Nat))) (hprogs : ∀ prog, prog ∈ progs → ∀ x, x ∈ prog → OpOK f x.1)
    (sch : List ThreadId) (hq : Quiescent (crun cfg tl size sch (CState.start s0 progs)))
    (ops : List (Op K V × List Nat)) (hops : ∀ x, x ∈ ops → OpOK f x.1) :
    WeakInv (run cfg tl size (crun cfg tl size sch (CState.start s0 progs)).shared ops).1 ∧
    (∀ i, (run cfg tl size (crun cfg tl size sch (CState.start s0 progs)).shared (ops.take i)).1.store.length ≤ n) ∧
    ∀ a o, (a, o) ∈ ops.zip (run cfg tl size (crun cfg tl size sch (CState.start s0 progs)).shared ops).2 →
      ∀ k v, a.1 = .get k → o = .val (some v) → v = f k := by
  obtain ⟨_, hw, hb⟩ := sync_quiescent cfg tl size hf s0 h0 progs sch hq
  obtain ⟨_, hwb⟩ := hb n hl hb0
  have h3 := (calls_return_function_value false f cfg tl size s0 progs hs0 hprogs sch).1
  refine ⟨(run_weak hf tl size ops _ hw).1, ?_, (run_val cfg tl size ops _ h3 hops).2⟩
  intro i
  have hr := run_weak hf tl size (ops.take i) _ hw
  exact weak_length_le hr.1 (hr.2 n hl hwb)

/-- **Sync: … and the memory bound**, for sequential histories whose stores go through `insert_with_memory`. -/
theorem sync_then_sequential_memory (f : K → V) (cfg : Cfg) (tl : Tlru S) (size : V → Nat)
    (hf : cfg.flavour ≠ .async) (M : Nat) (hM : cfg.maxMem = some M)
    (s0 : State K V) (h0 : WeakInv s0) (hs0 : ValOK f s0.store) (hb0 : totalMem size s0.store ≤ M)
    (progs : List (List (Op K V × List Nat)))
    (hprogs : ∀ prog, prog ∈ progs → ∀ x, x ∈ prog → OpOK f x.1)
    (hvia : ∀ prog, prog ∈ progs → ∀ x, x ∈ prog → x.1.viaMem = true)
    (sch : List ThreadId) (hq : Quiescent (crun cfg tl size sch (CState.start s0 progs)))
    (ops : List (Op K V × List Nat)) (hops : AllViaMem ops) (i : Nat) :
    totalMem size (run cfg tl size (crun cfg tl size sch (CState.start s0 progs)).shared (ops.take i)).1.store ≤ M := by
  obtain ⟨_, hw, _⟩ := sync_quiescent cfg tl size hf s0 h0 progs sch hq
  have hm := (sync_quiescent_memory f cfg tl size hf M hM s0 h0 hs0 hb0 progs hprogs hvia sch).2 hq
  exact run_weak_mem hf tl size M hM (ops.take i) (hops.take i) _ hw hm

/-! ## Corollaries from the empty cache -/

/-- sync, from the empty cache, once all callers have returned: consistent and within `limit` -/
theorem sync_all_returned (cfg : Cfg) (tl : Tlru S) (size : V → Nat) (hf : cfg.flavour ≠ .async)
    (n : Nat) (hl : cfg.limit = some n) (progs : List (List (Op K V × List Nat))) (sch : List ThreadId)
    (hd : AllDone (crun cfg tl size sch (CState.init progs))) :
    (∀ x, x ∈ keys (crun cfg tl size sch (CState.init progs)).shared.store →
          x ∈ (crun cfg tl size sch (CState.init progs)).shared.queue) ∧
    (crun cfg tl size sch (CState.init progs)).shared.queue.Nodup ∧
    (crun cfg tl size sch (CState.init progs)).shared.store.length ≤ n := by
  have hq := allDone_quiescent cfg tl size State.init progs sch hd
  obtain ⟨⟨_, h2, h3⟩, _, hb⟩ := sync_quiescent cfg tl size hf State.init weakInv_init progs sch hq
  exact ⟨h3, h2, (hb n hl (weakBound_init cfg n)).1⟩

/-- async, from the empty cache, at every point: consistent and within `limit` -/
theorem async_always (cfg : Cfg) (tl : Tlru S) (size : V → Nat) (hf : cfg.flavour = .async)
    (n : Nat) (hl : cfg.limit = some n) (hn : 1 ≤ n) (progs : List (List (Op K V × List Nat))) (sch : List ThreadId) :
    Inv (crun cfg tl size sch (CState.init progs)).shared ∧
    (crun cfg tl size sch (CState.init progs)).shared.store.length ≤ n :=
  ⟨async_consistent_at_every_point cfg tl size hf _ inv_init progs sch,
   async_limit_at_every_point cfg tl size hf n hl hn _ inv_init (by simp [State.init]) progs sch⟩

/-! ## Refutations of the unfixed code (concrete two-thread schedules) and non-vacuity -/

def exTl : Tlru Nat := ⟨fun a b => decide (a < b), fun _ h _ r => h * r⟩
def exF (k : Nat) : Nat := k * 10
def cfgSync : Cfg := ⟨.global, .fifo, some 2, none, none⟩
def cfgSync1 : Cfg := ⟨.global, .lfu, some 1, none, none⟩
def cfgAsync : Cfg := ⟨.async, .fifo, some 1, none, some 1⟩
def cfgAsync2 : Cfg := ⟨.async, .lru, some 2, none, none⟩

/-- F6: thread 0 stores keys 1, 2, 3; thread 1 runs the clear callback -/
def progsF6 : List (List (Op Nat Nat × List Nat)) :=
  [[(.insert 1 10, []), (.insert 2 20, []), (.insert 3 30, [])], [(.clear, [])]]

/-- **F6 (legacy clear in two critical sections).**  `clear` empties the store, thread 0 stores key 1
    (both sections), `clear` empties the queue: key 1 is stored and missing from the queue; two more stores
    later the `limit = 2` cache holds 3 entries at quiescence. -/
example :
    keys (crunWith true cfgSync exTl (fun _ => 0) [1, 0, 0, 1] (CState.init progsF6)).shared.store = [1] ∧
    (crunWith true cfgSync exTl (fun _ => 0) [1, 0, 0, 1] (CState.init progsF6)).shared.queue = [] ∧
    allDoneB (crunWith true cfgSync exTl (fun _ => 0) [1, 0, 0, 1, 0, 0, 0, 0] (CState.init progsF6)) = true ∧
    keys (crunWith true cfgSync exTl (fun _ => 0) [1, 0, 0, 1, 0, 0, 0, 0] (CState.init progsF6)).shared.store = [1, 2, 3] ∧
    (crunWith true cfgSync exTl (fun _ => 0) [1, 0, 0, 1, 0, 0, 0, 0] (CState.init progsF6)).shared.queue = [2, 3] := by
  decide

/-- the same schedule on the fixed code (clear is one section): consistent, 2 entries -/
example :
    allDoneB (crun cfgSync exTl (fun _ => 0) [1, 0, 0, 1, 0, 0, 0, 0] (CState.init progsF6)) = true ∧
    keys (crun cfgSync exTl (fun _ => 0) [1, 0, 0, 1, 0, 0, 0, 0] (CState.init progsF6)).shared.store = [2, 3] ∧
    (crun cfgSync exTl (fun _ => 0) [1, 0, 0, 1, 0, 0, 0, 0] (CState.init progsF6)).shared.queue = [2, 3] := by
  decide

/-- F8: key 1 stored at time 0, now = 5 s, ttl = 1 s; thread 0 looks key 1 up, thread 1 re-stores it, then key 2 -/
def stateF8 : State Nat Nat := ⟨[(1, ⟨10, 0, 0⟩)], [1], 5000, 0, 0⟩
def progsF8 : List (List (Op Nat Nat × List Nat)) := [[(.get 1, [])], [(.insert 1 10, []), (.insert 2 20, [])]]

/-- **F8 (legacy async expired lookup removes from the store before taking the queue mutex).**
    A: read (expired), shard remove · B: `insert 1` · A: `retain` ⇒ key 1 stored, missing from the queue;
    B's next store then leaves 2 entries in the `limit = 1` FIFO cache. -/
example :
    keys (crunWith true cfgAsync exTl (fun _ => 0) [0, 0, 1, 0] (CState.start stateF8 progsF8)).shared.store = [1] ∧
    (crunWith true cfgAsync exTl (fun _ => 0) [0, 0, 1, 0] (CState.start stateF8 progsF8)).shared.queue = [] ∧
    allDoneB (crunWith true cfgAsync exTl (fun _ => 0) [0, 0, 1, 0, 1] (CState.start stateF8 progsF8)) = true ∧
    keys (crunWith true cfgAsync exTl (fun _ => 0) [0, 0, 1, 0, 1] (CState.start stateF8 progsF8)).shared.store = [1, 2] := by
  decide

/-- the fixed code on the corresponding schedule (read · B `insert 1` · A remove-both · B `insert 2`) -/
example :
    allDoneB (crun cfgAsync exTl (fun _ => 0) [0, 1, 0, 1] (CState.start stateF8 progsF8)) = true ∧
    keys (crun cfgAsync exTl (fun _ => 0) [0, 1, 0, 1] (CState.start stateF8 progsF8)).shared.store = [2] ∧
    (crun cfgAsync exTl (fun _ => 0) [0, 1, 0, 1] (CState.start stateF8 progsF8)).shared.queue = [2] := by
  decide

/-- Non-vacuity, sync, 2 threads: the two micro-steps of `insert 1` are separated by the other thread's
    `clear`; the end state is consistent — the store is empty and key 1 is an ORPHAN of the queue (allowed). -/
def progsOrphan : List (List (Op Nat Nat × List Nat)) := [[(.insert 1 10, [])], [(.clear, [])]]
example :
    pendKeys (crun cfgSync exTl (fun _ => 0) [0] (CState.init progsOrphan)).threads = [1] ∧
    keys (crun cfgSync exTl (fun _ => 0) [0] (CState.init progsOrphan)).shared.store = [1] ∧
    (crun cfgSync exTl (fun _ => 0) [0] (CState.init progsOrphan)).shared.queue = [] ∧
    allDoneB (crun cfgSync exTl (fun _ => 0) [0, 1, 0] (CState.init progsOrphan)) = true ∧
    keys (crun cfgSync exTl (fun _ => 0) [0, 1, 0] (CState.init progsOrphan)).shared.store = [] ∧
    (crun cfgSync exTl (fun _ => 0) [0, 1, 0] (CState.init progsOrphan)).shared.queue = [1] := by
  decide

/-- Non-vacuity, sync, in-flight slack: `limit = 1`, LFU; both threads write the store first — 2 entries
    with 2 stores in flight (`n + |pending|` is attained) — then run their queue sections; at quiescence 1
    entry, tracked.  Thread 2 looks key 2 up afterwards and gets `f 2 = 20`. -/
def progsSlack : List (List (Op Nat Nat × List Nat)) :=
  [[(.insert 1 (exF 1), [])], [(.insert 2 (exF 2), [])], [(.get 2, [])]]
example :
    (crun cfgSync1 exTl (fun _ => 0) [0, 1] (CState.init progsSlack)).shared.store.length = 2 ∧
    pendKeys (crun cfgSync1 exTl (fun _ => 0) [0, 1] (CState.init progsSlack)).threads = [1, 2] ∧
    allDoneB (crun cfgSync1 exTl (fun _ => 0) [0, 1, 0, 1, 2, 2] (CState.init progsSlack)) = true ∧
    keys (crun cfgSync1 exTl (fun _ => 0) [0, 1, 0, 1, 2, 2] (CState.init progsSlack)).shared.store = [2] ∧
    (crun cfgSync1 exTl (fun _ => 0) [0, 1, 0, 1, 2, 2] (CState.init progsSlack)).shared.queue = [2] ∧
    ((crun cfgSync1 exTl (fun _ => 0) [0, 1, 0, 1, 2, 2] (CState.init progsSlack)).threads.map
      (fun t => t.done.map (fun r => match r.2 with | .val o => o | .unit => none))) = [[none], [none], [some 20]] := by
  decide

/-- Non-vacuity, async, 3 threads (LRU, `limit = 2`): stores; a refreshing hit of key 1 whose two sections
    are separated by the store of key 3 that evicts key 1 (the refresh re-checks and does nothing, the call
    still returns `f 1 = 10`); a conditional invalidation split into collect / remove.  The queue
    enumerates the store after every micro-step. -/
def progsAsync3 : List (List (Op Nat Nat × List Nat)) :=
  [[(.insert 1 (exF 1), []), (.get 1, [])], [(.insert 2 (exF 2), []), (.insert 3 (exF 3), [])],
   [(.invalidateWith (fun k => k == 2), [])]]
example :
    keys (crun cfgAsync2 exTl (fun _ => 0) [0, 1, 0, 2] (CState.init progsAsync3)).shared.store = [1, 2] ∧
    (crun cfgAsync2 exTl (fun _ => 0) [0, 1, 0, 2] (CState.init progsAsync3)).shared.queue = [1, 2] ∧
    keys (crun cfgAsync2 exTl (fun _ => 0) [0, 1, 0, 2, 1] (CState.init progsAsync3)).shared.store = [2, 3] ∧
    (crun cfgAsync2 exTl (fun _ => 0) [0, 1, 0, 2, 1] (CState.init progsAsync3)).shared.queue = [2, 3] ∧
    allDoneB (crun cfgAsync2 exTl (fun _ => 0) [0, 1, 0, 2, 1, 0, 2] (CState.init progsAsync3)) = true ∧
    keys (crun cfgAsync2 exTl (fun _ => 0) [0, 1, 0, 2, 1, 0, 2] (CState.init progsAsync3)).shared.store = [3] ∧
    (crun cfgAsync2 exTl (fun _ => 0) [0, 1, 0, 2, 1, 0, 2] (CState.init progsAsync3)).shared.queue = [3] ∧
    ((crun cfgAsync2 exTl (fun _ => 0) [0, 1, 0, 2, 1, 0, 2] (CState.init progsAsync3)).threads.map
      (fun t => t.done.map (fun r => match r.2 with | .val o => o | .unit => none)))
        = [[none, some 10], [none, none], [none]] := by
  decide

end Cachelito.C18
