/-
  T07 — TRANSLATOR TIE, async_global_cache.rs: the STORE PATH of the async engine
  (`insert`, `is_already_key_inserted`, `handle_entry_limit_eviction`) — C01, C04, C07, C08, C18

  `Generated/PureAsync.lean` is regenerated from /repo's CURRENT source on every check; the theorems are re-proved
  against whatever was generated.  `self` is the record `RustLite.AsyncCache` (DashMap as a store, the order queue the
  mutex protects, the configuration); the guard `let mut order = self.order.lock()` is an alias of that field written
  back at every exit; DashMap operations are atomic; `fastrand::usize(..n)` is `r % n` for the raw draw `r`.

  Main theorem `insert_eq`: for every cache content, configuration, key, value, clock and draw, the translated
  `AsyncGlobalCache::insert` leaves exactly the store and queue of the model's `Cachelito.insert` (async flavour) — the
  function all L1 theorems of C01 / C04 / C07 / C08 and the critical-section micro-steps of C18 are about.
-/
import Cachelito.Props.T06
import Cachelito.Lemmas.Store

set_option linter.unusedSimpArgs false
set_option linter.unusedVariables false

namespace Cachelito.T07
open Cachelito Cachelito.RustLite Cachelito.Generated Cachelito.SourceLemmas Cachelito.T06
open Cachelito.Generated.Async

variable {K V F : Type} [DecidableEq K]

/-- the assumptions under which the float scores order like the documented score (DESIGN.md §9) -/
structure ScoresOK (A : F64 F) (c : AsyncCache K V F) : Prop where
  hitsBelowMax : ∀ p, p ∈ c.cache → p.2.hits < u64Max
  arcBelowMax : ∀ a b, A.lt (A.mul (A.ofNat a) (A.ofNat b)) A.maxVal = true
  arcOrder : ∀ a b c d, A.lt (A.mul (A.ofNat a) (A.ofNat b)) (A.mul (A.ofNat c) (A.ofNat d)) = decide (a * b < c * d)
  tlruBelowMax : ∀ hits el rk, A.lt ((srcTlruAsync A c.frequency_weight).score (cfgOf c) hits el rk) A.maxVal = true

theorem lookup_mem' (k : K) (e : Entry V) : ∀ m : Store K V, lookup k m = some e → (k, e) ∈ m
  | [], h => by simp [lookup] at h
  | (k', e') :: m, h => by
      simp only [lookup] at h
      by_cases hk : k' = k
      · simp [hk] at h; simp [hk, h]
      · simp [hk] at h; simp [lookup_mem' k e m h]

/-- `is_already_key_inserted`: the old entry of the key is dropped from map and queue; the answer is always `false` -/
theorem is_already_key_inserted_eq (c : AsyncCache K V F) (k : K) (q : List K) :
    is_already_key_inserted c k q =
      (false, { c with cache := eraseKey k c.cache }, if hasKey k c.cache then q.filter (fun x => x ≠ k) else q) := by
  unfold is_already_key_inserted
  simp [mapRemove, retain, hasKey]

/-- `while let Some(k) = order.pop_front() { if contains(k) { remove(k); break } }` is the model's `popStored` -/
theorem whilePop_eq_popStored (c : AsyncCache K V F) : ∀ (q : List K),
    whilePop q c (fun evict_key (self : AsyncCache K V F) =>
        if hasKey evict_key self.cache = true then (true, { self with cache := (mapRemove self.cache evict_key).2 })
        else (false, self)) =
      ((popStored c.cache q).2.1, { c with cache := (popStored c.cache q).1 })
  | [] => by simp [whilePop, popStored]
  | k :: q => by
      simp only [whilePop, popStored]
      by_cases h : hasKey k c.cache = true
      · simp [h, mapRemove]
      · simp [h, whilePop_eq_popStored c q]

theorem whilePop_congr {α σ : Type} {f g : α → σ → Bool × σ} (h : ∀ a s, f a s = g a s) :
    ∀ (l : List α) (st : σ), whilePop l st f = whilePop l st g
  | [], _ => rfl
  | x :: xs, st => by simp [whilePop, h, whilePop_congr h xs]

/-- **The entry-limit step of the async engine** (`handle_entry_limit_eviction`) is the model's `limitStep`: nothing
    below the limit; at the limit exactly one eviction by the policy — the scored victim (LFU / ARC / TLRU) removed from
    map and queue, a random slot, or the first stored key from the front (FIFO / LRU) -/
theorem handle_entry_limit_eviction_eq (A : F64 F) (c : AsyncCache K V F) (now r : Nat) (q : List K)
    (ok : ScoresOK A c) :
    handle_entry_limit_eviction A ⟨fun _ => 0, now⟩ r c q =
      ({ c with cache := (limitStep (cfgOf c) (srcTlruAsync A c.frequency_weight) now r c.cache q).1 },
       (limitStep (cfgOf c) (srcTlruAsync A c.frequency_weight) now r c.cache q).2) := by
  obtain ⟨cache, order, limit, mm, policy, ttl, fw, st⟩ := c
  unfold handle_entry_limit_eviction limitStep
  dsimp only at ok ⊢
  cases limit with
  | none => simp [cfgOf]
  | some n =>
    by_cases hfull : cache.length ≥ n
    · simp only [cfgOf, overLimit, hfull, decide_true, if_true]
      cases policy with
      | lfu =>
        have hv := find_min_frequency_key_eq (AsyncCache.mk cache order (some n) mm Policy.lfu ttl fw st) (srcTlruAsync A fw) now rfl q (fun k e h => ok.hitsBelowMax (k, e) (lookup_mem' k e _ h))
        simp only [cfgOf] at hv
        simp [evictLimit, evictScored, hv]
        cases victim _ _ now cache q <;> simp [removeBoth, mapRemove, retain]
      | arc =>
        have hv := find_arc_eviction_key_eq A (AsyncCache.mk cache order (some n) mm Policy.arc ttl fw st) (srcTlruAsync A fw) now rfl q ok.arcBelowMax ok.arcOrder
        simp only [cfgOf] at hv
        simp [evictLimit, evictScored, hv]
        cases victim _ _ now cache q <;> simp [removeBoth, mapRemove, retain]
      | tlru =>
        have hv := find_tlru_eviction_key_eq A (AsyncCache.mk cache order (some n) mm Policy.tlru ttl fw st) now rfl q ok.tlruBelowMax
        simp only [cfgOf] at hv
        simp [evictLimit, evictScored, hv]
        cases victim _ _ now cache q <;> simp [removeBoth, mapRemove, retain]
      | random =>
        simp [evictLimit, evictRandom, randBelow, dequeRemove, mapRemove]
        cases q with
        | nil => simp
        | cons x xs =>
          simp
          cases h : (x :: xs)[r % (xs.length + 1)]? with
          | some y => simp [h]
          | none =>
            have := Nat.mod_lt r (show 0 < xs.length + 1 by omega)
            simp [List.getElem?_eq_none_iff] at h
            omega
      | fifo =>
        simp only [evictLimit]
        rw [whilePop_congr (g := fun evict_key (self : AsyncCache K V F) =>
            if hasKey evict_key self.cache = true then (true, { self with cache := (mapRemove self.cache evict_key).2 })
            else (false, self))]
        · rw [whilePop_eq_popStored]
        · intro a s; by_cases h : hasKey a s.cache = true <;> simp [h]
      | lru =>
        simp only [evictLimit]
        rw [whilePop_congr (g := fun evict_key (self : AsyncCache K V F) =>
            if hasKey evict_key self.cache = true then (true, { self with cache := (mapRemove self.cache evict_key).2 })
            else (false, self))]
        · rw [whilePop_eq_popStored]
        · intro a s; by_cases h : hasKey a s.cache = true <;> simp [h]
    · simp [cfgOf, overLimit, hfull]

/-- **The async engine's `insert` is the model's `insert`.**  For every cache content and configuration, key, value, clock
    and random draw: the translated `AsyncGlobalCache::insert` (drop the old entry of the key, entry-limit step, push
    the key, store `(value, now in whole seconds, 0)`) leaves exactly the store and the queue of `Cachelito.insert`
    for the async flavour, and does not touch the configuration. -/
theorem insert_eq (A : F64 F) (c : AsyncCache K V F) (now r hs ms : Nat) (k : K) (v : V) (ok : ScoresOK A c) :
    Async.insert A ⟨fun _ => 0, now⟩ r c k v =
      { c with
        cache := (Cachelito.insert (cfgOf c) (srcTlruAsync A c.frequency_weight) r ⟨c.cache, c.order, now, hs, ms⟩ k v).store,
        order := (Cachelito.insert (cfgOf c) (srcTlruAsync A c.frequency_weight) r ⟨c.cache, c.order, now, hs, ms⟩ k v).queue } := by
  obtain ⟨cache, order, limit, mm, policy, ttl, fw, st⟩ := c
  unfold Async.insert
  simp only [is_already_key_inserted_eq]
  have ok' : ScoresOK A (AsyncCache.mk (eraseKey k cache) order limit mm policy ttl fw st) :=
    ⟨fun p hp => ok.hitsBelowMax p (by simp [eraseKey] at hp; exact hp.1), ok.arcBelowMax, ok.arcOrder, ok.tlruBelowMax⟩
  simp only [Bool.false_eq_true, if_false]
  rw [handle_entry_limit_eviction_eq A _ now r _ ok']
  simp only [Cachelito.insert, cfgOf, pushBack, mapInsert, asyncEntry, asSecs, stamp]
  by_cases hk : hasKey k cache = true
  · simp [hk]
  · have : eraseKey k cache = cache := eraseKey_of_not_mem (by
      have := (hasKey_false_iff k cache).1 (by simpa using hk); exact this)
    simp [hk, this]

end Cachelito.T07
