//! C19 probe (not part of the check): behaviour of the REAL macros on attribute lists outside `Valid`.
//! Build in a copy of the harness crate: `cargo build --release --offline --bin attrs_probe`.
//!
//! History.  Before commits 82aef8c / 1b1b026 of /repo:
//! 1. (F9) an invalid value that only spliced `compile_error!` tokens was silently dropped when the same
//!    attribute was written again later: `f` and `g` below compiled and ran (`2 3`).  Now they are rejected
//!    ("Failed to parse attributes: compile_error ! (...)"); uncomment them to see the compile error.
//! 2. (F10) `#[cache(max_memory = "17179869184GB")]` (= 2^64 bytes) panicked the macro with overflow checks
//!    and compiled to `Some(0usize)` with `[profile.release.build-override] overflow-checks = false`
//!    (cargo's default for release builds).  Now it is `compile_error!("max_memory is too large")` in every
//!    build; uncomment `w` to see it.
//! `h` (tolerated forms, still accepted) prints `4`.
use cachelito::cache;

// #[cache(limit = "not a number", limit = 2)]
// fn f(x: u32) -> u32 { x + 1 }

// #[cache(ttl = nonsense(), max_memory = true, ttl = 5, max_memory = "1KB")]
// fn g(x: u32) -> u32 { x + 2 }

// tolerated forms: leading `+`, repeated unit, non-string name (ignored), integer weight 0
#[cache(max_memory = "+1GBGB", name = 5, frequency_weight = 0, policy = "tlru")]
fn h(x: u32) -> u32 {
    x + 3
}

// #[cache(max_memory = "17179869184GB")]
// fn w(x: u32) -> u32 { x }

fn main() {
    println!("{}", h(1));
}
