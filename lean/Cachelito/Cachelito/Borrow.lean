/-
  Cachelito.Borrow — the `RefCell` borrow discipline of `ThreadLocalCache` (thread_local_cache.rs).

  Each thread-local operation is a sequence of scoped `borrow()` / `borrow_mut()` regions on two cells
  (the store `HashMap` and the order `VecDeque`).  `RefCell` panics (`BorrowError` / `BorrowMutError`) when
  a region conflicts with one that is still open.  The data is abstracted away: which regions an
  operation opens depends only on the policy, on whether limits are configured and on a few branch
  outcomes (`Branch`), so "no borrow panic" is a statement about a finite table of traces.
-/
import Cachelito.Core

namespace Cachelito.Borrow
open Cachelito

inductive Cell | store | queue
  deriving DecidableEq, Repr

inductive BEv
  | shr (c : Cell)      -- `c.borrow()` region opens
  | mut (c : Cell)      -- `c.borrow_mut()` region opens
  | endShr (c : Cell)   -- a shared region closes
  | endMut (c : Cell)   -- the exclusive region closes
  deriving DecidableEq, Repr

/-- borrow state of one cell: number of shared borrows, exclusive flag -/
structure CellSt where
  shared : Nat := 0
  excl : Bool := false
  deriving DecidableEq, Repr

structure BSt where
  store : CellSt := {}
  queue : CellSt := {}
  deriving DecidableEq, Repr

def BSt.get (b : BSt) : Cell → CellSt
  | .store => b.store
  | .queue => b.queue

def BSt.set (b : BSt) (c : Cell) (s : CellSt) : BSt :=
  match c with
  | .store => { b with store := s }
  | .queue => { b with queue := s }

/-- `none` = `RefCell` would panic -/
def bstep (b : BSt) : BEv → Option BSt
  | .shr c => let s := b.get c; if s.excl then none else some (b.set c { s with shared := s.shared + 1 })
  | .mut c => let s := b.get c; if s.excl || s.shared > 0 then none else some (b.set c { s with excl := true })
  | .endShr c => let s := b.get c; some (b.set c { s with shared := s.shared - 1 })
  | .endMut c => let s := b.get c; some (b.set c { s with excl := false })

def brun : BSt → List BEv → Option BSt
  | b, [] => some b
  | b, e :: es => match bstep b e with
    | none => none
    | some b' => brun b' es

/-- a trace is panic-free and leaves nothing borrowed -/
def traceOk (t : List BEv) : Bool := brun {} t = some {}

/-- a scoped region -/
def region (open_ close : BEv) (body : List BEv) : List BEv := open_ :: body ++ [close]
def shrR (c : Cell) (body : List BEv := []) : List BEv := region (.shr c) (.endShr c) body
def mutR (c : Cell) (body : List BEv := []) : List BEv := region (.mut c) (.endMut c) body

/-- `remove_key`: `cache.with(|c| order.with(|o| remove(&mut c.borrow_mut(), &mut o.borrow_mut())))`
    (thread_local_cache.rs:400-406) -/
def removeKey : List BEv := mutR .store (mutR .queue)

/-- `remove_key_with_order` (after the fix): only the store is borrowed; the queue is the caller's -/
def removeKeyWithOrder : List BEv := mutR .store

/-- one eviction inside `handle_entry_limit_eviction` / the memory loop, executed while the caller holds
    the queue mutably.  `legacy = true` is the code before the fix (scored policies call `remove_key`). -/
def evictTrace (legacy : Bool) (p : Policy) (found : Bool) : List BEv :=
  match p with
  | .lfu | .arc | .tlru =>
    shrR .store ++ (if found then (if legacy then removeKey else removeKeyWithOrder) else [])
  | .random => if found then mutR .store else []
  | .fifo | .lru => if found then mutR .store else []     -- one `cache.with(borrow_mut)` per popped key

/-! Which regions an operation opens depends on a few branch outcomes, passed as parameters:
    `expired` / `hit` (what the lookup found), `overLimit` (the entry-limit step evicts), `found` (the
    eviction found a victim), `oversize` (value larger than max_memory), `memIters` (evicting iterations
    of the memory loop). -/

def getTrace (p : Policy) (expired hit : Bool) : List BEv :=
  shrR .store ++
  (if expired then removeKey
   else if hit then
     (if p.refreshes then mutR .queue else []) ++ (if p.bumps then mutR .store else [])
   else [])

def limitTrace (legacy : Bool) (p : Policy) (overLimit found : Bool) : List BEv :=
  if overLimit then evictTrace legacy p found else []

def insertTrace (legacy : Bool) (p : Policy) (overLimit found : Bool) : List BEv :=
  mutR .store ++ mutR .queue (limitTrace legacy p overLimit found)

def memLoopTrace (legacy : Bool) (p : Policy) : Nat → List BEv
  | 0 => shrR .store                                        -- the sum that fits
  | n + 1 => shrR .store ++ evictTrace legacy p true ++ memLoopTrace legacy p n

def insertMemTrace (legacy : Bool) (p : Policy) (hasMem oversize : Bool) (memIters : Nat)
    (overLimit found : Bool) : List BEv :=
  mutR .store ++
  mutR .queue
    ((if hasMem then
        shrR .store ++ (if oversize then mutR .store else memLoopTrace legacy p memIters)
      else []) ++
     (if hasMem && oversize then [] else limitTrace legacy p overLimit found))

end Cachelito.Borrow
