/-
  Cachelito.Keys — model of cache-key construction (property C02).

  Transcribes
    * `cachelito-core/src/keys.rs`: every built-in `CacheableKey` is `format!("{:?}", self)`
      (blanket impl over `DefaultCacheableKey`, lines 67-74; the built-in types are lines 83-142);
    * `cachelito-macro-utils/src/lib.rs:290-353`: `generate_key_expr` (async, `format!("{:?}", arg)`)
      and `generate_key_expr_with_cacheable_key` (sync, `arg.to_cache_key()`): the parts are the
      receiver (if any) followed by the arguments, joined by `"|"`; no parts gives the empty string.

  So a key is determined by Rust's `Debug` rendering of each part.  `render` below transcribes
  `{:?}` for the built-in key types and for `#[derive(Debug)]` user types:

    integers          decimal, `-` for negatives (the width is not printed)
    bool              `true` / `false`
    char              `'c'`   with `char::escape_debug_ext` (escapes `'`, not `"`)
    String / &str     `"…"`   with `char::escape_debug_ext` per char (escapes `"`, not `'`)
    f32 / f64         opaque: `Fmt.float` (a parameter; see `FloatOK`)
    ()                `()`
    tuples            `(a, b)`, the 1-tuple is `(a,)`
    Option            `None` / `Some(a)`
    Vec / slices      `[a, b]`
    derive(Debug)     unit struct / variant `Name`; tuple struct / variant `Name(a, b)`;
                      named-field struct / variant `Name { x: a, y: b }`; with zero fields just `Name`

  Which characters are printed as `\u{…}` is decided by Rust's Unicode tables (grapheme-extend and
  printable); the model takes that as the parameter `Fmt.esc : Char → Bool`, consulted exactly where
  `escape_debug_ext` consults the tables (after the fixed escapes `\0 \t \r \n \\` and the quote).

  Values are untyped trees (`Val`); `wt : Ty → Val → Bool` says that a value inhabits a type of the
  grammar `Ty`.  Text is `List Char` throughout.  Core Lean only (linked into the driver).
-/

namespace Cachelito.Keys

abbrev Text := List Char

/-! ### Identifiers -/

/-- punctuation with a structural role in `Debug` output; never part of an identifier -/
def isStructural (c : Char) : Bool :=
  c == '|' || c == ',' || c == ')' || c == ']' || c == '}' || c == ' ' ||
  c == '(' || c == '[' || c == '{' || c == ':'

/-- a type / variant / field name: non-empty, no structural punctuation (covers ASCII and Unicode
    identifiers; `r#type` is printed as `type`) -/
def isIdent (s : Text) : Bool := !s.isEmpty && s.all (fun c => !isStructural c)

structure Ident where
  chars : Text
  ok : isIdent chars = true
  deriving DecidableEq

theorem Ident.ext {a b : Ident} (h : a.chars = b.chars) : a = b := by
  cases a; cases b; cases h; rfl

/-! ### Types and values -/

mutual
/-- the argument types with a built-in cache key, plus `derive(Debug)` user types -/
inductive Ty where
  /-- `u8 … u128, usize` -/
  | uint
  /-- `i8 … i128, isize` -/
  | sint
  | bool
  | char
  /-- `String`, `&str` -/
  | str
  /-- `f32`, `f64` -/
  | float
  | unit
  | option (t : Ty)
  /-- `Vec<T>`, `&[T]` -/
  | vec (t : Ty)
  /-- `(T1,)` … `(T1, …, T5)` (any arity is allowed here) -/
  | tuple (ts : List Ty)
  /-- a `#[derive(Debug)]` struct (one variant carrying the struct's name) or enum -/
  | adt (variants : List Variant)
/-- one variant of a user type -/
inductive Variant where
  | unit (name : Ident)
  | tuple (name : Ident) (ts : List Ty)
  | named (name : Ident) (fields : List (Ident × Ty))
end

/-- values; `F` is the carrier of floating-point values -/
inductive Val (F : Type) where
  | nat (n : Nat)
  | int (i : Int)
  | bool (b : Bool)
  | char (c : Char)
  | str (s : Text)
  | float (f : F)
  | unit
  | none
  | some (v : Val F)
  | vec (vs : List (Val F))
  | tuple (vs : List (Val F))
  /-- `Name` -/
  | unitV (name : Ident)
  /-- `Name(a, b)` -/
  | tupleV (name : Ident) (vs : List (Val F))
  /-- `Name { x: a, y: b }` -/
  | namedV (name : Ident) (fields : List (Ident × Val F))

/-- the constructor name of a user-type value -/
def Val.name? {F : Type} : Val F → Option Ident
  | .unitV n => Option.some n
  | .tupleV n _ => Option.some n
  | .namedV n _ => Option.some n
  | _ => Option.none

/-! ### Numbers -/

def decDigit (d : Nat) : Char := Char.ofNat (48 + d)

/-- lower-case hexadecimal digit (as in `\u{1f600}`) -/
def hexDigit (d : Nat) : Char := if d < 10 then Char.ofNat (48 + d) else Char.ofNat (87 + d)

/-- positional rendering, most significant digit first, no leading zeros; `fuel ≥ n` is enough -/
def renderRadix (b : Nat) (dig : Nat → Char) : Nat → Nat → Text
  | 0, n => [dig n]
  | fuel + 1, n => if n < b then [dig n] else renderRadix b dig fuel (n / b) ++ [dig (n % b)]

def renderNat (n : Nat) : Text := renderRadix 10 decDigit n n

def renderHex (n : Nat) : Text := renderRadix 16 hexDigit n n

def renderInt : Int → Text
  | .ofNat n => renderNat n
  | .negSucc n => '-' :: renderNat (n + 1)

/-! ### Characters and strings: `char::escape_debug_ext` -/

/-- which quote the literal is delimited by (and which one is therefore escaped) -/
inductive Quote where
  | single
  | double
  deriving DecidableEq

def Quote.char : Quote → Char
  | .single => '\''
  | .double => '"'

def unicodeEsc (c : Char) : Text := '\\' :: 'u' :: '{' :: (renderHex c.toNat ++ ['}'])

/-- `escape_debug_ext`: fixed escapes first, then the literal's own quote, then the Unicode tables
    (`esc`), otherwise the character itself -/
def escapeChar (esc : Char → Bool) (q : Quote) (c : Char) : Text :=
  if c = '\x00' then ['\\', '0']
  else if c = '\t' then ['\\', 't']
  else if c = '\r' then ['\\', 'r']
  else if c = '\n' then ['\\', 'n']
  else if c = '\\' then ['\\', '\\']
  else if c = q.char then ['\\', q.char]
  else if esc c then unicodeEsc c
  else [c]

def escapeBody (esc : Char → Bool) (q : Quote) : Text → Text
  | [] => []
  | c :: cs => escapeChar esc q c ++ escapeBody esc q cs

def renderStr (esc : Char → Bool) (s : Text) : Text := '"' :: (escapeBody esc .double s ++ ['"'])

def renderChar (esc : Char → Bool) (c : Char) : Text := '\'' :: (escapeChar esc .single c ++ ['\''])

/-! ### `Debug` rendering -/

/-- the two parameters of the model: the Unicode escape predicate and the float printer -/
structure Fmt (F : Type) where
  esc : Char → Bool
  float : F → Text

def renderBool : Bool → Text
  | true => ['t', 'r', 'u', 'e']
  | false => ['f', 'a', 'l', 's', 'e']

mutual
/-- `format!("{:?}", v)` -/
def render {F : Type} (fm : Fmt F) : Val F → Text
  | .nat n => renderNat n
  | .int i => renderInt i
  | .bool b => renderBool b
  | .char c => renderChar fm.esc c
  | .str s => renderStr fm.esc s
  | .float f => fm.float f
  | .unit => ['(', ')']
  | .none => ['N', 'o', 'n', 'e']
  | .some v => 'S' :: 'o' :: 'm' :: 'e' :: '(' :: (render fm v ++ [')'])
  | .vec [] => ['[', ']']
  | .vec (v :: vs) => '[' :: (render fm v ++ (renderTail fm vs ++ [']']))
  | .tuple [] => ['(', ')']
  | .tuple [v] => '(' :: (render fm v ++ [',', ')'])
  | .tuple (v :: w :: vs) => '(' :: (render fm v ++ (renderTail fm (w :: vs) ++ [')']))
  | .unitV n => n.chars
  | .tupleV n [] => n.chars
  | .tupleV n (v :: vs) => n.chars ++ '(' :: (render fm v ++ (renderTail fm vs ++ [')']))
  | .namedV n [] => n.chars
  | .namedV n ((f, v) :: fs) =>
      n.chars ++ ' ' :: '{' :: ' ' :: (f.chars ++ ':' :: ' ' :: (render fm v ++ (renderFieldsTail fm fs ++ [' ', '}'])))
/-- every element preceded by `", "` -/
def renderTail {F : Type} (fm : Fmt F) : List (Val F) → Text
  | [] => []
  | v :: vs => ',' :: ' ' :: (render fm v ++ renderTail fm vs)
/-- every `name: value` preceded by `", "` -/
def renderFieldsTail {F : Type} (fm : Fmt F) : List (Ident × Val F) → Text
  | [] => []
  | (f, v) :: fs => ',' :: ' ' :: (f.chars ++ ':' :: ' ' :: (render fm v ++ renderFieldsTail fm fs))
end

/-! ### Well-typedness -/

mutual
/-- `v` is a value of type `t` -/
def wt {F : Type} : Ty → Val F → Bool
  | .uint, v => match v with | .nat _ => true | _ => false
  | .sint, v => match v with | .int _ => true | _ => false
  | .bool, v => match v with | .bool _ => true | _ => false
  | .char, v => match v with | .char _ => true | _ => false
  | .str, v => match v with | .str _ => true | _ => false
  | .float, v => match v with | .float _ => true | _ => false
  | .unit, v => match v with | .unit => true | _ => false
  | .option t, v => match v with | .none => true | .some w => wt t w | _ => false
  | .vec t, v => match v with | .vec vs => vs.all (wt t) | _ => false
  | .tuple ts, v => match v with | .tuple vs => wtList ts vs | _ => false
  | .adt vars, v => wtVariants vars v
def wtList {F : Type} : List Ty → List (Val F) → Bool
  | [], vs => match vs with | [] => true | _ :: _ => false
  | t :: ts, vs => match vs with | [] => false | v :: vs => wt t v && wtList ts vs
/-- the value's constructor name selects the (first) variant of that name; shapes must agree -/
def wtVariants {F : Type} : List Variant → Val F → Bool
  | [], _ => false
  | .unit n :: rest, v =>
      if v.name? = some n then (match v with | .unitV _ => true | _ => false) else wtVariants rest v
  | .tuple n ts :: rest, v =>
      if v.name? = some n then (match v with | .tupleV _ vs => wtList ts vs | _ => false)
      else wtVariants rest v
  | .named n fs :: rest, v =>
      if v.name? = some n then (match v with | .namedV _ fvs => wtFields fs fvs | _ => false)
      else wtVariants rest v
def wtFields {F : Type} : List (Ident × Ty) → List (Ident × Val F) → Bool
  | [], fvs => match fvs with | [] => true | _ :: _ => false
  | (f, t) :: fs, fvs =>
      match fvs with
      | [] => false
      | (g, v) :: fvs => decide (f = g) && wt t v && wtFields fs fvs
end

/-! ### Keys -/

/-- `parts.join(sep)` -/
def joinTail (sep : Text) : List Text → Text
  | [] => []
  | p :: ps => sep ++ (p ++ joinTail sep ps)

def joinWith (sep : Text) : List Text → Text
  | [] => []
  | p :: ps => p ++ joinTail sep ps

/-- the key parts: receiver first (if the function is a method), then the arguments in order -/
def keyVals {F : Type} (receiver : Option (Val F)) (args : List (Val F)) : List (Val F) :=
  receiver.toList ++ args

/-- the cache key generated by both key builders: `Debug` renderings joined by `|`;
    the empty string when there are no parts -/
def keyOf {F : Type} (fm : Fmt F) (receiver : Option (Val F)) (args : List (Val F)) : Text :=
  joinWith ['|'] ((keyVals receiver args).map (render fm))

/-- the mutant of C02: the same parts concatenated WITHOUT the separator -/
def keyOfNoSep {F : Type} (fm : Fmt F) (receiver : Option (Val F)) (args : List (Val F)) : Text :=
  joinWith [] ((keyVals receiver args).map (render fm))

/-- a function signature: receiver type (methods) and argument types -/
structure Sig where
  receiver : Option Ty
  args : List Ty

def Sig.tys (sig : Sig) : List Ty := sig.receiver.toList ++ sig.args

/-- receiver and arguments inhabit the signature -/
def Sig.wt {F : Type} (sig : Sig) (receiver : Option (Val F)) (args : List (Val F)) : Bool :=
  (match sig.receiver, receiver with
   | Option.none, Option.none => true
   | Option.some t, Option.some v => Keys.wt t v
   | _, _ => false) && wtList sig.args args

/-! ### The float assumptions -/

/-- characters that Rust's float `Debug` output can contain: digits, `.`, exponent marker, signs and
    the letters of `inf` / `NaN` -/
def isFloatChar (c : Char) : Bool :=
  c.isDigit || c == '.' || c == 'e' || c == 'E' || c == '+' || c == '-' ||
  c == 'i' || c == 'n' || c == 'f' || c == 'N' || c == 'a'

/-- What C02 assumes about the float printer (not modelled): distinct values print differently,
    and the output is a non-empty string over `isFloatChar`.  For `f64`/`f32` the first holds
    for all non-NaN values (shortest round-trip printing; `0.0` / `-0.0` print differently), and all
    NaNs print as `NaN`, so `F` is to be read as "floats with all NaNs identified". -/
structure FloatOK {F : Type} (rf : F → Text) : Prop where
  inj : ∀ x y, rf x = rf y → x = y
  nonempty : ∀ x, rf x ≠ []
  alphabet : ∀ x, ∀ c ∈ rf x, isFloatChar c = true

end Cachelito.Keys
