/-
  The store/queue invariant and its preservation by every engine operation (core Lean only).
-/
import Cachelito.Core
import Cachelito.Lemmas.Store

set_option linter.unusedSectionVars false
set_option linter.unusedSimpArgs false
set_option linter.unusedVariables false

namespace Cachelito
variable {K V S : Type} [DecidableEq K]

/-- store keys pairwise distinct, queue duplicate-free, queue and store track the same keys -/
def InvMQ (m : Store K V) (q : List K) : Prop :=
  (keys m).Nodup ∧ q.Nodup ∧ ∀ k, k ∈ q ↔ k ∈ keys m

def Inv (s : State K V) : Prop := InvMQ s.store s.queue

theorem InvMQ.length_eq {m : Store K V} {q : List K} (h : InvMQ m q) : q.length = m.length := by
  rw [← length_keys]; exact length_eq_of_nodup_of_mem_iff h.2.1 h.1 h.2.2

theorem inv_init : Inv (State.init : State K V) := by
  simp [Inv, InvMQ, State.init]

/-- removing one key from both structures -/
theorem InvMQ.remove {m : Store K V} {q : List K} (h : InvMQ m q) (k : K) :
    InvMQ (eraseKey k m) (q.filter (fun x => x ≠ k)) := by
  obtain ⟨h1, h2, h3⟩ := h
  refine ⟨nodup_keys_eraseKey h1 k, List.Pairwise.filter _ h2, ?_⟩
  intro x
  rw [keys_eraseKey]
  simp only [List.mem_filter, h3 x]

theorem InvMQ.remove_erase {m : Store K V} {q : List K} (h : InvMQ m q) (k : K) :
    InvMQ (eraseKey k m) (q.erase k) := by
  rw [erase_eq_filter_of_nodup h.2.1]; exact h.remove k

theorem InvMQ.removeBoth {m : Store K V} {q : List K} (h : InvMQ m q) (cfg : Cfg) (k : K) :
    InvMQ (removeBoth cfg k m q).1 (removeBoth cfg k m q).2 := by
  unfold Cachelito.removeBoth
  cases cfg.flavour <;> simp only
  · exact h.remove_erase k
  · exact h.remove_erase k
  · exact h.remove k

theorem removeBoth_eq {m : Store K V} {q : List K} (h : InvMQ m q) (cfg : Cfg) (k : K) :
    removeBoth cfg k m q = (eraseKey k m, q.filter (fun x => x ≠ k)) := by
  unfold Cachelito.removeBoth
  cases cfg.flavour <;> simp only [erase_eq_filter_of_nodup h.2.1]

/-- storing a key: sync `put` then `erasePush` -/
theorem InvMQ.put_erasePush {m : Store K V} {q : List K} (h : InvMQ m q) (k : K) (e : Entry V) :
    InvMQ (put k e m) (erasePush k q) := by
  obtain ⟨h1, h2, h3⟩ := h
  refine ⟨nodup_keys_put h1 k e, nodup_erase_append h2 k, ?_⟩
  intro x
  rw [mem_erasePush, keys_put]
  simp only [List.mem_append, List.mem_filter, List.mem_singleton, h3 x]
  by_cases hx : x = k <;> simp [hx]

/-- storing a fresh key at the back (async) -/
theorem InvMQ.put_push {m : Store K V} {q : List K} (h : InvMQ m q) {k : K} (hk : k ∉ keys m) (e : Entry V) :
    InvMQ (put k e m) (q ++ [k]) := by
  obtain ⟨h1, h2, h3⟩ := h
  refine ⟨nodup_keys_put h1 k e, ?_, ?_⟩
  · rw [List.nodup_append]
    refine ⟨h2, by simp, ?_⟩
    intro a ha b hb
    simp at hb; subst hb
    intro hab; subst hab; exact hk ((h3 a).mp ha)
  · intro x
    rw [keys_put]
    simp only [List.mem_append, List.mem_filter, List.mem_singleton, h3 x]
    by_cases hx : x = k <;> simp [hx]

theorem InvMQ.bumpHits {m : Store K V} {q : List K} (h : InvMQ m q) (k : K) : InvMQ (bumpHits k m) q := by
  unfold InvMQ; rw [keys_bumpHits]; exact h

theorem InvMQ.moveToEnd {m : Store K V} {q : List K} (h : InvMQ m q) (k : K) : InvMQ m (moveToEnd k q) := by
  refine ⟨h.1, nodup_moveToEnd h.2.1, ?_⟩
  intro x; rw [mem_moveToEnd]; exact h.2.2 x

theorem InvMQ.retainPush {m : Store K V} {q : List K} (h : InvMQ m q) {k : K} (hk : k ∈ keys m) :
    InvMQ m (retainPush k q) := by
  refine ⟨h.1, nodup_retainPush h.2.1, ?_⟩
  intro x; rw [mem_retainPush, h.2.2 x]
  constructor
  · rintro (h' | h')
    · exact h'
    · exact h' ▸ hk
  · intro h'; left; exact h'

/-! ### Victim selection picks a stored queue key -/

theorem firstMinAux_mem (lt : S → S → Bool) (b : K × S) (cs : List (K × S)) :
    firstMinAux lt b cs = b ∨ firstMinAux lt b cs ∈ cs := by
  induction cs generalizing b with
  | nil => left; rfl
  | cons c cs ih =>
    simp only [firstMinAux]
    split
    · rcases ih c with h | h
      · right; rw [h]; exact List.mem_cons_self
      · right; exact List.mem_cons_of_mem _ h
    · rcases ih b with h | h
      · left; exact h
      · right; exact List.mem_cons_of_mem _ h

theorem firstMin_mem {lt : S → S → Bool} {l : List (K × S)} {k : K} (h : firstMin lt l = some k) :
    k ∈ l.map (·.1) := by
  cases l with
  | nil => simp [firstMin] at h
  | cons c cs =>
    simp only [firstMin, Option.some.injEq] at h
    subst h
    rcases firstMinAux_mem lt c cs with h | h
    · rw [h]; simp
    · exact List.mem_map_of_mem (List.mem_cons_of_mem _ h)

theorem firstMin_eq_none {lt : S → S → Bool} {l : List (K × S)} (h : firstMin lt l = none) : l = [] := by
  cases l with
  | nil => rfl
  | cons c cs => simp [firstMin] at h

theorem candsFrom_keys (score : Entry V → Nat → Nat → S) (m : Store K V) (len i : Nat) (q : List K) :
    ∀ x ∈ (candsFrom score m len i q).map (·.1), x ∈ q ∧ x ∈ keys m := by
  induction q generalizing i with
  | nil => simp [candsFrom]
  | cons k q ih =>
    intro x hx
    simp only [candsFrom] at hx
    cases hl : lookup k m with
    | none =>
      rw [hl] at hx
      have := ih (i + 1) x hx
      exact ⟨List.mem_cons_of_mem _ this.1, this.2⟩
    | some e =>
      rw [hl] at hx
      simp only [List.map_cons, List.mem_cons] at hx
      rcases hx with hx | hx
      · subst hx
        refine ⟨List.mem_cons_self, ?_⟩
        apply Classical.byContradiction; intro hn
        rw [(lookup_eq_none_iff _ _).mpr hn] at hl; cases hl
      · have := ih (i + 1) x hx
        exact ⟨List.mem_cons_of_mem _ this.1, this.2⟩

theorem candsFrom_eq_nil (score : Entry V → Nat → Nat → S) (m : Store K V) (len i : Nat) (q : List K)
    (h : candsFrom score m len i q = []) : ∀ x ∈ q, x ∉ keys m := by
  induction q generalizing i with
  | nil => simp
  | cons k q ih =>
    simp only [candsFrom] at h
    cases hl : lookup k m with
    | none =>
      rw [hl] at h
      intro x hx
      rcases List.mem_cons.mp hx with hx | hx
      · subst hx; exact (lookup_eq_none_iff _ _).mp hl
      · exact ih (i + 1) h x hx
    | some e => rw [hl] at h; simp at h

theorem victim_mem {cfg : Cfg} {tl : Tlru S} {now : Nat} {m : Store K V} {q : List K} {k : K}
    (h : victim cfg tl now m q = some k) : k ∈ q ∧ k ∈ keys m := by
  unfold victim at h
  cases hp : cfg.policy <;> rw [hp] at h <;> simp only at h
  all_goals first
    | (exact candsFrom_keys _ _ _ _ _ _ (firstMin_mem h))
    | (cases h)

theorem victim_none {cfg : Cfg} {tl : Tlru S} {now : Nat} {m : Store K V} {q : List K}
    (hp : cfg.policy = .lfu ∨ cfg.policy = .arc ∨ cfg.policy = .tlru)
    (h : victim cfg tl now m q = none) : ∀ x ∈ q, x ∉ keys m := by
  unfold victim at h
  rcases hp with hp | hp | hp <;> rw [hp] at h <;> simp only at h <;>
    exact candsFrom_eq_nil _ _ _ _ _ (firstMin_eq_none h)

/-! ### Uniform specification of one eviction under the invariant -/

/-- either one queue key was removed from both structures, or the queue was empty and nothing changed -/
def Evicted (m : Store K V) (q : List K) (r : Store K V × List K × Bool) : Prop :=
  (r.2.2 = true ∧ ∃ k, k ∈ q ∧ r.1 = eraseKey k m ∧ r.2.1 = q.filter (fun x => x ≠ k)) ∨
  (r.2.2 = false ∧ q = [] ∧ r.1 = m ∧ r.2.1 = q)

theorem filter_ne_of_head {k : K} {q : List K} (h : (k :: q).Nodup) :
    (k :: q).filter (fun x => x ≠ k) = q := by
  simp only [List.nodup_cons] at h
  simp only [List.filter_cons, ne_eq, not_true_eq_false, decide_false, Bool.false_eq_true, if_false]
  apply List.filter_eq_self.mpr
  intro x hx; simp; intro hh; exact h.1 (hh ▸ hx)

theorem popStored_spec {m : Store K V} {q : List K} (h : InvMQ m q) : Evicted m q (popStored m q) := by
  cases q with
  | nil => right; simp [popStored]
  | cons k q =>
    left
    have hk : hasKey k m = true := (hasKey_iff k m).mpr ((h.2.2 k).mp List.mem_cons_self)
    simp only [popStored, hk, if_true]
    exact ⟨by simp, k, List.mem_cons_self, by simp, (filter_ne_of_head h.2.1).symm⟩

theorem popOne_spec {m : Store K V} {q : List K} (h : InvMQ m q) : Evicted m q (popOne m q) := by
  cases q with
  | nil => right; simp [popOne]
  | cons k q =>
    left
    simp only [popOne]
    exact ⟨by simp, k, List.mem_cons_self, by simp, (filter_ne_of_head h.2.1).symm⟩

theorem eraseIdx_eq_filter_of_nodup {q : List K} (h : q.Nodup) {i : Nat} {k : K} (hi : q[i]? = some k) :
    q.eraseIdx i = q.filter (fun x => x ≠ k) := by
  induction q generalizing i with
  | nil => simp at hi
  | cons a q ih =>
    cases i with
    | zero =>
      simp at hi; subst hi
      rw [List.eraseIdx_cons_zero, filter_ne_of_head h]
    | succ i =>
      simp at hi
      have hk : k ∈ q := List.mem_of_getElem? hi
      have hn := List.nodup_cons.mp h
      have hak : a ≠ k := fun hh => hn.1 (hh ▸ hk)
      simp [List.eraseIdx_cons_succ, List.filter_cons, hak, ih hn.2 hi]

theorem evictRandom_spec {m : Store K V} {q : List K} (h : InvMQ m q) (r : Nat) :
    Evicted m q (evictRandom r m q) := by
  unfold evictRandom
  cases hq : q[r % q.length]? with
  | none =>
    right
    have : q = [] := by
      cases q with
      | nil => rfl
      | cons a q =>
        have hlt : r % (a :: q).length < (a :: q).length := Nat.mod_lt _ (by simp)
        rw [List.getElem?_eq_none_iff] at hq
        omega
    simp [this]
  | some k =>
    left
    exact ⟨rfl, k, List.mem_of_getElem? hq, rfl, eraseIdx_eq_filter_of_nodup h.2.1 hq⟩

theorem evictScored_spec {m : Store K V} {q : List K} (h : InvMQ m q) (cfg : Cfg) (tl : Tlru S) (now : Nat)
    (hp : cfg.policy = .lfu ∨ cfg.policy = .arc ∨ cfg.policy = .tlru) :
    Evicted m q (evictScored cfg tl now m q) := by
  unfold evictScored
  cases hv : victim cfg tl now m q with
  | none =>
    right
    have := victim_none hp hv
    have hq : q = [] := by
      cases q with
      | nil => rfl
      | cons a q => exact absurd ((h.2.2 a).mp List.mem_cons_self) (this a List.mem_cons_self)
    simp [hq]
  | some k =>
    left
    have hk := victim_mem hv
    simp only [removeBoth_eq h cfg k]
    exact ⟨by simp, k, hk.1, by simp, by simp⟩

theorem evictLimit_spec {m : Store K V} {q : List K} (h : InvMQ m q) (cfg : Cfg) (tl : Tlru S) (now r : Nat) :
    Evicted m q (evictLimit cfg tl now r m q) := by
  unfold evictLimit
  cases hp : cfg.policy <;> simp only
  · exact popStored_spec h
  · exact popStored_spec h
  · exact evictScored_spec h cfg tl now (Or.inl hp)
  · exact evictScored_spec h cfg tl now (Or.inr (Or.inl hp))
  · exact evictRandom_spec h r
  · exact evictScored_spec h cfg tl now (Or.inr (Or.inr hp))

theorem evictMem_spec {m : Store K V} {q : List K} (h : InvMQ m q) (cfg : Cfg) (tl : Tlru S) (now r : Nat) :
    Evicted m q (evictMem cfg tl now r m q) := by
  unfold evictMem
  cases hp : cfg.policy <;> simp only
  · cases cfg.flavour <;> simp only
    · exact popStored_spec h
    · exact popOne_spec h
    · exact popOne_spec h
  · cases cfg.flavour <;> simp only
    · exact popStored_spec h
    · exact popOne_spec h
    · exact popOne_spec h
  · exact evictScored_spec h cfg tl now (Or.inl hp)
  · exact evictScored_spec h cfg tl now (Or.inr (Or.inl hp))
  · exact evictRandom_spec h r
  · exact evictScored_spec h cfg tl now (Or.inr (Or.inr hp))

theorem Evicted.inv {m : Store K V} {q : List K} {r : Store K V × List K × Bool} (h : InvMQ m q)
    (he : Evicted m q r) : InvMQ r.1 r.2.1 := by
  rcases he with ⟨_, k, _, h1, h2⟩ | ⟨_, _, h1, h2⟩
  · rw [h1, h2]; exact h.remove k
  · rw [h1, h2]; exact h

theorem Evicted.length_le {m : Store K V} {q : List K} {r : Store K V × List K × Bool}
    (he : Evicted m q r) : r.1.length ≤ m.length := by
  rcases he with ⟨_, k, _, h1, _⟩ | ⟨_, _, h1, _⟩
  · rw [h1]; exact length_eraseKey_le k m
  · rw [h1]; exact Nat.le_refl _

/-- a successful eviction removes exactly one entry -/
theorem Evicted.length_of_nonempty {m : Store K V} {q : List K} {r : Store K V × List K × Bool}
    (h : InvMQ m q) (he : Evicted m q r) (hq : q ≠ []) : r.1.length + 1 = m.length ∧ r.2.2 = true := by
  rcases he with ⟨hb, k, hk, h1, _⟩ | ⟨_, h0, _, _⟩
  · rw [h1]; exact ⟨length_eraseKey_of_mem h.1 ((h.2.2 k).mp hk), hb⟩
  · exact absurd h0 hq

theorem Evicted.keys_sub {m : Store K V} {q : List K} {r : Store K V × List K × Bool}
    (he : Evicted m q r) : ∀ x, x ∈ keys r.1 → x ∈ keys m := by
  rcases he with ⟨_, k, _, h1, _⟩ | ⟨_, _, h1, _⟩
  · rw [h1, keys_eraseKey]; intro x hx; exact (List.mem_filter.mp hx).1
  · rw [h1]; intro x hx; exact hx

/-! ### limitStep and memLoop -/

theorem limitStep_inv {m : Store K V} {q : List K} (h : InvMQ m q) (cfg : Cfg) (tl : Tlru S) (now r : Nat) :
    InvMQ (limitStep cfg tl now r m q).1 (limitStep cfg tl now r m q).2 := by
  unfold limitStep
  cases cfg.limit with
  | none => exact h
  | some n =>
    simp only
    by_cases ho : overLimit cfg n m q = true <;> simp only [ho, if_true, if_false, Bool.false_eq_true]
    · exact (evictLimit_spec h cfg tl now r).inv h
    · exact h

theorem limitStep_keys_sub {m : Store K V} {q : List K} (h : InvMQ m q) (cfg : Cfg) (tl : Tlru S) (now r : Nat) :
    ∀ x, x ∈ keys (limitStep cfg tl now r m q).1 → x ∈ keys m := by
  unfold limitStep
  cases cfg.limit with
  | none => intro x hx; exact hx
  | some n =>
    simp only
    by_cases ho : overLimit cfg n m q = true <;> simp only [ho, if_true, if_false, Bool.false_eq_true]
    · exact (evictLimit_spec h cfg tl now r).keys_sub
    · intro x hx; exact hx

theorem limitStep_length_le {m : Store K V} {q : List K} (h : InvMQ m q) (cfg : Cfg) (tl : Tlru S) (now r : Nat) :
    (limitStep cfg tl now r m q).1.length ≤ m.length := by
  unfold limitStep
  cases cfg.limit with
  | none => exact Nat.le_refl _
  | some n =>
    simp only
    by_cases ho : overLimit cfg n m q = true <;> simp only [ho, if_true, if_false, Bool.false_eq_true]
    · exact (evictLimit_spec h cfg tl now r).length_le
    · exact Nat.le_refl _

theorem memLoop_inv (cfg : Cfg) (tl : Tlru S) (size : V → Nat) (now maxM extra : Nat)
    (fuel : Nat) (rs : List Nat) {m : Store K V} {q : List K} (h : InvMQ m q) :
    InvMQ (memLoop cfg tl size now maxM extra fuel rs m q).1 (memLoop cfg tl size now maxM extra fuel rs m q).2.1 := by
  induction fuel generalizing rs m q with
  | zero => exact h
  | succ fuel ih =>
    simp only [memLoop]
    split
    · exact h
    · have hs := evictMem_spec h cfg tl now (rs.headD 0)
      have hi := hs.inv h
      generalize evictMem cfg tl now (rs.headD 0) m q = r at hs hi
      obtain ⟨m', q', ev⟩ := r
      simp only
      cases ev
      · exact hi
      · exact ih rs.tail hi

theorem memLoop_keys_sub (cfg : Cfg) (tl : Tlru S) (size : V → Nat) (now maxM extra : Nat)
    (fuel : Nat) (rs : List Nat) {m : Store K V} {q : List K} (h : InvMQ m q) :
    ∀ x, x ∈ keys (memLoop cfg tl size now maxM extra fuel rs m q).1 → x ∈ keys m := by
  induction fuel generalizing rs m q with
  | zero => intro x hx; exact hx
  | succ fuel ih =>
    simp only [memLoop]
    split
    · intro x hx; exact hx
    · have hs := evictMem_spec h cfg tl now (rs.headD 0)
      have hi := hs.inv h
      have hk := hs.keys_sub
      generalize evictMem cfg tl now (rs.headD 0) m q = r at hs hi hk
      obtain ⟨m', q', ev⟩ := r
      simp only
      cases ev
      · exact hk
      · intro x hx; exact hk x (ih rs.tail hi x hx)

theorem memLoop_length_le (cfg : Cfg) (tl : Tlru S) (size : V → Nat) (now maxM extra : Nat)
    (fuel : Nat) (rs : List Nat) {m : Store K V} {q : List K} (h : InvMQ m q) :
    (memLoop cfg tl size now maxM extra fuel rs m q).1.length ≤ m.length := by
  induction fuel generalizing rs m q with
  | zero => exact Nat.le_refl _
  | succ fuel ih =>
    simp only [memLoop]
    split
    · exact Nat.le_refl _
    · have hs := evictMem_spec h cfg tl now (rs.headD 0)
      have hi := hs.inv h
      have hl := hs.length_le
      generalize evictMem cfg tl now (rs.headD 0) m q = r at hs hi hl
      obtain ⟨m', q', ev⟩ := r
      simp only
      cases ev
      · exact hl
      · exact Nat.le_trans (ih rs.tail hi) hl

/-! ### Every operation preserves the invariant -/

theorem hitUpdate_inv (cfg : Cfg) (k : K) {m : Store K V} {q : List K} (h : InvMQ m q) (hk : k ∈ keys m) :
    InvMQ (hitUpdate cfg k m q).1 (hitUpdate cfg k m q).2 := by
  unfold hitUpdate
  have hm : InvMQ (if cfg.policy.bumps = true then bumpHits k m else m) q := by
    split
    · exact InvMQ.bumpHits h k
    · exact h
  have hk' : k ∈ keys (if cfg.policy.bumps = true then bumpHits k m else m) := by
    split
    · rw [keys_bumpHits]; exact hk
    · exact hk
  generalize (if cfg.policy.bumps = true then bumpHits k m else m) = m1 at hm hk'
  cases cfg.flavour <;> simp only
  · by_cases hr : cfg.policy.refreshes = true <;> simp only [hr, if_true, if_false, Bool.false_eq_true]
    · exact InvMQ.moveToEnd hm k
    · exact hm
  · by_cases hr : cfg.policy.refreshes = true <;> simp only [hr, if_true, if_false, Bool.false_eq_true]
    · exact InvMQ.moveToEnd hm k
    · exact hm
  · split
    · exact InvMQ.retainPush hm hk'
    · exact hm

theorem get_inv (cfg : Cfg) (s : State K V) (k : K) (h : Inv s) : Inv (get cfg s k).1 := by
  unfold get
  cases hl : lookup k s.store with
  | none => exact h
  | some e =>
    simp only
    split
    · exact InvMQ.removeBoth h cfg k
    · have hk : k ∈ keys s.store := by
        apply Classical.byContradiction; intro hn
        rw [(lookup_eq_none_iff _ _).mpr hn] at hl; cases hl
      exact hitUpdate_inv cfg k h hk

/-- the async prologue: drop an existing entry for the key -/
theorem asyncDrop_inv {m : Store K V} {q : List K} (h : InvMQ m q) (k : K) :
    InvMQ (if hasKey k m then (eraseKey k m, q.filter (fun x => x ≠ k)) else (m, q)).1
          (if hasKey k m then (eraseKey k m, q.filter (fun x => x ≠ k)) else (m, q)).2 := by
  split
  · exact h.remove k
  · exact h

theorem asyncDrop_not_mem (m : Store K V) (q : List K) (k : K) :
    k ∉ keys (if hasKey k m then (eraseKey k m, q.filter (fun x => x ≠ k)) else (m, q)).1 := by
  split
  · rw [keys_eraseKey]; simp
  · rename_i hh
    exact (hasKey_false_iff k m).mp (by simpa using hh)

theorem insert_inv (cfg : Cfg) (tl : Tlru S) (r : Nat) (s : State K V) (k : K) (v : V) (h : Inv s) :
    Inv (insert cfg tl r s k v) := by
  unfold insert
  cases hf : cfg.flavour <;> simp only [Inv]
  · exact limitStep_inv (InvMQ.put_erasePush h k _) cfg tl s.now r
  · exact limitStep_inv (InvMQ.put_erasePush h k _) cfg tl s.now r
  · have h0 := asyncDrop_inv h k
    have hk0 := asyncDrop_not_mem s.store s.queue k
    generalize (if hasKey k s.store then (eraseKey k s.store, s.queue.filter (fun x => x ≠ k))
      else (s.store, s.queue)) = p at h0 hk0
    obtain ⟨m0, q0⟩ := p
    simp only at h0 hk0 ⊢
    have h1 := limitStep_inv h0 cfg tl s.now r
    have hk1 : k ∉ keys (limitStep cfg tl s.now r m0 q0).1 :=
      fun hh => hk0 (limitStep_keys_sub h0 cfg tl s.now r k hh)
    exact InvMQ.put_push h1 hk1 _

theorem dropLast_erasePush (k : K) (q : List K) : (erasePush k q).dropLast = q.erase k := by
  simp [erasePush]

theorem insertMem_inv (cfg : Cfg) (tl : Tlru S) (size : V → Nat) (rs : List Nat) (s : State K V) (k : K) (v : V)
    (h : Inv s) : Inv (insertMem cfg tl size rs s k v) := by
  unfold insertMem
  cases hf : cfg.flavour <;> simp only [Inv]
  case async =>
    have h0 := asyncDrop_inv h k
    have hk0 := asyncDrop_not_mem s.store s.queue k
    generalize (if hasKey k s.store then (eraseKey k s.store, s.queue.filter (fun x => x ≠ k))
      else (s.store, s.queue)) = p at h0 hk0
    obtain ⟨m0, q0⟩ := p
    simp only at h0 hk0 ⊢
    cases cfg.maxMem with
    | none =>
      simp only
      have h1 := limitStep_inv h0 cfg tl s.now (rs.headD 0)
      have hk1 : k ∉ keys (limitStep cfg tl s.now (rs.headD 0) m0 q0).1 :=
        fun hh => hk0 (limitStep_keys_sub h0 cfg tl s.now _ k hh)
      exact InvMQ.put_push h1 hk1 _
    | some maxM =>
      simp only
      split
      · exact h0
      · have h1 := memLoop_inv cfg tl size s.now maxM (size v) (q0.length + 1) rs h0
        have hk1 := memLoop_keys_sub cfg tl size s.now maxM (size v) (q0.length + 1) rs h0
        generalize memLoop cfg tl size s.now maxM (size v) (q0.length + 1) rs m0 q0 = r1 at h1 hk1
        obtain ⟨m1, q1, rs1⟩ := r1
        simp only at h1 hk1 ⊢
        have h2 := limitStep_inv h1 cfg tl s.now (rs1.headD 0)
        have hk2 : k ∉ keys (limitStep cfg tl s.now (rs1.headD 0) m1 q1).1 :=
          fun hh => hk0 (hk1 k (limitStep_keys_sub h1 cfg tl s.now _ k hh))
        exact InvMQ.put_push h2 hk2 _
  all_goals
    have h0 := InvMQ.put_erasePush h k (⟨v, stamp cfg s.now, 0⟩ : Entry V)
    cases cfg.maxMem with
    | none => exact limitStep_inv h0 cfg tl s.now (rs.headD 0)
    | some maxM =>
      simp only
      split
      · rw [dropLast_erasePush]
        have hkk : ∀ {m : Store K V}, eraseKey k (put k (⟨v, stamp cfg s.now, 0⟩ : Entry V) m) = eraseKey k m := by
          intro m
          simp [put, eraseKey, List.filter_append, List.filter_filter]
        rw [hkk]
        exact InvMQ.remove_erase h k
      · have h1 := memLoop_inv cfg tl size s.now maxM 0 ((erasePush k s.queue).length + 1) rs h0
        generalize memLoop cfg tl size s.now maxM 0 ((erasePush k s.queue).length + 1) rs
          (put k ⟨v, stamp cfg s.now, 0⟩ s.store) (erasePush k s.queue) = r1 at h1
        obtain ⟨m1, q1, rs1⟩ := r1
        exact limitStep_inv h1 cfg tl s.now (rs1.headD 0)

theorem clear_inv (s : State K V) : Inv (clear s) := by
  simp [clear, Inv, InvMQ]

theorem keys_filter_key (p : K → Bool) (m : Store K V) :
    keys (m.filter (fun e => p e.1)) = (keys m).filter p := by
  induction m with
  | nil => rfl
  | cons a m ih =>
    by_cases h : p a.1 = true <;> simp_all [keys, List.filter_cons]

theorem foldl_erase_eq_filter (ks : List K) {q : List K} (h : q.Nodup) :
    ks.foldl (fun q k => q.erase k) q = q.filter (fun x => !ks.contains x) := by
  induction ks generalizing q with
  | nil =>
    simp only [List.foldl_nil]
    exact (List.filter_eq_self.mpr (by intro a _; simp)).symm
  | cons k ks ih =>
    simp only [List.foldl_cons]
    rw [ih (h.sublist List.erase_sublist), erase_eq_filter_of_nodup h, List.filter_filter]
    congr 1
    funext x
    by_cases hx : x = k <;> simp [hx, List.contains_cons, eq_comm]

theorem invalidateWith_inv (p : K → Bool) (s : State K V) (h : Inv s) : Inv (invalidateWith p s) := by
  unfold invalidateWith
  simp only [Inv]
  rw [foldl_erase_eq_filter _ h.2.1]
  obtain ⟨h1, h2, h3⟩ := h
  refine ⟨?_, List.Pairwise.filter _ h2, ?_⟩
  · rw [keys_filter_key (fun k => !p k)]; exact List.Pairwise.filter _ h1
  · intro x
    rw [keys_filter_key (fun k => !p k)]
    simp only [List.mem_filter, h3 x, List.contains_eq_mem, List.mem_filter, Bool.not_eq_true',
      decide_eq_false_iff_not, not_and, Bool.not_eq_true]
    constructor
    · rintro ⟨hx, hnp⟩; exact ⟨hx, by simpa using hnp hx⟩
    · rintro ⟨hx, hnp⟩; exact ⟨hx, fun _ => by simpa using hnp⟩

theorem step_inv (cfg : Cfg) (tl : Tlru S) (size : V → Nat) (rs : List Nat) (s : State K V) (op : Op K V)
    (h : Inv s) : Inv (step cfg tl size rs s op).1 := by
  cases op with
  | get k => exact get_inv cfg s k h
  | insert k v => exact insert_inv cfg tl _ s k v h
  | insertMem k v => exact insertMem_inv cfg tl size rs s k v h
  | clear => exact clear_inv s
  | invalidateWith p => exact invalidateWith_inv p s h
  | tick ms => exact h

theorem run_inv (cfg : Cfg) (tl : Tlru S) (size : V → Nat) (s : State K V) (ops : List (Op K V × List Nat))
    (h : Inv s) : Inv (run cfg tl size s ops).1 := by
  induction ops generalizing s with
  | nil => exact h
  | cons a ops ih =>
    obtain ⟨op, rs⟩ := a
    simp only [run]
    exact ih _ (step_inv cfg tl size rs s op h)

end Cachelito
