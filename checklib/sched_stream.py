"""L3 stream: real threads under the deterministic scheduler (harness/src/bin/sched.rs).  Monitors evaluated on the
implementation's own events: no deadlock / hang (C17), lock acquisitions rank-ordered (C17), quiescent consistency
and bounds, values correct (C18), statistics exact at quiescence (C15).  Ties to the model: every operation's real
lock trace must be a path of the Lean skeleton (driver conc), and the sequential probe history after each run must
agree with Cachelito.sysStep started from the dumped quiescent state (driver macro)."""
import os, re, json, subprocess
from concurrent.futures import ThreadPoolExecutor

import common
import macro_stream

MACRO_SITES = {5001: ("order", True), 5002: ("map", False), 5003: ("order", True), 5004: ("map", True),
               6001: ("order", True), 6002: ("order", True)}
LOCKNAME = {"map": "M", "order": "O", "tag_to_caches": "Rt", "event_to_caches": "Re", "dependency_to_caches": "Rd",
            "cache_metadata": "Rm", "clear_callbacks": "Rc", "invalidation_check_callbacks": "Rk", "STATS_REGISTRY": "STATS"}
RANK = {"STATS": 1, "Rt": 2, "Re": 3, "Rd": 4, "Rm": 5, "Rc": 6, "Rk": 7, "O": 8, "M": 9}


def load_sites():
    sites = {}
    for k, v in json.load(open(os.path.join(common.HARNESS, "sites_core.json"))).items():
        sites[int(k)] = (LOCKNAME[v["lock"]], v["held"], v["mode"])
    for k, (lock, held) in MACRO_SITES.items():
        sites[k] = (LOCKNAME[lock], held, "Exclusive")
    return sites


def pol_class(policy):
    return {"lru": "lru", "lfu": "lfu", "arc": "arcTlru", "tlru": "arcTlru"}.get(policy, "fifoRandom")


class RunAnalysis:
    def __init__(self, spec, sites, fns, programs):
        self.spec, self.sites, self.fns, self.programs = spec, sites, fns, programs

    def analyse(self, xline, vline, qline, fail, tlines, ev, iline=None):
        m = re.match(r"X\|run=(\d+)\|sched=([\d,]*)\|result=(\w+)", xline)
        run, sched, result = int(m.group(1)), m.group(2), m.group(3)
        replay = ["P|" + ",".join(str(f) for f in self.fns) + "|" + "||".join(";".join(p) for p in self.programs), xline, vline]
        if result != "ok":
            ev("deadlock" if result == "deadlock" else "hang")
            waits = re.findall(r"W(\d+):(\d+):(\d+)", vline)
            fail("C17", f"schedule [{sched}] ends in a {result}: every unfinished thread is parked at a lock that is held "
                        f"(waits {[(int(t), self.sites.get(int(s), ('?',))[0], int(l)) for t, s, l in waits]})", replay)
            return
        events = vline[2:].split(" ") if len(vline) > 2 else []
        cur_op = {}
        held = {}            # thread -> list of (lockname, lock#)
        cache_of = {}        # lock# -> cache number
        cache_async = {}     # cache number -> bool
        fn_cache = {}        # fn idx -> cache number
        trace = {}           # thread -> tokens of the current op
        calls_done = {}      # fn idx -> [execs]
        reset_seen = set()

        def cache_for_fn(fi):
            cache_async[fi] = self.spec[fi]["is_async"]
            return fi

        # calls-only programs (no invalidation / reset anywhere): nothing but an eviction may remove an entry
        calls_only = all(op.split(" ")[0] == "call" for prog in self.programs for op in prog if op)
        hot = self.fns[0]
        hs = self.spec[hot]
        # impure programs (C09 variant): two calls of one function with the same argument index but different scripted outcomes
        scripts = {}
        for prog in self.programs:
            for op in prog:
                f_ = op.split(" ")
                if f_[0] == "call":
                    scripts.setdefault((f_[1], f_[2]), set()).add((f_[3], f_[4]))
        impure = any(len(v) > 1 for v in scripts.values())
        step_pos = {}        # thread -> positions of the lookup / store-write steps of its current call on the hot cache
        hot_steps = []       # (lookup position, store-write position or None, thread, key, execs, returned value)
        started = {}         # thread -> position of the S event of its current op
        hot_calls = []       # (start position, end position, thread, key, execs, returned value) of calls on the hot cache
        invs = []            # (start, end, "clear" | "cond", mask) of invalidations that address the hot cache
        for pos, e in enumerate(events):
            if not e:
                continue
            kind, t = e[0], int(e[1:e.index(":")])
            body = e[e.index(":") + 1:]
            if kind == "S":
                started[t] = pos
                cur_op[t] = body.split("_")
                trace[t] = []
                held.setdefault(t, [])
                step_pos[t] = {"read": None, "store": None}
            elif kind == "A":
                site, ln, mode, own = body.split(":")
                site, ln = int(site), int(ln)
                if site == 9000:
                    ev("body-preemption-point")      # the harness's own yield inside a function body: not a lock
                    continue
                # where the LOOKUP and the STORE-WRITE of a call take effect (threads run one at a time between yield points, so
                # event positions are a total order of the steps): sync lookup = the read-lock acquisition of `get` (1001), sync
                # store = the write-lock acquisition of `insert` / `insert_with_memory` (1008 / 1015), async store = the queue-mutex
                # acquisition of the insert (2003 / 2004); the async lookup happens right after the call starts
                if t in step_pos and own == str(hot):
                    if site == 1001 and step_pos[t]["read"] is None:
                        step_pos[t]["read"] = pos
                    if site in (1008, 1015, 2003, 2004):
                        step_pos[t]["store"] = pos
                lname, is_held, _ = self.sites.get(site, ("?", False, ""))
                op = cur_op.get(t, ["?"])
                c = 0
                if lname in ("O", "M"):
                    # the cache a queue mutex / store lock belongs to was learned in the warm-up calls; the cache
                    # number used in the skeletons is the corpus index of the function
                    if own != "-":
                        c = int(own)
                    elif op[0] == "call":
                        c = int(op[1])
                    else:
                        c = 900 + ln
                    cache_async[c] = self.spec[c]["is_async"] if c in self.spec else (site in (6001, 6002))
                # C17: rank order, on the real events
                hr = [RANK[h[0]] for h in held[t]]
                if hr and RANK.get(lname, 99) <= max(hr):
                    ev("lock-order-violation")
                    fail("C17", f"thread {t} acquires {lname} (site {site}) while holding {[h[0] for h in held[t]]}: lock order "
                                f"queue mutex -> store lock / registry -> cache violated in `{' '.join(op)}`", replay)
                trace[t].append(f"acq.{lname}.{c}.{'r' if mode == 's' else 'w'}")
                if is_held:
                    held[t].append((lname, ln, c))
                else:
                    trace[t].append(f"rel.{lname}.{c}")
                ev("acquisition")
                if len(held[t]) >= 2:
                    ev("nested-acquisition")
            elif kind == "R":
                ln = int(body)
                for i in range(len(held.get(t, [])) - 1, -1, -1):
                    if held[t][i][1] == ln:
                        h = held[t].pop(i)
                        trace[t].append(f"rel.{h[0]}.{h[2]}")
                        break
            elif kind == "E":
                op = cur_op.get(t, ["?"])
                syncs = ",".join(str(c) for c, a in sorted(cache_async.items()) if not a)
                asyncs = ",".join(str(c) for c, a in sorted(cache_async.items()) if a)
                if op[0] == "call":
                    fi = int(op[1])
                    s = self.spec[fi]
                    k = "call_async" if s["is_async"] else "call_sync"
                    tlines.append(f"T|{k}|{pol_class(s['policy'])}|{cache_for_fn(fi)}|{syncs}|{asyncs}|{' '.join(trace[t])}")
                    mm = re.match(r"ret=(\S*?)_(\S+?)_exec=(\d+)_would=(\S+?)_wsize=(\d+)", body)
                    if mm:
                        calls_done.setdefault(fi, []).append(int(mm.group(3)))
                        ev("concurrent-call")
                        if fi == hot:
                            hot_calls.append((started.get(t, pos), pos, t, mm.group(1), int(mm.group(3)), mm.group(2)))
                            sp = step_pos.get(t, {})
                            rpos = sp.get("read") if not s["is_async"] else started.get(t, pos)
                            hot_steps.append((rpos, sp.get("store"), t, mm.group(1), int(mm.group(3)), mm.group(2)))
                        if mm.group(2) != mm.group(4) and not impure:
                            fail("C18", f"call {' '.join(op)} on thread {t} returned {mm.group(2)[:40]}, the function's value for these arguments is {mm.group(4)[:40]}", replay)
                    elif "PANIC" in body:
                        fail("C16", f"call {' '.join(op)} panicked under schedule [{sched}]: {body}", replay)
                else:
                    # invalidations that address the hot cache: (start, end, kind, mask) — full clears and conditional ones
                    if op[0] == "tag" and op[1] in hs["tags"] or op[0] == "event" and op[1] in hs["events"] or \
                            op[0] == "dep" and op[1] in hs["deps"] or op[0] == "cache" and op[1] == hs["name"]:
                        if hs["tags"] or hs["events"] or hs["deps"]:
                            invs.append((started.get(t, pos), pos, "clear", None))
                    elif op[0] == "with" and op[1] == hs["name"]:
                        invs.append((started.get(t, pos), pos, "cond", int(op[2])))
                    elif op[0] == "allwith":
                        invs.append((started.get(t, pos), pos, "cond", int(op[1])))
                    k = {"tag": "tag", "event": "event", "dep": "dep", "cache": "cache", "with": "with", "allwith": "allwith",
                         "sget": "stats", "slist": "stats", "sreset": "stats"}.get(op[0])
                    if op[0] == "sreset":
                        reset_seen.add(op[1])
                    if k:
                        tlines.append(f"T|{k}|-|-|{syncs}|{asyncs}|{' '.join(trace[t])}")
                    ev("concurrent-" + op[0])
        # every call SERVED FROM THE CACHE needs a legitimate source: an entry stored by a call on the same key that could
        # still be there (C01 / C18), i.e. not separated from it by a COMPLETE invalidation that addresses the key (C12 for
        # group / name invalidations, C13 for conditional ones), or an entry of the initial state that is not expired (C06)
        if not hs["thread"] and not hs["inv_on"]:
            init_entries = {}
            if iline:
                for part in iline[2:].split("|")[0].split("@"):
                    if part.startswith(f"{hot}:g=") and part != f"{hot}:g=-":
                        for ent in part.split("=", 1)[1].split("#")[0].split(";"):
                            if ent:
                                k_, _, r_ = ent.partition("=")
                                init_entries[k_] = int(r_.split(",")[2])
            def separated(src_end, c_start, key):
                for (a, b, kind, mask) in invs:
                    if a > src_end and b < c_start and (kind == "clear" or mask_pred(key, mask)):
                        return kind
                return None
            for (st, en, t, key, ex, ret) in hot_calls:
                if ex != 0:
                    continue
                ev("served-call-source-checked")
                sources = [(s_en, "call") for (s_st, s_en, _, s_key, s_ex, _) in hot_calls if s_key == key and s_ex == 1 and s_st < en]
                expired_init = False
                if key in init_entries:
                    if hs["ttl"] is not None and init_entries[key] >= 1000 * hs["ttl"]:
                        expired_init = True
                    else:
                        sources.append((-1, "initial"))
                seps = [separated(s_en, st, key) for (s_en, _) in sources]
                if sources and all(seps):
                    pid = "C12" if "clear" in seps else "C13"
                    fail(pid, f"cache {hs['name']}: the call for key {key[:24]} on thread {t} was served from the cache although every entry that had been stored for it "
                              f"was followed by a COMPLETED {'group/name' if pid == 'C12' else 'conditional'} invalidation addressing it before the call began - an entry from before "
                              f"the invalidation survived it (schedule [{sched}])", replay)
                elif not sources:
                    if expired_init:
                        fail("C06", f"cache {hs['name']} (ttl {hs['ttl']} s): the call for key {key[:24]} on thread {t} was served from the cache, but the only entry ever stored for it "
                                    f"was {init_entries[key]} ms old when the run began (expired) and no call stored it again (schedule [{sched}])", replay)
                    else:
                        fail("C01", f"cache {hs['name']}: the call for key {key[:24]} on thread {t} was served from the cache although no call had stored a value for these arguments "
                                    f"(schedule [{sched}])", replay)
        # C01 under concurrency, "once the value stored for some arguments has been replaced the old value is never served again"
        # (last store wins at the granularity of the real steps): a call served from the cache returns the value of a store-write
        # for its key that precedes its lookup and is not followed, before that lookup, by a store-write of ANOTHER value for the
        # key.  (Needs impure bodies to bite: the calls-only programs give every thread its own value per key.)
        if not hs["thread"] and not hs["inv_on"] and not hs["cache_if"]:
            writes = {}
            if iline:
                for part in iline[2:].split("|")[0].split("@"):
                    if part.startswith(f"{hot}:g=") and part != f"{hot}:g=-":
                        for ent in part.split("=", 1)[1].split("#")[0].split(";"):
                            if ent:
                                k_, _, r_ = ent.partition("=")
                                writes.setdefault(k_, []).append((-1, r_.split(",")[0]))
            for (rp, sp_, t_, key, ex, ret) in hot_steps:
                if ex == 1 and sp_ is not None and not (hs["is_result"] and ret.startswith(macro_stream.HEX_ERR)):
                    writes.setdefault(key, []).append((sp_, ret))
            for (rp, sp_, t_, key, ex, ret) in hot_steps:
                if ex != 0 or rp is None:
                    continue
                ws = sorted(w for w in writes.get(key, []) if w[0] < rp)
                if not ws:
                    continue                     # no known source: the legitimate-source monitor above speaks
                ev("served-value-vs-latest-store-checked")
                if ws[-1][1] != ret and any(v == ret for (_, v) in ws):
                    fail("C01", f"cache {hs['name']}: the call for key {key[:24]} on thread {t_} was served {ret[:24]}, a value that had been REPLACED: the latest "
                                f"store-write for these arguments before its lookup stored {ws[-1][1][:24]} (an old value was served again; schedule [{sched}])", replay)
        plain = (hs["limit"] is None and hs["maxmem"] is None and hs["ttl"] is None and not hs["cache_if"] and not hs["inv_on"]
                 and not hs["is_result"])
        if calls_only and plain and not hs["thread"]:
            # C03 (concurrent clause) / C14 (a value stored by one thread is served to every other one): once a call
            # that ran the body (and therefore stored) has RETURNED, no call started later runs the body for that key
            ev("c03-plain-concurrent-run")
            first_store_end = {}
            for (st, en, t, key, ex, ret) in hot_calls:
                if ex == 1 and (key not in first_store_end or en < first_store_end[key][0]):
                    first_store_end[key] = (en, t)
            for (st, en, t, key, ex, ret) in hot_calls:
                if key in first_store_end and st > first_store_end[key][0] and ex != 0:
                    ev("c03-late-execution")
                    fail("C03", f"on plain cache {hs['name']}: a call for key {key[:24]} on thread {first_store_end[key][1]} ran the body, stored and RETURNED; a call "
                                f"for the same arguments started afterwards on thread {t} ran the body again (schedule [{sched}])", replay)
                    if t != first_store_end[key][1]:
                        fail("C14", f"shared cache {hs['name']}: the value stored by thread {first_store_end[key][1]} for key {key[:24]} was not served to thread {t}, "
                                    f"whose call started after the storing call had returned (schedule [{sched}])", replay)
        plain_result = (hs["limit"] is None and hs["maxmem"] is None and hs["ttl"] is None and not hs["cache_if"] and not hs["inv_on"]
                        and hs["is_result"])
        if calls_only and plain_result and not hs["thread"]:
            # C09 under concurrency (impure body: some threads' calls fail, others succeed for the same arguments): an Err is
            # never served from the cache; once a call that returned Ok (and therefore stored it) has RETURNED, every call
            # started later is served without running the body - a failing call that finishes late must not disturb the entry
            ev("c09-concurrent-run")
            first_ok_end = {}
            for (st, en, t, key, ex, ret) in hot_calls:
                if ex == 1 and ret.startswith(macro_stream.HEX_OK) and (key not in first_ok_end or en < first_ok_end[key][0]):
                    first_ok_end[key] = (en, t)
            for (st, en, t, key, ex, ret) in hot_calls:
                if ex == 0 and ret.startswith(macro_stream.HEX_ERR):
                    fail("C09", f"Result function {hs['name']}: the call for key {key[:24]} on thread {t} was served an Err from the cache (schedule [{sched}])", replay)
                if key in first_ok_end and st > first_ok_end[key][0] and ex != 0:
                    ev("c09-late-execution")
                    fail("C09", f"Result function {hs['name']}: a call for key {key[:24]} on thread {first_ok_end[key][1]} returned Ok, stored it and RETURNED; a call for the same "
                                f"arguments started afterwards on thread {t} ran the body again - the stored Ok was lost (schedule [{sched}])", replay)
        # quiescent state
        if qline:
            dumps_s, stats_s, _ = qline[2:].split("|")
            dumps = macro_stream.parse_dumps(dumps_s)
            if calls_only and not hs["thread"] and hs["ttl"] is None and not hs["cache_if"] and not hs["inv_on"] and not hs["is_result"] \
                    and hs["maxmem"] is None:
                d = dumps.get(f"{hot}:g")
                if d is not None:
                    stored_keys = {key for (_, _, _, key, ex, _) in hot_calls if ex == 1}
                    missing = [k for k in stored_keys if k not in d[0]]
                    ev("calls-only-quiescent-check")
                    # only for caches WITHOUT an entry limit: there nothing at all may remove an entry.  (With a limit the real
                    # code legitimately evicts a live entry on account of a queue slot whose entry a racing store lost, and may
                    # end below its limit - observed on the unchanged tree, sync LFU limit 1 - so "vanished from a cache that
                    # is not full" is NOT a sound monitor there.)
                    if missing and hs["limit"] is None:
                        fail("C14", f"calls-only run on shared cache {hs['name']} (limit {hs['limit']}): {len(missing)} key(s) stored by completed calls are gone at "
                                    f"quiescence although the cache holds only {len(d[0])} entries - nothing but an eviction of a FULL cache may remove them, "
                                    f"so they are not served to other threads (schedule [{sched}])", replay)
                        fail("C03", f"calls-only run on cache {hs['name']}: a stored result vanished without the cache being full (schedule [{sched}])", replay)
            # C20: an async cache is never left corrupted by calls whose store raced with other operations
            for lbl, d in dumps.items():
                if d is None:
                    continue
                fi = int(lbl.split(":")[0])
                if not self.spec[fi]["is_async"]:
                    continue
                entries, queue = d
                bad = [k for k in entries if k not in queue] + [k for k in queue if k not in entries]
                if bad or len(set(queue)) != len(queue) or (self.spec[fi]["limit"] is not None and len(entries) > self.spec[fi]["limit"]):
                    fail("C20", f"at quiescence async cache {self.spec[fi]['name']} is inconsistent after calls that suspended in their body and stored on resumption "
                                f"while other threads operated on it: {len(entries)} entries (limit {self.spec[fi]['limit']}), {len(bad)} key(s) in only one of store / queue "
                                f"(schedule [{sched}])", replay)
            prog_ops = {op.split(" ")[0] for prog in self.programs for op in prog if op}
            # C13 / C12: the async store/queue bijection holds after every critical section (C18.async_consistent_at_every_point), so a
            # queue slot for a key the cache no longer stores, or a duplicated slot, after invalidations that raced with calls is a
            # capacity-bookkeeping error the invalidation left behind (the slot counts against the limit / is evicted in place of a live entry)
            for lbl, d in dumps.items():
                if d is None:
                    continue
                fi = int(lbl.split(":")[0])
                if not self.spec[fi]["is_async"]:
                    continue
                entries, queue = d
                ghosts = [k for k in queue if k not in entries]
                if ghosts or len(set(queue)) != len(queue):
                    if prog_ops & {"with", "allwith"}:
                        fail("C13", f"after conditional invalidations racing with calls, the queue of async cache {self.spec[fi]['name']} holds {len(ghosts)} slot(s) for keys it no longer "
                                    f"stores and {len(queue) - len(set(queue))} duplicate slot(s): the capacity bookkeeping is no longer exact (schedule [{sched}])", replay)
                    if prog_ops & {"tag", "event", "dep", "cache"}:
                        fail("C12", f"after group / name invalidations racing with calls, the queue of async cache {self.spec[fi]['name']} holds {len(ghosts)} slot(s) for keys it no longer "
                                    f"stores and {len(queue) - len(set(queue))} duplicate slot(s) (schedule [{sched}])", replay)
            for lbl, d in dumps.items():
                if d is None:
                    continue
                fi = int(lbl.split(":")[0])
                s = self.spec[fi]
                entries, queue = d
                untracked = [k for k in entries if k not in queue]
                if untracked:
                    ev("untracked-key")
                    fail("C18", f"at quiescence cache {s['name']} stores keys the eviction queue does not track: {len(untracked)} of {len(entries)} (schedule [{sched}])", replay)
                    if s["limit"] is not None:
                        fail("C04", f"once every operation has completed, cache {s['name']} (limit {s['limit']}) stores {len(untracked)} key(s) the eviction queue does not track: "
                                    f"they are never counted against the limit and never evicted, so the cache grows past it (schedule [{sched}])", replay)
                    # capacity bookkeeping after invalidations that raced with calls (C13: conditional; C12: group / name)
                    if prog_ops & {"with", "allwith"}:
                        fail("C13", f"after conditional invalidations racing with calls, cache {s['name']} holds {len(untracked)} entr{'y' if len(untracked) == 1 else 'ies'} that no queue slot "
                                    f"tracks: they can never be evicted and eat capacity for good (schedule [{sched}])", replay)
                    if prog_ops & {"tag", "event", "dep", "cache"}:
                        fail("C12", f"after group / name invalidations racing with calls, cache {s['name']} holds {len(untracked)} entr{'y' if len(untracked) == 1 else 'ies'} no queue slot tracks "
                                    f"(an entry survived or was resurrected around the invalidation) (schedule [{sched}])", replay)
                if s["limit"] is not None and len(entries) > s["limit"]:
                    fail("C18", f"at quiescence cache {s['name']} holds {len(entries)} entries with limit {s['limit']} (schedule [{sched}])", replay)
                if s["maxmem"] is not None and s["use_mem"] and sum(e[1] for e in entries.values()) > s["maxmem"]:
                    fail("C18", f"at quiescence cache {s['name']} holds {sum(e[1] for e in entries.values())} bytes with max_memory {s['maxmem']}", replay)
                    fail("C05", f"after concurrent memory-aware stores cache {s['name']} holds {sum(e[1] for e in entries.values())} bytes with max_memory {s['maxmem']} (schedule [{sched}])", replay)
                if s["limit"] is not None and len(entries) > s["limit"]:
                    fail("C04", f"after concurrent stores cache {s['name']} holds {len(entries)} entries with limit {s['limit']} (schedule [{sched}])", replay)
                if len(set(queue)) != len(queue):
                    fail("C18", f"at quiescence the queue of cache {s['name']} has duplicate keys", replay)
                    if not s["thread"]:
                        fail("C14", f"shared cache {s['name']}: after threads stored the same key concurrently its queue holds that key twice; the surplus slot makes the "
                                    f"cache evict entries other threads stored while it is not full, so they are no longer served (schedule [{sched}])", replay)
                ev("quiescent-cache-checked")
            for part in stats_s.split(";"):
                fi, _, hm = part.partition("=")
                fi = int(fi)
                s = self.spec[fi]
                if hm == "-" or s["name"] in reset_seen:
                    continue
                h, m_ = (int(x) for x in hm.split(","))
                done = calls_done.get(fi, [])
                if h + m_ != len(done):
                    fail("C15", f"after {len(done)} concurrent calls of {s['name']} hits+misses = {h}+{m_} (schedule [{sched}])", replay)
                elif not s["inv_on"] and h != sum(1 for x in done if x == 0):
                    fail("C15", f"after concurrent calls of {s['name']}: {h} hits counted, {sum(1 for x in done if x == 0)} calls were served from the cache", replay)
                ev("quiescent-stats-checked")


def mask_pred(keyhex, mask):
    kb = b"" if keyhex == "e" else bytes.fromhex(keyhex)
    return (len(kb) + sum(kb)) % 4 < mask


def cfg_of(s):
    import struct
    return " ".join([s["flavour"], s["policy"], str(s["limit"]) if s["limit"] is not None else "-",
                     str(s["maxmem"]) if s["maxmem"] is not None else "-", str(s["ttl"]) if s["ttl"] is not None else "-",
                     s["line"].split("|")[5].split(" ")[5]])


def build_cdata(spec, sites, fns, ktable, iline, vline, qline):
    """translate one scheduled run into a replay line for the data-carrying interleaving model (driver cdata):
    engine-level programs of the HOT cache (fns[0]), the schedule as thread ids per micro-step (one per critical
    section, emitted where the section takes effect), initial and final dump, lookup results"""
    hot = fns[0]
    hs = spec[hot]
    if hs["policy"] == "random":
        return None
    events = vline[2:].split(" ") if len(vline) > 2 else []
    nthreads = 1 + max([int(e[1:e.index(":")]) for e in events if e and e[0] in "SAER"] or [0])
    progs = [[] for _ in range(nthreads)]
    results = [[] for _ in range(nthreads)]
    steps = []                      # (position, thread)
    cur = {}
    sec = {}                        # thread -> [lock#, position] of the open queue-mutex section on the hot cache
    last_pos = {}                   # thread -> position of its latest S / A / R event
    has_meta = bool(hs["tags"] or hs["events"] or hs["deps"])
    allkeys = set(ktable.values())
    init = iline[2:].split("|")[0]
    for part in init.split("@"):
        if part.startswith(f"{hot}:g=") and part != f"{hot}:g=-":
            for e in part.split("=", 1)[1].split("#")[0].split(";"):
                if e:
                    allkeys.add(e.split("=")[0])
    for pos, e in enumerate(events):
        if not e:
            continue
        kind, t = e[0], int(e[1:e.index(":")])
        body = e[e.index(":") + 1:]
        prev_pos = last_pos.get(t)
        if kind in "SAR":
            last_pos[t] = pos
        if kind == "S":
            op = body.split("_")
            cur[t] = {"op": op, "targets_hot": False, "rk_pos": None}
            if op[0] == "call" and int(op[1]) == hot and hs["is_async"]:
                steps.append((pos, t))            # async lookup: the shard read happens right after the call starts
        elif kind == "A":
            site, ln, mode, own = body.split(":")
            site, ln = int(site), int(ln)
            if site == 9000:
                last_pos[t] = prev_pos if prev_pos is not None else pos
                continue
            lname, is_held, _ = sites.get(site, ("?", False, ""))
            if lname == "Rk" and t in cur:
                cur[t]["rk_pos"] = pos
            if lname not in ("O", "M") or own != str(hot):
                continue
            cur[t]["targets_hot"] = True
            if lname == "M" and t in sec:
                # nested store-lock acquisition inside an open queue-mutex section: the section TAKES EFFECT where it
                # WRITES the store (lookups of other threads take only the store lock, so they see the store change at
                # that point, not when the section ends); later read acquisitions (memory totals) change nothing
                if mode == "x":
                    sec[t][1] = pos
                    sec[t].append(pos)
                continue
            if lname == "O":
                if site == 6002 and prev_pos is not None:
                    # async conditional callback: collect (lock-free scan), then purge under the queue mutex.  The scan
                    # runs BEFORE the yield point of the acquisition, i.e. in the slice that ended with this thread's
                    # previous event (for invalidate_all_with that is the previous cache's callback, not the registry read)
                    steps.append((prev_pos + 0.5, t))
                if is_held:
                    sec[t] = [ln, pos]
                else:
                    steps.append((pos, t))
            else:
                steps.append((pos, t))
        elif kind == "R":
            ln = int(body)
            if t in sec and sec[t][0] == ln:
                writes = sec[t][2:]
                if len(writes) >= 2:
                    # several store writes in one section (memory loop): atomic in the model; representable only if no
                    # other thread's event fell between the first and the last of them
                    lo, hi = writes[0], writes[-1]
                    for q in range(lo + 1, hi):
                        eq = events[q]
                        if eq and eq[0] in "SAER" and int(eq[1:eq.index(":")]) != t:
                            return None
                steps.append((sec[t][1], t))
                del sec[t]
        elif kind == "E":
            c = cur.get(t)
            if not c:
                continue
            op = c["op"]
            if op[0] == "call" and int(op[1]) == hot:
                mm = re.match(r"ret=(\S*?)_(\S+?)_exec=(\d+)_would=(\S+?)_wsize=(\d+)", body)
                if not mm:
                    return None
                key, ret, ex, wsz = mm.group(1), mm.group(2), int(mm.group(3)), int(mm.group(5))
                allkeys.add(key)
                progs[t].append(f"get {key}")
                results[t].append(ret if ex == 0 else "-")
                if ex == 1 and not (hs["is_result"] and not hs["cache_if"] and ret.startswith(macro_stream.HEX_ERR)):
                    progs[t].append(f"{'insm' if hs['use_mem'] else 'ins'} {key} {ret} {wsz if hs['use_mem'] else 0}")
            elif op[0] in ("tag", "event", "dep", "cache") and c["targets_hot"]:
                progs[t].append("clear")
            elif op[0] in ("with", "allwith") and c["targets_hot"]:
                mask = int(op[2] if op[0] == "with" else op[1])
                ks = sorted(k for k in allkeys if mask_pred(k, mask))
                progs[t].append("inv " + ",".join(ks) if ks else "inv")
    steps.sort()
    sched = ",".join(str(t) for _, t in steps)
    final = None
    for part in qline[2:].split("|")[0].split("@"):
        if part.startswith(f"{hot}:g="):
            final = part.split("=", 1)[1]
    initd = None
    for part in init.split("@"):
        if part.startswith(f"{hot}:g="):
            initd = part.split("=", 1)[1]
    if final is None or initd is None or final == "-" or initd == "-":
        return None
    return "D|" + "|".join([cfg_of(hs), initd, "~".join(";".join(p) for p in progs), sched, final,
                            "~".join(",".join(r) for r in results)])


def run_proc(args):
    seed, nprog, maxruns = args
    p = subprocess.run([os.path.join(common.BIN, "sched"), "explore", str(seed), str(nprog), str(maxruns)], stdout=subprocess.PIPE,
                       stderr=subprocess.PIPE, env=common.ENV, text=True, timeout=3000)
    return seed, p.returncode, p.stdout, p.stderr[-300:]


def run_sched_stream(prop, stream, tier, seed, workdir, scale=1):
    ok, msg, _ = common.build_harness()
    if not ok:
        return {"error": msg}
    spec_text, spec = macro_stream.specs()
    sites = load_sites()
    nproc, nprog, maxruns = stream["budget"][tier]
    nproc = min(nproc * scale, common.JOBS)
    jobs = [(seed * 7919 + i, nprog, maxruns) for i in range(nproc)]
    with ThreadPoolExecutor(max_workers=common.JOBS) as ex:
        results = list(ex.map(run_proc, jobs))
    verdicts = []
    acc = {"steps": 0, "events": {}, "configs": set(), "by_flavour_policy": {}, "nontrivial": set(), "samples": []}
    want = set(stream.get("nontrivial", []))
    tlines = []
    dlines = []
    probe_text = []
    runs = 0
    exhaustive_programs = 0
    programs = 0

    def ev(e):
        acc["events"][e] = acc["events"].get(e, 0) + 1

    for s, rc, out, err in results:
        if rc != 0:
            verdicts.append({"kind": "BAD", "id": None, "episode": 0, "step": 0, "text": f"sched {s} exited {rc}: {err}"})
        cur = None
        x = v = None
        ktable = {}
        iline = None
        age_unsafe = False
        for line in out.splitlines():
            if line.startswith("K|"):
                ktable = {int(kv.split("=")[0]): kv.split("=")[1] for kv in line.split("|")[2].split(",")}
            elif line.startswith("I|"):
                iline = line
            if line.startswith("P|"):
                _, fl, pt = line.split("|", 2)
                fns = [int(i) for i in fl.split(",")]
                cur = RunAnalysis(spec, sites, fns, [p.split(";") for p in pt.split("||")])
                programs += 1
                for f in fns:
                    acc["configs"].add(spec[f]["line"])
                    k = spec[f]["flavour"] + "/" + spec[f]["policy"]
                    acc["by_flavour_policy"][k] = acc["by_flavour_policy"].get(k, 0) + 1
            elif line.startswith("X|"):
                x, v = line, None
                age_unsafe = False
            elif line.startswith("#AGE-UNSAFE"):
                age_unsafe = True
                ev("runs-with-unsafe-clock-not-replayed")
            elif line.startswith("V|"):
                v = line
                if x and "result=ok" not in x and cur:
                    before = dict(acc["events"])
                    cur.analyse(x, v, None, lambda pid, msg, rp: verdicts.append(
                        {"kind": "MON", "id": pid, "episode": 0, "step": 0, "text": f"MON {pid} :: {msg}", "raw": rp}), tlines, ev)
                    runs += 1
            elif line.startswith("Q|") and cur and x and v:
                before = dict(acc["events"])
                cur.analyse(x, v, line, lambda pid, msg, rp: verdicts.append(
                    {"kind": "MON", "id": pid, "episode": 0, "step": 0, "text": f"MON {pid} :: {msg}", "raw": rp}), tlines, ev, iline=iline)
                runs += 1
                acc["steps"] += 1
                hot = spec[cur.fns[0]]
                # a SYNC TLRU cache with a ttl breaks exact score ties by the REAL ages of the entries (nanoseconds apart), far below the
                # 1 s grain of the dumps the replay starts from: when another thread hits a freshly written entry before its queue
                # section runs, two entries with hits > 0 can tie exactly (0.1 x 1 x 2 = 0.1 x 2 x 1) and the real run then evicts the OLDER
                # one, which the model cannot know.  Such runs are not replayed (their monitors and quiescent checks still count).
                sync_tlru_ttl = (not hot["is_async"]) and hot["policy"] == "tlru" and hot["ttl"] is not None
                if sync_tlru_ttl:
                    ev("replay-skipped-sync-tlru-ttl")
                if iline is not None and not age_unsafe and not sync_tlru_ttl:
                    try:
                        dl = build_cdata(spec, sites, cur.fns, ktable, iline, v, line)
                    except Exception as exn:
                        dl = None
                        verdicts.append({"kind": "BAD", "id": None, "episode": 0, "step": 0, "text": f"cdata translation failed: {exn!r}"})
                    if dl:
                        dlines.append(dl)
                new = {k for k in acc["events"] if acc["events"][k] != before.get(k, 0)}
                if new & want:
                    acc["nontrivial"].add(hash((x.split("|sched=")[1], v[:400])))
                    if len(acc["samples"]) < 2:
                        acc["samples"].append((x + " " + v)[:500])
            elif line[:2] in ("E|", "R|", "S|"):
                probe_text.append(line)
            elif line.startswith("#STAT"):
                if "exhaustive=1" in line:
                    exhaustive_programs += 1
            elif line.startswith("#ABORT"):
                ev("aborted-probes")
    # tie 1: lock traces vs Lean skeletons
    tl = sorted(set(tlines))
    q = subprocess.run([common.DRIVER, "conc"], input="\n".join(tl) + "\n", stdout=subprocess.PIPE, stderr=subprocess.STDOUT, env=common.ENV, text=True)
    for l in q.stdout.splitlines():
        for part in l.split(" ;; "):
            if part.startswith("DIFF"):
                verdicts.append({"kind": "DIFF", "id": None, "episode": 0, "step": 0, "text": part[:700]})
            elif part.startswith("MON "):
                verdicts.append({"kind": "MON", "id": part.split()[1], "episode": 0, "step": 0, "text": part[:700]})
            elif part.startswith("BAD"):
                verdicts.append({"kind": "BAD", "id": None, "episode": 0, "step": 0, "text": part[:700]})
    # tie 3: the recorded real schedules replayed on the data-carrying interleaving model (ConcData.creplay)
    dl = sorted(set(dlines))
    q3 = subprocess.run([common.DRIVER, "cdata"], input="\n".join(dl) + "\n", stdout=subprocess.PIPE, stderr=subprocess.STDOUT, env=common.ENV, text=True)
    if os.environ.get("VERIF_DUMP_CDATA"):
        with open(os.environ["VERIF_DUMP_CDATA"], "a") as fh:
            for l in q3.stdout.splitlines():
                if l.startswith("DIFF") or l.startswith("BAD"):
                    fh.write(l + "\n")
    for l in q3.stdout.splitlines():
        if l.startswith("DIFF") or l.startswith("BAD"):
            verdicts.append({"kind": l.split(" ")[0], "id": None, "episode": 0, "step": 0, "text": "schedule replay: " + l[:1200]})
    acc["events"]["distinct-real-schedules-replayed-on-the-interleaving-model"] = len(dl)
    # tie 2: sequential probe histories vs the model, from the dumped quiescent state
    q2 = subprocess.run([common.DRIVER, "macro"], input=spec_text + "\n".join(probe_text) + "\n", stdout=subprocess.PIPE,
                        stderr=subprocess.STDOUT, env=common.ENV, text=True)
    probes = 0
    for l in q2.stdout.splitlines():
        if l.startswith("DIFF") or l.startswith("BAD"):
            verdicts.append({"kind": l.split(" ")[0], "id": None, "episode": 0, "step": 0, "text": "probe after scheduled run: " + l[:900]})
        m = re.search(r"SUMMARY lines=(\d+)", l)
        if m:
            probes = int(m.group(1))
    acc["events"]["distinct-lock-traces-checked-against-skeletons"] = len(tl)
    acc["events"]["probe-steps-compared-with-model"] = probes
    acc["events"]["programs"] = programs
    acc["events"]["programs-explored-exhaustively"] = exhaustive_programs
    return {"episodes": runs, "corpus_episodes": 0, "acc": acc, "verdicts": verdicts, "model_runs": len(tl) + probes,
            "extra": {"scheduled_runs": runs, "programs": programs, "programs_explored_exhaustively": exhaustive_programs}}
