/-
  C15 (concurrent clause) — "hits + misses equals the number of lookups performed, and a lookup counts as
  a hit exactly when an unexpired entry was found; these counters are exact under any number of concurrent
  callers."

  Model: the data-carrying interleaving model `Cachelito.ConcData` (any number of threads, any programs,
  any schedule, both engines, every policy / limit / ttl / max_memory).  The two counters are fields of
  the shared state; the real code bumps them with one atomic `fetch_add` per lookup, so a counter bump is
  part of the micro-step it textually follows.

  WHERE the model bumps the counters (and where the real code does):
    * absent key       : `missStat + 1` in the READ micro-step              (real: right after the read section)
    * unexpired entry  : `hitStat + 1`  in the READ micro-step              (real sync: `record_hit` after the `M.r`
                          block, BEFORE the LRU `[O]` / LFU `[M.w]` update sections; real async: after dropping
                          the shard guard, before the `[O]` refresh section) — same place
    * expired entry    : nothing in the read micro-step, `missStat + 1` in the REMOVAL micro-step
                          (real sync: inside the `[O{M.w}]` section; real async: after `cache.remove` / `retain`,
                          the queue-mutex guard still alive) — same place
  So a lookup is COUNTED (`countedT`) iff it has finished, or it is a hit between its read micro-step and its
  last micro-step (local state `refresh` / `move` / `bump`).  An expired lookup that has read but not yet
  removed (`expire`) is not counted yet: between those two micro-steps `hits + misses` is one behind the
  number of lookups STARTED — in the real code as well.

    `counters_exact_at_every_point`   every reachable point: each counter = initial value + counted lookups
    `counters_exact_at_quiescence`    no operation in progress: hits = lookups that returned a value,
                                      misses = lookups that returned nothing, hits + misses = number of
                                      `get` operations executed = number of `.val _` records
    `read_step_outcome`, `expired_removal_counts_miss`, `hit_continuations_keep_counters`
                                      a lookup is a hit exactly when an unexpired entry was found
    `other_operations_keep_counters`  no other operation touches the counters
  Nothing is partial.  Helper lemmas: `Cachelito/Lemmas/ConcStats.lean`.
-/
import Cachelito.Lemmas.ConcStats

set_option linter.unusedSectionVars false
set_option linter.unusedSimpArgs false
set_option linter.unusedVariables false

namespace Cachelito.C15c
open Cachelito Cachelito.ConcData

variable {K V S : Type} [DecidableEq K]

/-- **Exact at every point of every interleaving** (both engines; also for the unfixed code).  After any
    schedule, `hitStat` = initial value + over all threads (finished lookups that returned a value + 1 if
    the thread is a hit between its read and its last micro-step); `missStat` = initial value + finished
    lookups that returned nothing; and `hitStat + missStat` = initial sum + the number of lookups whose
    counting micro-step has executed. -/
theorem counters_exact_at_every_point (legacy : Bool) (cfg : Cfg) (tl : Tlru S) (size : V → Nat)
    (s0 : State K V) (progs : List (List (Op K V × List Nat))) (sch : List ThreadId) :
    (crunWith legacy cfg tl size sch (CState.start s0 progs)).shared.hitStat
      = s0.hitStat + ((crunWith legacy cfg tl size sch (CState.start s0 progs)).threads.map hitsT).sum ∧
    (crunWith legacy cfg tl size sch (CState.start s0 progs)).shared.missStat
      = s0.missStat + ((crunWith legacy cfg tl size sch (CState.start s0 progs)).threads.map missesT).sum ∧
    (crunWith legacy cfg tl size sch (CState.start s0 progs)).shared.hitStat
      + (crunWith legacy cfg tl size sch (CState.start s0 progs)).shared.missStat
      = s0.hitStat + s0.missStat
        + ((crunWith legacy cfg tl size sch (CState.start s0 progs)).threads.map countedT).sum := by
  have h := (crunWith_counts legacy cfg tl size s0 progs sch).1
  refine ⟨h.1, h.2, ?_⟩
  have hsum : ∀ l : List (Thread K V), (l.map countedT).sum = (l.map hitsT).sum + (l.map missesT).sum := by
    intro l
    induction l with
    | nil => rfl
    | cons a l ih => simp only [List.map_cons, List.sum_cons, ih, countedT_eq]; omega
  rw [h.1, h.2, hsum]; omega

/-- every finished operation of every thread reports a value (`.val _`) iff it is a lookup -/
theorem record_is_lookup_iff_value (legacy : Bool) (cfg : Cfg) (tl : Tlru S) (size : V → Nat)
    (s0 : State K V) (progs : List (List (Op K V × List Nat))) (sch : List ThreadId) :
    ∀ t, t ∈ (crunWith legacy cfg tl size sch (CState.start s0 progs)).threads →
      ∀ op o, (op, o) ∈ t.done → ((∃ k, op = .get k) ↔ (∃ v, o = .val v)) := by
  intro t ht op o hr
  have h := (crunWith_counts legacy cfg tl size s0 progs sch).2 t ht (op, o) hr
  cases op <;> cases o <;> simp [isGet, isValOut] at h ⊢

/-- **Exact at quiescence** (no operation in progress — in particular once all callers have returned):
    `hitStat` = initial + number of lookups that returned a value, `missStat` = initial + number of lookups
    that returned nothing (absent or expired), and `hitStat + missStat` = initial + number of `get`
    operations executed by all threads (= number of `.val _` records). -/
theorem counters_exact_at_quiescence (legacy : Bool) (cfg : Cfg) (tl : Tlru S) (size : V → Nat)
    (s0 : State K V) (progs : List (List (Op K V × List Nat))) (sch : List ThreadId)
    (hq : Quiescent (crunWith legacy cfg tl size sch (CState.start s0 progs))) :
    (crunWith legacy cfg tl size sch (CState.start s0 progs)).shared.hitStat
      = s0.hitStat + ((crunWith legacy cfg tl size sch (CState.start s0 progs)).threads.map
          (fun t => (t.done.filter (fun r => isHitOut r.2)).length)).sum ∧
    (crunWith legacy cfg tl size sch (CState.start s0 progs)).shared.missStat
      = s0.missStat + ((crunWith legacy cfg tl size sch (CState.start s0 progs)).threads.map
          (fun t => (t.done.filter (fun r => isMissOut r.2)).length)).sum ∧
    (crunWith legacy cfg tl size sch (CState.start s0 progs)).shared.hitStat
      + (crunWith legacy cfg tl size sch (CState.start s0 progs)).shared.missStat
      = s0.hitStat + s0.missStat + ((crunWith legacy cfg tl size sch (CState.start s0 progs)).threads.map
          (fun t => (t.done.filter (fun r => isGet r.1)).length)).sum ∧
    ((crunWith legacy cfg tl size sch (CState.start s0 progs)).threads.map
          (fun t => (t.done.filter (fun r => isGet r.1)).length)).sum
      = ((crunWith legacy cfg tl size sch (CState.start s0 progs)).threads.map
          (fun t => (t.done.filter (fun r => isValOut r.2)).length)).sum := by
  have h := counters_exact_at_every_point legacy cfg tl size s0 progs sch
  have hshape := (crunWith_counts legacy cfg tl size s0 progs sch).2
  generalize crunWith legacy cfg tl size sch (CState.start s0 progs) = c at h hq hshape
  have e1 : c.threads.map hitsT = c.threads.map (fun t => (t.done.filter (fun r => isHitOut r.2)).length) := by
    apply List.map_congr_left
    intro t ht
    unfold hitsT; rw [hq t ht]; rfl
  have e2 : c.threads.map countedT = c.threads.map (fun t => (t.done.filter (fun r => isValOut r.2)).length) := by
    apply List.map_congr_left
    intro t ht
    unfold countedT; rw [hq t ht]; rfl
  have e3 : c.threads.map (fun t => (t.done.filter (fun r => isGet r.1)).length)
      = c.threads.map (fun t => (t.done.filter (fun r => isValOut r.2)).length) := by
    apply List.map_congr_left
    intro t ht
    congr 1
    apply List.filter_congr
    intro r hr
    exact hshape t ht r hr
  rw [e1, e2] at h
  exact ⟨h.1, h.2.1, by rw [e3]; exact h.2.2, by rw [e3]⟩

/-! ### A lookup counts as a hit exactly when an unexpired entry was found -/

/-- **The read micro-step of a lookup** (fixed code, both engines).
    * absent key: the lookup finishes, reports nothing, `missStat + 1`;
    * expired entry found: nothing is counted and nothing changes yet, the removal micro-step is pending;
    * unexpired entry found: `hitStat + 1`, `missStat` unchanged, and the lookup reports that entry's value —
      now, or after its recency / frequency sections (`hitPend = 1`: already counted). -/
theorem read_step_outcome (cfg : Cfg) (tl : Tlru S) (size : V → Nat) (s : State K V) (k : K) (rs : List Nat) :
    (lookup k s.store = none →
      micro false cfg tl size s (.get k) rs none
        = ({ s with missStat := s.missStat + 1 }, .fin (.get k) (.val none))) ∧
    (∀ e, lookup k s.store = some e → expired cfg s.now e = true →
      micro false cfg tl size s (.get k) rs none = (s, .more (.expire k))) ∧
    (∀ e, lookup k s.store = some e → expired cfg s.now e = false →
      (micro false cfg tl size s (.get k) rs none).1.hitStat = s.hitStat + 1 ∧
      (micro false cfg tl size s (.get k) rs none).1.missStat = s.missStat ∧
      ((micro false cfg tl size s (.get k) rs none).2 = .fin (.get k) (.val (some e.val)) ∨
       (micro false cfg tl size s (.get k) rs none).2 = .more (.refresh k e.val) ∨
       (micro false cfg tl size s (.get k) rs none).2 = .more (.move k e.val) ∨
       (micro false cfg tl size s (.get k) rs none).2 = .more (.bump k e.val))) := by
  refine ⟨?_, ?_, ?_⟩
  · intro hl; simp [micro, first, hl]
  · intro e hl hx; simp [micro, first, hl, hx]
  · intro e hl hx
    simp only [micro, first, hl, hx, Bool.false_eq_true, if_false]
    split
    · split
      · exact ⟨rfl, rfl, Or.inr (Or.inl rfl)⟩
      · exact ⟨rfl, rfl, Or.inl rfl⟩
    · split
      · exact ⟨rfl, rfl, Or.inr (Or.inr (Or.inl rfl))⟩
      · split
        · exact ⟨rfl, rfl, Or.inr (Or.inr (Or.inr rfl))⟩
        · exact ⟨rfl, rfl, Or.inl rfl⟩

/-- **An expired lookup counts as a miss**: its removal micro-step finishes the lookup, reports nothing,
    `missStat + 1`, `hitStat` unchanged (both engines). -/
theorem expired_removal_counts_miss (legacy : Bool) (cfg : Cfg) (tl : Tlru S) (size : V → Nat) (s : State K V)
    (op : Op K V) (k : K) (rs : List Nat) :
    (micro legacy cfg tl size s op rs (some (.expire k))).2 = .fin (.get k) (.val none) ∧
    (micro legacy cfg tl size s op rs (some (.expire k))).1.missStat = s.missStat + 1 ∧
    (micro legacy cfg tl size s op rs (some (.expire k))).1.hitStat = s.hitStat := by
  simp only [micro]
  split <;> exact ⟨rfl, rfl, rfl⟩

/-- **The later micro-steps of a hit do not count again and end by reporting the value**: the recency /
    frequency sections of a hit leave both counters unchanged, and what they lead to is again a hit in
    progress or the finished lookup reporting `some v`. -/
theorem hit_continuations_keep_counters (legacy : Bool) (cfg : Cfg) (tl : Tlru S) (size : V → Nat) (s : State K V)
    (op : Op K V) (rs : List Nat) (p : Pend K V) (hp : PendFits legacy cfg op (some p))
    (hh : hitPend (some p) = 1) :
    (micro legacy cfg tl size s op rs (some p)).1.hitStat = s.hitStat ∧
    (micro legacy cfg tl size s op rs (some p)).1.missStat = s.missStat ∧
    resHit (micro legacy cfg tl size s op rs (some p)).2 = 1 := by
  obtain ⟨hok, _⟩ := hp
  cases p with
  | refresh k v =>
    have ha : isAsync cfg = true := hok
    simp only [micro, ha, if_true]
    exact ⟨rfl, rfl, rfl⟩
  | move k v =>
    have ha : isAsync cfg = false := hok
    simp only [micro, ha, Bool.false_eq_true, if_false, contSync]
    split <;> exact ⟨rfl, rfl, rfl⟩
  | bump k v =>
    have ha : isAsync cfg = false := hok
    simp only [micro, ha, Bool.false_eq_true, if_false]
    exact ⟨rfl, rfl, rfl⟩
  | expire k => simp [hitPend] at hh
  | track k v r => simp [hitPend] at hh
  | trackMem k v rs => simp [hitPend] at hh
  | purge p ks => simp [hitPend] at hh
  | legacyClearQueue => simp [hitPend] at hh
  | legacyDrop k => simp [hitPend] at hh
  | legacyRetain k => simp [hitPend] at hh

/-- **No other operation touches the counters**: every micro-step of `insert`, `insert_with_memory`,
    `clear`, a conditional invalidation or a clock tick leaves `hitStat` and `missStat` unchanged. -/
theorem other_operations_keep_counters (legacy : Bool) (cfg : Cfg) (tl : Tlru S) (size : V → Nat) (s : State K V)
    (op : Op K V) (rs : List Nat) (pend : Option (Pend K V)) (hop : ∀ k, op ≠ .get k)
    (hp : PendFits legacy cfg op pend) :
    (micro legacy cfg tl size s op rs pend).1.hitStat = s.hitStat ∧
    (micro legacy cfg tl size s op rs pend).1.missStat = s.missStat := by
  have hnp : ∀ p : Pend K V, p.opOf = op → hitPend (some p) = 0 := by
    intro p hpo
    cases p <;> first | rfl | exact absurd hpo.symm (hop _)
  have hc := micro_counts legacy cfg tl size s op rs pend hp
  have hf := micro_fits legacy cfg tl size s op rs pend hp
  have h0 : hitPend pend = 0 := by
    cases pend with
    | none => rfl
    | some p => exact hnp p hp.2
  cases hr : (micro legacy cfg tl size s op rs pend).2 with
  | more p =>
    rw [hr] at hc hf
    have := hnp p hf.2
    simp only [resHit, resMiss] at hc
    omega
  | fin op' o =>
    have hshape := micro_shape legacy cfg tl size s op rs pend op' o hr
    rw [hr] at hc hf
    have hop' : op' = op := hf
    have hg : isGet op' = false := by
      rw [hop']; cases op <;> first | rfl | exact absurd rfl (hop _)
    rw [hg] at hshape
    have ho : o = .unit := by cases o <;> simp [isValOut] at hshape ⊢
    subst ho
    simp only [resHit, resMiss, isHitOut, isMissOut, Bool.false_eq_true, if_false] at hc
    omega

/-! ### Non-vacuity -/

def exTl : Tlru Nat := ⟨fun a b => decide (a < b), fun _ h _ r => h * r⟩
def cfgSyncTtl : Cfg := ⟨.global, .arc, some 2, none, some 1⟩
def cfgAsyncTtl : Cfg := ⟨.async, .lru, some 2, none, some 1⟩

/-- key 1 stored at time 0 (expired at `now = 5 s`, ttl 1 s), key 2 stored at time 5 s (fresh) -/
def st0 : State Nat Nat := ⟨[(1, ⟨10, 0, 0⟩), (2, ⟨20, 5000, 0⟩)], [1, 2], 5000, 0, 0⟩
def progs3 : List (List (Op Nat Nat × List Nat)) :=
  [[(.get 1, []), (.get 2, [])], [(.get 2, []), (.get 3, [])], [(.insert 3 30, []), (.get 3, [])]]

/-- Sync (ARC: a hit has three micro-steps), three threads, 5 lookups interleaved with a store: after
    thread 0 has READ the expired key 1 and thread 1 is a hit in progress, 1 lookup is counted (the hit),
    the expired one is not yet; at quiescence hits = 3, misses = 2 (expired key 1; key 3 looked up by
    thread 1 before thread 2 stored it), 5 lookups. -/
example :
    (crun cfgSyncTtl exTl (fun _ => 0) [0, 1] (CState.start st0 progs3)).shared.hitStat = 1 ∧
    (crun cfgSyncTtl exTl (fun _ => 0) [0, 1] (CState.start st0 progs3)).shared.missStat = 0 ∧
    ((crun cfgSyncTtl exTl (fun _ => 0) [0, 1] (CState.start st0 progs3)).threads.map countedT) = [0, 1, 0] ∧
    allDoneB (crun cfgSyncTtl exTl (fun _ => 0) [0, 1, 0, 1, 1, 1, 2, 0, 0, 0, 2, 2, 2, 2]
      (CState.start st0 progs3)) = true ∧
    (crun cfgSyncTtl exTl (fun _ => 0) [0, 1, 0, 1, 1, 1, 2, 0, 0, 0, 2, 2, 2, 2]
      (CState.start st0 progs3)).shared.hitStat = 3 ∧
    (crun cfgSyncTtl exTl (fun _ => 0) [0, 1, 0, 1, 1, 1, 2, 0, 0, 0, 2, 2, 2, 2]
      (CState.start st0 progs3)).shared.missStat = 2 ∧
    ((crun cfgSyncTtl exTl (fun _ => 0) [0, 1, 0, 1, 1, 1, 2, 0, 0, 0, 2, 2, 2, 2]
      (CState.start st0 progs3)).threads.map (fun t => t.done.map (fun r => match r.2 with | .val o => o | .unit => none)))
      = [[none, some 20], [some 20, none], [none, some 30]] := by
  decide

/-- the same programs on the async engine (LRU: a hit is read + refresh) -/
example :
    allDoneB (crun cfgAsyncTtl exTl (fun _ => 0) [0, 1, 0, 1, 1, 2, 0, 0, 2, 2]
      (CState.start st0 progs3)) = true ∧
    (crun cfgAsyncTtl exTl (fun _ => 0) [0, 1, 0, 1, 1, 2, 0, 0, 2, 2] (CState.start st0 progs3)).shared.hitStat = 3 ∧
    (crun cfgAsyncTtl exTl (fun _ => 0) [0, 1, 0, 1, 1, 2, 0, 0, 2, 2] (CState.start st0 progs3)).shared.missStat = 2 := by
  decide

end Cachelito.C15c
