/-
  Cachelito.Async — the three phases of a `#[cache_async]` call and calls that are suspended at an
  await inside their body, resumed later, or dropped there.

  `cachelito-async-macros/src/lib.rs:34-77`: `lookup` (get + invalidate_on check, synchronous),
  `(async body).await` (no cache access, no guard alive), `store` (synchronous).  A suspended call is a
  value of type `PendingCall`: it holds the key and the trace so far — and no lock (see
  `Cachelito.C17.suspended_holds_nothing`).
-/
import Cachelito.System

namespace Cachelito

variable {K V S : Type} [DecidableEq K]

/-- phase 1: lookup and staleness check.  `inl (v, trace)` = served from the cache, the call is over;
    `inr pre` = the body has to run, `pre` is the trace so far. -/
def callLookup (spec : FnSpec) (s : State K V) (c : CallIn K V) :
    State K V × (V × List (TraceEv K V) ⊕ List (TraceEv K V)) :=
  let (s1, o) := get spec.cfg s c.key
  match o with
  | some cached =>
    if spec.hasInvalidateOn then
      let stale := c.invalidateOn c.key cached
      if stale then (s1, .inr [TraceEv.checkCalled c.key cached true])
      else (s1, .inl (cached, [TraceEv.checkCalled c.key cached false, TraceEv.returned cached true]))
    else (s1, .inl (cached, [TraceEv.returned cached true]))
  | none => (s1, .inr [])

/-- phase 3: the body has produced `c.bodyVal`; predicate, store, return — on the CURRENT state of the cache -/
def callFinish (spec : FnSpec) (tl : Tlru S) (size : V → Nat) (isOk : V → Bool) (rs : List Nat)
    (s : State K V) (c : CallIn K V) (pre : List (TraceEv K V)) : State K V × V × List (TraceEv K V) :=
  let r := c.bodyVal
  let accept := c.cacheIf c.key r
  let t1 := pre ++ [TraceEv.bodyRun] ++ (if spec.hasCacheIf then [TraceEv.predCalled c.key r accept] else [])
  if shouldStore spec isOk accept r then
    let s2 := if spec.useMem then insertMem spec.cfg tl size rs s c.key r
              else insert spec.cfg tl (rs.headD 0) s c.key r
    (s2, r, t1 ++ [TraceEv.stored c.key r, TraceEv.returned r false])
  else (s, r, t1 ++ [TraceEv.returned r false])

/-- a call suspended inside its body -/
structure PendingCall (K V : Type) where
  id : Nat
  fn : Nat
  c : CallIn K V
  pre : List (TraceEv K V)

structure ASys (K V : Type) where
  sys : Sys K V
  pending : List (PendingCall K V)

inductive AOp (K V : Type)
  | base (op : SysOp K V)
  | callBegin (id : Nat) (fn : Nat) (c : CallIn K V)     -- poll until the body's await suspends (or the call returns)
  | callResume (id : Nat)                                -- poll the suspended call to completion
  | callDrop (id : Nat)                                  -- drop the suspended future

inductive AOut (K V : Type)
  | base (o : SysOut K V)
  | ret (v : V) (trace : List (TraceEv K V))
  | suspended (trace : List (TraceEv K V))
  | unit
  | noSuchCall

def ASys.init : ASys K V := ⟨Sys.init, []⟩

def aStep (fns : List FnSpec) (tls : Nat → Tlru S) (size : V → Nat) (isOk : V → Bool) (rs : List Nat)
    (a : ASys K V) : AOp K V → ASys K V × AOut K V
  | .base op => let (s', o) := sysStep fns tls size isOk rs a.sys op; ({ a with sys := s' }, .base o)
  | .callBegin id fn c =>
    match fns[fn]? with
    | none => (a, .noSuchCall)
    | some spec =>
      let cid : CacheId := ⟨fn, none⟩          -- async functions always use the shared instance
      let (s1, r) := callLookup spec (a.sys.getCache cid) c
      let sys1 := a.sys.setCache cid s1
      let sys1 := if sys1.called.contains fn then sys1 else { sys1 with called := fn :: sys1.called }
      match r with
      | .inl (v, tr) => ({ a with sys := sys1 }, .ret v tr)
      | .inr pre => ({ sys := sys1, pending := ⟨id, fn, c, pre⟩ :: a.pending }, .suspended pre)
  | .callResume id =>
    match a.pending.find? (fun p => p.id = id) with
    | none => (a, .noSuchCall)
    | some p =>
      match fns[p.fn]? with
      | none => (a, .noSuchCall)
      | some spec =>
        let cid : CacheId := ⟨p.fn, none⟩
        let (s2, v, tr) := callFinish spec (tls p.fn) size isOk rs (a.sys.getCache cid) p.c p.pre
        ({ sys := a.sys.setCache cid s2, pending := a.pending.filter (fun q => q.id ≠ id) }, .ret v tr)
  | .callDrop id =>
    ({ a with pending := a.pending.filter (fun q => q.id ≠ id) }, .unit)

def aRun (fns : List FnSpec) (tls : Nat → Tlru S) (size : V → Nat) (isOk : V → Bool) :
    ASys K V → List (AOp K V × List Nat) → ASys K V × List (AOut K V)
  | a, [] => (a, [])
  | a, (op, rs) :: ops =>
    let (a1, o) := aStep fns tls size isOk rs a op
    let (a2, os) := aRun fns tls size isOk a1 ops
    (a2, o :: os)

end Cachelito
