/-
  C19 — Macro attributes mean what they say, for every valid combination (PARSER part).

  `Attrs.lean` transcribes `parse_sync_attributes` / `parse_async_attributes`
  (`cachelito-macro-utils/src/lib.rs`, including the repairs 82aef8c and 1b1b026) as
  `parseSync` / `parseAsync : AttrList → Except Reject Parsed`.  The specification is written independently:
  `Valid k l` (every name known to macro `k`, every value of the right literal kind and in range) and
  `meaning k l` ("as written": the LAST value written for each attribute, defaults otherwise,
  `n KB/MB/GB = n·1024^{1,2,3}`).

  Theorems
    T1  `parse_valid`, `parseSync_valid`, `parseAsync_valid`, `valid_compiles`, `valid_cfg`
        — every valid list is accepted with exactly its meaning; that meaning is the `Cfg` of the core cache.
    T2  `unknown_name_rejected`, `invalid_policy_rejected`, `invalid_scope_rejected`, `async_scope_rejected`,
        `invalid_limit_rejected`, `invalid_ttl_rejected`, `invalid_max_memory_rejected`,
        `invalid_frequency_weight_rejected`, `invalid_rejected`
        — an unknown name or an invalid value ANYWHERE in the list (overridden later or not) is rejected at
        compile time (parser `Err` or panic); `max_memory_overflow_rejected` — sizes that do not fit in `usize`
        are rejected whatever the build profile; `compiles_iff_ok` — nothing is left to spliced tokens;
        `accepted_limit`, `accepted_ttl`, `accepted_max_memory` — conversely whatever is accepted carries the
        value of the last occurrence, and for `max_memory` strings that is `n·1024^k` of a `[+]digits(unit)^j` form.
    T3  `hasMaxMemory_eq_false_iff`, `hasMaxMemory_meaning`, `hasMaxMemory_default` — the textual `"None"` test is sound.
    T4  `meaning_max_memory_units`, `parse_max_memory_units` — KB/MB/GB arithmetic for every number.
    T5  `isResultSpelling_iff`, `isResultSpelling_core_false`, … — exactly the two spellings modulo spaces.
  Observations reproduced by the model (examples at the end): a repeated attribute takes its last value;
  `name = 5` is silently ignored; `"1GBGB"` is 1 GB; a leading `+` is accepted; integer `frequency_weight`
  (even `0`) is accepted.
  Regression witnesses (`Legacy.parse` = the parser before the repairs): `#[cache(limit = "x", limit = 2)]`
  compiled (finding F9) and `max_memory = "17179869184GB"` wrapped to `Some(0)` without overflow checks
  (finding F10); both are refuted for the repaired parser by the theorems above.
-/
import Cachelito.Lemmas.Attrs

set_option linter.unusedSimpArgs false
set_option linter.unusedVariables false

namespace Cachelito.C19
open Cachelito Cachelito.Attrs

/-! ### T1 — valid lists are accepted with their meaning -/

/-- **Every valid attribute list is accepted, with exactly the values it writes.**  For both macros: if every
    name is known and every value is valid, the parser returns (no `Err`, no panic) the record that carries,
    for each attribute, the last value written for it, and the default where none was written. -/
theorem parse_valid (k : Kind) (l : AttrList) (h : Valid k l) :
    parse k l = .ok (meaning k l).toParsed := by
  have := parseLoop_meaning k l [] h
  rw [meaning_nil] at this
  simpa [parse] using this

/-- T1 for `#[cache(...)]` (`parse_sync_attributes`). -/
theorem parseSync_valid (l : AttrList) (h : Valid .sync l) :
    parseSync l = .ok (meaning .sync l).toParsed := parse_valid .sync l h

/-- T1 for `#[cache_async(...)]` (`parse_async_attributes`). -/
theorem parseAsync_valid (l : AttrList) (h : Valid .async l) :
    parseAsync l = .ok (meaning .async l).toParsed := parse_valid .async l h

/-- Every valid attribute list gets through attribute parsing (no failure mechanism fires). -/
theorem valid_compiles (k : Kind) (l : AttrList) (h : Valid k l) : compiles (parse k l) = true := by
  rw [parse_valid k l h]; rfl

/-- The core-cache configuration built from a valid list: `limit`, `policy`, `ttl`, `max_memory` are the
    written values and the engine is chosen by the macro and the `scope`. -/
theorem valid_cfg (k : Kind) (l : AttrList) :
    ((meaning k l).toCfg k).limit = natOf (lastVal "limit" l) ∧
    ((meaning k l).toCfg k).ttl = natOf (lastVal "ttl" l) ∧
    ((meaning k l).toCfg k).maxMem = memOf (lastVal "max_memory" l) ∧
    ((meaning k l).toCfg k).policy = (match strOf (lastVal "policy" l) with
      | some s => policyOfName s
      | none => .fifo) ∧
    ((meaning k l).toCfg k).flavour = (match k with
      | .async => .async
      | .sync => if strOf (lastVal "scope" l) = some "thread" then .threadLocal else .global) := by
  refine ⟨rfl, rfl, rfl, rfl, ?_⟩
  cases k
  · simp only [Meaning.toCfg, meaning]
    cases hs : strOf (lastVal "scope" l) with
    | none => simp
    | some s => by_cases h : s = "thread" <;> simp [h]
  · rfl

/-! ### T2 — unknown names and invalid values are rejected, wherever they stand -/

/-- a failing iteration anywhere makes the macro invocation fail -/
theorem rejected_of_step (k : Kind) (l : AttrList) {n : String} {v : AttrVal} (hmem : (n, v) ∈ l)
    (hstep : ∀ st, ∃ e, stepAttr k st n v = .error e) : compiles (parse k l) = false := by
  obtain ⟨e, he⟩ := parseLoop_error_of_mem k hstep l Parsed.default hmem
  simp [parse, he, compiles]

/-- **Unknown attribute names are rejected**, wherever they stand in the list and whatever else it contains. -/
theorem unknown_name_rejected (k : Kind) (l : AttrList) {n : String} {v : AttrVal}
    (hmem : (n, v) ∈ l) (hn : (knownNames k).contains n = false) : compiles (parse k l) = false :=
  rejected_of_step k l hmem (fun st => ⟨_, stepAttr_unknown k st v hn⟩)

/-- **An invalid `policy` value is rejected** (anything but a string literal naming one of the six policies). -/
theorem invalid_policy_rejected (k : Kind) (l : AttrList) {v : AttrVal}
    (hmem : ("policy", v) ∈ l) (hv : validPolicy v = false) : compiles (parse k l) = false :=
  rejected_of_step k l hmem (fun st => by obtain ⟨m, hm⟩ := stepAttr_policy_invalid k st hv; exact ⟨_, hm⟩)

/-- **An invalid `scope` value is rejected** by `#[cache]` (anything but `"global"` / `"thread"`). -/
theorem invalid_scope_rejected (l : AttrList) {v : AttrVal}
    (hmem : ("scope", v) ∈ l) (hv : validScope v = false) : compiles (parse .sync l) = false :=
  rejected_of_step .sync l hmem (fun st => by obtain ⟨m, hm⟩ := stepAttr_scope_invalid st hv; exact ⟨_, hm⟩)

/-- `#[cache_async]` has no `scope` attribute: any `scope = …` is rejected as an unknown attribute. -/
theorem async_scope_rejected (l : AttrList) {v : AttrVal} (hmem : ("scope", v) ∈ l) :
    compiles (parse .async l) = false :=
  unknown_name_rejected .async l hmem (by decide)

/-- **An invalid `limit` is rejected**: ANY occurrence of `limit` whose value is not a non-negative integer
    literal below `2^64` fails the compilation, even if a later `limit = …` is valid. -/
theorem invalid_limit_rejected (k : Kind) (l : AttrList) {v : AttrVal}
    (hmem : ("limit", v) ∈ l) (hv : validLimit v = false) : compiles (parse k l) = false :=
  rejected_of_step k l hmem (fun st => stepAttr_limit_invalid k st hv)

/-- **An invalid `ttl` is rejected**, anywhere (`Err`, or the `.expect` panic for an integer literal that is
    negative or does not fit in `u64`). -/
theorem invalid_ttl_rejected (k : Kind) (l : AttrList) {v : AttrVal}
    (hmem : ("ttl", v) ∈ l) (hv : validTtl v = false) : compiles (parse k l) = false :=
  rejected_of_step k l hmem (fun st => stepAttr_ttl_invalid k st hv)

/-- **An invalid `max_memory` is rejected**, anywhere and whatever the build profile: a string that is not
    `[+]digits(unit)^j`, a number that does not fit in `usize` before or after the multiplication, a negative
    or oversized integer literal, or any other kind of expression. -/
theorem invalid_max_memory_rejected (k : Kind) (l : AttrList) {v : AttrVal}
    (hmem : ("max_memory", v) ∈ l) (hv : badMaxMemory v = true) : compiles (parse k l) = false :=
  rejected_of_step k l hmem (fun st => stepAttr_maxMemory_invalid k st hv)

/-- **An invalid `frequency_weight` is rejected**, anywhere: a float literal that is negative, zero, rounds to
    zero or to infinity, a negative or oversized integer literal, or any other kind of expression. -/
theorem invalid_frequency_weight_rejected (k : Kind) (l : AttrList) {v : AttrVal}
    (hmem : ("frequency_weight", v) ∈ l) (hv : badFrequencyWeight v = true) : compiles (parse k l) = false :=
  rejected_of_step k l hmem (fun st => stepAttr_frequencyWeight_invalid k st hv)

/-- T2 in one statement: exactly the predicate `mustRejectAttr` evaluated by monitor M1 of `attrs_diff`. -/
theorem invalid_rejected (k : Kind) (l : AttrList) {n : String} {v : AttrVal} (hmem : (n, v) ∈ l)
    (h : mustRejectAttr k n v = true) : compiles (parse k l) = false := by
  unfold mustRejectAttr at h
  split at h
  · rename_i hn
    exact unknown_name_rejected k l hmem (by simpa using hn)
  split at h
  · subst n; exact invalid_limit_rejected k l hmem (by simpa using h)
  split at h
  · subst n; exact invalid_policy_rejected k l hmem (by simpa using h)
  split at h
  · subst n; exact invalid_ttl_rejected k l hmem (by simpa using h)
  split at h
  · subst n
    cases k with
    | async => exact async_scope_rejected l hmem
    | sync => exact invalid_scope_rejected l hmem (by simpa using h)
  split at h
  · subst n; exact invalid_max_memory_rejected k l hmem h
  split at h
  · subst n; exact invalid_frequency_weight_rejected k l hmem h
  · simp at h

/-- **Sizes that overflow are rejected** (commit 1b1b026; the model has no overflow-check parameter any
    more because nothing depends on it): whenever the last factor `n · 1024^e` of a `[+]n(unit)^j` string does
    not fit in `usize`, the list does not compile. -/
theorem max_memory_overflow_rejected (k : Kind) (l : AttrList) {s : String} {n e : Nat}
    (hmem : ("max_memory", .strLit s) ∈ l) (hs : mmLenient s = some (n, e)) (hov : usizeBound ≤ n * 1024 ^ e) :
    compiles (parse k l) = false :=
  invalid_max_memory_rejected k l hmem (by simp [badMaxMemory, hs, hov])

/-- Nothing is left to spliced `compile_error!` tokens: a list compiles exactly when the parser returns `Ok`. -/
theorem compiles_iff_ok (k : Kind) (l : AttrList) : compiles (parse k l) = true ↔ ∃ p, parse k l = .ok p := by
  cases hp : parse k l with
  | error e => simp [compiles]
  | ok p =>
    obtain ⟨h1, h2, h3, h4⟩ := parse_ok_fields hp
    simp [compiles, h1, h2, h3, h4]

/-- Whatever is accepted carries the `limit` written last (no valid list needed). -/
theorem accepted_limit (k : Kind) (l : AttrList) {p : Parsed} (hp : parse k l = .ok p) :
    p.limit = .ok (meaning k l).limit := by
  have := parseLoop_limit (k := k) (l := l) (st := Parsed.default) (p := p) hp
  cases hl : lastVal "limit" l with
  | none => simp only [hl] at this; simp [this, meaning, hl, natOf, Parsed.default]
  | some v =>
    simp only [hl] at this
    by_cases hv : validLimit v = true
    · rw [← this.1, parseLimit_of_valid hv]; simp [meaning, hl]
    · have h' := parseLimit_invalid (v := v) (by simpa using hv)
      rw [this.1, this.2] at h'; cases h'

/-- Whatever is accepted carries the `ttl` written last. -/
theorem accepted_ttl (k : Kind) (l : AttrList) {p : Parsed} (hp : parse k l = .ok p) :
    p.ttl = .ok (meaning k l).ttl := by
  have := parseLoop_ttl (k := k) (l := l) (st := Parsed.default) (p := p) hp
  cases hl : lastVal "ttl" l with
  | none => simp only [hl] at this; simp [this, meaning, hl, natOf, Parsed.default]
  | some v =>
    simp only [hl] at this
    by_cases hv : validTtl v = true
    · have h1 := this.1
      rw [parseTtl_of_valid hv] at h1
      simp at h1
      simp [← h1, meaning, hl]
    · have h' := parseTtl_invalid (v := v) (by simpa using hv) _ this.1
      rw [this.2] at h'; cases h'

/-- Whatever is accepted with a `max_memory` STRING carries `n · 1024^k` bytes, where the string reads
    `[+] n (unit)^j` and `k` is the exponent of the unit — nothing else is ever accepted. -/
theorem accepted_max_memory (k : Kind) (l : AttrList) {p : Parsed} (hp : parse k l = .ok p) {s : String}
    (hlast : lastVal "max_memory" l = some (.strLit s)) :
    ∃ n e, mmLenient s = some (n, e) ∧ n * 1024 ^ e < usizeBound ∧ p.maxMemory = .ok (some (n * 1024 ^ e)) := by
  have := parseLoop_maxMemory (k := k) (l := l) (st := Parsed.default) (p := p) hp
  rw [hlast] at this
  obtain ⟨h1, hok⟩ := this
  simp only [parseMaxMemory, parseMaxMemoryStr] at h1
  have h1 := Except.ok.inj h1
  unfold mmLenient
  cases hscan : scanMM (s.toList.map Char.toUpper) with
  | none =>
    obtain ⟨e, he⟩ := parseMaxMemoryUpper_of_scan_none hscan
    rw [he] at h1; rw [← h1] at hok; simp [Spliced.isOk] at hok
  | some r =>
    obtain ⟨sg, n, e, j⟩ := r
    by_cases hn : n < usizeBound
    · rw [parseMaxMemoryUpper_of_scan hscan hn] at h1
      by_cases hlt : n * 1024 ^ e < usizeBound
      · rw [mulUnit_of_lt hlt] at h1
        exact ⟨n, e, by simp [hn], hlt, h1.symm⟩
      · rw [mulUnit_of_ge (Nat.le_of_not_lt hlt)] at h1
        rw [← h1] at hok; simp [Spliced.isOk] at hok
    · obtain ⟨e', he⟩ := parseMaxMemoryUpper_of_scan_big hscan (by omega)
      rw [he] at h1; rw [← h1] at hok; simp [Spliced.isOk] at hok

/-! ### T3 — the textual `None` test -/

/-- `has_max_memory` (the test `!tokens.to_string().contains("None")`) is false exactly when the field holds
    the default `None` tokens: never for `Some(<n>usize)`, whatever the digits of `n` (and never for a
    `compile_error!` message of the parser, which the repaired parser no longer stores anyway). -/
theorem hasMaxMemory_eq_false_iff (k : Kind) (p : Parsed) : hasMaxMemory k p = false ↔ p.maxMemory = .ok none := by
  unfold hasMaxMemory
  cases hm : p.maxMemory with
  | compileError e => rw [mmTokens_ce]; simp
  | ok o =>
    cases o with
    | none => rw [mmTokens_none]; simp
    | some n => rw [mmTokens_some]; simp

/-- On the result of a valid list the textual test selects the memory-aware insert exactly when a
    `max_memory` was written. -/
theorem hasMaxMemory_meaning (k : Kind) (l : AttrList) :
    hasMaxMemory k (meaning k l).toParsed = (meaning k l).maxMemory.isSome := by
  cases h : (meaning k l).maxMemory with
  | none =>
    have := (hasMaxMemory_eq_false_iff k (meaning k l).toParsed).mpr (by simp [Meaning.toParsed, h])
    simp [this]
  | some n =>
    have hne : ¬ (hasMaxMemory k (meaning k l).toParsed = false) := by
      rw [hasMaxMemory_eq_false_iff]; simp [Meaning.toParsed, h]
    simpa using hne

/-- no `max_memory` attribute ⇒ the plain insert is generated -/
theorem hasMaxMemory_default (k : Kind) : hasMaxMemory k Parsed.default = false :=
  (hasMaxMemory_eq_false_iff k _).mpr rfl

/-! ### T4 — KB / MB / GB are powers of 1024 -/

/-- **Units.**  For every number `n` and unit exponent `e ≤ 3` (`""`, `KB`, `MB`, `GB` in any letter case) with
    `n·1024^e` representable, a list whose last `max_memory` is the string `<n><unit>` means `n·1024^e` bytes. -/
theorem meaning_max_memory_units (k : Kind) (l : AttrList) (n : Nat) {e : Nat} (he : e ≤ 3) (unit : List Char)
    (hu : unit.map Char.toUpper = unitStr e) (h : n * 1024 ^ e < usizeBound)
    (hlast : lastVal "max_memory" l = some (.strLit (String.ofList (Nat.toDigits 10 n ++ unit)))) :
    (meaning k l).maxMemory = some (n * 1024 ^ e) := by
  simp only [meaning, hlast, memOf]
  exact mmStrict_digits_unit n he unit hu h

/-- … and that is what the parser stores (`Some(<n·1024^e>usize)`). -/
theorem parse_max_memory_units (k : Kind) (n : Nat) {e : Nat} (he : e ≤ 3) (unit : List Char)
    (hu : unit.map Char.toUpper = unitStr e) (h : n * 1024 ^ e < usizeBound) :
    parse k [("max_memory", .strLit (String.ofList (Nat.toDigits 10 n ++ unit)))] =
      .ok { Parsed.default with maxMemory := .ok (some (n * 1024 ^ e)) } := by
  have hs := mmStrict_digits_unit n he unit hu h
  have hp := parseMaxMemoryStr_of_strict hs
  simp only [String.toList_ofList] at hp
  simp [parse, parseLoop, stepAttr, liftValue, parseMaxMemory, hp]

/-! ### T5 — `Result` detection -/

/-- `is_result` holds exactly for return types whose token string, spaces removed, starts with `Result<` or
    `std::result::Result<`. -/
theorem isResultSpelling_iff (s : String) :
    isResultSpelling s = true ↔
      (∃ rest, s.toList.filter (· ≠ ' ') = "Result<".toList ++ rest) ∨
      (∃ rest, s.toList.filter (· ≠ ' ') = "std::result::Result<".toList ++ rest) := by
  unfold isResultSpelling
  simp only [Bool.or_eq_true, List.isPrefixOf_iff_prefix]
  constructor
  · rintro (⟨r, hr⟩ | ⟨r, hr⟩)
    · exact Or.inl ⟨r, hr.symm⟩
    · exact Or.inr ⟨r, hr.symm⟩
  · rintro (⟨r, hr⟩ | ⟨r, hr⟩)
    · exact Or.inl ⟨r, hr.symm⟩
    · exact Or.inr ⟨r, hr.symm⟩

/-- `core::result::Result<…>` is NOT recognised (finding F7 of C09). -/
theorem isResultSpelling_core_false : isResultSpelling "core :: result :: Result < i32 , String >" = false := by decide

/-- `::std::result::Result<…>` (leading `::`) is NOT recognised (finding F7 of C09). -/
theorem isResultSpelling_leading_colon_false :
    isResultSpelling ":: std :: result :: Result < i32 , String >" = false := by decide

/-- a type alias (`type Res<T> = Result<T, E>`, `io::Result<T>`, `anyhow::Result<T>`) is NOT recognised. -/
theorem isResultSpelling_alias_false :
    isResultSpelling "Res < i32 >" = false ∧ isResultSpelling "io :: Result < i32 >" = false ∧
    isResultSpelling "anyhow :: Result < i32 >" = false := by decide

/-- the two recognised spellings -/
theorem isResultSpelling_true :
    isResultSpelling "Result < i32 , String >" = true ∧
    isResultSpelling "std :: result :: Result < Vec < u8 > , std :: io :: Error >" = true := by decide

/-- a non-`Result` type whose name merely starts with `Result` is not taken for one -/
theorem isResultSpelling_prefix_false : isResultSpelling "ResultSet < i32 >" = false ∧ isResultSpelling "Results" = false := by
  decide

/-! ### Non-vacuity and observed behaviour (all by evaluation) -/

section Examples
set_option exponentiation.threshold 4000
set_option maxRecDepth 8000

/-- a long valid `#[cache(...)]` list: every attribute present, `limit` repeated -/
def longSync : AttrList :=
  [ ("limit", .intLit false 7 ""), ("policy", .strLit "tlru"), ("ttl", .intLit false 60 "u64"),
    ("scope", .strLit "thread"), ("name", .strLit "users"), ("max_memory", .strLit "12mB"),
    ("tags", .array [.str "a", .str "b"]), ("events", .array []), ("dependencies", .array [.str "db"]),
    ("invalidate_on", .path ⟨false, ["crate", "is_stale"]⟩), ("cache_if", .path ⟨false, ["ok"]⟩),
    ("frequency_weight", .floatLit false 15 (-1) ""), ("limit", .intLit false 100 "usize") ]

example : Valid .sync longSync := by decide

example : parseSync longSync = .ok
    { limit := .ok (some 100), policy := "tlru", ttl := .ok (some 60), scope := .thread, name := some "users",
      maxMemory := .ok (some (12 * 1024 * 1024)), tags := ["a", "b"], events := [], dependencies := ["db"],
      invalidateOn := some ⟨false, ["crate", "is_stale"]⟩, cacheIf := some ⟨false, ["ok"]⟩,
      frequencyWeight := .ok (some ⟨3, -1⟩) } := by decide

example : (meaning .sync longSync).toCfg .sync =
    { flavour := .threadLocal, policy := .tlru, limit := some 100, maxMem := some 12582912, ttl := some 60 } := by
  decide

/-- the same list is NOT valid for `#[cache_async]` (it has `scope`) and is rejected there -/
example : ¬ Valid .async longSync := by decide
example : parseAsync longSync = .error (.parserErr (msgUnknown .async "scope")) := by decide

/-- the empty list: all defaults, plain insert -/
example : parseSync [] = .ok Parsed.default ∧ parseAsync [] = .ok Parsed.default ∧
    hasMaxMemory .sync Parsed.default = false := by decide

/-- rejection classes -/
example : parseSync [("limits", .intLit false 3 "")] = .error (.parserErr (msgUnknown .sync "limits")) := by decide
example : parseSync [("policy", .strLit "LRU")] = .error (.parserErr msgPolicyInvalid) := by decide
example : parseSync [("scope", .strLit "process")] = .error (.parserErr msgScopeInvalid) := by decide
example : parseSync [("limit", .intLit true 1 "")] = .error (.parserErr CE.limitRange.msg) := by decide  -- `limit = -1`
example : parseSync [("limit", .strLit "3")] = .error (.parserErr CE.limitLit.msg) := by decide          -- `limit = "3"`
example : parseAsync [("ttl", .floatLit false 15 (-1) "")] = .error (.parserErr CE.ttlLit.msg) := by decide  -- `ttl = 1.5`
example : parseSync [("ttl", .intLit false (2 ^ 64) "")] =
    .error (.panics "ttl must be a positive integer (seconds)") := by decide
example : compiles (parseSync [("max_memory", .strLit "12XB")]) = false ∧
    compiles (parseSync [("max_memory", .strLit "MB")]) = false ∧
    compiles (parseSync [("max_memory", .strLit "1.5MB")]) = false ∧
    compiles (parseSync [("max_memory", .strLit " 5MB")]) = false ∧
    compiles (parseSync [("max_memory", .strLit "1KBGB")]) = false ∧
    compiles (parseSync [("max_memory", .boolLit true)]) = false := by decide
example : compiles (parseSync [("frequency_weight", .floatLit false 0 (-1) "")]) = false ∧   -- `0.0`
    compiles (parseSync [("frequency_weight", .floatLit true 10 (-1) "")]) = false ∧          -- `-1.0`
    compiles (parseSync [("frequency_weight", .floatLit false 1 (-400) "")]) = false ∧        -- `1e-400` rounds to 0.0
    compiles (parseSync [("frequency_weight", .floatLit false 1 400 "")]) = false := by decide -- `1e400` = inf: quote! panics
example : compiles (parseSync [("tags", .array [.str "a", .other])]) = false := by decide

/-- observed parser behaviour outside the documented forms, reproduced (not alarmed) -/
example : parseSync [("max_memory", .strLit "1GBGB")] =
    .ok { Parsed.default with maxMemory := .ok (some (1024 ^ 3)) } := by decide
example : parseSync [("max_memory", .strLit "+5kb")] =
    .ok { Parsed.default with maxMemory := .ok (some 5120) } := by decide
example : parseSync [("name", .strLit "a"), ("name", .intLit false 5 "")] = .ok Parsed.default := by decide
example : parseSync [("ttl", .intLit false 1 ""), ("ttl", .intLit false 2 "")] =
    .ok { Parsed.default with ttl := .ok (some 2) } := by decide
example : parseSync [("frequency_weight", .intLit false 0 "")] =
    .ok { Parsed.default with frequencyWeight := .ok (some ⟨0, 0⟩) } := by decide

/-- REGRESSION WITNESS for finding F9 (fixed by 82aef8c).  `#[cache(limit = "x", limit = 2)]` and
    `#[cache(max_memory = true, ttl = f(), ttl = 5, max_memory = "1KB")]`: the parser before the repair let them
    compile (the invalid value was silently dropped; confirmed on the real macros at the time), the repaired
    parser returns `Err` at the first invalid value. -/
example :
    compiles (Legacy.parse .sync true [("limit", .strLit "x"), ("limit", .intLit false 2 "")]) = true ∧
    parseSync [("limit", .strLit "x"), ("limit", .intLit false 2 "")] = .error (.parserErr CE.limitLit.msg) ∧
    compiles (Legacy.parse .sync true [("max_memory", .boolLit true), ("ttl", .otherExpr), ("ttl", .intLit false 5 ""),
      ("max_memory", .strLit "1KB")]) = true ∧
    parseSync [("max_memory", .boolLit true), ("ttl", .otherExpr), ("ttl", .intLit false 5 ""),
      ("max_memory", .strLit "1KB")] = .error (.parserErr CE.mmLit.msg) := by decide

/-- REGRESSION WITNESS for finding F10 (fixed by 1b1b026).  `max_memory = "17179869184GB"` (= 2^64 bytes): the
    old arithmetic wrapped to `Some(0)` without overflow checks (release profile) and panicked with them; the
    repaired parser refuses it with `compile_error!("max_memory is too large")` in every build. -/
example :
    Legacy.parse .sync false [("max_memory", .strLit "17179869184GB")] =
      .ok { Parsed.default with maxMemory := .ok (some 0) } ∧
    Legacy.parse .sync true [("max_memory", .strLit "17179869184GB")] =
      .error (.panics "attempt to multiply with overflow") ∧
    parseSync [("max_memory", .strLit "17179869184GB")] = .error (.parserErr "max_memory is too large") ∧
    parseAsync [("max_memory", .strLit "18014398509481984kb")] = .error (.parserErr "max_memory is too large") := by
  decide

/-- on lists the old parser already handled without storing error tokens nothing changed -/
example : Legacy.parse .sync true longSync = parseSync longSync := by decide

end Examples

end Cachelito.C19
