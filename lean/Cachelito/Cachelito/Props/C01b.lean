/-
  C01 (b) — A cached call returns exactly what the uncached function would return: wrapper level.

  Setting: any list of cached functions `fns` with ARBITRARY configurations (flavour, scope, policy, limit,
  TTL, memory bound, `cache_if`, `invalidate_on`, `Result` filtering), any score algebras, size function
  and random draws, and any history of calls (any function, any thread), clock ticks, registry
  invalidations and statistics operations.

  Function `i` is deterministic on keys: `f : K → V` and every call of `i` in the history has
  `c.bodyVal = f c.key` (the oracle "what the body returns if it runs" agrees with `f`).  That distinct
  argument tuples render to distinct keys is property C02, proved separately; the other functions may be
  impure.

  Besides value correctness the file proves PROVENANCE, which needs no determinism at all: a value
  served from the cache was handed to the engine by an earlier call of the SAME function, on the same
  instance, with the SAME key (`stored` event) — never a value stored for other arguments or by another
  cached function.  (That a replaced value is never served again is the engine-level part (a).)
-/
import Cachelito.Lemmas.Calls

set_option linter.unusedSectionVars false
set_option linter.unusedSimpArgs false
set_option linter.unusedVariables false

namespace Cachelito.C01b
open Cachelito Cachelito.Calls
variable {K V S : Type} [DecidableEq K]

section
variable (fns : List FnSpec) (tls : Nat → Tlru S) (size : V → Nat) (isOk : V → Bool)

/-- **Provenance of stored entries.**  After any history, every entry `(k, e)` of any cache instance `id`
    was produced by a call of function `id.fn` that landed on that instance, had key `k`, and whose body
    returned `e.val`. -/
theorem entry_provenance (id : CacheId) (ops : List (SysOp K V × List Nat)) (k : K) (e : Entry V)
    (he : (k, e) ∈ ((sysRun fns tls size isOk (Sys.init : Sys K V) ops).1.getCache id).store) :
    ∃ c ∈ callsOn fns id ops, c.key = k ∧ c.bodyVal = e.val ∧ ∃ p ∈ ops, ∃ th, p.1 = SysOp.call id.fn th c := by
  obtain ⟨c, hc, h1, h2⟩ := run_prov_init fns tls size isOk id ops (k, e) he
  exact ⟨c, hc, h1, h2, mem_callsOn hc⟩

/-- **Invariant.**  If function `i` is deterministic (`bodyVal = f key` in all its calls), every entry
    `(k, e)` in every instance of `i` (the shared one, or any thread's) has `e.val = f k`. -/
theorem entries_carry_body_value (i : Nat) (f : K → V) (ops : List (SysOp K V × List Nat))
    (hdet : ∀ p ∈ ops, ∀ th c, p.1 = SysOp.call i th c → c.bodyVal = f c.key)
    (thread : Option Nat) (k : K) (e : Entry V)
    (he : (k, e) ∈ ((sysRun fns tls size isOk (Sys.init : Sys K V) ops).1.getCache ⟨i, thread⟩).store) :
    e.val = f k := by
  obtain ⟨c, _, h1, h2, p, hp, th, hcall⟩ := entry_provenance fns tls size isOk ⟨i, thread⟩ ops k e he
  rw [← h2, ← h1]
  exact hdet p hp th c hcall

/-- **Wrapper-level value correctness.**  After any history in which function `i` behaved
    deterministically, a call of `i` (by any thread, with any key) whose body would return `f c.key`
    returns `f c.key` — from the cache or from the body, under every configuration, after any evictions,
    expirations and invalidations. -/
theorem call_returns_body_value (i : Nat) (f : K → V) (pre : List (SysOp K V × List Nat))
    (hdet : ∀ p ∈ pre, ∀ th c, p.1 = SysOp.call i th c → c.bodyVal = f c.key)
    (th : Nat) (c : CallIn K V) (rs : List Nat) (hc : c.bodyVal = f c.key) (v : V) (tr : List (TraceEv K V))
    (hout : (sysStep fns tls size isOk rs (sysRun fns tls size isOk (Sys.init : Sys K V) pre).1 (.call i th c)).2 =
      .ret v tr) : v = f c.key := by
  cases hs : fns[i]? with
  | none => rw [sysStep_call_none fns tls size isOk rs _ th c hs] at hout; cases hout
  | some spec =>
    rw [out_call fns tls size isOk rs _ th c hs] at hout
    have hinv : AllP (fun k v => v = f k)
        ((sysRun fns tls size isOk (Sys.init : Sys K V) pre).1.getCache (cacheIdOf spec i th)).store := by
      intro p hp
      exact entries_carry_body_value fns tls size isOk i f pre hdet _ p.1 p.2 hp
    have := (callFn_allP (P := fun k v => v = f k) spec (tls i) size isOk rs _ c hinv hc).2
    cases hout
    exact this

/-- **Value correctness, over a whole history.**  If every call of function `i` in the history has
    `bodyVal = f key`, then every output `ret v _` of a call of `i` with key `k` has `v = f k`. -/
theorem returns_body_value (i : Nat) (f : K → V) (ops : List (SysOp K V × List Nat))
    (hdet : ∀ p ∈ ops, ∀ th c, p.1 = SysOp.call i th c → c.bodyVal = f c.key)
    (j th : Nat) (c : CallIn K V) (rs : List Nat) (hj : ops[j]? = some (.call i th c, rs))
    (v : V) (tr : List (TraceEv K V))
    (hout : (sysRun fns tls size isOk (Sys.init : Sys K V) ops).2[j]? = some (.ret v tr)) : v = f c.key := by
  rw [sysRun_out fns tls size isOk _ ops j _ rs hj] at hout
  simp only [Option.some.injEq] at hout
  have hmem : (SysOp.call i th c, rs) ∈ ops := List.mem_of_getElem? hj
  exact call_returns_body_value fns tls size isOk i f (ops.take j)
    (fun p hp => hdet p (List.mem_of_mem_take hp)) th c rs (hdet _ hmem th c rfl) v tr hout

/-- **A lookup never yields a value stored for other arguments or by another cached function.**  If a
    call of `fn` with key `c.key` is answered from the cache (`returned v true` in its trace), then `v` was
    the body value of an earlier call of the SAME function `fn`, landing on the same instance, with the
    SAME key.  Moreover every `returned` event carries the value the call returns.  No determinism assumed. -/
theorem served_value_provenance {fn : Nat} {spec : FnSpec} (hspec : fns[fn]? = some spec)
    (pre : List (SysOp K V × List Nat)) (th : Nat) (c : CallIn K V) (rs : List Nat)
    (v : V) (tr : List (TraceEv K V))
    (hout : (sysStep fns tls size isOk rs (sysRun fns tls size isOk (Sys.init : Sys K V) pre).1 (.call fn th c)).2 =
      .ret v tr) :
    (∀ w b, TraceEv.returned w b ∈ tr → w = v) ∧
    (TraceEv.returned v true ∈ tr →
      ∃ c' ∈ callsOn fns (cacheIdOf spec fn th) pre, c'.key = c.key ∧ c'.bodyVal = v ∧
        ∃ p ∈ pre, ∃ th', p.1 = SysOp.call fn th' c') ∧
    (v = c.bodyVal ∨ TraceEv.returned v true ∈ tr) := by
  rw [out_call fns tls size isOk rs _ th c hspec] at hout
  have hinv := run_prov_init fns tls size isOk (cacheIdOf spec fn th) pre
  obtain ⟨_, _, h3, h4, h5⟩ := callFn_prov spec (tls fn) size isOk rs _ c hinv
  cases hout
  refine ⟨h4, fun hr => ?_, ?_⟩
  · obtain ⟨c', hc', g1, g2⟩ := h3 _ hr
    exact ⟨c', hc', g1, g2, mem_callsOn hc'⟩
  · rcases h5 with h | h
    · exact Or.inl h
    · exact Or.inr h.2

/-- **Calls of other functions do not touch `i`'s instances.** -/
theorem other_function_frame {fn i : Nat} (hne : fn ≠ i) (rs : List Nat) (sys : Sys K V) (th : Nat) (c : CallIn K V)
    (thread : Option Nat) :
    (sysStep fns tls size isOk rs sys (.call fn th c)).1.getCache ⟨i, thread⟩ = sys.getCache ⟨i, thread⟩ := by
  apply step_off_call
  simp only [callOn]
  cases hs : fns[fn]? with
  | none => rfl
  | some spec =>
    simp only
    split
    · rename_i hid; exact absurd (congrArg CacheId.fn hid) hne
    · rfl

/-- **Everything that is not a call only deletes**: after a tick, a registry invalidation or a statistics
    operation, every entry of every instance was already there, unchanged. -/
theorem non_calls_only_delete (rs : List Nat) (sys : Sys K V) (op : SysOp K V) (hop : isCall op = false)
    (id : CacheId) (p : K × Entry V)
    (hp : p ∈ ((sysStep fns tls size isOk rs sys op).1.getCache id).store) : p ∈ (sys.getCache id).store :=
  store_noncall_sub fns tls size isOk rs sys op hop id p hp

end

/-! ### Non-vacuity

`h0` global LFU with `limit = 1` and TTL 2 s, `h1` thread-scope LRU with `cache_if` and `invalidate_on`,
`h2` async ARC with `limit = 2`, a memory bound and tags.  Bodies: `f i k = 10 * k + i`.  The history
mixes overflow, expiry (tick 3000), a rejected store, a stale hit and three kinds of invalidation. -/

def exTl : Tlru Nat := ⟨fun a b => decide (a < b), fun _ h _ r => h * r⟩
def h0 : FnSpec := ⟨"h0", false, false, ⟨.global, .lfu, some 1, none, some 2⟩, false, false, false, false, [], ["ev"], []⟩
def h1 : FnSpec := ⟨"h1", false, true, ⟨.threadLocal, .lru, some 2, none, none⟩, false, false, true, true, [], [], []⟩
def h2 : FnSpec := ⟨"h2", true, false, ⟨.async, .arc, some 2, some 100, none⟩, true, false, false, false, ["t"], [], []⟩
def exFns : List FnSpec := [h0, h1, h2]
def f (i k : Nat) : Nat := 10 * k + i
/-- `cache_if` rejects key 3, `invalidate_on` calls key 4 stale -/
def mk (i k : Nat) : CallIn Nat Nat := ⟨k, f i k, fun k _ => k != 3, fun k _ => k == 4⟩
def exOps : List (SysOp Nat Nat × List Nat) :=
  [(.call 0 0 (mk 0 1), []), (.call 0 1 (mk 0 2), []), (.call 0 0 (mk 0 2), []), (.tick 3000, []),
   (.call 0 1 (mk 0 2), []), (.call 1 0 (mk 1 4), []), (.call 1 0 (mk 1 4), []), (.call 1 1 (mk 1 3), []), (.call 1 1 (mk 1 3), []),
   (.call 1 1 (mk 1 5), []), (.call 1 1 (mk 1 5), []),
   (.call 2 0 (mk 2 1), []), (.call 2 1 (mk 2 2), []), (.call 2 0 (mk 2 3), []), (.call 2 1 (mk 2 1), []),
   (.invalidateByTag "t", []), (.call 2 0 (mk 2 3), []), (.invalidateWith "h0" (fun k => k == 2), []),
   (.call 0 0 (mk 0 2), []), (.invalidateByEvent "ev", []), (.call 0 0 (mk 0 2), [])]
def exRun := sysRun exFns (fun _ => exTl) (fun v => v) (fun _ => true) (Sys.init : Sys Nat Nat) exOps
/-- (value returned, body runs, served from cache) per operation; `(0,0,false)` for non-calls -/
def summary (o : SysOut Nat Nat) : Nat × Nat × Bool :=
  match o with | .ret v tr => (v, bodyRuns tr, lookupHit tr) | _ => (0, 0, false)

/-- decidable form of the determinism hypothesis -/
def detOk (p : SysOp Nat Nat × List Nat) : Bool :=
  match p.1 with | .call i _ c => c.bodyVal == f i c.key | _ => true

/-- the determinism hypothesis holds for each of the three functions -/
example : ∀ i, ∀ p ∈ exOps, ∀ th c, p.1 = SysOp.call i th c → c.bodyVal = f i c.key := by
  intro i p hp th c hc
  have hall : ∀ q ∈ exOps, detOk q = true := by decide
  have h := hall p hp
  simp only [detOk, hc] at h
  simpa using h
/-- hits (also after an overflow), a hit judged stale by `invalidate_on` (body re-run), a store rejected by
    `cache_if` (missed again), misses after expiry / eviction / three kinds of invalidation — the value is
    `10 * key + fn` every time -/
example : exRun.2.map summary =
    [(10, 1, false), (20, 1, false), (20, 0, true), (0, 0, false),
     (20, 1, false), (41, 1, false), (41, 1, true), (31, 1, false), (31, 1, false), (51, 1, false), (51, 0, true),
     (12, 1, false), (22, 1, false), (32, 1, false), (12, 1, false),
     (0, 0, false), (32, 1, false), (0, 0, false),
     (20, 1, false), (0, 0, false), (20, 1, false)] := by decide

end Cachelito.C01b
