/-
  Line-protocol driver (compiled as `lean_exe driver`; imports only the Mathlib-free model).
  usage: driver core < lines
  Prints one line per disagreement (`DIFF …`), per false monitor (`MON <id> …`) and per malformed
  line (`BAD …`), then `SUMMARY …`.
-/
import Cachelito.Monitors

open Cachelito Cachelito.Driver Cachelito.Monitors

structure Tally where
  lines : Nat := 0
  ok : Nat := 0
  diffs : Nat := 0
  bad : Nat := 0
  mon : Nat := 0
  tries : Nat := 0
  episode : Nat := 0
  stepInEp : Nat := 0
  ghost : Ghost := {}

def handleCore (line : String) (acc : Tally) : IO Tally := do
  match line.splitOn "|" with
  | ["S", cfgS, preS, opS, outS, postS] =>
    let acc := { acc with lines := acc.lines + 1, stepInEp := acc.stepInEp + 1 }
    match parseCfg cfgS with
    | none => IO.println s!"BAD cfg {line}"; pure { acc with bad := acc.bad + 1 }
    | some (cfg, fw) =>
      match parseState cfg preS, parseOp opS, parseOut outS, parseState cfg postS with
      | some pre, some op, some out, some post =>
        let implPost := renderState cfg post
        let implOut := renderImplOut out
        let r := runStep cfg fw pre op implOut implPost
        let o : Obs := ⟨cfg, fw, pre, op, out, post⟩
        let mut monFails := 0
        for (id, m) in allMonitors do
          for msg in m acc.ghost o do
            IO.println s!"MON {id} episode={acc.episode} step={acc.stepInEp} cfg=[{cfgS}] op=[{opS}] :: {msg}"
            monFails := monFails + 1
        let acc := { acc with ghost := acc.ghost.advance o, mon := acc.mon + monFails, tries := acc.tries + r.tries }
        if r.ok then
          pure { acc with ok := acc.ok + 1 }
        else
          IO.println s!"DIFF episode={acc.episode} step={acc.stepInEp} cfg=[{cfgS}] op=[{opS}] pre=[{preS}] implOut=[{implOut}] modelOut=[{r.modelOut}] implPost=[{implPost}] modelPost=[{r.modelPost}]"
          pure { acc with diffs := acc.diffs + 1 }
      | _, _, _, _ =>
        IO.println s!"BAD parse {line}"
        pure { acc with bad := acc.bad + 1 }
  | "E" :: _ =>
    pure { acc with episode := acc.episode + 1, stepInEp := 0, ghost := {} }
  | _ =>
    if line.startsWith "#" then pure acc
    else
      IO.println s!"BAD shape {line}"
      pure { acc with lines := acc.lines + 1, bad := acc.bad + 1 }

partial def loop (h : IO.FS.Stream) (f : String → Tally → IO Tally) (acc : Tally) : IO Tally := do
  let line ← h.getLine
  if line.isEmpty then return acc
  let line := line.trimAsciiEnd.toString
  if line.isEmpty then loop h f acc
  else
    let acc ← f line acc
    loop h f acc

def main (args : List String) : IO UInt32 := do
  let stdin ← IO.getStdin
  match args with
  | ["core"] =>
    let acc ← loop stdin handleCore {}
    IO.println s!"SUMMARY lines={acc.lines} ok={acc.ok} diffs={acc.diffs} bad={acc.bad} monitor_failures={acc.mon} model_runs={acc.tries} episodes={acc.episode}"
    pure (if acc.diffs = 0 && acc.bad = 0 && acc.mon = 0 then 0 else 1)
  | _ =>
    IO.eprintln "usage: driver core < lines"
    pure 2
