/-
  Lemmas about the statistics registry as a data structure (`Cachelito/StatsReg.lean`): the name → cell
  table seen through the history of registrations, the counter cells seen through the history of
  `record_hit` / `record_miss` / resets, and the link to the abstraction used by `Cachelito/System.lean`.

  Everything lives in `namespace Cachelito.StatsLemmas`.  Property theorems: `Cachelito/Props/C15r.lean`.
-/
import Cachelito.StatsReg
import Cachelito.Lemmas.Registry
import Cachelito.Lemmas.Calls

set_option linter.unusedSectionVars false
set_option linter.unusedSimpArgs false
set_option linter.unusedVariables false

namespace Cachelito.StatsLemmas
open Cachelito Cachelito.StatsReg Cachelito.SysLemmas
open Cachelito.Registry (setKey getKey)
open Cachelito.RegLemmas (latest latest_nil latest_append_one mem_of_latest latest_isSome_iff latest_eq_none_iff
  latest_eq_some_iff_of_functional getKey_nil getKey_cons getKey_setKey keys_setKey keys_nodup_setKey
  mem_keys_iff_getKey getKey_of_mem DistinctNames targets_eq_of_latest)

/-! ### the abstract view of an operation history -/

/-- effect of one operation on "the (name, cell) registrations since the last `clear`" -/
def bindStep (acc : List (String × Cell)) : StatsReg.Op → List (String × Cell)
  | .register n c => acc ++ [(n, c)]
  | .clear => []
  | _ => acc

/-- the `(name, cell)` registrations since the last `clear`, oldest first -/
def bindingsSince (ops : List StatsReg.Op) : List (String × Cell) := ops.foldl bindStep []

theorem bindingsSince_snoc (ops : List StatsReg.Op) (op : StatsReg.Op) :
    bindingsSince (ops ++ [op]) = bindStep (bindingsSince ops) op := by
  unfold bindingsSince; rw [List.foldl_append]; rfl

/-- does `op`, executed when the table is `tbl`, zero cell `c`?  (`CacheStats::reset` on the cell itself, or
    `stats_registry::reset` of a name that is bound to `c`) -/
def zeroesAt (tbl : String → Option Cell) (op : StatsReg.Op) (c : Cell) : Bool :=
  match op with
  | .cellReset c' => decide (c' = c)
  | .reset n => decide (tbl n = some c)
  | _ => false

/-- does `op`, executed after the history `pre`, zero cell `c`?  Stated on the history alone: the name must be
    bound to `c` by its LAST registration since the last `clear`. -/
def zeroes (pre : List StatsReg.Op) (op : StatsReg.Op) (c : Cell) : Bool :=
  zeroesAt (latest (bindingsSince pre)) op c

/-- effect of a recording operation on the counters of cell `c` -/
def bump (c : Cell) (k : Counters) : StatsReg.Op → Counters
  | .recordHit c' => if c' = c then { k with hits := k.hits + 1 } else k
  | .recordMiss c' => if c' = c then { k with misses := k.misses + 1 } else k
  | _ => k

/-- the counters of cell `c` computed from the history alone: scanning `rest` after `pre`, a zeroing operation
    sets them to `0 / 0`, a `record_hit` / `record_miss` on `c` adds one, nothing else matters -/
def tally (c : Cell) : List StatsReg.Op → List StatsReg.Op → Counters → Counters
  | _, [], k => k
  | pre, op :: rest, k => tally c (pre ++ [op]) rest (if zeroes pre op c then Counters.zero else bump c k op)

/-- no operation of `b` (executed after `pre`) zeroes cell `c` -/
def noZero (c : Cell) : List StatsReg.Op → List StatsReg.Op → Bool
  | _, [] => true
  | pre, q :: b => !zeroes pre q c && noZero c (pre ++ [q]) b

/-- number of `record_hit` on cell `c` in `b` -/
def hitCount (c : Cell) (b : List StatsReg.Op) : Nat := b.count (.recordHit c)
/-- number of `record_miss` on cell `c` in `b` -/
def missCount (c : Cell) (b : List StatsReg.Op) : Nat := b.count (.recordMiss c)

/-! ### one step -/

@[simp] theorem write_table (r : Reg) (c : Cell) (k : Counters) : (r.write c k).table = r.table := rfl

theorem write_cells (r : Reg) (c : Cell) (k : Counters) (c' : Cell) :
    (r.write c k).cells c' = if c' = c then k else r.cells c' := rfl

/-- the operations that change neither the table nor any cell -/
def isQuery : StatsReg.Op → Bool
  | .get _ | .getRef _ | .list | .hits _ | .misses _ | .total _ | .hitRate _ | .missRate _ => true
  | _ => false

theorem step_query (r : Reg) {op : StatsReg.Op} (h : isQuery op = true) : (StatsReg.step r op).1 = r := by
  cases op <;> simp only [isQuery, Bool.false_eq_true] at h <;> rfl

/-- the table after one step -/
theorem step_table (r : Reg) (op : StatsReg.Op) :
    (StatsReg.step r op).1.table =
      match op with
      | .register n c => setKey r.table n c
      | .clear => []
      | _ => r.table := by
  cases op <;> simp only [StatsReg.step, write_table]
  split <;> rfl

/-- every cell after one step: zeroed, bumped, or untouched -/
theorem step_cells (r : Reg) (op : StatsReg.Op) (c : Cell) :
    (StatsReg.step r op).1.cells c =
      if zeroesAt (getKey r.table) op c then Counters.zero else bump c (r.cells c) op := by
  cases op <;> simp only [StatsReg.step, zeroesAt, bump, Bool.false_eq_true, if_false, decide_eq_true_eq]
  case reset n =>
    cases hk : getKey r.table n with
    | none => simp
    | some c' =>
      simp only [write_cells, Option.some.injEq]
      by_cases h : c = c'
      · subst h; simp
      · simp [h, Ne.symm h]
  case recordHit c' =>
    simp only [write_cells]
    by_cases h : c = c'
    · subst h; simp
    · simp [h, Ne.symm h]
  case recordMiss c' =>
    simp only [write_cells]
    by_cases h : c = c'
    · subst h; simp
    · simp [h, Ne.symm h]
  case cellReset c' =>
    simp only [write_cells]
    by_cases h : c = c'
    · subst h; simp
    · simp [h, Ne.symm h]

/-! ### the representation invariant: table = abstract history view -/

/-- `r`'s table stores exactly the latest binding of every name, each name once -/
structure Rel (r : Reg) (bs : List (String × Cell)) : Prop where
  table_eq : ∀ n, getKey r.table n = latest bs n
  keys : (r.table.map (·.1)).Nodup

theorem rel_init (cells : Cell → Counters) : Rel ⟨[], cells⟩ [] where
  table_eq := by intro n; rfl
  keys := by simp

theorem rel_step {r : Reg} {bs : List (String × Cell)} (h : Rel r bs) (op : StatsReg.Op) :
    Rel (StatsReg.step r op).1 (bindStep bs op) := by
  constructor
  · intro n
    rw [step_table]
    cases op <;> simp only [bindStep] <;> first | exact h.table_eq n | skip
    · simp only [getKey_setKey, latest_append_one, h.table_eq]
    · rfl
  · rw [step_table]
    cases op <;> simp only <;> first | exact h.keys | skip
    · exact keys_nodup_setKey h.keys _ _
    · simp

theorem rel_foldl (ops : List StatsReg.Op) {r : Reg} {bs : List (String × Cell)} (h : Rel r bs) :
    Rel (runState r ops) (ops.foldl bindStep bs) := by
  induction ops generalizing r bs with
  | nil => exact h
  | cons op ops ih => exact ih (rel_step h op)

/-- **representation theorem**: after any history from the empty registry the table holds exactly the
    latest binding of every name -/
theorem rel_run (ops : List StatsReg.Op) : Rel (runState {} ops) (bindingsSince ops) :=
  rel_foldl ops (rel_init _)

theorem zeroesAt_congr {f g : String → Option Cell} (h : ∀ n, f n = g n) (op : StatsReg.Op) (c : Cell) :
    zeroesAt f op c = zeroesAt g op c := by
  cases op <;> simp only [zeroesAt, h]

/-! ### runs -/

theorem runState_append (r : Reg) (a b : List StatsReg.Op) :
    runState r (a ++ b) = runState (runState r a) b := by
  unfold runState; rw [List.foldl_append]

theorem runState_cons (r : Reg) (op : StatsReg.Op) (ops : List StatsReg.Op) :
    runState r (op :: ops) = runState (StatsReg.step r op).1 ops := rfl

theorem run_fst (r : Reg) (ops : List StatsReg.Op) : (StatsReg.run r ops).1 = runState r ops := by
  induction ops generalizing r with
  | nil => rfl
  | cons op ops ih =>
    simp only [StatsReg.run, runState, List.foldl_cons]
    exact ih _

theorem runState_queries (r : Reg) (qs : List StatsReg.Op) (h : ∀ q, q ∈ qs → isQuery q = true) :
    runState r qs = r := by
  induction qs generalizing r with
  | nil => rfl
  | cons q qs ih =>
    rw [runState_cons, step_query r (h q (by simp))]
    exact ih r (fun q' hq' => h q' (List.mem_cons_of_mem _ hq'))

/-- the cells after a run, from any state whose table matches the history `pre` -/
theorem cells_run (c : Cell) (ops : List StatsReg.Op) (pre : List StatsReg.Op) (r : Reg)
    (h : Rel r (bindingsSince pre)) :
    (runState r ops).cells c = tally c pre ops (r.cells c) := by
  induction ops generalizing r pre with
  | nil => rfl
  | cons op ops ih =>
    rw [runState_cons, tally]
    have h' : Rel (StatsReg.step r op).1 (bindingsSince (pre ++ [op])) := by
      rw [bindingsSince_snoc]; exact rel_step h op
    rw [ih _ _ h', step_cells]
    unfold zeroes
    rw [zeroesAt_congr h.table_eq]

/-- **the cells by history**: after any history from the empty registry, cell `c` holds `tally c [] ops 0/0` -/
theorem cells_eq_tally (ops : List StatsReg.Op) (c : Cell) :
    (runState {} ops).cells c = tally c [] ops Counters.zero :=
  cells_run c ops [] {} (rel_init _)

/-- `zeroes` spelled out: the operation is `CacheStats::reset` on the cell itself, or `stats_registry::reset`
    of a name whose LAST registration since the last `clear` bound it to this cell -/
theorem zeroes_iff (pre : List StatsReg.Op) (op : StatsReg.Op) (c : Cell) :
    zeroes pre op c = true ↔
      op = .cellReset c ∨ ∃ n, op = .reset n ∧ latest (bindingsSince pre) n = some c := by
  unfold zeroes
  cases op <;> simp [zeroesAt]

/-! ### `tally` in plain terms -/

theorem tally_append (c : Cell) (pre a b : List StatsReg.Op) (k : Counters) :
    tally c pre (a ++ b) k = tally c (pre ++ a) b (tally c pre a k) := by
  induction a generalizing pre k with
  | nil => simp [tally]
  | cons op a ih =>
    simp only [List.cons_append, tally]
    rw [ih]
    simp

theorem noZero_append (c : Cell) (pre a b : List StatsReg.Op) :
    noZero c pre (a ++ b) = (noZero c pre a && noZero c (pre ++ a) b) := by
  induction a generalizing pre with
  | nil => simp [noZero]
  | cons op a ih =>
    simp only [List.cons_append, noZero, ih, Bool.and_assoc]
    simp

/-- `noZero` spelled out: however `b` is split around one of its operations, that operation does not zero `c` -/
theorem noZero_iff (c : Cell) (pre b : List StatsReg.Op) :
    noZero c pre b = true ↔ ∀ b1 q b2, b = b1 ++ q :: b2 → zeroes (pre ++ b1) q c = false := by
  induction b generalizing pre with
  | nil =>
    simp only [noZero, true_iff]
    intro b1 q b2 h
    cases b1 <;> cases h
  | cons x b ih =>
    simp only [noZero, Bool.and_eq_true, Bool.not_eq_true', ih]
    constructor
    · rintro ⟨h1, h2⟩ b1 q b2 hsplit
      cases b1 with
      | nil =>
        simp only [List.nil_append, List.cons.injEq] at hsplit
        obtain ⟨rfl, _⟩ := hsplit
        simpa using h1
      | cons y b1 =>
        simp only [List.cons_append, List.cons.injEq] at hsplit
        obtain ⟨rfl, rfl⟩ := hsplit
        have := h2 b1 q b2 rfl
        simpa using this
    · intro h
      refine ⟨by simpa using h [] x b rfl, ?_⟩
      intro b1 q b2 hsplit
      have := h (x :: b1) q b2 (by rw [hsplit]; rfl)
      simpa using this

theorem count_recordHit_cons (c : Cell) (op : StatsReg.Op) (b : List StatsReg.Op) :
    hitCount c (op :: b) = hitCount c b + (if op = .recordHit c then 1 else 0) := by
  unfold hitCount; rw [List.count_cons]; simp

theorem count_recordMiss_cons (c : Cell) (op : StatsReg.Op) (b : List StatsReg.Op) :
    missCount c (op :: b) = missCount c b + (if op = .recordMiss c then 1 else 0) := by
  unfold missCount; rw [List.count_cons]; simp

theorem bump_eq (c : Cell) (k : Counters) (op : StatsReg.Op) :
    bump c k op = ⟨k.hits + (if op = .recordHit c then 1 else 0), k.misses + (if op = .recordMiss c then 1 else 0)⟩ := by
  cases op <;> simp only [bump, reduceCtorEq, if_false, Nat.add_zero]
  case recordHit c' => by_cases h : c' = c <;> simp [h]
  case recordMiss c' => by_cases h : c' = c <;> simp [h]

/-- without a zeroing operation the counters grow by the number of recorded hits / misses on the cell -/
theorem tally_noZero (c : Cell) (pre b : List StatsReg.Op) (k : Counters) (h : noZero c pre b = true) :
    tally c pre b k = ⟨k.hits + hitCount c b, k.misses + missCount c b⟩ := by
  induction b generalizing pre k with
  | nil => simp [tally, hitCount, missCount]
  | cons op b ih =>
    simp only [noZero, Bool.and_eq_true, Bool.not_eq_true'] at h
    rw [tally, h.1, ih _ _ h.2, count_recordHit_cons, count_recordMiss_cons, bump_eq]
    simp only [Bool.false_eq_true, if_false, Counters.mk.injEq]
    omega

/-- a zeroing operation followed by operations that do not zero: the counters are the recordings since -/
theorem tally_since_zero (c : Cell) (pre a : List StatsReg.Op) (op : StatsReg.Op) (b : List StatsReg.Op) (k : Counters)
    (hz : zeroes (pre ++ a) op c = true) (hb : noZero c (pre ++ a ++ [op]) b = true) :
    tally c pre (a ++ op :: b) k = ⟨hitCount c b, missCount c b⟩ := by
  rw [tally_append, tally, hz, if_pos rfl, tally_noZero c _ b _ hb]
  simp [Counters.zero]

/-! ### `list` -/

theorem list_spec (ops : List StatsReg.Op) :
    ((runState {} ops).table.map (·.1)).Nodup ∧
    ∀ n, n ∈ (runState {} ops).table.map (·.1) ↔ ∃ c, (n, c) ∈ bindingsSince ops := by
  have h := rel_run ops
  refine ⟨h.keys, ?_⟩
  intro n
  rw [mem_keys_iff_getKey, h.table_eq, latest_isSome_iff]

/-! ### clear-free histories -/

theorem mem_foldl_bindStep (ops : List StatsReg.Op) (hc : StatsReg.Op.clear ∉ ops) (acc : List (String × Cell))
    (n : String) (c : Cell) :
    (n, c) ∈ ops.foldl bindStep acc ↔ (n, c) ∈ acc ∨ StatsReg.Op.register n c ∈ ops := by
  induction ops generalizing acc with
  | nil => simp
  | cons op ops ih =>
    have hc' : StatsReg.Op.clear ∉ ops := fun h => hc (List.mem_cons_of_mem _ h)
    rw [List.foldl_cons, ih hc']
    cases op with
    | clear => exact absurd (List.mem_cons_self) hc
    | register n' m' => simp [bindStep, or_assoc]
    | _ => simp [bindStep]

/-! ### the registration history the macros produce -/

/-- registrations in first-call order (`called` is newest-first): every global / async function registers
    its own static (cell = function index) under its cache name; thread-scope functions and indices that name
    no function register nothing -/
def macroStatsOps (fns : List FnSpec) (called : List Nat) : List StatsReg.Op :=
  called.reverse.flatMap (fun i => match fns[i]? with
    | some s => if s.threadScope then [] else [.register s.name i]
    | none => [])

theorem mem_macroStatsOps (fns : List FnSpec) (called : List Nat) (op : StatsReg.Op) :
    op ∈ macroStatsOps fns called ↔
      ∃ i s, i ∈ called ∧ fns[i]? = some s ∧ s.threadScope = false ∧ op = .register s.name i := by
  unfold macroStatsOps
  rw [List.mem_flatMap]
  constructor
  · rintro ⟨i, hi, hop⟩
    cases hs : fns[i]? with
    | none => rw [hs] at hop; simp at hop
    | some s =>
      rw [hs] at hop
      simp only at hop
      cases hts : s.threadScope with
      | true => rw [hts] at hop; simp at hop
      | false =>
        rw [hts] at hop
        exact ⟨i, s, List.mem_reverse.mp hi, hs, hts, by simpa using hop⟩
  · rintro ⟨i, s, hi, hs, hts, hop⟩
    refine ⟨i, List.mem_reverse.mpr hi, ?_⟩
    rw [hs]; simp only [hts]; simpa using hop

theorem macroStatsOps_no_clear (fns : List FnSpec) (called : List Nat) :
    StatsReg.Op.clear ∉ macroStatsOps fns called := by
  intro h
  obtain ⟨i, s, _, _, _, hop⟩ := (mem_macroStatsOps fns called _).mp h
  cases hop

theorem macroStatsOps_cons (fns : List FnSpec) (i : Nat) (called : List Nat) :
    macroStatsOps fns (i :: called) = macroStatsOps fns called ++
      (match fns[i]? with
       | some s => if s.threadScope then [] else [.register s.name i]
       | none => []) := by
  unfold macroStatsOps
  simp only [List.reverse_cons, List.flatMap_append, List.flatMap_cons, List.flatMap_nil, List.append_nil]

theorem mem_bindings_macro (fns : List FnSpec) (called : List Nat) (n : String) (i : Nat) :
    (n, i) ∈ bindingsSince (macroStatsOps fns called) ↔
      ∃ s, i ∈ called ∧ fns[i]? = some s ∧ s.threadScope = false ∧ n = s.name := by
  unfold bindingsSince
  rw [mem_foldl_bindStep _ (macroStatsOps_no_clear fns called), mem_macroStatsOps]
  simp only [List.not_mem_nil, false_or]
  constructor
  · rintro ⟨j, s, h1, h2, h3, h4⟩
    cases h4; exact ⟨s, h1, h2, h3, rfl⟩
  · rintro ⟨s, h1, h2, h3, rfl⟩
    exact ⟨i, s, h1, h2, h3, rfl⟩

/-- with distinct names the macro history binds each name to ONE cell, so the cell bound to `n` is `i`
    exactly when function `i` was called, is not thread-scope and is named `n` -/
theorem latest_bindings_macro {fns : List FnSpec} (hd : DistinctNames fns) (called : List Nat) (n : String) (i : Nat) :
    latest (bindingsSince (macroStatsOps fns called)) n = some i ↔
      ∃ s, i ∈ called ∧ fns[i]? = some s ∧ s.threadScope = false ∧ n = s.name := by
  rw [latest_eq_some_iff_of_functional, mem_bindings_macro]
  intro a b ha hb
  obtain ⟨sa, _, h2, _, h5⟩ := (mem_bindings_macro fns called n a).mp ha
  obtain ⟨sb, _, h2', _, h5'⟩ := (mem_bindings_macro fns called n b).mp hb
  exact hd a b sa sb h2 h2' (h5.symm.trans h5')

variable {K V S : Type} [DecidableEq K]

/-- the cell bound to `name` by the macro history is the statistics target of `System` -/
theorem stat_targets {fns : List FnSpec} (hd : DistinctNames fns) (sys : Sys K V) (name : String) (i : Nat) :
    latest (bindingsSince (macroStatsOps fns sys.called)) name = some i ↔
      i ∈ regTargets fns sys (fun spec => spec.name = name) := by
  rw [mem_regTargets, latest_bindings_macro hd]
  unfold IsRegTarget
  constructor
  · rintro ⟨s, g1, g2, g3, g5⟩
    exact ⟨s, g2, g3, g1, by simp [g5]⟩
  · rintro ⟨s, g2, g3, g1, g5⟩
    exact ⟨s, g1, g2, g3, by simpa [eq_comm] using g5⟩

/-- the target list `sysStep` computes for `statsGet` / `statsReset` is the cell the table holds -/
theorem regTargets_eq_latest {fns : List FnSpec} (hd : DistinctNames fns) (sys : Sys K V) (name : String) :
    regTargets fns sys (fun spec => spec.name = name) =
      (latest (bindingsSince (macroStatsOps fns sys.called)) name).toList :=
  targets_eq_of_latest (regTargets_nodup fns sys _) (stat_targets hd sys name)

/-! ### the registry that corresponds to a system state -/

/-- the counters of the shared instance of function `i` — the content of its static -/
def cellsOf (sys : Sys K V) : Cell → Counters :=
  fun i => ⟨(sys.getCache ⟨i, none⟩).hitStat, (sys.getCache ⟨i, none⟩).missStat⟩

/-- the table the macro registrations of `sys.called` build, over the memory `cellsOf sys` -/
def regOf (fns : List FnSpec) (sys : Sys K V) : Reg :=
  ⟨(runState {} (macroStatsOps fns sys.called)).table, cellsOf sys⟩

theorem regOf_table_eq (fns : List FnSpec) (sys : Sys K V) (n : String) :
    getKey (regOf fns sys).table n = latest (bindingsSince (macroStatsOps fns sys.called)) n :=
  (rel_run _).table_eq n

theorem regOf_congr (fns : List FnSpec) {a b : Sys K V} (hc : b.called = a.called)
    (hs : ∀ i, (b.getCache ⟨i, none⟩).hitStat = (a.getCache ⟨i, none⟩).hitStat ∧
      (b.getCache ⟨i, none⟩).missStat = (a.getCache ⟨i, none⟩).missStat) :
    regOf fns b = regOf fns a := by
  unfold regOf cellsOf
  rw [hc]
  congr 1
  funext i
  rw [(hs i).1, (hs i).2]

/-- the table part of a run does not depend on the memory -/
theorem runState_table (ops : List StatsReg.Op) (r r' : Reg) (h : r.table = r'.table) :
    (runState r ops).table = (runState r' ops).table := by
  induction ops generalizing r r' with
  | nil => exact h
  | cons op ops ih =>
    rw [runState_cons, runState_cons]
    apply ih
    rw [step_table, step_table, h]

theorem reg_ext {a b : Reg} (ht : a.table = b.table) (hc : ∀ c, a.cells c = b.cells c) : a = b := by
  obtain ⟨ta, ca⟩ := a
  obtain ⟨tb, cb⟩ := b
  simp only at ht hc
  subst ht
  have : ca = cb := funext hc
  subst this
  rfl

/-! ### every `sysStep` is simulated by the registry-level operations it performs -/

section sim
open Cachelito.Calls (found callFn_stats getCache_call called_call cacheIdOf_shared getCache_tick
  stats_invalidation isInvalidation)
variable (fns : List FnSpec) (tls : Nat → Tlru S) (size : V → Nat) (isOk : V → Bool) (rs : List Nat)
  (sys : Sys K V)

/-- `statsGet name` is `get name` on the corresponding registry: same state, same answer -/
theorem statsGet_sim (hd : DistinctNames fns) (name : String) :
    ∃ o : Option Counters,
      StatsReg.step (regOf fns sys) (.get name) = (regOf fns sys, .snap o) ∧
      sysStep fns tls size isOk rs sys (.statsGet name) = (sys, .stats (o.map (fun k => (k.hits, k.misses)))) := by
  refine ⟨(getKey (regOf fns sys).table name).map (regOf fns sys).cells, rfl, ?_⟩
  rw [regOf_table_eq]
  have ht : Calls.statTargets fns sys name =
      (latest (bindingsSince (macroStatsOps fns sys.called)) name).toList := regTargets_eq_latest hd sys name
  rw [Calls.sysStep_statsGet, ht]
  cases latest (bindingsSince (macroStatsOps fns sys.called)) name <;> rfl

/-- `statsReset name` is `reset name` on the corresponding registry: the resulting registry is the one
    that corresponds to the resulting system, and the flags agree -/
theorem statsReset_sim (hd : DistinctNames fns) (name : String) :
    ∃ b : Bool,
      StatsReg.step (regOf fns sys) (.reset name) =
        (regOf fns (sysStep fns tls size isOk rs sys (.statsReset name)).1, .flag b) ∧
      (sysStep fns tls size isOk rs sys (.statsReset name)).2 = .flag b := by
  refine ⟨!(regTargets fns sys (fun spec => spec.name = name)).isEmpty, ?_, rfl⟩
  simp only [StatsReg.step]
  rw [regOf_table_eq, sysStep_statsReset, regTargets_eq_latest hd sys name]
  cases latest (bindingsSince (macroStatsOps fns sys.called)) name with
  | none => rfl
  | some i =>
    simp only [Option.toList, List.foldl_cons, List.foldl_nil, List.isEmpty_cons, Bool.not_false, Prod.mk.injEq,
      and_true]
    apply reg_ext
    · rfl
    · intro j
      rw [write_cells]
      show _ = cellsOf (sys.mapFn i _) j
      unfold cellsOf
      rw [getCache_mapFn _ _ _ (fun n => statsReset_fresh n)]
      by_cases hj : j = i
      · subst hj; simp [Counters.zero]
      · simp only [hj, if_false, false_and]
        rfl

/-- the cells after the statistics operations of one call: only the function's own cell is bumped -/
theorem callOps_cells (r : Reg) (i : Cell) (name : String) (first hit : Bool) (j : Cell) :
    (runState r (callOps i name first hit)).cells j =
      bump j (r.cells j) (if hit then .recordHit i else .recordMiss i) := by
  unfold callOps
  rw [runState_append]
  have h1 : (runState r (if first then [StatsReg.Op.register name i] else [])).cells = r.cells := by
    cases first <;> rfl
  generalize runState r (if first then [StatsReg.Op.register name i] else []) = r1 at h1
  rw [← h1]
  cases hit
  · simp only [Bool.false_eq_true, if_false]
    rw [show runState r1 [StatsReg.Op.recordMiss i] = (StatsReg.step r1 (.recordMiss i)).1 from rfl, step_cells]
    simp only [zeroesAt, Bool.false_eq_true, if_false]
  · simp only [if_true]
    rw [show runState r1 [StatsReg.Op.recordHit i] = (StatsReg.step r1 (.recordHit i)).1 from rfl, step_cells]
    simp only [zeroesAt, Bool.false_eq_true, if_false]

/-- the table after the statistics operations of one call: the function's cell bound under its name if it
    is the first call -/
theorem callOps_table (r : Reg) (i : Cell) (name : String) (first hit : Bool) :
    (runState r (callOps i name first hit)).table = if first then setKey r.table name i else r.table := by
  unfold callOps
  rw [runState_append]
  cases first <;> cases hit <;>
    simp only [Bool.false_eq_true, if_false, if_true, runState, List.foldl_cons, List.foldl_nil, step_table]

/-- a call of a global / async function = (registration on the first call) + one recorded lookup -/
theorem call_sim {i : Nat} {spec : FnSpec} (hspec : fns[i]? = some spec) (hts : spec.threadScope = false)
    (th : Nat) (c : CallIn K V) :
    regOf fns (sysStep fns tls size isOk rs sys (.call i th c)).1 =
      runState (regOf fns sys)
        (callOps i spec.name (!sys.called.contains i) (found spec.cfg (sys.getCache ⟨i, none⟩) c.key)) := by
  apply reg_ext
  · rw [callOps_table]
    show (runState {} (macroStatsOps fns (sysStep fns tls size isOk rs sys (.call i th c)).1.called)).table = _
    rw [called_call fns tls size isOk rs sys th c hspec, hts, Bool.false_or]
    cases hc : sys.called.contains i with
    | true => rfl
    | false =>
      simp only [Bool.false_eq_true, if_false, Bool.not_false, if_true]
      rw [macroStatsOps_cons, hspec]
      simp only [hts, Bool.false_eq_true, if_false]
      rw [runState_append]
      rfl
  · intro j
    rw [callOps_cells]
    show cellsOf (sysStep fns tls size isOk rs sys (.call i th c)).1 j = _
    unfold cellsOf
    rw [getCache_call fns tls size isOk rs sys th c hspec, cacheIdOf_shared hts]
    obtain ⟨g1, g2, _, _⟩ := callFn_stats spec (tls i) size isOk rs (sys.getCache ⟨i, none⟩) c
    by_cases hj : j = i
    · subst hj
      simp only [if_true, g1, g2]
      cases found spec.cfg (sys.getCache ⟨j, none⟩) c.key <;> simp [bump, regOf, cellsOf]
    · have hne : ¬ (⟨j, none⟩ : CacheId) = ⟨i, none⟩ := fun h => hj (congrArg CacheId.fn h)
      simp only [hne, if_false]
      cases found spec.cfg (sys.getCache ⟨i, none⟩) c.key <;> simp [bump, regOf, cellsOf, Ne.symm hj]

/-- a call of a thread-scope function touches neither the table nor any cell -/
theorem call_threadScope_sim {i : Nat} {spec : FnSpec} (hspec : fns[i]? = some spec) (hts : spec.threadScope = true)
    (th : Nat) (c : CallIn K V) :
    regOf fns (sysStep fns tls size isOk rs sys (.call i th c)).1 = regOf fns sys := by
  apply regOf_congr
  · rw [called_call fns tls size isOk rs sys th c hspec, hts]; rfl
  · intro j
    rw [getCache_call fns tls size isOk rs sys th c hspec, if_neg]
    · exact ⟨rfl, rfl⟩
    · intro h
      have := congrArg CacheId.thread h
      simp [cacheIdOf, hts] at this

/-- the registry-level statistics operations one `sysStep` performs -/
def statOpsOf (fns : List FnSpec) (sys : Sys K V) : SysOp K V → List StatsReg.Op
  | .call i _ c =>
    match fns[i]? with
    | some spec =>
      if spec.threadScope then []
      else callOps i spec.name (!sys.called.contains i) (found spec.cfg (sys.getCache ⟨i, none⟩) c.key)
    | none => []
  | .statsGet name => [.get name]
  | .statsReset name => [.reset name]
  | _ => []

/-- **one step of the system = its statistics operations on the registry** -/
theorem sysStep_sim (hd : DistinctNames fns) (op : SysOp K V) :
    regOf fns (sysStep fns tls size isOk rs sys op).1 = runState (regOf fns sys) (statOpsOf fns sys op) := by
  cases op with
  | call i th c =>
    simp only [statOpsOf]
    cases hspec : fns[i]? with
    | none => rw [Calls.sysStep_call_none fns tls size isOk rs sys th c hspec]; rfl
    | some spec =>
      cases hts : spec.threadScope with
      | true => simp only [hts, if_true]; exact call_threadScope_sim fns tls size isOk rs sys hspec hts th c
      | false => simp only [hts, Bool.false_eq_true, if_false]; exact call_sim fns tls size isOk rs sys hspec hts th c
  | tick ms =>
    apply regOf_congr
    · exact sysStep_called_of_not_call fns tls size isOk rs sys (.tick ms) (fun _ _ _ h => by cases h)
    · intro j; rw [getCache_tick]; exact ⟨rfl, rfl⟩
  | statsGet name =>
    rw [sysStep_statsGet]; rfl
  | statsReset name =>
    obtain ⟨b, h1, _⟩ := statsReset_sim fns tls size isOk rs sys hd name
    simp only [statOpsOf, runState, List.foldl_cons, List.foldl_nil, h1]
  | invalidateByTag t =>
    exact regOf_congr fns (sysStep_called_of_not_call fns tls size isOk rs sys (.invalidateByTag t) (fun _ _ _ h => by cases h))
      (fun j => stats_invalidation fns tls size isOk rs sys (.invalidateByTag t) rfl _)
  | invalidateByEvent t =>
    exact regOf_congr fns (sysStep_called_of_not_call fns tls size isOk rs sys (.invalidateByEvent t) (fun _ _ _ h => by cases h))
      (fun j => stats_invalidation fns tls size isOk rs sys (.invalidateByEvent t) rfl _)
  | invalidateByDependency t =>
    exact regOf_congr fns (sysStep_called_of_not_call fns tls size isOk rs sys (.invalidateByDependency t) (fun _ _ _ h => by cases h))
      (fun j => stats_invalidation fns tls size isOk rs sys (.invalidateByDependency t) rfl _)
  | invalidateCache t =>
    exact regOf_congr fns (sysStep_called_of_not_call fns tls size isOk rs sys (.invalidateCache t) (fun _ _ _ h => by cases h))
      (fun j => stats_invalidation fns tls size isOk rs sys (.invalidateCache t) rfl _)
  | invalidateWith t p =>
    exact regOf_congr fns (sysStep_called_of_not_call fns tls size isOk rs sys (.invalidateWith t p) (fun _ _ _ h => by cases h))
      (fun j => stats_invalidation fns tls size isOk rs sys (.invalidateWith t p) rfl _)
  | invalidateAllWith p =>
    exact regOf_congr fns (sysStep_called_of_not_call fns tls size isOk rs sys (.invalidateAllWith p) (fun _ _ _ h => by cases h))
      (fun j => stats_invalidation fns tls size isOk rs sys (.invalidateAllWith p) rfl _)

/-- the registry-level statistics operations of a whole system history -/
def statTrace (fns : List FnSpec) (tls : Nat → Tlru S) (size : V → Nat) (isOk : V → Bool) :
    Sys K V → List (SysOp K V × List Nat) → List StatsReg.Op
  | _, [] => []
  | sys, (op, rs) :: ops =>
    statOpsOf fns sys op ++ statTrace fns tls size isOk (sysStep fns tls size isOk rs sys op).1 ops

/-- **a whole history of the system = its statistics operations on the registry** -/
theorem sysRun_sim (hd : DistinctNames fns) (ops : List (SysOp K V × List Nat)) :
    regOf fns (sysRun fns tls size isOk sys ops).1 = runState (regOf fns sys) (statTrace fns tls size isOk sys ops) := by
  induction ops generalizing sys with
  | nil => rfl
  | cons p ops ih =>
    obtain ⟨op, rs⟩ := p
    rw [Calls.sysRun_cons, statTrace, runState_append, ← sysStep_sim fns tls size isOk rs sys hd op]
    exact ih _

theorem regOf_init (fns : List FnSpec) : regOf fns (Sys.init : Sys K V) = {} := rfl

end sim

end Cachelito.StatsLemmas
