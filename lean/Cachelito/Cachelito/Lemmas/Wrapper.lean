/-
  Lemmas about the generated wrapper (`Cachelito.callFn`) and the engine operations it uses
  (core Lean only): what a lookup and a store can do to the entry of one key, exact equations for the
  two paths of a call (served from the cache / body executed), and histories of calls of ONE function
  on its own cache (`runCalls`).

  Everything lives in `namespace Cachelito.Wrap` (several lemma names — `insert_lookup`, `hitUpdate_fst`, … —
  are natural and also used, with other statements, by sibling lemma files).
-/
import Cachelito.Wrapper
import Cachelito.Lemmas.Inv
import Cachelito.Lemmas.Order

set_option linter.unusedSectionVars false
set_option linter.unusedSimpArgs false
set_option linter.unusedVariables false

namespace Cachelito.Wrap

deriving instance DecidableEq for Entry
deriving instance DecidableEq for TraceEv

variable {K V S : Type} [DecidableEq K]

/-! ### Sub-stores: eviction only ever removes entries -/

/-- every entry of `m'` is (unchanged) an entry of `m` -/
def SubStore (m' m : Store K V) : Prop := ∀ x e, lookup x m' = some e → lookup x m = some e

/-- a store is a sub-store of itself -/
theorem SubStore.refl (m : Store K V) : SubStore m m := fun _ _ h => h

/-- sub-stores compose -/
theorem SubStore.trans {a b c : Store K V} (h1 : SubStore a b) (h2 : SubStore b c) : SubStore a c :=
  fun x e h => h2 x e (h1 x e h)

/-- removing a key leaves a sub-store -/
theorem subStore_eraseKey (k : K) (m : Store K V) : SubStore (eraseKey k m) m := by
  intro x e h
  by_cases hx : x = k
  · subst hx; rw [lookup_eraseKey_self] at h; cases h
  · rwa [lookup_eraseKey_ne hx] at h

/-- the FIFO/LRU pop only removes -/
theorem popStored_sub (m : Store K V) (q : List K) : SubStore (popStored m q).1 m := by
  induction q with
  | nil => exact SubStore.refl m
  | cons k q ih =>
    simp only [popStored]
    split
    · exact subStore_eraseKey k m
    · exact ih

/-- the single front pop only removes -/
theorem popOne_sub (m : Store K V) (q : List K) : SubStore (popOne m q).1 m := by
  cases q with
  | nil => exact SubStore.refl m
  | cons k q => exact subStore_eraseKey k m

/-- the random eviction only removes -/
theorem evictRandom_sub (r : Nat) (m : Store K V) (q : List K) : SubStore (evictRandom r m q).1 m := by
  unfold evictRandom
  split
  · exact SubStore.refl m
  · exact subStore_eraseKey _ m

/-- in every flavour the store part of `removeBoth` is `eraseKey` -/
theorem removeBoth_fst (cfg : Cfg) (k : K) (m : Store K V) (q : List K) :
    (removeBoth cfg k m q).1 = eraseKey k m := by
  unfold removeBoth
  cases cfg.flavour <;> rfl

/-- the scored (LFU/ARC/TLRU) eviction only removes -/
theorem evictScored_sub (cfg : Cfg) (tl : Tlru S) (now : Nat) (m : Store K V) (q : List K) :
    SubStore (evictScored cfg tl now m q).1 m := by
  unfold evictScored
  split
  · exact SubStore.refl m
  · rename_i k _
    show SubStore (removeBoth cfg k m q).1 m
    rw [removeBoth_fst]; exact subStore_eraseKey k m

/-- one entry-limit eviction only removes, whatever the policy -/
theorem evictLimit_sub (cfg : Cfg) (tl : Tlru S) (now r : Nat) (m : Store K V) (q : List K) :
    SubStore (evictLimit cfg tl now r m q).1 m := by
  unfold evictLimit
  cases cfg.policy <;> simp only
  all_goals first
    | exact popStored_sub m q
    | exact evictRandom_sub r m q
    | exact evictScored_sub cfg tl now m q

/-- one memory-loop eviction only removes, whatever the policy and flavour -/
theorem evictMem_sub (cfg : Cfg) (tl : Tlru S) (now r : Nat) (m : Store K V) (q : List K) :
    SubStore (evictMem cfg tl now r m q).1 m := by
  unfold evictMem
  cases cfg.policy <;> simp only
  all_goals first
    | exact evictRandom_sub r m q
    | exact evictScored_sub cfg tl now m q
    | (cases cfg.flavour <;> simp only <;> first | exact popStored_sub m q | exact popOne_sub m q)

/-- the entry-limit step only removes -/
theorem limitStep_sub (cfg : Cfg) (tl : Tlru S) (now r : Nat) (m : Store K V) (q : List K) :
    SubStore (limitStep cfg tl now r m q).1 m := by
  unfold limitStep
  cases cfg.limit with
  | none => exact SubStore.refl m
  | some n =>
    simp only
    split
    · exact evictLimit_sub cfg tl now r m q
    · exact SubStore.refl m

/-- the whole memory loop only removes -/
theorem memLoop_sub (cfg : Cfg) (tl : Tlru S) (size : V → Nat) (now maxM extra : Nat)
    (fuel : Nat) (rs : List Nat) (m : Store K V) (q : List K) :
    SubStore (memLoop cfg tl size now maxM extra fuel rs m q).1 m := by
  induction fuel generalizing rs m q with
  | zero => exact SubStore.refl m
  | succ fuel ih =>
    simp only [memLoop]
    split
    · exact SubStore.refl m
    · have hs := evictMem_sub cfg tl now (rs.headD 0) m q
      generalize evictMem cfg tl now (rs.headD 0) m q = r at hs
      obtain ⟨m', q', ev⟩ := r
      simp only
      cases ev
      · exact hs
      · exact (ih rs.tail m' q').trans hs

/-- the async store prologue (drop an existing entry for the key) only removes -/
theorem asyncDrop_sub (m : Store K V) (q : List K) (k : K) :
    SubStore (if hasKey k m then (eraseKey k m, q.filter (fun x => x ≠ k)) else (m, q)).1 m := by
  split
  · exact subStore_eraseKey k m
  · exact SubStore.refl m

/-! ### What a store does to the entry of each key -/

/-- an entry found after `put k e` is `e` under `k`, or an unchanged entry of another key -/
theorem lookup_put_cases {k x : K} {e e' : Entry V} {m : Store K V} (h : lookup x (put k e m) = some e') :
    (x = k ∧ e' = e) ∨ (x ≠ k ∧ lookup x m = some e') := by
  by_cases hx : x = k
  · subst hx; rw [lookup_put_self] at h; cases h; exact Or.inl ⟨rfl, rfl⟩
  · rw [lookup_put_ne hx] at h; exact Or.inr ⟨hx, h⟩

/-- After a plain store of `(k, v)` every entry held is either the fresh entry of `k` or an unchanged
    entry of another key that was held before: whatever was stored under `k` before is gone. -/
theorem insert_lookup (cfg : Cfg) (tl : Tlru S) (r : Nat) (s : State K V) (k : K) (v : V) :
    ∀ x e, lookup x (insert cfg tl r s k v).store = some e →
      (x = k ∧ e = ⟨v, stamp cfg s.now, 0⟩) ∨ (x ≠ k ∧ lookup x s.store = some e) := by
  unfold insert
  cases hf : cfg.flavour <;> simp only
  case async =>
    have h0 := asyncDrop_sub s.store s.queue k
    generalize (if hasKey k s.store then (eraseKey k s.store, s.queue.filter (fun x => x ≠ k))
      else (s.store, s.queue)) = p at h0
    obtain ⟨m0, q0⟩ := p
    intro x e h
    rcases lookup_put_cases h with h | h
    · exact Or.inl h
    · exact Or.inr ⟨h.1, h0 x e (limitStep_sub cfg tl s.now r m0 q0 x e h.2)⟩
  all_goals
    intro x e h
    exact lookup_put_cases (limitStep_sub cfg tl s.now r _ _ x e h)

/-- erasing a key just put is erasing it from the original store -/
theorem eraseKey_put (k : K) (e : Entry V) (m : Store K V) : eraseKey k (put k e m) = eraseKey k m := by
  simp [put, eraseKey, List.filter_append, List.filter_filter]

/-- the same for the memory-aware store (including its oversize path, which stores nothing) -/
theorem insertMem_lookup (cfg : Cfg) (tl : Tlru S) (size : V → Nat) (rs : List Nat) (s : State K V)
    (k : K) (v : V) :
    ∀ x e, lookup x (insertMem cfg tl size rs s k v).store = some e →
      (x = k ∧ e = ⟨v, stamp cfg s.now, 0⟩) ∨ (x ≠ k ∧ lookup x s.store = some e) := by
  unfold insertMem
  cases hf : cfg.flavour <;> simp only
  case async =>
    have h0 := asyncDrop_sub s.store s.queue k
    have hk0 := asyncDrop_not_mem s.store s.queue k
    generalize (if hasKey k s.store then (eraseKey k s.store, s.queue.filter (fun x => x ≠ k))
      else (s.store, s.queue)) = p at h0 hk0
    obtain ⟨m0, q0⟩ := p
    simp only at h0 hk0
    cases cfg.maxMem with
    | none =>
      intro x e h
      rcases lookup_put_cases h with h | h
      · exact Or.inl h
      · exact Or.inr ⟨h.1, h0 x e (limitStep_sub cfg tl s.now _ m0 q0 x e h.2)⟩
    | some maxM =>
      simp only
      split
      · intro x e h
        simp only at h
        have hx : x ≠ k := by
          intro hx; subst hx
          rw [(lookup_eq_none_iff x m0).mpr hk0] at h; cases h
        exact Or.inr ⟨hx, h0 x e h⟩
      · have h1 := memLoop_sub cfg tl size s.now maxM (size v) (q0.length + 1) rs m0 q0
        generalize memLoop cfg tl size s.now maxM (size v) (q0.length + 1) rs m0 q0 = r1 at h1
        obtain ⟨m1, q1, rs1⟩ := r1
        intro x e h
        rcases lookup_put_cases h with h | h
        · exact Or.inl h
        · exact Or.inr ⟨h.1, h0 x e (h1 x e (limitStep_sub cfg tl s.now _ m1 q1 x e h.2))⟩
  all_goals
    cases cfg.maxMem with
    | none =>
      intro x e h
      exact lookup_put_cases (limitStep_sub cfg tl s.now _ _ _ x e h)
    | some maxM =>
      simp only
      split
      · intro x e h
        simp only at h
        exact lookup_put_cases (subStore_eraseKey k _ x e h)
      · have h1 := memLoop_sub cfg tl size s.now maxM 0 ((erasePush k s.queue).length + 1) rs
          (put k ⟨v, stamp cfg s.now, 0⟩ s.store) (erasePush k s.queue)
        generalize memLoop cfg tl size s.now maxM 0 ((erasePush k s.queue).length + 1) rs
          (put k ⟨v, stamp cfg s.now, 0⟩ s.store) (erasePush k s.queue) = r1 at h1
        obtain ⟨m1, q1, rs1⟩ := r1
        intro x e h
        exact lookup_put_cases (h1 x e (limitStep_sub cfg tl s.now _ m1 q1 x e h))

/-- the async plain store always ends by writing the fresh entry (eviction happens before it) -/
theorem insert_async_self (cfg : Cfg) (hf : cfg.flavour = .async) (tl : Tlru S) (r : Nat) (s : State K V)
    (k : K) (v : V) : lookup k (insert cfg tl r s k v).store = some ⟨v, stamp cfg s.now, 0⟩ := by
  unfold insert
  rw [hf]; simp only
  generalize (if hasKey k s.store then (eraseKey k s.store, s.queue.filter (fun x => x ≠ k))
      else (s.store, s.queue)) = p
  obtain ⟨m0, q0⟩ := p
  exact lookup_put_self _ _ _

/-- the async memory-aware store writes the fresh entry unless the value alone exceeds `max_memory` -/
theorem insertMem_async_self (cfg : Cfg) (hf : cfg.flavour = .async) (tl : Tlru S) (size : V → Nat)
    (rs : List Nat) (s : State K V) (k : K) (v : V) (hno : oversize cfg size v = false) :
    lookup k (insertMem cfg tl size rs s k v).store = some ⟨v, stamp cfg s.now, 0⟩ := by
  unfold insertMem
  unfold oversize at hno
  rw [hf]; simp only
  generalize (if hasKey k s.store then (eraseKey k s.store, s.queue.filter (fun x => x ≠ k))
      else (s.store, s.queue)) = p
  obtain ⟨m0, q0⟩ := p
  cases hm : cfg.maxMem with
  | none => exact lookup_put_self _ _ _
  | some maxM =>
    rw [hm] at hno
    simp only [decide_eq_false_iff_not] at hno
    simp only [hno, if_false]
    generalize memLoop cfg tl size s.now maxM (size v) (q0.length + 1) rs m0 q0 = r1
    obtain ⟨m1, q1, rs1⟩ := r1
    exact lookup_put_self _ _ _

/-- an oversize value is not held after the memory-aware store, in any flavour -/
theorem insertMem_oversize (cfg : Cfg) (tl : Tlru S) (size : V → Nat)
    (rs : List Nat) (s : State K V) (k : K) (v : V) (ho : oversize cfg size v = true) :
    lookup k (insertMem cfg tl size rs s k v).store = none := by
  unfold insertMem
  unfold oversize at ho
  cases hm : cfg.maxMem with
  | none => rw [hm] at ho; cases ho
  | some maxM =>
    rw [hm] at ho
    simp only [decide_eq_true_eq] at ho
    cases hf : cfg.flavour <;> simp only [ho, if_true]
    case async =>
      have hk0 := asyncDrop_not_mem s.store s.queue k
      exact (lookup_eq_none_iff _ _).mpr hk0
    all_goals exact lookup_eraseKey_self _ _

/-- without an entry limit a plain store is exactly `put`: the fresh entry under `k`, everything else kept -/
theorem insert_nolimit (cfg : Cfg) (hl : cfg.limit = none) (tl : Tlru S) (r : Nat) (s : State K V)
    (k : K) (v : V) (x : K) :
    lookup x (insert cfg tl r s k v).store =
      if x = k then some ⟨v, stamp cfg s.now, 0⟩ else lookup x s.store := by
  unfold insert
  cases hf : cfg.flavour <;> simp only [limitStep, hl]
  case async =>
    by_cases hx : x = k
    · subst hx; simp only [if_true]; split <;> exact lookup_put_self _ _ _
    · simp only [hx, if_false]
      split
      · simp only; rw [lookup_put_ne hx, lookup_eraseKey_ne hx]
      · simp only; rw [lookup_put_ne hx]
  all_goals
    by_cases hx : x = k
    · subst hx; simp only [if_true]; exact lookup_put_self _ _ _
    · simp only [hx, if_false]; exact lookup_put_ne hx _ _

/-- without an entry limit and without a memory bound the memory-aware store is exactly `put` -/
theorem insertMem_nolimit (cfg : Cfg) (hl : cfg.limit = none) (hm : cfg.maxMem = none) (tl : Tlru S)
    (size : V → Nat) (rs : List Nat) (s : State K V) (k : K) (v : V) (x : K) :
    lookup x (insertMem cfg tl size rs s k v).store =
      if x = k then some ⟨v, stamp cfg s.now, 0⟩ else lookup x s.store := by
  unfold insertMem
  cases hf : cfg.flavour <;> simp only [limitStep, hl, hm]
  case async =>
    by_cases hx : x = k
    · subst hx; simp only [if_true]; split <;> exact lookup_put_self _ _ _
    · simp only [hx, if_false]
      split
      · simp only; rw [lookup_put_ne hx, lookup_eraseKey_ne hx]
      · simp only; rw [lookup_put_ne hx]
  all_goals
    by_cases hx : x = k
    · subst hx; simp only [if_true]; exact lookup_put_self _ _ _
    · simp only [hx, if_false]; exact lookup_put_ne hx _ _

/-- a plain store does not move the clock -/
theorem insert_now (cfg : Cfg) (tl : Tlru S) (r : Nat) (s : State K V) (k : K) (v : V) :
    (insert cfg tl r s k v).now = s.now := by
  unfold insert
  cases cfg.flavour <;> rfl

/-- a memory-aware store does not move the clock -/
theorem insertMem_now (cfg : Cfg) (tl : Tlru S) (size : V → Nat) (rs : List Nat) (s : State K V)
    (k : K) (v : V) : (insertMem cfg tl size rs s k v).now = s.now := by
  unfold insertMem
  cases cfg.flavour <;> simp only <;> cases cfg.maxMem <;> simp only <;> (try split) <;> rfl

/-! ### What a lookup does -/

/-- the store part of a hit: hit counter bumped iff the policy counts hits -/
theorem hitUpdate_fst (cfg : Cfg) (k : K) (m : Store K V) (q : List K) :
    (hitUpdate cfg k m q).1 = if cfg.policy.bumps then bumpHits k m else m := by
  unfold hitUpdate
  cases cfg.flavour <;> rfl

/-- `bumpHits` keeps every value -/
theorem lookup_bumpHits_val (k x : K) (m : Store K V) {e' : Entry V} (h : lookup x (bumpHits k m) = some e') :
    ∃ e, lookup x m = some e ∧ e.val = e'.val := by
  unfold bumpHits at h
  by_cases hx : x = k
  · subst hx
    rw [lookup_modify_self] at h
    cases hl : lookup x m with
    | none => rw [hl] at h; cases h
    | some e => rw [hl] at h; simp only [Option.map_some, Option.some.injEq] at h; subst h; exact ⟨e, rfl, rfl⟩
  · rw [lookup_modify_ne hx] at h; exact ⟨e', h, rfl⟩

/-- `bumpHits` keeps every key, with its value -/
theorem lookup_bumpHits_val' (k x : K) (m : Store K V) {e : Entry V} (h : lookup x m = some e) :
    ∃ e', lookup x (bumpHits k m) = some e' ∧ e'.val = e.val := by
  unfold bumpHits
  by_cases hx : x = k
  · subst hx; rw [lookup_modify_self, h]; exact ⟨_, rfl, rfl⟩
  · rw [lookup_modify_ne hx]; exact ⟨e, h, rfl⟩

/-- a lookup does not move the clock -/
theorem get_now (cfg : Cfg) (s : State K V) (k : K) : (get cfg s k).1.now = s.now := by
  unfold get
  cases lookup k s.store with
  | none => rfl
  | some e => simp only; split <;> rfl

/-- A lookup never adds an entry and never changes a value: every entry held afterwards was held
    before with the same value (only hit counters move). -/
theorem get_sub_val (cfg : Cfg) (s : State K V) (k : K) {x : K} {e' : Entry V}
    (h : lookup x (get cfg s k).1.store = some e') : ∃ e, lookup x s.store = some e ∧ e.val = e'.val := by
  unfold get at h
  cases hl : lookup k s.store with
  | none => rw [hl] at h; exact ⟨e', h, rfl⟩
  | some e0 =>
    rw [hl] at h
    simp only at h
    split at h
    · simp only [removeBoth_fst] at h
      exact ⟨e', subStore_eraseKey k _ x e' h, rfl⟩
    · simp only [hitUpdate_fst] at h
      split at h
      · exact lookup_bumpHits_val k x _ h
      · exact ⟨e', h, rfl⟩

/-- a key that is absent before a lookup (of any key) is absent after it -/
theorem get_absent (cfg : Cfg) (s : State K V) (k x : K) (h : lookup x s.store = none) :
    lookup x (get cfg s k).1.store = none := by
  cases hl : lookup x (get cfg s k).1.store with
  | none => rfl
  | some e' =>
    obtain ⟨e, he, _⟩ := get_sub_val cfg s k hl
    rw [h] at he; cases he

/-- a lookup that misses leaves the key absent (it was absent, or its expired entry was removed) -/
theorem get_none_absent (cfg : Cfg) (s : State K V) (k : K) (h : (get cfg s k).2 = none) :
    lookup k (get cfg s k).1.store = none := by
  unfold get at h ⊢
  cases hl : lookup k s.store with
  | none => simp only; exact hl
  | some e0 =>
    rw [hl] at h
    simp only at h ⊢
    split
    · simp only [removeBoth_fst]; exact lookup_eraseKey_self k _
    · rename_i hne
      simp only [hne] at h
      cases h

/-- a lookup that hits returns the value held under the key, which was not expired, and still holds it -/
theorem get_some (cfg : Cfg) (s : State K V) (k : K) {v : V} (h : (get cfg s k).2 = some v) :
    (∃ e, lookup k s.store = some e ∧ e.val = v ∧ expired cfg s.now e = false) ∧
    (∃ e', lookup k (get cfg s k).1.store = some e' ∧ e'.val = v) := by
  unfold get at h ⊢
  cases hl : lookup k s.store with
  | none => rw [hl] at h; cases h
  | some e0 =>
    rw [hl] at h
    simp only at h ⊢
    by_cases hex : expired cfg s.now e0 = true
    · simp only [hex, if_true] at h; cases h
    · simp only [hex, if_false, Bool.false_eq_true] at h ⊢
      simp only [Option.some.injEq] at h
      refine ⟨⟨e0, rfl, h, by simpa using hex⟩, ?_⟩
      simp only [hitUpdate_fst]
      split
      · obtain ⟨e', h1, h2⟩ := lookup_bumpHits_val' k k s.store hl
        exact ⟨e', h1, h2.trans h⟩
      · exact ⟨e0, hl, h⟩

/-- a lookup of an absent key misses -/
theorem get_of_absent (cfg : Cfg) (s : State K V) (k : K) (h : lookup k s.store = none) :
    (get cfg s k).2 = none := by
  unfold get; rw [h]

/-- without a TTL nothing is expired -/
theorem expired_nottl (cfg : Cfg) (ht : cfg.ttl = none) (now : Nat) (e : Entry V) : expired cfg now e = false := by
  unfold expired; rw [ht]

/-- without a TTL a held key always hits, with the held value -/
theorem get_of_lookup_nottl (cfg : Cfg) (ht : cfg.ttl = none) (s : State K V) (k : K) {e : Entry V}
    (h : lookup k s.store = some e) : (get cfg s k).2 = some e.val := by
  unfold get; rw [h]; simp only [expired_nottl cfg ht, Bool.false_eq_true, if_false]

/-- without a TTL a lookup (of any key) keeps every held key, with its value -/
theorem get_keeps_nottl (cfg : Cfg) (ht : cfg.ttl = none) (s : State K V) (k x : K) {e : Entry V}
    (h : lookup x s.store = some e) : ∃ e', lookup x (get cfg s k).1.store = some e' ∧ e'.val = e.val := by
  unfold get
  cases hl : lookup k s.store with
  | none => exact ⟨e, h, rfl⟩
  | some e0 =>
    simp only [expired_nottl cfg ht, Bool.false_eq_true, if_false, hitUpdate_fst]
    split
    · exact lookup_bumpHits_val' k x s.store h
    · exact ⟨e, h, rfl⟩

/-! ### The two paths of a generated call -/

/-- the engine store the macro selected (`insert_with_memory` / `insert`, resp. their `_result` forms) -/
def storeOp (spec : FnSpec) (tl : Tlru S) (size : V → Nat) (rs : List Nat) (s : State K V) (k : K) (v : V) :
    State K V :=
  if spec.useMem then insertMem spec.cfg tl size rs s k v else insert spec.cfg tl (rs.headD 0) s k v

/-- would the result of this call be handed to the engine if the body ran? -/
def wouldStore (spec : FnSpec) (isOk : V → Bool) (c : CallIn K V) : Bool :=
  shouldStore spec isOk (c.cacheIf c.key c.bodyVal) c.bodyVal

/-- does this call execute the body?  (lookup missed, or `invalidate_on` declared the cached value stale) -/
def runsBody (spec : FnSpec) (s : State K V) (c : CallIn K V) : Bool :=
  match (get spec.cfg s c.key).2 with
  | none => true
  | some cached => spec.hasInvalidateOn && c.invalidateOn c.key cached

/-- the `invalidate_on` consultation of this call, if any -/
def checkPart (spec : FnSpec) (s : State K V) (c : CallIn K V) : List (TraceEv K V) :=
  match (get spec.cfg s c.key).2 with
  | none => []
  | some cached =>
    if spec.hasInvalidateOn then [TraceEv.checkCalled c.key cached (c.invalidateOn c.key cached)] else []

/-- the `cache_if` consultation that follows an execution of the body, if a predicate is configured -/
def predPart (spec : FnSpec) (c : CallIn K V) : List (TraceEv K V) :=
  if spec.hasCacheIf then [TraceEv.predCalled c.key c.bodyVal (c.cacheIf c.key c.bodyVal)] else []

/-- **Body path.**  When the body runs, the call returns the body's value, its trace is
    `check? , bodyRun, pred?, stored?, returned`, and the state is the post-lookup state, passed through
    the engine store exactly when `shouldStore` holds. -/
theorem callFn_body (spec : FnSpec) (tl : Tlru S) (size : V → Nat) (isOk : V → Bool) (rs : List Nat)
    (s : State K V) (c : CallIn K V) (h : runsBody spec s c = true) :
    callFn spec tl size isOk rs s c =
      (if wouldStore spec isOk c then storeOp spec tl size rs (get spec.cfg s c.key).1 c.key c.bodyVal
         else (get spec.cfg s c.key).1,
       c.bodyVal,
       checkPart spec s c ++ [TraceEv.bodyRun] ++ predPart spec c ++
         (if wouldStore spec isOk c then [TraceEv.stored c.key c.bodyVal] else []) ++
         [TraceEv.returned c.bodyVal false]) := by
  unfold callFn runsBody checkPart predPart wouldStore storeOp at *
  generalize get spec.cfg s c.key = g at h ⊢
  obtain ⟨s1, o⟩ := g
  cases o with
  | none =>
    simp only
    split <;> simp
  | some cached =>
    simp only [Bool.and_eq_true] at h
    simp only [h.1, h.2, if_true]
    split <;> simp

/-- **Cache path.**  When the body does not run, the call returns the value the lookup produced, the
    state is the post-lookup state, and the trace is `check?, returned (from cache)`. -/
theorem callFn_hit (spec : FnSpec) (tl : Tlru S) (size : V → Nat) (isOk : V → Bool) (rs : List Nat)
    (s : State K V) (c : CallIn K V) (h : runsBody spec s c = false) :
    ∃ cached, (get spec.cfg s c.key).2 = some cached ∧
      callFn spec tl size isOk rs s c =
        ((get spec.cfg s c.key).1, cached, checkPart spec s c ++ [TraceEv.returned cached true]) := by
  unfold callFn runsBody checkPart at *
  generalize get spec.cfg s c.key = g at h ⊢
  obtain ⟨s1, o⟩ := g
  cases o with
  | none => simp at h
  | some cached =>
    refine ⟨cached, rfl, ?_⟩
    simp only at h ⊢
    by_cases hi : spec.hasInvalidateOn = true
    · simp only [hi, Bool.true_and] at h
      simp [hi, h]
    · simp [hi]

/-- a missed lookup runs the body -/
theorem runsBody_of_none (spec : FnSpec) (s : State K V) (c : CallIn K V)
    (h : (get spec.cfg s c.key).2 = none) : runsBody spec s c = true := by
  unfold runsBody; rw [h]

/-- on a hit the body runs iff `invalidate_on` is configured and declares the cached value stale -/
theorem runsBody_of_some (spec : FnSpec) (s : State K V) (c : CallIn K V) {cached : V}
    (h : (get spec.cfg s c.key).2 = some cached) :
    runsBody spec s c = (spec.hasInvalidateOn && c.invalidateOn c.key cached) := by
  unfold runsBody; rw [h]

/-- a call on a cache that does not hold the key runs the body -/
theorem runsBody_of_absent (spec : FnSpec) (s : State K V) (c : CallIn K V)
    (h : lookup c.key s.store = none) : runsBody spec s c = true :=
  runsBody_of_none spec s c (get_of_absent spec.cfg s c.key h)

/-- the state after a call: post-lookup state, stored into iff the body ran and `shouldStore` -/
theorem callFn_state (spec : FnSpec) (tl : Tlru S) (size : V → Nat) (isOk : V → Bool) (rs : List Nat)
    (s : State K V) (c : CallIn K V) :
    (callFn spec tl size isOk rs s c).1 =
      if runsBody spec s c && wouldStore spec isOk c
      then storeOp spec tl size rs (get spec.cfg s c.key).1 c.key c.bodyVal
      else (get spec.cfg s c.key).1 := by
  cases hb : runsBody spec s c
  · obtain ⟨cached, _, he⟩ := callFn_hit spec tl size isOk rs s c hb
    rw [he]; simp
  · rw [callFn_body spec tl size isOk rs s c hb]; simp

/-- what the engine store does to each key, whichever of the two stores the macro selected -/
theorem storeOp_lookup (spec : FnSpec) (tl : Tlru S) (size : V → Nat) (rs : List Nat) (s : State K V)
    (k : K) (v : V) :
    ∀ x e, lookup x (storeOp spec tl size rs s k v).store = some e →
      (x = k ∧ e = ⟨v, stamp spec.cfg s.now, 0⟩) ∨ (x ≠ k ∧ lookup x s.store = some e) := by
  unfold storeOp
  split
  · exact insertMem_lookup spec.cfg tl size rs s k v
  · exact insert_lookup spec.cfg tl _ s k v

/-- no eviction pressure: no entry limit and no effective memory bound (`max_memory` absent, or the
    plain store selected) -/
def NoEvict (spec : FnSpec) : Prop :=
  spec.cfg.limit = none ∧ (spec.cfg.maxMem = none ∨ spec.useMem = false)

/-- no eviction pressure and no expiry -/
def NoPressure (spec : FnSpec) : Prop := NoEvict spec ∧ spec.cfg.ttl = none

/-- without eviction pressure the engine store is exactly `put` -/
theorem storeOp_noevict (spec : FnSpec) (hne : NoEvict spec) (tl : Tlru S) (size : V → Nat)
    (rs : List Nat) (s : State K V) (k : K) (v : V) (x : K) :
    lookup x (storeOp spec tl size rs s k v).store =
      if x = k then some ⟨v, stamp spec.cfg s.now, 0⟩ else lookup x s.store := by
  unfold storeOp
  obtain ⟨hl, hm⟩ := hne
  by_cases hu : spec.useMem = true
  · rcases hm with hm | hm
    · simp only [hu, if_true]; exact insertMem_nolimit spec.cfg hl hm tl size rs s k v x
    · rw [hm] at hu; cases hu
  · simp only [hu, if_false, Bool.false_eq_true]; exact insert_nolimit spec.cfg hl tl _ s k v x

/-- the async engine store writes the fresh entry unless the memory-aware store refuses it as oversize -/
theorem storeOp_async_self (spec : FnSpec) (hf : spec.cfg.flavour = .async) (tl : Tlru S) (size : V → Nat)
    (rs : List Nat) (s : State K V) (k : K) (v : V)
    (hno : spec.useMem = true → oversize spec.cfg size v = false) :
    lookup k (storeOp spec tl size rs s k v).store = some ⟨v, stamp spec.cfg s.now, 0⟩ := by
  unfold storeOp
  by_cases hu : spec.useMem = true
  · simp only [hu, if_true]; exact insertMem_async_self spec.cfg hf tl size rs s k v (hno hu)
  · simp only [hu, if_false, Bool.false_eq_true]; exact insert_async_self spec.cfg hf tl _ s k v

/-! ### Histories of calls of one function on its own cache -/

/-- one event of a single-function history: a call (with the random draws its store may consume) or a
    clock tick -/
inductive WEv (K V : Type)
  | call (c : CallIn K V) (rs : List Nat)
  | tick (ms : Nat)

/-- advance the virtual clock -/
def tickState (ms : Nat) (s : State K V) : State K V := { s with now := s.now + ms }

/-- run a history of calls of `spec` and clock ticks; the output lists, per call, the returned value and
    the trace -/
def runCalls (spec : FnSpec) (tl : Tlru S) (size : V → Nat) (isOk : V → Bool) :
    State K V → List (WEv K V) → State K V × List (V × List (TraceEv K V))
  | s, [] => (s, [])
  | s, .call c rs :: h =>
    let r := callFn spec tl size isOk rs s c
    let r2 := runCalls spec tl size isOk r.1 h
    (r2.1, (r.2.1, r.2.2) :: r2.2)
  | s, .tick ms :: h => runCalls spec tl size isOk (tickState ms s) h

/-- the calls of a history, in order -/
def callsOf : List (WEv K V) → List (CallIn K V)
  | [] => []
  | .call c _ :: h => c :: callsOf h
  | .tick _ :: h => callsOf h

/-- `callsOf` distributes over concatenation -/
theorem callsOf_append (a b : List (WEv K V)) : callsOf (a ++ b) = callsOf a ++ callsOf b := by
  induction a with
  | nil => rfl
  | cons e a ih => cases e <;> simp [callsOf, ih]

/-- running a concatenated history = running the second part from the state the first part reaches -/
theorem runCalls_append (spec : FnSpec) (tl : Tlru S) (size : V → Nat) (isOk : V → Bool) (s : State K V)
    (a b : List (WEv K V)) :
    (runCalls spec tl size isOk s (a ++ b)).1 =
      (runCalls spec tl size isOk (runCalls spec tl size isOk s a).1 b).1 := by
  induction a generalizing s with
  | nil => rfl
  | cons e a ih =>
    cases e with
    | call c rs => simp only [List.cons_append, runCalls]; exact ih _
    | tick ms => simp only [List.cons_append, runCalls]; exact ih _

/-- every value held under `k` satisfies `A` (vacuous when `k` is absent) -/
def HeldSat (k : K) (A : V → Prop) (s : State K V) : Prop := ∀ e, lookup k s.store = some e → A e.val

/-- `HeldSat k False` says that `k` is absent -/
theorem heldSat_false_iff (k : K) (s : State K V) : HeldSat k (fun _ => False) s ↔ lookup k s.store = none := by
  unfold HeldSat
  cases lookup k s.store with
  | none => simp
  | some e => simp

/-- One call keeps "every value held under `k` satisfies `A`", provided that — if it is a call for `k`
    whose result would be stored — its body value satisfies `A`. -/
theorem callFn_heldSat (spec : FnSpec) (tl : Tlru S) (size : V → Nat) (isOk : V → Bool) (rs : List Nat)
    (s : State K V) (c : CallIn K V) (k : K) (A : V → Prop)
    (hc : c.key = k → wouldStore spec isOk c = true → A c.bodyVal) (h : HeldSat k A s) :
    HeldSat k A (callFn spec tl size isOk rs s c).1 := by
  have hg : HeldSat k A (get spec.cfg s c.key).1 := by
    intro e' he'
    obtain ⟨e, he, hv⟩ := get_sub_val spec.cfg s c.key he'
    rw [← hv]; exact h e he
  rw [callFn_state]
  split
  · rename_i hcond
    simp only [Bool.and_eq_true] at hcond
    intro e he
    rcases storeOp_lookup spec tl size rs _ c.key c.bodyVal k e he with ⟨hk, hev⟩ | ⟨_, hold⟩
    · rw [hev]; exact hc hk.symm hcond.2
    · exact hg e hold
  · exact hg

/-- **Histories.**  Over any history, "every value held under `k` satisfies `A`" is kept provided every
    call for `k` whose result would be stored has a body value satisfying `A`. -/
theorem runCalls_heldSat (spec : FnSpec) (tl : Tlru S) (size : V → Nat) (isOk : V → Bool) (k : K)
    (A : V → Prop) (h : List (WEv K V)) (s : State K V)
    (hc : ∀ c ∈ callsOf h, c.key = k → wouldStore spec isOk c = true → A c.bodyVal)
    (hs : HeldSat k A s) : HeldSat k A (runCalls spec tl size isOk s h).1 := by
  induction h generalizing s with
  | nil => exact hs
  | cons ev h ih =>
    cases ev with
    | call c rs =>
      simp only [runCalls]
      apply ih
      · intro c' hc'; exact hc c' (by simp [callsOf, hc'])
      · exact callFn_heldSat spec tl size isOk rs s c k A (hc c (by simp [callsOf])) hs
    | tick ms =>
      simp only [runCalls]
      apply ih
      · intro c' hc'; exact hc c' (by simp [callsOf, hc'])
      · exact hs

/-- `k` is held with value `v` -/
def ValAt (k : K) (v : V) (s : State K V) : Prop := ∃ e, lookup k s.store = some e ∧ e.val = v

/-- does the call leave an entry of `k` with value `v` alone?  Yes if it is for another key; for `k`
    itself, if no `invalidate_on` check declares `v` stale. -/
def Keeps (spec : FnSpec) (k : K) (v : V) (c : CallIn K V) : Prop :=
  c.key = k → (spec.hasInvalidateOn = false ∨ c.invalidateOn k v = false)

/-- without pressure or expiry a held value survives a call that `Keeps` it, and a call for `k` is then
    served that value from the cache -/
theorem callFn_valAt (spec : FnSpec) (hnp : NoPressure spec) (tl : Tlru S) (size : V → Nat) (isOk : V → Bool)
    (rs : List Nat) (s : State K V) (c : CallIn K V) (k : K) (v : V) (hk : Keeps spec k v c)
    (h : ValAt k v s) : ValAt k v (callFn spec tl size isOk rs s c).1 := by
  obtain ⟨e, he, hv⟩ := h
  obtain ⟨e1, he1, hv1⟩ := get_keeps_nottl spec.cfg hnp.2 s c.key k he
  have hg : ValAt k v (get spec.cfg s c.key).1 := ⟨e1, he1, hv1.trans hv⟩
  rw [callFn_state]
  split
  · rename_i hcond
    simp only [Bool.and_eq_true] at hcond
    by_cases hck : c.key = k
    · exfalso
      have hget : (get spec.cfg s c.key).2 = some v := by
        rw [hck]; rw [← hv]; exact get_of_lookup_nottl spec.cfg hnp.2 s k he
      rw [runsBody_of_some spec s c hget, Bool.and_eq_true] at hcond
      rcases hk hck with h1 | h1
      · rw [h1] at hcond; exact Bool.false_ne_true hcond.1.1
      · rw [hck, h1] at hcond; exact Bool.false_ne_true hcond.1.2
    · refine ⟨e1, ?_, hv1.trans hv⟩
      rw [storeOp_noevict spec hnp.1, if_neg (fun hh => hck hh.symm)]; exact he1
  · exact hg

/-- without pressure or expiry a held value survives any history whose calls all `Keeps` it -/
theorem runCalls_valAt (spec : FnSpec) (hnp : NoPressure spec) (tl : Tlru S) (size : V → Nat) (isOk : V → Bool)
    (k : K) (v : V) (h : List (WEv K V)) (s : State K V)
    (hc : ∀ c ∈ callsOf h, Keeps spec k v c) (hs : ValAt k v s) :
    ValAt k v (runCalls spec tl size isOk s h).1 := by
  induction h generalizing s with
  | nil => exact hs
  | cons ev h ih =>
    cases ev with
    | call c rs =>
      simp only [runCalls]
      apply ih
      · intro c' hc'; exact hc c' (by simp [callsOf, hc'])
      · exact callFn_valAt spec hnp tl size isOk rs s c k v (hc c (by simp [callsOf])) hs
    | tick ms =>
      simp only [runCalls]
      apply ih
      · intro c' hc'; exact hc c' (by simp [callsOf, hc'])
      · exact hs

/-- without a TTL, a call for a held key whose value no `invalidate_on` check declares stale is served
    from the cache: it returns the held value and the body does not run -/
theorem callFn_served (spec : FnSpec) (ht : spec.cfg.ttl = none) (tl : Tlru S) (size : V → Nat)
    (isOk : V → Bool) (rs : List Nat) (s : State K V) (c : CallIn K V) (v : V)
    (hk : Keeps spec c.key v c) (h : ValAt c.key v s) :
    (callFn spec tl size isOk rs s c).2 =
      (v, (if spec.hasInvalidateOn then [TraceEv.checkCalled c.key v false] else []) ++
            [TraceEv.returned v true]) := by
  obtain ⟨e, he, hv⟩ := h
  have hget : (get spec.cfg s c.key).2 = some v := by
    rw [← hv]; exact get_of_lookup_nottl spec.cfg ht s c.key he
  have hb : runsBody spec s c = false := by
    rw [runsBody_of_some spec s c hget]
    rcases hk rfl with h1 | h1 <;> simp [h1]
  obtain ⟨cached, hc1, hc2⟩ := callFn_hit spec tl size isOk rs s c hb
  rw [hget] at hc1; cases hc1
  rw [hc2]
  simp only [checkPart, hget]
  rcases hk rfl with h1 | h1
  · simp [h1]
  · by_cases hi : spec.hasInvalidateOn = true <;> simp [hi, h1]

/-! ### `shouldStore` in the configurations the properties fix -/

/-- Result function, no `cache_if`: stored iff `Ok` (sync via `insert_result*`, async via `is_ok()`) -/
theorem wouldStore_result_nopred (spec : FnSpec) (isOk : V → Bool) (c : CallIn K V)
    (hR : spec.isResult = true) (hC : spec.hasCacheIf = false) :
    wouldStore spec isOk c = isOk c.bodyVal := by
  unfold wouldStore shouldStore
  cases spec.isAsync <;> simp [hR, hC]

/-- no `cache_if`, not a (recognised) Result: always stored -/
theorem wouldStore_plain (spec : FnSpec) (isOk : V → Bool) (c : CallIn K V)
    (hR : spec.isResult = false) (hC : spec.hasCacheIf = false) : wouldStore spec isOk c = true := by
  unfold wouldStore shouldStore
  cases spec.isAsync <;> simp [hR, hC]

/-- without `invalidate_on` the body runs iff the lookup missed -/
theorem runsBody_noinv (spec : FnSpec) (s : State K V) (c : CallIn K V) (hI : spec.hasInvalidateOn = false) :
    runsBody spec s c = (get spec.cfg s c.key).2.isNone := by
  unfold runsBody
  cases (get spec.cfg s c.key).2 <;> simp [hI]

/-- no `invalidate_on`: no consultation -/
theorem checkPart_noinv (spec : FnSpec) (s : State K V) (c : CallIn K V) (hI : spec.hasInvalidateOn = false) :
    checkPart spec s c = [] := by
  unfold checkPart
  cases (get spec.cfg s c.key).2 <;> simp [hI]

/-- a missed lookup has nothing to check -/
theorem checkPart_of_none (spec : FnSpec) (s : State K V) (c : CallIn K V)
    (h : (get spec.cfg s c.key).2 = none) : checkPart spec s c = [] := by
  unfold checkPart; rw [h]

/-- no `cache_if`: no consultation -/
theorem predPart_nopred (spec : FnSpec) (c : CallIn K V) (hC : spec.hasCacheIf = false) :
    predPart spec c = [] := by
  unfold predPart; simp [hC]

/-- the empty cache satisfies every `HeldSat` -/
theorem heldSat_init (k : K) (A : V → Prop) : HeldSat k A (State.init : State K V) := by
  intro e he; simp [State.init, lookup] at he

/-- a `stored` event in a trace is this call's key and body value, and occurs iff the body ran and
    `shouldStore` held -/
theorem stored_mem_iff (spec : FnSpec) (tl : Tlru S) (size : V → Nat) (isOk : V → Bool) (rs : List Nat)
    (s : State K V) (c : CallIn K V) (k : K) (v : V) :
    TraceEv.stored k v ∈ (callFn spec tl size isOk rs s c).2.2 ↔
      (runsBody spec s c = true ∧ wouldStore spec isOk c = true ∧ k = c.key ∧ v = c.bodyVal) := by
  cases hb : runsBody spec s c
  · obtain ⟨cached, h1, h2⟩ := callFn_hit spec tl size isOk rs s c hb
    rw [h2]; unfold checkPart; rw [h1]
    by_cases hi : spec.hasInvalidateOn = true <;> simp [hi]
  · rw [callFn_body spec tl size isOk rs s c hb]
    unfold checkPart predPart
    cases (get spec.cfg s c.key).2 <;> by_cases hw : wouldStore spec isOk c = true <;>
      by_cases hi : spec.hasInvalidateOn = true <;> by_cases hc : spec.hasCacheIf = true <;>
      simp [hw, hi, hc]

/-- a `checkCalled` event reports this call's key and the value its lookup produced -/
theorem checkCalled_mem (spec : FnSpec) (tl : Tlru S) (size : V → Nat) (isOk : V → Bool) (rs : List Nat)
    (s : State K V) (c : CallIn K V) {k : K} {v : V} {st : Bool}
    (h : TraceEv.checkCalled k v st ∈ (callFn spec tl size isOk rs s c).2.2) :
    spec.hasInvalidateOn = true ∧ k = c.key ∧ (get spec.cfg s c.key).2 = some v ∧
      st = c.invalidateOn c.key v := by
  cases hb : runsBody spec s c
  · obtain ⟨cached, h1, h2⟩ := callFn_hit spec tl size isOk rs s c hb
    rw [h2] at h; unfold checkPart at h; rw [h1] at h
    by_cases hi : spec.hasInvalidateOn = true
    · simp [hi] at h; rw [h1]; simp [hi, h]
    · simp [hi] at h
  · rw [callFn_body spec tl size isOk rs s c hb] at h
    unfold checkPart predPart at h
    cases hg : (get spec.cfg s c.key).2 with
    | none =>
      rw [hg] at h
      by_cases hw : wouldStore spec isOk c = true <;> by_cases hc : spec.hasCacheIf = true <;>
        simp [hw, hc] at h
    | some cached =>
      rw [hg] at h
      by_cases hi : spec.hasInvalidateOn = true
      · by_cases hw : wouldStore spec isOk c = true <;> by_cases hc : spec.hasCacheIf = true <;>
          simp [hw, hc, hi] at h <;> simp [hi, h]
      · by_cases hw : wouldStore spec isOk c = true <;> by_cases hc : spec.hasCacheIf = true <;>
          simp [hw, hc, hi] at h

/-- events that record an execution: the body, or the `cache_if` predicate -/
def TraceEv.isExec : TraceEv K V → Bool
  | .bodyRun => true
  | .predCalled _ _ _ => true
  | _ => false

/-- shape of the trace when the body runs: a prefix and a suffix without execution events around
    `bodyRun` immediately followed by the `cache_if` consultation (if configured) -/
theorem trace_body_shape (spec : FnSpec) (tl : Tlru S) (size : V → Nat) (isOk : V → Bool) (rs : List Nat)
    (s : State K V) (c : CallIn K V) (hb : runsBody spec s c = true) :
    ∃ pre post, (callFn spec tl size isOk rs s c).2.2 = pre ++ ([TraceEv.bodyRun] ++ predPart spec c) ++ post ∧
      (∀ ev ∈ pre, TraceEv.isExec ev = false) ∧ (∀ ev ∈ post, TraceEv.isExec ev = false) := by
  rw [callFn_body spec tl size isOk rs s c hb]
  refine ⟨checkPart spec s c,
    (if wouldStore spec isOk c then [TraceEv.stored c.key c.bodyVal] else []) ++
      [TraceEv.returned c.bodyVal false], by simp, ?_, ?_⟩
  · unfold checkPart
    cases (get spec.cfg s c.key).2 <;> by_cases hi : spec.hasInvalidateOn = true <;> simp [hi, TraceEv.isExec]
  · by_cases hw : wouldStore spec isOk c = true <;> simp [hw, TraceEv.isExec]

/-- when the body does not run the trace has no execution event at all -/
theorem trace_hit_shape (spec : FnSpec) (tl : Tlru S) (size : V → Nat) (isOk : V → Bool) (rs : List Nat)
    (s : State K V) (c : CallIn K V) (hb : runsBody spec s c = false) :
    ∀ ev ∈ (callFn spec tl size isOk rs s c).2.2, TraceEv.isExec ev = false := by
  obtain ⟨cached, h1, h2⟩ := callFn_hit spec tl size isOk rs s c hb
  rw [h2]; unfold checkPart; rw [h1]
  by_cases hi : spec.hasInvalidateOn = true <;> simp [hi, TraceEv.isExec]

/-- the output list has one entry per call -/
theorem runCalls_length (spec : FnSpec) (tl : Tlru S) (size : V → Nat) (isOk : V → Bool)
    (s : State K V) (h : List (WEv K V)) :
    (runCalls spec tl size isOk s h).2.length = (callsOf h).length := by
  induction h generalizing s with
  | nil => rfl
  | cons ev h ih =>
    cases ev with
    | call c rs => simp only [runCalls, callsOf, List.length_cons, ih]
    | tick ms => simp only [runCalls, callsOf, ih]

/-- a per-call fact that holds in every state holds for every call of a history, paired with its output -/
theorem runCalls_forall_zip (spec : FnSpec) (tl : Tlru S) (size : V → Nat) (isOk : V → Bool)
    (Q : CallIn K V → V × List (TraceEv K V) → Prop)
    (hQ : ∀ (s : State K V) (c : CallIn K V) (rs : List Nat), Q c (callFn spec tl size isOk rs s c).2)
    (s : State K V) (h : List (WEv K V)) :
    ∀ p ∈ (callsOf h).zip (runCalls spec tl size isOk s h).2, Q p.1 p.2 := by
  induction h generalizing s with
  | nil => intro p hp; simp [callsOf, runCalls] at hp
  | cons ev h ih =>
    cases ev with
    | call c rs =>
      intro p hp
      simp only [callsOf, runCalls, List.zip_cons_cons, List.mem_cons] at hp
      rcases hp with hp | hp
      · subst hp; exact hQ s c rs
      · exact ih _ p hp
    | tick ms => exact ih _

/-! ### Freshly stored entries are not expired -/

/-- an entry stamped now has age 0 (in the engine's own arithmetic, every flavour) -/
theorem elapsedMs_stamp (cfg : Cfg) (now : Nat) : elapsedMs cfg now (stamp cfg now) = 0 := by
  unfold elapsedMs stamp
  cases cfg.flavour <;> simp

/-- an entry stamped at the current clock is not expired unless `ttl = 0` -/
theorem expired_fresh (cfg : Cfg) (ht : cfg.ttl ≠ some 0) (now : Nat) (v : V) (hits : Nat) :
    expired cfg now (⟨v, stamp cfg now, hits⟩ : Entry V) = false := by
  unfold expired
  cases h : cfg.ttl with
  | none => rfl
  | some t =>
    simp only [elapsedMs_stamp, Nat.zero_div, ge_iff_le, Nat.le_zero_eq, decide_eq_false_iff_not]
    intro h0; subst h0; exact ht h

/-- a lookup of a key whose entry was stamped at the current clock hits (unless `ttl = 0`) -/
theorem get_fresh (cfg : Cfg) (ht : cfg.ttl ≠ some 0) (s : State K V) (k : K) (v : V) (hits : Nat)
    (h : lookup k s.store = some ⟨v, stamp cfg s.now, hits⟩) : (get cfg s k).2 = some v := by
  unfold get; rw [h]
  simp only [expired_fresh cfg ht, Bool.false_eq_true, if_false]

/-- the engine store does not move the clock -/
theorem storeOp_now (spec : FnSpec) (tl : Tlru S) (size : V → Nat) (rs : List Nat) (s : State K V)
    (k : K) (v : V) : (storeOp spec tl size rs s k v).now = s.now := by
  unfold storeOp
  split
  · exact insertMem_now _ _ _ _ _ _ _
  · exact insert_now _ _ _ _ _ _

/-- a call does not move the clock -/
theorem callFn_now (spec : FnSpec) (tl : Tlru S) (size : V → Nat) (isOk : V → Bool) (rs : List Nat)
    (s : State K V) (c : CallIn K V) : (callFn spec tl size isOk rs s c).1.now = s.now := by
  rw [callFn_state]
  split
  · rw [storeOp_now, get_now]
  · exact get_now _ _ _

/-- **Stored, then served.**  Without eviction pressure or expiry: once a call has run the body and its
    result was handed to the engine, then after any further history whose calls leave that entry alone
    (`Keeps`: other keys, or the same key with no `invalidate_on` check declaring it stale), a call for
    the key that also `Keeps` it returns that value from the cache; its trace is the (non-stale)
    `invalidate_on` consultation, if configured, and `returned (from cache)` — no body, no predicate. -/
theorem stored_then_served (spec : FnSpec) (hnp : NoPressure spec) (tl : Tlru S) (size : V → Nat)
    (isOk : V → Bool) (s : State K V) (c : CallIn K V) (rs : List Nat)
    (hb : runsBody spec s c = true) (hw : wouldStore spec isOk c = true)
    (h2 : List (WEv K V)) (hkeep : ∀ c0 ∈ callsOf h2, Keeps spec c.key c.bodyVal c0)
    (c' : CallIn K V) (rs' : List Nat) (hk : c'.key = c.key) (hkeep' : Keeps spec c.key c.bodyVal c') :
    (callFn spec tl size isOk rs'
        (runCalls spec tl size isOk (callFn spec tl size isOk rs s c).1 h2).1 c').2 =
      (c.bodyVal, (if spec.hasInvalidateOn then [TraceEv.checkCalled c.key c.bodyVal false] else []) ++
            [TraceEv.returned c.bodyVal true]) := by
  have hstore : ValAt c.key c.bodyVal (callFn spec tl size isOk rs s c).1 := by
    rw [callFn_state, hb, hw]
    refine ⟨⟨c.bodyVal, stamp spec.cfg (get spec.cfg s c.key).1.now, 0⟩, ?_, rfl⟩
    simp only [Bool.and_self, if_true]
    rw [storeOp_noevict spec hnp.1, if_pos rfl]
  have hlater := runCalls_valAt spec hnp tl size isOk c.key c.bodyVal h2 _ hkeep hstore
  rw [← hk] at hlater hkeep' ⊢
  exact callFn_served spec hnp.2 tl size isOk rs' _ c' c.bodyVal hkeep' hlater

/-! ### Re-storing a held key in a sync engine -/

/-- Sync plain store of a key that is ALREADY held, in a consistent state whose queue is within the entry
    limit: the queue does not grow, so the entry-limit step does not fire and the fresh entry is held
    afterwards — for every policy. -/
theorem insert_sync_restore_present (cfg : Cfg) (hf : cfg.flavour ≠ .async) (tl : Tlru S) (r : Nat)
    (s : State K V) (k : K) (v : V) (hi : Inv s) (hk : k ∈ keys s.store)
    (hl : ∀ n, cfg.limit = some n → s.queue.length ≤ n) :
    lookup k (insert cfg tl r s k v).store = some ⟨v, stamp cfg s.now, 0⟩ := by
  have hkq : k ∈ s.queue := (hi.2.2 k).mpr hk
  have hlen : (erasePush k s.queue).length = s.queue.length := by
    unfold erasePush
    have h1 := List.length_erase_of_mem hkq
    have h2 : 0 < s.queue.length := List.length_pos_of_mem hkq
    simp only [List.length_append, List.length_cons, List.length_nil, h1]; omega
  unfold insert
  cases hfl : cfg.flavour <;> simp only
  case async => exact absurd hfl hf
  all_goals
    unfold limitStep
    cases hlim : cfg.limit with
    | none => exact lookup_put_self _ _ _
    | some n =>
      have hb := hl n hlim
      have ho : overLimit cfg n (put k ⟨v, stamp cfg s.now, 0⟩ s.store) (erasePush k s.queue) = false := by
        unfold overLimit; rw [hfl]; simp only [hlen, decide_eq_false_iff_not]; omega
      simp only [ho, Bool.false_eq_true, if_false]
      exact lookup_put_self _ _ _

/-! ### Sync FIFO/LRU: the newcomer sits at the back of the queue and is never its own victim -/

/-- in a duplicate-free list the head differs from the last element -/
theorem ne_of_nodup_cons_append {h k : K} {rest : List K} (hn : (h :: (rest ++ [k])).Nodup) : h ≠ k := by
  intro hh; subst hh
  have := (List.nodup_cons.mp hn).1
  exact this (by simp)

/-- a consistent store whose queue is `[k]` holds exactly the entry of `k` -/
theorem totalMem_singleton {m : Store K V} {k : K} {e : Entry V} (size : V → Nat) (h : InvMQ m [k])
    (hk : lookup k m = some e) : totalMem size m = size e.val := by
  have hlen := h.length_eq
  match m, h, hk, hlen with
  | [p], h, hk, _ =>
    obtain ⟨a, e'⟩ := p
    have ha : a = k := by
      have := (h.2.2 k).mp (by simp)
      simp only [keys, List.map_cons, List.map_nil, List.mem_singleton] at this
      exact this.symm
    subst ha
    simp only [lookup, if_true, Option.some.injEq] at hk
    subst hk
    simp [totalMem]

/-- the sync FIFO/LRU memory loop never evicts the key at the back of the queue, if its value alone fits -/
theorem memLoop_keeps_last {cfg : Cfg} (hp : cfg.policy = .fifo ∨ cfg.policy = .lru) (tl : Tlru S)
    (size : V → Nat) (now maxM fuel : Nat) (rs : List Nat) {m : Store K V} {q' : List K} {k : K}
    {e : Entry V} (h : InvMQ m (q' ++ [k])) (hk : lookup k m = some e) (hsz : size e.val ≤ maxM) :
    (∃ q'', (memLoop cfg tl size now maxM 0 fuel rs m (q' ++ [k])).2.1 = q'' ++ [k]) ∧
    lookup k (memLoop cfg tl size now maxM 0 fuel rs m (q' ++ [k])).1 = some e := by
  induction fuel generalizing rs m q' with
  | zero => exact ⟨⟨q', rfl⟩, hk⟩
  | succ fuel ih =>
    simp only [memLoop]
    split
    · exact ⟨⟨q', rfl⟩, hk⟩
    · rename_i hover
      cases q' with
      | nil =>
        exfalso
        have := totalMem_singleton size h hk
        simp only [List.nil_append] at h
        omega
      | cons hd rest =>
        have hne : hd ≠ k := ne_of_nodup_cons_append h.2.1
        have hev := evictMem_head hp tl now (rs.headD 0) (m := m) (k := hd) (rest := rest ++ [k]) h
        simp only [List.cons_append, hev, if_true]
        have hinv : InvMQ (eraseKey hd m) (rest ++ [k]) := by
          have h' : InvMQ m (hd :: (rest ++ [k])) := h
          have := h'.remove hd
          rwa [filter_ne_of_head h'.2.1] at this
        have hk' : lookup k (eraseKey hd m) = some e := by
          rw [lookup_eraseKey_ne (Ne.symm hne)]; exact hk
        exact ih rs.tail hinv hk'

/-- the sync FIFO/LRU entry-limit step (limit ≥ 1) never evicts the key at the back of the queue -/
theorem limitStep_keeps_last {cfg : Cfg} (hp : cfg.policy = .fifo ∨ cfg.policy = .lru)
    (hf : cfg.flavour ≠ .async) (hl : cfg.limit ≠ some 0) (tl : Tlru S) (now r : Nat)
    {m : Store K V} {q' : List K} {k : K} (h : InvMQ m (q' ++ [k])) :
    lookup k (limitStep cfg tl now r m (q' ++ [k])).1 = lookup k m := by
  unfold limitStep
  cases hlim : cfg.limit with
  | none => rfl
  | some n =>
    simp only
    split
    · rename_i ho
      cases q' with
      | nil =>
        exfalso
        unfold overLimit at ho
        have hn : n ≠ 0 := fun hn => hl (by rw [hlim, hn])
        cases hfl : cfg.flavour <;> rw [hfl] at ho <;> simp at ho
        · omega
        · omega
        · exact hf hfl
      | cons hd rest =>
        have hne : hd ≠ k := ne_of_nodup_cons_append h.2.1
        have hev := evictLimit_head hp tl now r (m := m) (k := hd) (rest := rest ++ [k]) h
        simp only [List.cons_append, hev]
        exact lookup_eraseKey_ne (Ne.symm hne) m
    · rfl

/-- **Sync FIFO/LRU, limit ≥ 1, value not oversize:** after the engine store the fresh entry is held —
    the newcomer is at the back of the queue and evictions pop the front. -/
theorem storeOp_sync_fifo_lru_present (spec : FnSpec) (hp : spec.cfg.policy = .fifo ∨ spec.cfg.policy = .lru)
    (hf : spec.cfg.flavour ≠ .async) (hl : spec.cfg.limit ≠ some 0) (tl : Tlru S) (size : V → Nat)
    (rs : List Nat) (s : State K V) (k : K) (v : V) (hi : Inv s)
    (hno : spec.useMem = true → oversize spec.cfg size v = false) :
    lookup k (storeOp spec tl size rs s k v).store = some ⟨v, stamp spec.cfg s.now, 0⟩ := by
  have h0 := InvMQ.put_erasePush hi k (⟨v, stamp spec.cfg s.now, 0⟩ : Entry V)
  have hk0 : lookup k (put k (⟨v, stamp spec.cfg s.now, 0⟩ : Entry V) s.store) = some ⟨v, stamp spec.cfg s.now, 0⟩ :=
    lookup_put_self _ _ _
  unfold erasePush at h0
  unfold storeOp
  by_cases hu : spec.useMem = true
  · simp only [hu, if_true]
    have hno' := hno hu
    unfold oversize at hno'
    unfold insertMem
    cases hfl : spec.cfg.flavour <;> simp only
    case async => exact absurd hfl hf
    all_goals
      unfold erasePush
      cases hm : spec.cfg.maxMem with
      | none =>
        simp only
        rw [limitStep_keeps_last hp hf hl tl _ _ h0]; exact hk0
      | some maxM =>
        rw [hm] at hno'
        have hno'' : ¬ size v > maxM := by simpa using hno'
        simp only [hno'', if_false]
        have h1 := memLoop_keeps_last hp tl size s.now maxM ((s.queue.erase k ++ [k]).length + 1) rs h0 hk0
          (by simp only; omega)
        have h1i := memLoop_inv spec.cfg tl size s.now maxM 0 ((s.queue.erase k ++ [k]).length + 1) rs h0
        generalize memLoop spec.cfg tl size s.now maxM 0 ((s.queue.erase k ++ [k]).length + 1) rs
          (put k ⟨v, stamp spec.cfg s.now, 0⟩ s.store) (s.queue.erase k ++ [k]) = r1 at h1 h1i
        obtain ⟨m1, q1, rs1⟩ := r1
        obtain ⟨⟨q'', hq⟩, hk1⟩ := h1
        simp only at hq hk1 h1i ⊢
        subst hq
        rw [limitStep_keeps_last hp hf hl tl _ _ h1i]; exact hk1
  · simp only [hu, if_false, Bool.false_eq_true]
    unfold insert
    cases hfl : spec.cfg.flavour <;> simp only
    case async => exact absurd hfl hf
    all_goals
      unfold erasePush
      rw [limitStep_keeps_last hp hf hl tl _ _ h0]; exact hk0

/-- a call preserves the bookkeeping invariant -/
theorem callFn_inv (spec : FnSpec) (tl : Tlru S) (size : V → Nat) (isOk : V → Bool) (rs : List Nat)
    (s : State K V) (c : CallIn K V) (h : Inv s) : Inv (callFn spec tl size isOk rs s c).1 := by
  have hg := get_inv spec.cfg s c.key h
  rw [callFn_state]
  split
  · unfold storeOp
    split
    · exact insertMem_inv _ _ _ _ _ _ _ hg
    · exact insert_inv _ _ _ _ _ _ hg
  · exact hg

/-- every state reached by a single-function history from a consistent state is consistent -/
theorem runCalls_inv (spec : FnSpec) (tl : Tlru S) (size : V → Nat) (isOk : V → Bool)
    (s : State K V) (h : List (WEv K V)) (hi : Inv s) : Inv (runCalls spec tl size isOk s h).1 := by
  induction h generalizing s with
  | nil => exact hi
  | cons ev h ih =>
    cases ev with
    | call c rs => exact ih _ (callFn_inv spec tl size isOk rs s c hi)
    | tick ms => exact ih _ hi

/-- a sync lookup never lengthens the queue -/
theorem get_queue_length_le_sync (cfg : Cfg) (hf : cfg.flavour ≠ .async) (s : State K V) (k : K) :
    (get cfg s k).1.queue.length ≤ s.queue.length := by
  have hmove : (moveToEnd k s.queue).length ≤ s.queue.length := by
    unfold moveToEnd
    split
    · rename_i hk
      have h1 := List.length_erase_of_mem hk
      have h2 : 0 < s.queue.length := List.length_pos_of_mem hk
      simp only [List.length_append, List.length_cons, List.length_nil, h1]; omega
    · exact Nat.le_refl _
  unfold get
  cases lookup k s.store with
  | none => exact Nat.le_refl _
  | some e =>
    simp only
    split
    · unfold removeBoth
      cases hfl : cfg.flavour <;> simp only
      case async => exact absurd hfl hf
      all_goals exact List.length_erase_le
    · unfold hitUpdate
      cases hfl : cfg.flavour <;> simp only
      case async => exact absurd hfl hf
      all_goals (split <;> first | exact hmove | exact Nat.le_refl _)

end Cachelito.Wrap
