/-
  C04 — Entry limit: never more than `limit` entries, exactly one victim per overflow.

  Property theorems only (helper lemmas live in `Cachelito/Lemmas/`).  All statements quantify over
  every flavour (sync global, thread-local, async), every policy, every TLRU score algebra `tl`,
  every size function, every stream of random draws and every finite history.
-/
import Cachelito.Lemmas.Inv

set_option linter.unusedSectionVars false
set_option linter.unusedSimpArgs false
set_option linter.unusedVariables false

namespace Cachelito.C04
open Cachelito
variable {K V S : Type} [DecidableEq K]

/-- Bookkeeping invariant in every reachable state: store keys distinct, queue duplicate-free, queue
    and store track exactly the same keys (so no entry is untracked and no queue slot is stale). -/
theorem inv_reachable (cfg : Cfg) (tl : Tlru S) (size : V → Nat) (ops : List (Op K V × List Nat)) :
    Inv (run cfg tl size (State.init : State K V) ops).1 :=
  run_inv cfg tl size _ ops inv_init

theorem length_put_of_mem {m : Store K V} (hn : (keys m).Nodup) {k : K} (hk : k ∈ keys m) (e : Entry V) :
    (put k e m).length = m.length := by
  have := length_eraseKey_of_mem hn hk
  simp [put]; omega

theorem length_put_of_not_mem {m : Store K V} {k : K} (hk : k ∉ keys m) (e : Entry V) :
    (put k e m).length = m.length + 1 := by
  simp [put, eraseKey_of_not_mem hk]

/-- size of the store once `k` has been added (or replaced) -/
def sizeWith (k : K) (m : Store K V) : Nat := if k ∈ keys m then m.length else m.length + 1

theorem length_put {m : Store K V} (hn : (keys m).Nodup) (k : K) (e : Entry V) :
    (put k e m).length = sizeWith k m := by
  unfold sizeWith
  split
  · rename_i h; exact length_put_of_mem hn h e
  · rename_i h; exact length_put_of_not_mem h e

theorem limitStep_length {m : Store K V} {q : List K} (h : InvMQ m q) (cfg : Cfg) (tl : Tlru S) (now r n : Nat)
    (hl : cfg.limit = some n) (hn : 1 ≤ n) :
    (limitStep cfg tl now r m q).1.length = if overLimit cfg n m q then m.length - 1 else m.length := by
  unfold limitStep
  rw [hl]
  simp only
  by_cases ho : overLimit cfg n m q = true
  · simp only [ho, if_true]
    have hq : q ≠ [] := by
      have hlen := h.length_eq
      intro hq
      unfold overLimit at ho
      cases hf : cfg.flavour <;> rw [hf] at ho <;> simp at ho <;> simp [hq] at hlen ho <;> omega
    have := (Evicted.length_of_nonempty h (evictLimit_spec h cfg tl now r) hq).1
    omega
  · simp only [ho, if_false, Bool.false_eq_true]

/-- **Exactness of a plain store.**  With `limit = n ≥ 1` and at most `n` entries held, a store of
    `k` leaves `min n (entries held + [k is new])` entries: it removes exactly one entry when it
    overflows and nothing otherwise. -/
theorem insert_exact (cfg : Cfg) (tl : Tlru S) (r : Nat) (s : State K V) (k : K) (v : V) (n : Nat)
    (hl : cfg.limit = some n) (hn : 1 ≤ n) (hi : Inv s) (hb : s.store.length ≤ n) :
    (insert cfg tl r s k v).store.length = min n (sizeWith k s.store) := by
  unfold insert
  cases hf : cfg.flavour <;> simp only
  case async =>
    have h0 := asyncDrop_inv hi k
    have hk0 := asyncDrop_not_mem s.store s.queue k
    have hlen0 : (if hasKey k s.store then (eraseKey k s.store, s.queue.filter (fun x => x ≠ k))
        else (s.store, s.queue)).1.length + 1 = sizeWith k s.store := by
      unfold sizeWith
      by_cases hk : k ∈ keys s.store
      · simp only [(hasKey_iff k s.store).mpr hk, if_true, hk]
        exact length_eraseKey_of_mem hi.1 hk
      · have : hasKey k s.store = false := (hasKey_false_iff k s.store).mpr hk
        simp [this, hk]
    generalize (if hasKey k s.store then (eraseKey k s.store, s.queue.filter (fun x => x ≠ k))
      else (s.store, s.queue)) = p at h0 hk0 hlen0
    obtain ⟨m0, q0⟩ := p
    simp only at h0 hk0 hlen0 ⊢
    have hls := limitStep_length h0 cfg tl s.now r n hl hn
    have hk1 : k ∉ keys (limitStep cfg tl s.now r m0 q0).1 :=
      fun hh => hk0 (limitStep_keys_sub h0 cfg tl s.now r k hh)
    rw [length_put_of_not_mem hk1, hls]
    have hsz : sizeWith k s.store ≤ n + 1 := by unfold sizeWith; split <;> omega
    unfold overLimit; rw [hf]; simp only
    by_cases ho : m0.length ≥ n
    · simp [ho]; omega
    · simp [ho]; omega
  all_goals
    have h0 := InvMQ.put_erasePush hi k (⟨v, stamp cfg s.now, 0⟩ : Entry V)
    rw [limitStep_length h0 cfg tl s.now r n hl hn, length_put hi.1]
    have hq : (erasePush k s.queue).length = sizeWith k s.store := by
      rw [h0.length_eq, length_put hi.1]
    have hsz : sizeWith k s.store ≤ n + 1 := by unfold sizeWith; split <;> omega
    unfold overLimit; rw [hf]; simp only [hq]
    by_cases ho : sizeWith k s.store > n
    · simp [ho]; omega
    · simp [ho]; omega

/-- Without an entry limit a plain store never removes anything. -/
theorem insert_no_limit (cfg : Cfg) (tl : Tlru S) (r : Nat) (s : State K V) (k : K) (v : V)
    (hl : cfg.limit = none) (hi : Inv s) :
    (insert cfg tl r s k v).store.length = sizeWith k s.store := by
  unfold insert
  cases hf : cfg.flavour <;> simp only [limitStep, hl]
  case async =>
    unfold sizeWith
    by_cases hk : k ∈ keys s.store
    · simp only [(hasKey_iff k s.store).mpr hk, if_true, hk]
      rw [length_put_of_not_mem (by rw [keys_eraseKey]; simp)]
      exact length_eraseKey_of_mem hi.1 hk
    · have : hasKey k s.store = false := (hasKey_false_iff k s.store).mpr hk
      simp only [this, hk, if_false, Bool.false_eq_true]
      exact length_put_of_not_mem hk _
  all_goals exact length_put hi.1 k _

/-- A store only ever adds its own key: every other key held afterwards was held before. -/
theorem insert_keys_sub (cfg : Cfg) (tl : Tlru S) (r : Nat) (s : State K V) (k : K) (v : V) (hi : Inv s) :
    ∀ x, x ∈ keys (insert cfg tl r s k v).store → x ∈ keys s.store ∨ x = k := by
  unfold insert
  cases hf : cfg.flavour <;> simp only
  case async =>
    have h0 := asyncDrop_inv hi k
    have hsub : ∀ x, x ∈ keys (if hasKey k s.store then (eraseKey k s.store, s.queue.filter (fun x => x ≠ k))
        else (s.store, s.queue)).1 → x ∈ keys s.store := by
      intro x; split
      · rw [keys_eraseKey]; intro hx; exact (List.mem_filter.mp hx).1
      · intro hx; exact hx
    generalize (if hasKey k s.store then (eraseKey k s.store, s.queue.filter (fun x => x ≠ k))
      else (s.store, s.queue)) = p at h0 hsub
    obtain ⟨m0, q0⟩ := p
    intro x hx
    rw [keys_put] at hx
    simp only [List.mem_append, List.mem_filter, List.mem_singleton] at hx
    rcases hx with hx | hx
    · left; exact hsub x (limitStep_keys_sub h0 cfg tl s.now r x hx.1)
    · right; exact hx
  all_goals
    have h0 := InvMQ.put_erasePush hi k (⟨v, stamp cfg s.now, 0⟩ : Entry V)
    intro x hx
    have := limitStep_keys_sub h0 cfg tl s.now r x hx
    rw [keys_put] at this
    simp only [List.mem_append, List.mem_filter, List.mem_singleton] at this
    rcases this with h | h
    · left; exact h.1
    · right; exact h

theorem removeBoth_length_le (cfg : Cfg) (k : K) (m : Store K V) (q : List K) :
    (removeBoth cfg k m q).1.length ≤ m.length := by
  unfold removeBoth
  cases cfg.flavour <;> exact length_eraseKey_le k m

theorem hitUpdate_length (cfg : Cfg) (k : K) (m : Store K V) (q : List K) :
    (hitUpdate cfg k m q).1.length = m.length := by
  unfold hitUpdate
  cases cfg.flavour <;> simp only <;> split <;> simp [bumpHits]

theorem get_length_le (cfg : Cfg) (s : State K V) (k : K) : (get cfg s k).1.store.length ≤ s.store.length := by
  unfold get
  cases lookup k s.store with
  | none => exact Nat.le_refl _
  | some e =>
    simp only
    split
    · exact removeBoth_length_le cfg k _ _
    · rw [hitUpdate_length]; exact Nat.le_refl _

theorem insertMem_bound (cfg : Cfg) (tl : Tlru S) (size : V → Nat) (rs : List Nat) (s : State K V) (k : K) (v : V)
    (n : Nat) (hl : cfg.limit = some n) (hn : 1 ≤ n) (hi : Inv s) (hb : s.store.length ≤ n) :
    (insertMem cfg tl size rs s k v).store.length ≤ n := by
  unfold insertMem
  cases hf : cfg.flavour <;> simp only
  case async =>
    have h0 := asyncDrop_inv hi k
    have hk0 := asyncDrop_not_mem s.store s.queue k
    have hlen0 : (if hasKey k s.store then (eraseKey k s.store, s.queue.filter (fun x => x ≠ k))
        else (s.store, s.queue)).1.length ≤ s.store.length := by
      split
      · exact length_eraseKey_le _ _
      · exact Nat.le_refl _
    generalize (if hasKey k s.store then (eraseKey k s.store, s.queue.filter (fun x => x ≠ k))
      else (s.store, s.queue)) = p at h0 hk0 hlen0
    obtain ⟨m0, q0⟩ := p
    simp only at h0 hk0 hlen0 ⊢
    -- the final limit step followed by the store of a fresh key
    have fin : ∀ (m1 : Store K V) (q1 : List K) (r : Nat), InvMQ m1 q1 → k ∉ keys m1 → m1.length ≤ n →
        (put k (⟨v, stamp cfg s.now, 0⟩ : Entry V) (limitStep cfg tl s.now r m1 q1).1).length ≤ n := by
      intro m1 q1 r h1 hk1 hb1
      have hk2 : k ∉ keys (limitStep cfg tl s.now r m1 q1).1 :=
        fun hh => hk1 (limitStep_keys_sub h1 cfg tl s.now r k hh)
      rw [length_put_of_not_mem hk2, limitStep_length h1 cfg tl s.now r n hl hn]
      unfold overLimit; rw [hf]; simp only
      by_cases ho : m1.length ≥ n
      · simp [ho]; omega
      · simp [ho]; omega
    cases cfg.maxMem with
    | none => exact fin m0 q0 _ h0 hk0 (by omega)
    | some maxM =>
      simp only
      split
      · simp only; omega
      · have h1 := memLoop_inv cfg tl size s.now maxM (size v) (q0.length + 1) rs h0
        have hk1 := memLoop_keys_sub cfg tl size s.now maxM (size v) (q0.length + 1) rs h0
        have hl1 := memLoop_length_le cfg tl size s.now maxM (size v) (q0.length + 1) rs h0
        generalize memLoop cfg tl size s.now maxM (size v) (q0.length + 1) rs m0 q0 = r1 at h1 hk1 hl1
        obtain ⟨m1, q1, rs1⟩ := r1
        exact fin m1 q1 _ h1 (fun hh => hk0 (hk1 k hh)) (by simp only at hl1; omega)
  all_goals
    have h0 := InvMQ.put_erasePush hi k (⟨v, stamp cfg s.now, 0⟩ : Entry V)
    have hsz : sizeWith k s.store ≤ n + 1 := by unfold sizeWith; split <;> omega
    have fin : ∀ (m1 : Store K V) (q1 : List K) (r : Nat), InvMQ m1 q1 → m1.length ≤ n + 1 →
        (limitStep cfg tl s.now r m1 q1).1.length ≤ n := by
      intro m1 q1 r h1 hb1
      rw [limitStep_length h1 cfg tl s.now r n hl hn]
      unfold overLimit; rw [hf]; simp only [h1.length_eq]
      by_cases ho : m1.length > n
      · simp [ho]; omega
      · simp [ho]; omega
    cases cfg.maxMem with
    | none => exact fin _ _ _ h0 (by rw [length_put hi.1]; exact hsz)
    | some maxM =>
      simp only
      split
      · simp only
        have : (eraseKey k (put k (⟨v, stamp cfg s.now, 0⟩ : Entry V) s.store)).length ≤ s.store.length := by
          have hkk : eraseKey k (put k (⟨v, stamp cfg s.now, 0⟩ : Entry V) s.store) = eraseKey k s.store := by
            simp [put, eraseKey, List.filter_append, List.filter_filter]
          rw [hkk]; exact length_eraseKey_le _ _
        omega
      · have h1 := memLoop_inv cfg tl size s.now maxM 0 ((erasePush k s.queue).length + 1) rs h0
        have hl1 := memLoop_length_le cfg tl size s.now maxM 0 ((erasePush k s.queue).length + 1) rs h0
        generalize memLoop cfg tl size s.now maxM 0 ((erasePush k s.queue).length + 1) rs
          (put k ⟨v, stamp cfg s.now, 0⟩ s.store) (erasePush k s.queue) = r1 at h1 hl1
        obtain ⟨m1, q1, rs1⟩ := r1
        exact fin m1 q1 _ h1 (by simp only at hl1; rw [length_put hi.1] at hl1; omega)

theorem invalidateWith_length_le (p : K → Bool) (s : State K V) :
    (invalidateWith p s).store.length ≤ s.store.length := by
  unfold invalidateWith; exact List.length_filter_le _ _

/-- **One step never exceeds the limit**: with `limit = n ≥ 1`, every operation (lookup, plain or
    memory-aware store, clear, conditional invalidation, time step) started in a consistent state with
    at most `n` entries ends with at most `n` entries. -/
theorem step_bound (cfg : Cfg) (tl : Tlru S) (size : V → Nat) (rs : List Nat) (s : State K V) (op : Op K V)
    (n : Nat) (hl : cfg.limit = some n) (hn : 1 ≤ n) (hi : Inv s) (hb : s.store.length ≤ n) :
    (step cfg tl size rs s op).1.store.length ≤ n := by
  cases op with
  | get k => exact Nat.le_trans (get_length_le cfg s k) hb
  | insert k v =>
    simp only [step]
    rw [insert_exact cfg tl _ s k v n hl hn hi hb]; exact Nat.min_le_left _ _
  | insertMem k v => exact insertMem_bound cfg tl size rs s k v n hl hn hi hb
  | clear => simp [step, clear]
  | invalidateWith p => exact Nat.le_trans (invalidateWith_length_le p s) hb
  | tick ms => exact hb

/-- **C04, bound for every history**: a cache configured with `limit = n ≥ 1` never holds more than
    `n` entries once an operation has completed, under every policy and flavour. -/
theorem limit_never_exceeded (cfg : Cfg) (tl : Tlru S) (size : V → Nat) (n : Nat)
    (hl : cfg.limit = some n) (hn : 1 ≤ n) (ops : List (Op K V × List Nat)) :
    (run cfg tl size (State.init : State K V) ops).1.store.length ≤ n := by
  suffices h : ∀ (s : State K V), Inv s → s.store.length ≤ n →
      (run cfg tl size s ops).1.store.length ≤ n from h _ inv_init (by simp [State.init])
  induction ops with
  | nil => intro s _ hb; exact hb
  | cons a ops ih =>
    intro s hi hb
    obtain ⟨op, rs⟩ := a
    simp only [run]
    exact ih _ (step_inv cfg tl size rs s op hi) (step_bound cfg tl size rs s op n hl hn hi hb)

/-- the bound also holds after every prefix of a history (every intermediate completed operation) -/
theorem limit_never_exceeded_prefix (cfg : Cfg) (tl : Tlru S) (size : V → Nat) (n : Nat)
    (hl : cfg.limit = some n) (hn : 1 ≤ n) (ops : List (Op K V × List Nat)) (i : Nat) :
    (run cfg tl size (State.init : State K V) (ops.take i)).1.store.length ≤ n :=
  limit_never_exceeded cfg tl size n hl hn _

/-! Non-vacuity: a concrete overflowing history (limit 2, three distinct keys, LFU, async flavour)
    satisfies the hypotheses and ends with exactly two entries. -/
def exTl : Tlru Nat := ⟨fun a b => decide (a < b), fun _ h _ r => h * r⟩
def exCfg : Cfg := ⟨.async, .lfu, some 2, none, none⟩
def exOps : List (Op Nat Nat × List Nat) :=
  [(.insert 1 10, []), (.insert 2 20, []), (.get 1, []), (.insert 3 30, [])]
example : (run exCfg exTl (fun _ => 0) (State.init : State Nat Nat) exOps).1.store.length = 2 := by decide
example : keys (run exCfg exTl (fun _ => 0) (State.init : State Nat Nat) exOps).1.store = [1, 3] := by decide

end Cachelito.C04
