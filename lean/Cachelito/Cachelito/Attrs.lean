/-
  Cachelito.Attrs — the attribute parsers of `#[cache(...)]` / `#[cache_async(...)]`
  (`cachelito-macro-utils/src/lib.rs:11-591`), transcribed.

  ABSTRACT SYNTAX.  An attribute list is what `Punctuated::<MetaNameValue, Token![,]>::parse_terminated`
  hands to the parser loop: a list of `name = value` where `name` is the identifier text (`r#limit` is the
  identifier text of a raw identifier: `Ident == "limit"` is false for it) and `value` is the `syn::Expr`
  classified the way the parser looks at it:

    intLit neg v suffix      `Expr::Lit(Lit::Int)`; `v` is the value of `base10_digits()` (syn normalises
                             `0x10`, `1_000`, `007` to `16`, `1000`, `7`); `1f64` is an Int literal with suffix
                             `f64` for syn.  `neg = true` is the literal `-v`: syn's `MetaNameValue` parser
                             yields a NEGATIVE LITERAL only when the literal is the very last token of the
                             whole attribute stream (`attr.rs:742-749`, `ahead.is_empty()`); anywhere else `-1`
                             is `Expr::Unary`, i.e. `otherExpr`.  That position rule is part of the encoding
                             produced by the harness generator (and therefore checked by `attrs_diff`).
    floatLit neg m e suffix  `Expr::Lit(Lit::Float)` denoting `m · 10^e` (`1.50` = 150·10⁻², `1e3` = 1·10³)
    strLit s                 `Lit::Str` with value `s` (after unescaping)
    boolLit / otherLit       `Lit::Bool`, and `Lit::Char | Byte | ByteStr | CStr`
    path p                   `Expr::Path` (only `.path` is looked at; a `qself` would be dropped)
    array elems              `Expr::Array`; an element is either a string literal or anything else
    otherExpr                every other expression (`-x`, `(3)`, `f()`, `1 + 2`, …)

  RESULT.  `Except Reject Parsed`:
    * `Reject.parserErr msg` — the function returned `Err(compile_error!(msg))`; the macro `panic!`s.  Since
                               commit 82aef8c this includes every value parser that produced `compile_error!`
                               tokens (`reject_invalid`): the tokens are returned as `Err` at once;
    * `Reject.panics what`   — an `.expect(...)` or the `assert!(f.is_finite())` of `Literal::f64_suffixed`
                               panicked;
    * `.ok p`.  The fields `p.limit`, `p.ttl`, `p.maxMemory`, `p.frequencyWeight` have type `Spliced _`
      (`TokenStream2` can hold `compile_error!` tokens, and in the parser BEFORE 82aef8c they did:
      `Legacy.parse` below); the repaired parser never returns `Spliced.compileError` inside `.ok`
      (`Lemmas/Attrs.lean: parse_ok_fields`).
  All are compile failures; `compiles` says so.  Since commit 1b1b026 the `max_memory` arithmetic is
  `checked_mul`, so nothing depends on the overflow-check setting of the macro crate any more; the old
  behaviour (`oc`) survives in `Legacy` only.

  Core Lean only (linked into the driver).
-/
import Cachelito.Core

namespace Cachelito.Attrs
open Cachelito

/-! ### Syntax -/

inductive Kind | sync | async
  deriving DecidableEq, Repr

structure Path where
  leadingColon : Bool
  segs : List String
  deriving DecidableEq, Repr

/-- an element of an array expression: a string literal or anything else -/
inductive ArrElem
  | str (s : String)
  | other
  deriving DecidableEq, Repr

inductive AttrVal
  | intLit (neg : Bool) (value : Nat) (suffix : String)
  | floatLit (neg : Bool) (mant : Nat) (exp10 : Int) (suffix : String)
  | strLit (s : String)
  | boolLit (b : Bool)
  | otherLit
  | path (p : Path)
  | array (elems : List ArrElem)
  | otherExpr
  deriving DecidableEq, Repr

def ArrElem.isStr : ArrElem → Bool
  | .str _ => true
  | .other => false

def ArrElem.str? : ArrElem → Option String
  | .str s => some s
  | .other => none

abbrev Attr := String × AttrVal
abbrev AttrList := List Attr

/-! ### `f64` values (exact) -/

/-- a finite non-negative `f64`, exactly: `m · 2^e`, canonical (`m` odd, or `m = 0 ∧ e = 0`) -/
structure F64 where
  m : Nat
  e : Int
  deriving DecidableEq, Repr

inductive Rounded
  | zero
  | finite (x : F64)
  | inf
  deriving DecidableEq, Repr

/-- strip the factors 2 of `m` (at most `fuel` of them) -/
def F64.normalize : Nat → Nat → Int → F64
  | 0, m, e => ⟨m, e⟩
  | fuel + 1, m, e => if m = 0 then ⟨0, 0⟩ else if m % 2 = 0 then F64.normalize fuel (m / 2) (e + 1) else ⟨m, e⟩

/-- `N / D` with `q / 2^e = N / D` -/
def scaleBy (n d : Nat) (e : Int) : Nat × Nat :=
  if 0 ≤ e then (n, d * 2 ^ e.toNat) else (n * 2 ^ (-e).toNat, d)

/-- round-to-nearest-even of the positive rational `n / d` to binary64 (what `str::parse::<f64>` and
    `u64 as f64` do), in exact arithmetic.  Subnormals (`e = -1074`), underflow to zero and overflow to
    infinity included. -/
def roundRat (n d : Nat) : Rounded :=
  if n = 0 ∨ d = 0 then .zero else
  let e0 : Int := (n.log2 : Int) - (d.log2 : Int) - 53      -- n/d / 2^e0 ∈ (2^52, 2^54)
  let p0 := scaleBy n d e0
  let e1 : Int := if 2 ^ 53 ≤ p0.1 / p0.2 then e0 + 1 else e0  -- n/d / 2^e1 ∈ [2^52, 2^53)
  let e : Int := if e1 < -1074 then -1074 else e1
  let p := scaleBy n d e
  let m := p.1 / p.2
  let r := p.1 % p.2
  let m' := if p.2 < 2 * r ∨ (2 * r = p.2 ∧ m % 2 = 1) then m + 1 else m
  if m' = 0 then .zero
  else if 972 ≤ e ∨ (971 ≤ e ∧ 2 ^ 53 ≤ m') then .inf     -- m' ∈ [2^52, 2^53] here: m'·2^e ≥ 2^1024
  else .finite (F64.normalize 64 m' e)

/-- the decimal `mant · 10^exp10` rounded to binary64 -/
def roundDec (mant : Nat) (exp10 : Int) : Rounded :=
  if 0 ≤ exp10 then roundRat (mant * 10 ^ exp10.toNat) 1 else roundRat mant (10 ^ (-exp10).toNat)

/-! ### Parsed attributes -/

/-- the `compile_error!("…")` invocations the parser stores INSIDE a field -/
inductive CE
  | limitRange | limitLit | limitSyntax
  | ttlLit | ttlSyntax
  | fwNonPositive | fwLit | fwSyntax
  | mmNumber | mmFormat | mmLit | mmSyntax | mmTooLarge
  deriving DecidableEq, Repr

def CE.msg : CE → String
  | .limitRange => "limit must be a valid positive integer"
  | .limitLit => "Invalid literal for `limit`: expected integer"
  | .limitSyntax => "Invalid syntax for `limit`: expected `limit = <integer>`"
  | .ttlLit => "Invalid literal for `ttl`: expected integer (seconds)"
  | .ttlSyntax => "Invalid syntax for `ttl`: expected `ttl = <integer>`"
  | .fwNonPositive => "frequency_weight must be > 0.0 (zero would cause 0^0 undefined behavior and has no semantic meaning)"
  | .fwLit => "Invalid literal for `frequency_weight`: expected float"
  | .fwSyntax => "Invalid syntax for `frequency_weight`: expected `frequency_weight = <float>`"
  | .mmNumber => "Invalid number format for max_memory"
  | .mmFormat => "Invalid format for max_memory: expected \"100MB\", \"1GB\", \"500KB\", or number"
  | .mmLit => "Invalid literal for `max_memory`: expected string (\"100MB\") or integer"
  | .mmSyntax => "Invalid syntax for `max_memory`: expected `max_memory = \"100MB\"`"
  | .mmTooLarge => "max_memory is too large"

/-- a `TokenStream2` field: `None` / `Some(v)` tokens, or spliced `compile_error!` tokens -/
inductive Spliced (α : Type)
  | ok (v : Option α)
  | compileError (e : CE)
  deriving DecidableEq, Repr

def Spliced.isOk {α : Type} : Spliced α → Bool
  | .ok _ => true
  | .compileError _ => false

inductive Scope | global | thread
  deriving DecidableEq, Repr

/-- `SyncCacheAttributes` / `AsyncCacheAttributes` (the async struct has no `scope`: the field stays `.global`) -/
structure Parsed where
  limit : Spliced Nat
  policy : String                       -- the validated policy name
  ttl : Spliced Nat
  scope : Scope
  name : Option String
  maxMemory : Spliced Nat
  tags : List String
  events : List String
  dependencies : List String
  invalidateOn : Option Path
  cacheIf : Option Path
  frequencyWeight : Spliced F64
  deriving DecidableEq, Repr

/-- `Default::default()` of both structs (`lib.rs:36-52,70-87`): no limit, FIFO, no ttl, global, … -/
def Parsed.default : Parsed :=
  { limit := .ok none, policy := "fifo", ttl := .ok none, scope := .global, name := none,
    maxMemory := .ok none, tags := [], events := [], dependencies := [],
    invalidateOn := none, cacheIf := none, frequencyWeight := .ok none }

inductive Reject
  | parserErr (msg : String)
  | panics (what : String)
  deriving DecidableEq, Repr

abbrev Result := Except Reject Parsed

instance : DecidableEq Result := fun a b =>
  match a, b with
  | .ok x, .ok y => if h : x = y then isTrue (by rw [h]) else isFalse (by intro e; cases e; exact h rfl)
  | .error x, .error y => if h : x = y then isTrue (by rw [h]) else isFalse (by intro e; cases e; exact h rfl)
  | .ok _, .error _ => isFalse (by intro e; cases e)
  | .error _, .ok _ => isFalse (by intro e; cases e)

/-- does the macro invocation survive attribute parsing?  (`Err` → the macro panics; `compile_error!`
    tokens spliced as a value → rustc reports them; a panic in the parser → "custom attribute panicked") -/
def compiles : Result → Bool
  | .ok p => p.limit.isOk && p.ttl.isOk && p.maxMemory.isOk && p.frequencyWeight.isOk
  | .error _ => false

/-! ### Error messages of the `Err(...)` returns -/

def policies : List String := ["fifo", "lru", "lfu", "arc", "random", "tlru"]

/-- `policies_str_with_separator` -/
def policiesStr (sep : String) : String := sep.intercalate (policies.map (fun p => "\"" ++ p ++ "\""))

def msgPolicyInvalid : String := "Invalid policy: expected one of " ++ policiesStr ", "
def msgPolicyLit : String := "Invalid literal for `policy`: expected string"
def msgPolicySyntax : String := "Invalid syntax for `policy`: expected `policy = \"" ++ policiesStr "|" ++ "\"`"
def msgScopeInvalid : String := "Invalid scope: expected \"global\" or \"thread\""
def msgScopeLit : String := "Invalid literal for `scope`: expected string"
def msgScopeSyntax : String := "Invalid syntax for `scope`: expected `scope = \"global\"|\"thread\"`"
def msgArrayElem : String := "Array elements must be string literals"
def msgArrayExpected : String := "Expected array of strings like [\"tag1\", \"tag2\"]"
def msgInvalidateOn : String := "Invalid syntax for `invalidate_on`: expected `invalidate_on = function_name`"
def msgCacheIf : String := "Invalid syntax for `cache_if`: expected `cache_if = function_name`"
def msgUnknown (k : Kind) (name : String) : String :=
  "Unknown attribute: `" ++ name ++ "`. Valid attributes are: limit, policy, ttl, " ++
  (match k with | .sync => "scope, " | .async => "") ++
  "name, max_memory, tags, events, dependencies, invalidate_on, cache_if, frequency_weight"

/-! ### Per-attribute parsers -/

def usizeBound : Nat := 2 ^ 64

/-- `parse_limit_attribute` (`lib.rs:90-101`) -/
def parseLimit : AttrVal → Spliced Nat
  | .intLit neg v _ => if !neg && v < usizeBound then .ok (some v) else .compileError .limitRange
  | .floatLit .. | .strLit _ | .boolLit _ | .otherLit => .compileError .limitLit
  | _ => .compileError .limitSyntax

/-- `parse_policy_attribute` (`lib.rs:104-131`) -/
def parsePolicy : AttrVal → Except String String
  | .strLit s => if policies.contains s then .ok s else .error msgPolicyInvalid
  | .intLit .. | .floatLit .. | .boolLit _ | .otherLit => .error msgPolicyLit
  | _ => .error msgPolicySyntax

/-- `parse_ttl_attribute` (`lib.rs:134-147`); `.error` = the `.expect` panicked -/
def parseTtl : AttrVal → Except String (Spliced Nat)
  | .intLit neg v _ =>
    if !neg && v < 2 ^ 64 then .ok (.ok (some v)) else .error "ttl must be a positive integer (seconds)"
  | .floatLit .. | .strLit _ | .boolLit _ | .otherLit => .ok (.compileError .ttlLit)
  | _ => .ok (.compileError .ttlSyntax)

def Rounded.toF64 : Rounded → F64
  | .finite x => x
  | _ => ⟨0, 0⟩

/-- `parse_frequency_weight_attribute` (`lib.rs:162-191`).  A float literal that is negative, zero, or so
    small that it rounds to `0.0` is refused (`val <= 0.0`); one so large that it rounds to `inf` makes
    `quote!` panic (`Literal::f64_suffixed` asserts finiteness).  ANY `u64` integer literal is accepted,
    `0` included (`val as f64`, no sign test). -/
def parseFrequencyWeight : AttrVal → Except String (Spliced F64)
  | .floatLit neg m e _ =>
    if neg then .ok (.compileError .fwNonPositive)
    else match roundDec m e with
      | .zero => .ok (.compileError .fwNonPositive)
      | .inf => .error "assertion failed: f.is_finite()"
      | .finite x => .ok (.ok (some x))
  | .intLit neg v _ =>
    if !neg && v < 2 ^ 64 then .ok (.ok (some (roundRat v 1).toF64)) else .error "frequency_weight must be a number"
  | .strLit _ | .boolLit _ | .otherLit => .ok (.compileError .fwLit)
  | _ => .ok (.compileError .fwSyntax)

/-- `parse_name_attribute` (`lib.rs:194-202`): anything but a string literal silently yields `None` -/
def parseName : AttrVal → Option String
  | .strLit s => some s
  | _ => none

/-! #### `max_memory` strings (`lib.rs:209-248`), on `List Char` -/

/-- value of a string of ASCII digits -/
def decVal (ds : List Char) : Nat := Nat.ofDigitChars 10 ds 0

/-- `str::parse::<usize>()` on a 64-bit target: an optional single `+`, then one or more ASCII digits,
    value below `2^64` (`core::num::from_str_radix`: a lone `+`/`-` and the empty string are errors, `-`
    is an invalid digit for unsigned types) -/
def parseUsize (s : List Char) : Option Nat :=
  let ds := match s with
    | '+' :: r => r
    | _ => s
  if ds = [] then none
  else if ds.all Char.isDigit then (if decVal ds < usizeBound then some (decVal ds) else none)
  else none

/-- `s.ends_with("ab")` -/
def endsWith2 (a b : Char) (s : List Char) : Bool :=
  match s.reverse with
  | y :: x :: _ => x == a && y == b
  | _ => false

/-- on the REVERSED string: drop every leading `b a` -/
def trimRev2 (a b : Char) : List Char → List Char
  | y :: x :: r => if x = a ∧ y = b then trimRev2 a b r else y :: x :: r
  | [y] => [y]
  | [] => []

/-- `s.trim_end_matches("ab")`: strips the suffix REPEATEDLY -/
def trimEndMatches2 (a b : Char) (s : List Char) : List Char := (trimRev2 a b s.reverse).reverse

/-- `n.checked_mul(1024usize.pow(k))` (`lib.rs:217-220,228-231,239-242`, commit 1b1b026): a product that
    does not fit in `usize` is refused with `compile_error!("max_memory is too large")` -/
def mulUnit (n k : Nat) : Spliced Nat :=
  if n * 1024 ^ k < usizeBound then .ok (some (n * 1024 ^ k)) else .compileError .mmTooLarge

/-- the `GB` / `MB` / `KB` branches: strip the unit (repeatedly), parse the rest, multiply -/
def mmWithUnit (u : List Char) (a : Char) (k : Nat) : Spliced Nat :=
  match parseUsize (trimEndMatches2 a 'B' u) with
  | some n => mulUnit n k
  | none => .compileError .mmNumber

/-- `lib.rs:214-255` on the upper-cased string: units are tested in the order GB, MB, KB -/
def parseMaxMemoryUpper (u : List Char) : Spliced Nat :=
  if endsWith2 'G' 'B' u then mmWithUnit u 'G' 3
  else if endsWith2 'M' 'B' u then mmWithUnit u 'M' 2
  else if endsWith2 'K' 'B' u then mmWithUnit u 'K' 1
  else match parseUsize u with
    | some n => .ok (some n)
    | none => .compileError .mmFormat

/-- `val_str.to_uppercase()` first (see the note below) -/
def parseMaxMemoryStr (s : List Char) : Spliced Nat :=
  parseMaxMemoryUpper (s.map Char.toUpper)

/- Note on `to_uppercase()`: Rust's is the Unicode mapping, `Char.toUpper` the ASCII one.  The only
   non-ASCII characters whose upper case contains an ASCII character are `ı` (→ `I`), `ſ` (→ `S`) and the
   ligatures/`ß` (→ `FF`, `FI`, `FL`, `ST`, `SS`, …), none of which produces a digit, `+`, `G`, `M`, `K` or
   `B`; a string containing any non-ASCII character is therefore rejected by both with the same message
   (the unit test only looks at the last two characters, the number test refuses every non-digit). -/

/-- `parse_max_memory_attribute` (`lib.rs:206-273`); `.error` = the `.expect` panicked -/
def parseMaxMemory : AttrVal → Except String (Spliced Nat)
  | .strLit s => .ok (parseMaxMemoryStr s.toList)
  | .intLit neg v _ =>
    if !neg && v < usizeBound then .ok (.ok (some v)) else .error "max_memory must be a positive integer (bytes)"
  | .floatLit .. | .boolLit _ | .otherLit => .ok (.compileError .mmLit)
  | _ => .ok (.compileError .mmSyntax)

/-- `parse_scope_attribute` (`lib.rs:267-287`) -/
def parseScope : AttrVal → Except String Scope
  | .strLit s => if s = "global" then .ok .global else if s = "thread" then .ok .thread else .error msgScopeInvalid
  | .intLit .. | .floatLit .. | .boolLit _ | .otherLit => .error msgScopeLit
  | _ => .error msgScopeSyntax

/-- the loop of `parse_string_array_attribute` over the elements -/
def parseElems : List ArrElem → Option (List String)
  | [] => some []
  | .str s :: r => (parseElems r).map (s :: ·)
  | .other :: _ => none

/-- `parse_string_array_attribute` (`lib.rs:361-388`) -/
def parseStringArray : AttrVal → Except String (List String)
  | .array elems => match parseElems elems with
    | some ss => .ok ss
    | none => .error msgArrayElem
  | _ => .error msgArrayExpected

/-- `parse_invalidate_on_attribute` / `parse_cache_if_attribute` (`lib.rs:392-410`) -/
def parsePathAttr (msg : String) : AttrVal → Except String Path
  | .path p => .ok p
  | _ => .error msg

/-! ### The parser loops -/

def liftErr {α : Type} (r : Except String α) (f : α → Parsed) : Result :=
  match r with
  | .ok a => .ok (f a)
  | .error m => .error (.parserErr m)

def liftPanic {α : Type} (r : Except String α) (f : α → Parsed) : Result :=
  match r with
  | .ok a => .ok (f a)
  | .error m => .error (.panics m)

/-- a value parser's outcome through `reject_invalid(...)?` (`lib.rs:412-421`, commit 82aef8c): a panic is a
    panic; `compile_error!` tokens (the only token strings of a value parser that start with `compile_error`)
    are returned as `Err` IMMEDIATELY; `None` / `Some(..)` tokens are stored -/
def liftValue {α : Type} (r : Except String (Spliced α)) (f : Spliced α → Parsed) : Result :=
  match r with
  | .error m => .error (.panics m)
  | .ok (.compileError e) => .error (.parserErr e.msg)
  | .ok (.ok v) => .ok (f (.ok v))

/-- one iteration of the `for nv in parsed_args` loop of `parse_sync_attributes` (`lib.rs:530-599`) /
    `parse_async_attributes` (`lib.rs:477-513`), `parse_common_attribute` (`lib.rs:425-463`) inlined.
    Every recognised attribute OVERWRITES its field (so a later occurrence wins); `Err` — including an
    invalid `limit` / `ttl` / `max_memory` / `frequency_weight` value — and panics abort at once. -/
def stepAttr (k : Kind) (st : Parsed) (n : String) (v : AttrVal) : Result :=
  if n = "limit" then liftValue (.ok (parseLimit v)) (fun x => { st with limit := x })
  else if n = "policy" then liftErr (parsePolicy v) (fun s => { st with policy := s })
  else if n = "ttl" then liftValue (parseTtl v) (fun t => { st with ttl := t })
  else if n = "scope" ∧ k = .sync then liftErr (parseScope v) (fun s => { st with scope := s })
  else if n = "name" then .ok { st with name := parseName v }
  else if n = "max_memory" then liftValue (parseMaxMemory v) (fun m => { st with maxMemory := m })
  else if n = "tags" then liftErr (parseStringArray v) (fun l => { st with tags := l })
  else if n = "events" then liftErr (parseStringArray v) (fun l => { st with events := l })
  else if n = "dependencies" then liftErr (parseStringArray v) (fun l => { st with dependencies := l })
  else if n = "invalidate_on" then liftErr (parsePathAttr msgInvalidateOn v) (fun p => { st with invalidateOn := some p })
  else if n = "cache_if" then liftErr (parsePathAttr msgCacheIf v) (fun p => { st with cacheIf := some p })
  else if n = "frequency_weight" then liftValue (parseFrequencyWeight v) (fun w => { st with frequencyWeight := w })
  else .error (.parserErr (msgUnknown k n))

def parseLoop (k : Kind) : Parsed → AttrList → Result
  | st, [] => .ok st
  | st, (n, v) :: rest =>
    match stepAttr k st n v with
    | .ok st' => parseLoop k st' rest
    | .error e => .error e

def parse (k : Kind) (l : AttrList) : Result := parseLoop k Parsed.default l

/-- `parse_sync_attributes` -/
def parseSync (l : AttrList) : Result := parse .sync l
/-- `parse_async_attributes` -/
def parseAsync (l : AttrList) : Result := parse .async l

/-! ### What the macros do with the parsed values -/

/-- is `pat` an infix of `s`?  (`str::contains`) -/
def hasInfix (pat : List Char) : List Char → Bool
  | [] => pat.isEmpty
  | c :: s => pat.isPrefixOf (c :: s) || hasInfix pat s

/-- how a string literal token prints its content: `"` and `\` are escaped (the parser's messages contain no
    other character that `Literal::string` escapes) -/
def escapeLit : List Char → List Char
  | [] => []
  | c :: s => if c = '"' ∨ c = '\\' then '\\' :: c :: escapeLit s else c :: escapeLit s

/-- `TokenStream::to_string()` of the `max_memory` field -/
def mmTokens (k : Kind) : Spliced Nat → List Char
  | .ok none => (match k with | .sync => "None" | .async => "Option :: < usize > :: None").toList
  | .ok (some n) => "Some (".toList ++ Nat.toDigits 10 n ++ "usize)".toList
  | .compileError e => "compile_error ! (\"".toList ++ escapeLit e.msg.toList ++ "\")".toList

/-- `has_max_memory` (`cachelito-macros/src/lib.rs:93-97`, `cachelito-async-macros/src/lib.rs:22-24`): the
    TEXTUAL test `!tokens.to_string().contains("None")` selecting the memory-aware insert -/
def hasMaxMemory (k : Kind) (p : Parsed) : Bool := !hasInfix "None".toList (mmTokens k p.maxMemory)

/-- `is_result` (`cachelito-macros/src/lib.rs:622-625`, `cachelito-async-macros/src/lib.rs:273-275`): the return
    type's token string with the spaces removed starts with `Result<` or `std::result::Result<` -/
def isResultSpelling (retType : String) : Bool :=
  let t := retType.toList.filter (· ≠ ' ')
  "Result<".toList.isPrefixOf t || "std::result::Result<".toList.isPrefixOf t

/-- `fn_name_str`: the `name` attribute or the function identifier -/
def fnNameStr (p : Parsed) (ident : String) : String := p.name.getD ident

/-! ### Independent specification: validity and meaning "as written" -/

/-- last value written for attribute `name` -/
def lastVal (name : String) : AttrList → Option AttrVal
  | [] => none
  | (n, v) :: rest =>
    match lastVal name rest with
    | some w => some w
    | none => if n = name then some v else none

def knownNames : Kind → List String
  | .sync => ["limit", "policy", "ttl", "scope", "name", "max_memory", "tags", "events", "dependencies",
              "invalidate_on", "cache_if", "frequency_weight"]
  | .async => ["limit", "policy", "ttl", "name", "max_memory", "tags", "events", "dependencies",
               "invalidate_on", "cache_if", "frequency_weight"]

/-- `(a B)^j`: how many repetitions, if the list is nothing else -/
def unitReps (a : Char) : List Char → Option Nat
  | [] => some 0
  | x :: y :: r => if x = a ∧ y = 'B' then (unitReps a r).map (· + 1) else none
  | _ => none

/-- exponent of a unit letter (`K`/`M`/`G` = 1/2/3), 0 for anything else -/
def unitExp (c : Char) : Nat := if c = 'K' then 1 else if c = 'M' then 2 else if c = 'G' then 3 else 0

/-- what follows the digits: nothing, or one unit written `j ≥ 1` times -/
def scanUnit : List Char → Option (Nat × Nat)
  | [] => some (0, 0)
  | c :: r => if unitExp c = 0 then none else (unitReps c (c :: r)).map (fun j => (unitExp c, j))

/-- digits, then `scanUnit` -/
def scanBody (sg : Bool) (body : List Char) : Option (Bool × Nat × Nat × Nat) :=
  if body.takeWhile Char.isDigit = [] then none
  else (scanUnit (body.dropWhile Char.isDigit)).map
    (fun kj => (sg, decVal (body.takeWhile Char.isDigit), kj.1, kj.2))

/-- forward scan of an (upper-cased) `max_memory` string: `[+] digits (unit)^j`.  Returns whether a sign was
    written, the number, the exponent `k` of the unit (`KB/MB/GB` = 1/2/3, none = 0) and `j`. -/
def scanMM : List Char → Option (Bool × Nat × Nat × Nat)
  | '+' :: r => scanBody true r
  | u => scanBody false u

/-- the documented forms: digits, optionally followed by ONE unit, in any letter case; value in `usize` -/
def mmStrict (s : String) : Option Nat :=
  match scanMM (s.toList.map Char.toUpper) with
  | some (false, n, k, j) => if j ≤ 1 ∧ n * 1024 ^ k < usizeBound then some (n * 1024 ^ k) else none
  | _ => none

/-- the forms the parser tolerates beyond the documented ones: a leading `+`, a repeated unit -/
def mmLenient (s : String) : Option (Nat × Nat) :=
  match scanMM (s.toList.map Char.toUpper) with
  | some (_, n, k, _) => if n < usizeBound then some (n, k) else none
  | none => none

def validLimit : AttrVal → Bool
  | .intLit false v _ => v < usizeBound
  | _ => false

def validTtl : AttrVal → Bool
  | .intLit false v _ => v < 2 ^ 64
  | _ => false

def validPolicy : AttrVal → Bool
  | .strLit s => policies.contains s
  | _ => false

def validScope : AttrVal → Bool
  | .strLit s => s = "global" || s = "thread"
  | _ => false

def validMaxMemory : AttrVal → Bool
  | .strLit s => (mmStrict s).isSome
  | .intLit false v _ => v < usizeBound
  | _ => false

/-- a float literal denoting a positive finite `f64`, or a positive integer literal below `2^64` -/
def validFrequencyWeight : AttrVal → Bool
  | .floatLit false m e _ => match roundDec m e with
    | .finite _ => true
    | _ => false
  | .intLit false v _ => 0 < v && v < 2 ^ 64
  | _ => false

def validStrArray : AttrVal → Bool
  | .array elems => elems.all ArrElem.isStr
  | _ => false

def isStr : AttrVal → Bool
  | .strLit _ => true
  | _ => false

def isPath : AttrVal → Bool
  | .path _ => true
  | _ => false

/-- the value is of the right kind and in range for the attribute `n` of macro `k` (false for unknown names) -/
def validAttr (k : Kind) (n : String) (v : AttrVal) : Bool :=
  if n = "limit" then validLimit v
  else if n = "policy" then validPolicy v
  else if n = "ttl" then validTtl v
  else if n = "scope" then (k = .sync) && validScope v
  else if n = "name" then isStr v
  else if n = "max_memory" then validMaxMemory v
  else if n = "tags" ∨ n = "events" ∨ n = "dependencies" then validStrArray v
  else if n = "invalidate_on" ∨ n = "cache_if" then isPath v
  else if n = "frequency_weight" then validFrequencyWeight v
  else false

/-- every attribute known to the macro and every value valid -/
def Valid (k : Kind) (l : AttrList) : Prop := ∀ a ∈ l, validAttr k a.1 a.2 = true

instance (k : Kind) (l : AttrList) : Decidable (Valid k l) := by unfold Valid; infer_instance

/-- the configuration an attribute list denotes -/
structure Meaning where
  limit : Option Nat
  policy : Policy
  ttl : Option Nat
  scope : Scope
  name : Option String
  maxMemory : Option Nat
  tags : List String
  events : List String
  dependencies : List String
  invalidateOn : Option Path
  cacheIf : Option Path
  frequencyWeight : Option F64
  deriving DecidableEq, Repr

def policyOfName (s : String) : Policy :=
  if s = "lru" then .lru else if s = "lfu" then .lfu else if s = "arc" then .arc
  else if s = "random" then .random else if s = "tlru" then .tlru else .fifo

def policyName : Policy → String
  | .fifo => "fifo" | .lru => "lru" | .lfu => "lfu" | .arc => "arc" | .random => "random" | .tlru => "tlru"

def natOf : Option AttrVal → Option Nat
  | some (.intLit _ v _) => some v
  | _ => none

def strOf : Option AttrVal → Option String
  | some (.strLit s) => some s
  | _ => none

def strsOf : Option AttrVal → List String
  | some (.array elems) => elems.filterMap ArrElem.str?
  | _ => []

def pathOf : Option AttrVal → Option Path
  | some (.path p) => some p
  | _ => none

/-- bytes denoted by a `max_memory` value: `n`, or `n · 1024^{1,2,3}` for `KB/MB/GB` -/
def memOf : Option AttrVal → Option Nat
  | some (.strLit s) => mmStrict s
  | some (.intLit _ v _) => some v
  | _ => none

/-- the `f64` nearest to the written number -/
def weightOf : Option AttrVal → Option F64
  | some (.floatLit _ m e _) => some (roundDec m e).toF64
  | some (.intLit _ v _) => some (roundRat v 1).toF64
  | _ => none

/-- "As written": for each attribute the LAST value written, defaults otherwise. -/
def meaning (k : Kind) (l : AttrList) : Meaning :=
  { limit := natOf (lastVal "limit" l)
    policy := match strOf (lastVal "policy" l) with
      | some s => policyOfName s
      | none => .fifo
    ttl := natOf (lastVal "ttl" l)
    scope := match k, strOf (lastVal "scope" l) with
      | .sync, some s => if s = "thread" then .thread else .global
      | _, _ => .global
    name := strOf (lastVal "name" l)
    maxMemory := memOf (lastVal "max_memory" l)
    tags := strsOf (lastVal "tags" l)
    events := strsOf (lastVal "events" l)
    dependencies := strsOf (lastVal "dependencies" l)
    invalidateOn := pathOf (lastVal "invalidate_on" l)
    cacheIf := pathOf (lastVal "cache_if" l)
    frequencyWeight := weightOf (lastVal "frequency_weight" l) }

/-- the parser output that carries exactly these values -/
def Meaning.toParsed (m : Meaning) : Parsed :=
  { limit := .ok m.limit, policy := policyName m.policy, ttl := .ok m.ttl, scope := m.scope, name := m.name,
    maxMemory := .ok m.maxMemory, tags := m.tags, events := m.events, dependencies := m.dependencies,
    invalidateOn := m.invalidateOn, cacheIf := m.cacheIf, frequencyWeight := .ok m.frequencyWeight }

/-- the core cache configuration the generated function constructs (`GlobalCache::new` /
    `ThreadLocalCache::new` / `AsyncGlobalCache::new` with these arguments) -/
def Meaning.toCfg (k : Kind) (m : Meaning) : Cfg :=
  { flavour := match k, m.scope with
      | .async, _ => .async
      | .sync, .thread => .threadLocal
      | .sync, .global => .global
    policy := m.policy, limit := m.limit, maxMem := m.maxMemory, ttl := m.ttl }

/-! ### What must be rejected according to the property (used by the monitors) -/

/-- `max_memory` values outside everything the parser is known to tolerate -/
def badMaxMemory : AttrVal → Bool
  | .strLit s => match mmLenient s with
    | none => true
    | some (n, k) => usizeBound ≤ n * 1024 ^ k
  | .intLit neg v _ => neg || usizeBound ≤ v
  | _ => true

/-- `frequency_weight` values outside everything the parser is known to tolerate (it tolerates every
    non-negative integer literal below `2^64`, `0` included) -/
def badFrequencyWeight : AttrVal → Bool
  | .floatLit neg m e _ => neg || (match roundDec m e with | .finite _ => false | _ => true)
  | .intLit neg v _ => neg || 2 ^ 64 ≤ v
  | _ => true

/-- an attribute the property says must not be silently accepted: unknown name, or an invalid
    `policy` / `scope` / `limit` / `ttl` / `max_memory` (/ `frequency_weight`) value -/
def mustRejectAttr (k : Kind) (n : String) (v : AttrVal) : Bool :=
  if !(knownNames k).contains n then true
  else if n = "limit" then !validLimit v
  else if n = "policy" then !validPolicy v
  else if n = "ttl" then !validTtl v
  else if n = "scope" then !validScope v
  else if n = "max_memory" then badMaxMemory v
  else if n = "frequency_weight" then badFrequencyWeight v
  else false

/-! ### Legacy: the parser BEFORE commits 82aef8c / 1b1b026 (regression witnesses only)

The value parsers' `compile_error!` tokens were STORED in the field and the loop carried on, so a later
occurrence of the same attribute overwrote them; and the `max_memory` product was a plain `n * 1024 * …`
that panicked with overflow checks (`oc = true`) and wrapped without. -/

namespace Legacy

def mulUnit (oc : Bool) (n k : Nat) : Except String Nat :=
  if n * 1024 ^ k < usizeBound then .ok (n * 1024 ^ k)
  else if oc then .error "attempt to multiply with overflow"
  else .ok (n * 1024 ^ k % usizeBound)

def mmWithUnit (oc : Bool) (u : List Char) (a : Char) (k : Nat) : Except String (Spliced Nat) :=
  match parseUsize (trimEndMatches2 a 'B' u) with
  | some n => (mulUnit oc n k).map (fun b => .ok (some b))
  | none => .ok (.compileError .mmNumber)

def parseMaxMemoryUpper (oc : Bool) (u : List Char) : Except String (Spliced Nat) :=
  if endsWith2 'G' 'B' u then mmWithUnit oc u 'G' 3
  else if endsWith2 'M' 'B' u then mmWithUnit oc u 'M' 2
  else if endsWith2 'K' 'B' u then mmWithUnit oc u 'K' 1
  else match parseUsize u with
    | some n => .ok (.ok (some n))
    | none => .ok (.compileError .mmFormat)

def parseMaxMemory (oc : Bool) : AttrVal → Except String (Spliced Nat)
  | .strLit s => parseMaxMemoryUpper oc (s.toList.map Char.toUpper)
  | v => Attrs.parseMaxMemory v

def stepAttr (k : Kind) (oc : Bool) (st : Parsed) (n : String) (v : AttrVal) : Result :=
  if n = "limit" then .ok { st with limit := parseLimit v }
  else if n = "ttl" then liftPanic (parseTtl v) (fun t => { st with ttl := t })
  else if n = "max_memory" then liftPanic (parseMaxMemory oc v) (fun m => { st with maxMemory := m })
  else if n = "frequency_weight" then liftPanic (parseFrequencyWeight v) (fun w => { st with frequencyWeight := w })
  else Attrs.stepAttr k st n v

def parseLoop (k : Kind) (oc : Bool) : Parsed → AttrList → Result
  | st, [] => .ok st
  | st, (n, v) :: rest =>
    match stepAttr k oc st n v with
    | .ok st' => parseLoop k oc st' rest
    | .error e => .error e

def parse (k : Kind) (oc : Bool) (l : AttrList) : Result := parseLoop k oc Parsed.default l

end Legacy

end Cachelito.Attrs
